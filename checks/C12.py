SPEC = dict(
    manifest=dict(
        text="Machine-checked theorems (Coq 8.16.1) about an interleaving model of ws/websocket.go (writer calls, write pump, "
             "read pump, CloseDataConnection, environment; Go channel semantics explicit: send on / close of a closed channel "
             "and a sender blocked on a channel that gets closed are a Panic state). For every schedule of unboundedly many "
             "writer calls and every placement of local close, peer close frame, EOF, read fault, write fault, slow write and "
             "SHIP-layer reaction: no Panic is reachable; every run of internal steps is finite and ends with no call inside "
             "the function (ranking certificate); a call that takes the write mutex on a closed connection returns the error and "
             "never reaches the send; an error is only returned on a closed connection; and, by induction over the schedule for "
             "unbounded message lists, accepted = wire ++ in_pump ++ queue, so what the transport got is a gap-free prefix of "
             "the accepted messages in order. The finite part is a kernel-checked inductive invariant (closure table + ranking). "
             "The tree as found is refuted by two witness schedules (blocked sender when the pump closes the queue; local close "
             "between a call's closed-check and its send); both replay on the real code as `panic: send on closed channel`. "
             "Tie on every run: queue capacity and six shape facts are regenerated from the Go AST; wsdrv runs the real "
             "ws.WebsocketConnection over a real gorilla websocket pair on loopback TCP with a fault-injecting net.Conn "
             "(1-32 writer goroutines x local close / peer close / EOF / failing write / slow-then-failing write / full queue, "
             "Gosched and GOMAXPROCS perturbation); the outcome of each run must be in the set of outcomes the model allows "
             "for the scenario class, and the monitors are evaluated inside Coq on the observations.",
        note="Trusted: Coq kernel + vm_compute; harness/cmd/extract/ws.go (shape facts); wsdrv and its fault-injecting conn; "
             "gorilla/websocket and net (outside the model: conn.WriteMessage / ReadMessage are atomic actions that succeed or "
             "fail). Acceptance order of concurrent calls is not observable: the trace monitor uses the real-time order of "
             "calls (returned before the other started). No axioms (Print Assumptions: closed under the global context).",
        technique="Coq proof: certified inductive invariant + ranking over the finite control model, induction over schedules "
                  "for the message lists; tables regenerated from source; schedule-perturbed differential runs of the real code "
                  "checked against the model's outcome sets",
        ref="DESIGN.md §6 C12, Appendix B"),
    imports="From Ship Require Import Base Ws WsCheck.",
    case_type="ws_case", check_fn="check_c12",
    drivers=[dict(bin="wsdrv", args=["-prop", "C12"], n_quick=1000, n_thorough=30000, timeout=1500)],
    codes={10: "write_panicked", 11: "write_never_returned", 12: "write_succeeded_on_closed_connection",
           13: "peer_received_duplicate", 14: "peer_received_unwritten_frame", 15: "peer_frames_reordered",
           16: "accepted_message_skipped_on_wire"},
    rule="scenario = (closing-event class, 1-32 writer goroutines x 1-4 messages, placement of the event after `at` started "
         "calls / at the k-th transport write, reason, SHIP-layer reaction, late writers, GOMAXPROCS, yield pattern, "
         "client/server side); the first 5 are the fixed witnesses of the defects found. distinct = hash of the scenario "
         "parameters; non-trivial = a closing event actually happened (local close issued, peer event issued, injected fault "
         "returned, or crash) while at least one write call had started before the connection was seen closed.",
    trusted=["gorilla/websocket, net (loopback TCP): conn.WriteMessage/ReadMessage modelled as atomic success/failure",
             "real-time order of calls (one atomic counter) stands in for the unobservable acceptance order of concurrent calls",
             "a panic on a goroutine of the library kills the child process; the parent records the scenario as crashed"],
    assumptions=["WsTable (regenerated from ws/websocket.go): queue capacity 1, close() has no early return, closeWithError "
                 "calls close(), reports are guarded by the test-and-set setConnClosedError, CloseDataConnection marks first, "
                 "the pump never closes the queue, the writer's send selects against closeChannel",
                 "termination is stated for runs of internal steps (every schedule, once the environment stops injecting "
                 "events); the Go scheduler is assumed to run every runnable goroutine eventually"],
)

SPEC["manifest"]["text"] += " A quarter of the scenarios use a reader that handles the error report under the lock its writers hold while writing (as ship.ShipConnection's sync.Once does); a third of the injected write faults are of the timeout kind (net.Error, Timeout() true)."
