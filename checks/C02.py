SPEC = dict(
    manifest=dict(
        text="Machine-checked theorems (Coq 8.16.1) about an executable model of cert.SkiFromCertificate, of what "
             "cert.CreateCertificate puts into a certificate, and of the two decision sequences that end in a SHIP connection "
             "object: TLS server configuration + Hub.verifyPeerCertificate + Hub.ServeHTTP (inbound) and Hub.connectFoundService "
             "after the dial (outbound). For ALL TLS versions, sub-protocol offers, certificate chains (SubjectKeyId absent / any "
             "length / any content, any key) and dialled SKIs: an accepted inbound peer used TLS >= 1.2, offered 'ship', presented "
             "a certificate, and is attributed exactly the 40-character lower-case hex form of the first certificate's 20-byte "
             "SubjectKeyId, which equals SHA-1 of that certificate's public key (the key whose possession TLS proved); every "
             "other peer is refused before a SHIP connection exists; an outbound connection is kept only if the presented SKI "
             "equals the dialled one and is bound to the presented key, and a refusal happens before any SHIP frame is written; "
             "generator certificates always pass; hex rendering is injective. Converse proved too: with the length check alone "
             "(the pinned tree) any 20-byte SKI can be claimed with any key. Tie, on every run: all constants and switches of the "
             "model (MinVersion, ClientAuth, sub-protocol strings, the 20, whether SkiFromCertificate compares with a SHA-1 of the "
             "key, whether the dialled SKI is compared, the statement order of both functions) are regenerated from the Go AST; "
             "thousands of unit cases run the real cert.SkiFromCertificate / cert.CreateCertificate / %0x on certificates built "
             "by the driver; ~130 real TLS+websocket sessions per run against a real hub.Hub (clients with every certificate "
             "kind x TLS 1.0-1.3 x sub-protocol offers x no certificate; servers the hub is made to dial, recording every byte "
             "after the upgrade). Model decisions are compared with the observed ones inside Coq, where the property's monitor "
             "is also evaluated on the implementation's own observations.",
        note="Modelled, not verified: X.509 parsing (a certificate is the pair SubjectKeyId extension / subjectPublicKey bits as "
             "crypto/x509 parsed them), the TLS handshake (possession of the first certificate's key, version negotiation), "
             "gorilla's upgrade and sub-protocol selection. SHA-1 is a parameter of every theorem (where anything is assumed of it, "
             "only that it returns 20 bytes); the cases are evaluated with an executable SHA-1 written in Coq (Sha1.v, proved to "
             "meet that assumption, FIPS test vectors) which is compared with crypto/sha1 on every key of every case. keepThisConnection (double "
             "connections) belongs to C05 and is not exercised: every session uses a fresh hub. Trusted: Coq kernel + vm_compute, "
             "the Go-AST translator, the certdrv driver. No axioms.",
        technique="Coq proof (case analysis over the decision sequences, algebraic laws of hex) + constants and statement order "
                  "regenerated from source + differential correspondence at unit and at session level",
        ref="DESIGN.md §6 C02"),
    imports="From Ship Require Import Base Ski Sha1 Cert.",
    case_type="c02_case", check_fn="check_c02",
    drivers=[
        dict(bin="certdrv", args=["-prop", "C02", "-mode", "unit"], n_quick=2400, n_thorough=60000),
        dict(bin="certdrv", args=["-prop", "C02", "-mode", "sys"], n_quick=140, n_thorough=3000, timeout=1200),
    ],
    codes={10: "accepted_below_tls12", 11: "accepted_without_subprotocol", 12: "accepted_without_certificate",
           13: "accepted_without_20_byte_ski", 14: "attributed_ski_differs_from_certificate", 15: "accepted_foreign_ski",
           16: "generator_cert_refused", 17: "generator_ski_not_40_lower_hex_of_key", 18: "hex_format",
           19: "generator_failed_on_valid_subject",
           20: "ship_bytes_sent_without_certificate_ski", 21: "ship_bytes_sent_to_wrong_ski",
           22: "ship_bytes_sent_to_foreign_ski", 23: "refused_after_sending_ship_bytes",
           24: "generator_cert_refused_outbound"},
    rule="unit (cert.SkiFromCertificate on driver-built certificates: SKI extension absent / length 0, 19, 21, random 0..40 / "
         "20 random bytes / copied from another device's certificate / SHA-1 of own key / own with one bit flipped / SHA-1 of "
         "the whole SPKI DER; keys ECDSA P-256, P-384, Ed25519, RSA-2048; cert.CreateCertificate with random subjects: empty, "
         "ASCII, Latin, CJK/RTL, astral, DN metacharacters and controls, 65-465 characters, invalid UTF-8; %0x on 0-47 bytes) and "
         "sessions (inbound: chain of 0-2 certificates of those kinds x client max TLS 1.0-1.3 x offers none/other/ship/"
         "other+ship/ship+other/'Ship'; outbound: server chain of 1-2 certificates x dialled SKI = the one the certificate claims "
         "/ another device's / its own hash). distinct = hash of (kind, key type, SKI extension, key bits / subject strings / "
         "session parameters); non-trivial = the (first) certificate carries a 20-byte SubjectKeyId, so that the outcome depends "
         "on the binding and on the comparison with the dialled SKI (generator and hex cases: always / non-empty input).",
    trusted=["crypto/x509 parsing, crypto/tls, gorilla/websocket: modelled (see Cert.v header), their behaviour is only sampled by the sessions",
             "SHA-1: theorem parameter sha1 with sha1_spec (20 output bytes) where needed; instance Sha1.sha1_impl (C02_executable_sha1_meets_spec) checked against the crypto/sha1 digest of every key in every case",
             "hub fakes (vh.FakeReader with AllowWaitingForTrust=true, vh.FakeMdns); hooks hub.VerifRegistry, hub.VerifSetStarted"],
    assumptions=["sha1_spec sha1 (forall x, length (sha1 x) = 20 and every element < 256) — hypothesis of the generator and monitor theorems, a theorem parameter, not an axiom",
                 "code_config / structure_ok: constants and statement order regenerated from hub/hub_connections.go, cert/cert.go, api/websocket.go",
                 "no connection to the peer's SKI exists when the decision is taken (keepThisConnection answers true)"],
)

SPEC["manifest"]["text"] += ' Sessions: the genuine certificates of the other devices have been seen by the process before a certificate copying their SKI is presented; in 40% of the outbound sessions the presented SKI is itself a paired device.'
