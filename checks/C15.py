SPEC = dict(
    manifest=dict(
        text="Machine-checked theorems (Coq 8.16.1) about the executable model of util.NormalizeSKI and of the hub's six "
             "SKI-taking entry points: normalisation is idempotent, ignores inserted spaces/dashes and ASCII case, and every "
             "entry point's effect (new hub state, calls on the connection, callbacks and their arguments, answer) depends only "
             "on the normalised SKI, for all strings and all hub states; plus the converse (an entry point that uses the raw "
             "string as lookup key violates the property). Tie, checked on every run: the stripped characters and the "
             "per-entry-point 'normalises first' table are regenerated from the Go AST, and differential cases run the real "
             "util.NormalizeSKI and a real hub.Hub (fake connections) against the model inside Coq, where the property's "
             "monitor is also evaluated on the implementation's own observations.",
        note="Trusted: Coq kernel + vm_compute; the Go-AST translator (harness/cmd/extract); the hubunit driver and its fakes; "
             "ASCII SKIs only (Go's Unicode ToLower is outside the model). No axioms (Print Assumptions: closed under the global context).",
        technique="Coq proof (algebraic laws, case analysis over operations) + tables regenerated from source + differential correspondence",
        ref="DESIGN.md §6 C15"),
    imports="From Ship Require Import Base Ski HubOps.",
    case_type="c15_case", check_fn="check_c15",
    drivers=[dict(bin="hubunit", args=["-prop", "C15"], n_quick=3000, n_thorough=60000)],
    codes={10: "normalize_not_idempotent", 11: "normalize_depends_on_formatting",
           12: "hub_operation_depends_on_spelling"},
    rule="half the cases: ASCII strings (70% SKI-like, 30% arbitrary 7-bit) with a re-formatted variant "
         "(upper case / dashed pairs / spaced groups / random flips and separators / single change / identical) "
         "through util.NormalizeSKI; half: metamorphic pairs on a real hub.Hub (fake connection none/pending/"
         "completed/arbitrary state, trusted or not, attempt counter or not, 0-2 other trusted services) applying one "
         "of the six SKI-taking operations with the canonical and with the re-formatted spelling. distinct = "
         "hash of (scenario, op, strings); non-trivial = the variant spelling differs from the canonical one.",
    trusted=["hub fakes (FakeConn/FakeReader/FakeMdns) stand in for connections, application and mDNS",
             "non-ASCII SKIs are outside the model (Go's ToLower is Unicode-aware; SKIs are hex)"],
    assumptions=["norm_first table (regenerated from hub/*.go) decides which entry points normalise first"],
)

SPEC["manifest"]["text"] += " The snapshot after a hub operation includes the number of service records and of paired ones (hook VerifServiceCounts); a fifth of the scenarios start without a record for the SKI, so that the operation's own lookup creates it."
