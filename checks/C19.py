SPEC = dict(
    manifest=dict(
        text="Machine-checked theorems (Coq 8.16.1) about an interleaving model of mdns.AvahiProvider (API caller, channel "
             "listener, reconnect loops, undelivered Disconnected notifications, daemon going down and coming back, browse "
             "results; Go mutex/channel semantics explicit, Shutdown's blocking send under the mutex included): by a "
             "kernel-checked inductive invariant (certified closure of the reachable set, no depth bound) no panic and no "
             "deadlock state is reachable, at most one reconnect loop is in flight, after Shutdown has returned no browser, "
             "announcement or listener is live ever again; by a ranking certificate every run of the goroutines with the "
             "daemon up terminates, and where it ends there is exactly one live browser whose results reach the resolver, "
             "and exactly one entry group, carrying the most recently requested TXT, iff an announcement is active. The "
             "pinned tree violates this in five ways (stale TXT re-announced, announcement resurrected, shutdown undone, "
             "previous entry group leaked, reconnect loops multiplying); each has a witness theorem, is replayed on the real "
             "code on every run, and is repaired by a fix: commit; each repair is proved necessary. Tie, checked on every run: "
             "the control-structure switches of the model are regenerated from the Go AST of mdns/avahi.go, and scripted "
             "scenarios run the real AvahiProvider over a fake go-avahi server in parallel; the final content of the fake "
             "daemon must lie in the set of final states the model allows for the scenario, and the property's monitor is "
             "evaluated inside Coq on the implementation's observation.",
        note="Trusted: Coq kernel + vm_compute; the Go-AST translator; the avahidrv driver and its fake Avahi client library "
             "(mirrors go-avahi: closing the connection frees every object and spawns one Disconnected notification). Model "
             "assumptions: one sequential API caller with Shutdown last (as MdnsManager); initial state after a successful "
             "Start; a spawned notification reaches the mutex before a running one-second sleep expires; library calls "
             "succeed while the daemon is up. go-avahi's own Server.Shutdown (which can block after a disconnect) is outside "
             "the model. No axioms (Print Assumptions: closed under the global context).",
        technique="Coq proof (certified closure + ranking over a finite-state interleaving model, witness schedules) + switches "
                  "regenerated from source + differential scenario correspondence against the set of allowed outcomes",
        ref="DESIGN.md §6 C19, Appendix E"),
    imports="From Ship Require Import Base Avahi.\nOpen Scope N_scope.",
    case_type="c19_case", check_fn="check_c19",
    drivers=[dict(bin="avahidrv", args=["-prop", "C19"], n_quick=600, n_thorough=6000, timeout=1400)],
    codes={10: "restarted_after_shutdown", 11: "stale_txt_after_down_time_call", 12: "stale_group_leaked_by_reannounce",
           13: "stale_txt_other", 14: "announcement_resurrected_after_down_time_unannounce",
           15: "announcement_unwanted_other", 16: "announcement_lost", 17: "duplicate_announcement",
           18: "browser_missing", 19: "browser_duplicated", 20: "browse_results_not_reported",
           21: "panic", 22: "hang_or_deadlock"},
    rule="scenarios = 10 fixed witness schedules of the pinned tree's defects + random scripts (0-2 daemon outages with "
         "failure mode Setup fails / version query fails / browser creation fails, pauses from 0 to 2.1 s placed around the "
         "loop's one-second sleep, interleaved Announce with fresh TXT / Unannounce / browse result / Shutdown), each run on "
         "a real AvahiProvider over the fake server until the server has been idle for 3 s with the daemon up. distinct = "
         "hash of the script with its pauses and failure modes; non-trivial = the script contains a daemon outage and at "
         "least one of Announce / Unannounce / Shutdown.",
    trusted=["fake avahi.ServerInterface (harness/cmd/avahidrv/fake.go) stands in for go-avahi + D-Bus + avahi-daemon",
             "rest detection: no call on the fake server for 3 s while the daemon is up (a live reconnect loop calls Setup every second)",
             "timing assumption of the model: an undelivered Disconnected notification is delivered before a reconnect loop's running sleep expires"],
    assumptions=["avahi_* switches (regenerated from mdns/avahi.go) select the control structure the model follows",
                 "one sequential API caller, Shutdown last; initial state after a successful Start(true, cb)"],
)

# through the manager: the calls an application makes (AnnounceMdnsEntry / UnannounceMdnsEntry / SetAutoAccept on the real
# mdns.MdnsManager) over the real AvahiProvider and the scripted daemon; expectation = a function of the calls alone (AvahiMgr.v)
SPEC.setdefault("streams", [])
SPEC["streams"] += [dict(imports="From Ship Require Import Base AvahiMgr.", case_type="gcase", check_fn="check_mgr",
                         drivers=[dict(bin="avahidrv", args=["-prop", "C19mgr"], n_quick=120, n_thorough=3000, timeout=1800)],
                         codes={160: "manager_call_hangs_or_panics", 161: "announced_although_unannounced", 162: "not_announced_although_requested",
                                163: "announced_with_stale_txt", 164: "several_live_announcements"})]
SPEC["manifest"]["text"] += (" Second stream, through the manager: AnnounceMdnsEntry / UnannounceMdnsEntry / SetAutoAccept on the real mdns.MdnsManager over the real "
    "AvahiProvider and the scripted daemon (outages in three failure modes, calls before, during and after them); at rest the committed entry groups the daemon holds must be "
    "exactly one with register=<last auto-accept value> if the last of announce/unannounce was an announce, none otherwise - a function of the calls alone (AvahiMgr.v).")
