SPEC = dict(
    manifest=dict(
        text="Machine-checked theorems (Coq 8.16.1) about a goroutine-level interleaving model of the handshake timer "
             "(setHandshakeTimer / stopHandshakeTimer: running flag, stop channel, one goroutine per armed timer with program "
             "counters Spawned/AtSelect/Expired/Delivering/Fired/Stopped/Dropped; labels arm, stop, goroutine-advance, expire, "
             "fire, deliver): for all arm/stop/re-arm sequences, unboundedly many timer generations and all schedules, a timeout "
             "is committed only by the generation armed most recently and neither stopped nor replaced, each generation commits "
             "and delivers at most once, a running timer can always go on to deliver, and every run projects onto the ideal "
             "armed/disarmed timer the connection model uses. The pinned tree's mechanism (one shared unbuffered stop channel, "
             "non-blocking send) is modelled too and refuted by a witness schedule (arm; stop at once; the stopped timer fires), "
             "with the property proved for it outside the lost-stop / racing-expiry region; repaired by fix 311ebfd (stop channel "
             "per arm, closed by stop, generation check under the timer mutex). Tie, checked on every run: the stop mechanism, "
             "setState's arm/stop table and the durations are regenerated from the Go AST (the theorems are about the mechanism "
             "found in the source); thousands of real ShipConnections are driven concurrently through arm/stop/re-arm sequences "
             "with gaps from 0 to 10 ms, and the observed calls and timeout deliveries are replayed as a schedule of the model and "
             "judged by the property's monitor inside Coq.",
        note="Trusted: Coq kernel + vm_compute; the Go-AST translator (harness/cmd/extract/timer.go); the timerdrv driver "
             "(timestamps, fakes, the debug-log line used to see a second timeout on a dead connection); the attribution of an "
             "observed timeout to a timer generation by deadline (charitable: a violation is reported only if no generation "
             "could legitimately have fired). The Go scheduler and time.After are the model's nondeterminism. arm/stop are atomic "
             "in the model (true of the repaired code, which holds the mutex; an approximation for the pinned tree). No axioms.",
        technique="Coq proof (hand-proved inductive simulation invariant over unboundedly many generations; refinement to an ideal "
                  "timer) + mechanism table regenerated from source + concurrent stress replayed and monitored inside Coq",
        ref="DESIGN.md §6 C14, Appendix C"),
    imports="From Ship Require Import Base Timer.\nFrom ShipGen Require Import TimerTable.",
    case_type="c14_case", check_fn="check_c14",
    streams=[dict(imports="From Ship Require Import Base Conn ConnData ConnMon ConnCheck.", case_type="conn_case", check_fn="check_C14conn",
                  drivers=[dict(bin="shipdrv", args=["-prop", "conn"], n_quick=1000, n_thorough=20000, timeout=2400)],
                  codes={80: "timer_left_armed_by_a_finished_phase"})],
    drivers=[dict(bin="timerdrv", args=["-prop", "C14"], n_quick=3000, n_thorough=60000, timeout=900)],
    codes={10: "stopped_immediately_after_arm_fired", 11: "stopped_timer_fired", 12: "replaced_timer_fired",
           13: "fired_twice", 14: "delivered_without_expiry", 15: "armed_timer_never_fired",
           16: "delivered_twice", 17: "timeout_without_expired_timer",
           20: "known_refuting_schedule_is_a_run_of_the_source_model"},
    rule="one case = one real ShipConnection (server, after Run() in CmiStateServerWait with its own cmiTimeout timer armed) driven "
         "through 1-6 calls arm(5|20|50 ms)/stop with pauses 0|50us|1ms|10ms from the seeded PRNG, up to 2000 connections "
         "concurrently; a tenth of the connections replay the witness family (arm;stop back to back, stop;arm, arm;arm;stop, "
         "arm;1ms;stop). Observed: time before/after every call, time of every timeout delivery, until 100 ms past the last "
         "deadline (3 s when a live last timer has not fired). Plus the corpus schedules (the pinned tree's refuting schedules, "
         "which must not be runs of the current model). distinct = hash of (family, calls, durations, pauses); non-trivial = some "
         "timer armed by the driver was stopped or replaced by a call that returned >= 2 ms before its deadline (the region in "
         "which the property forbids a timeout).",
    trusted=["timerdrv: microsecond timestamps taken just before each call and just after its return; fakes for "
             "ShipConnectionInfoProviderInterface / WebsocketDataWriterInterface; second and later timeouts on a connection "
             "are seen through handleState's 'connection is in error state' debug line",
             "attribution of a timeout to a generation by deadline, charitable (Timer.attribute)",
             "Go scheduler and time.After are nondeterministic labels of the model, not verified"],
    assumptions=["timer_mechanism_code (regenerated from ship/handshake.go) selects the modelled stop mechanism",
                 "arm and stop are atomic steps (they hold handshakeTimerMux in the repaired code)"],
)

SPEC["manifest"]["text"] += " A fifth of the random timer sequences start with two goroutines arming the connection's timer together (same duration); the conn stream has directed scripts for every class of hello waiting value."
