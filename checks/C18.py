SPEC = dict(
    manifest=dict(
        text="Machine-checked theorems (Coq 8.16.1, hand induction over unboundedly many reports, user operations and pending "
             "deliveries) about an executable model of the hub's pairing-state notifications for one SKI as the code is: the "
             "service points to a detail OBJECT; HandleShipHandshakeStateUpdate maps the SHIP state (table regenerated from the "
             "switch in Hub.mapShipMessageExchangeState), forces Error for an error value, and unless state and error equal the "
             "stored ones replaces the object and spawns a delivery that fires at any later time, in any order; Register / "
             "Unregister / Cancel / ServeHTTP change the live object in place and notify synchronously with its pointer; the "
             "application reads the object when it receives it; PairingDetailForSki maps the registered connection's live state, "
             "else returns the stored object. PROVED FOR ALL HISTORIES: the stored/answered pairing state is the table's image of "
             "the SHIP state, and Completed/Error/RemoteDeniedTrust/None/ReceivedPairingRequest are the images of exactly states "
             "38 / 39 / 16,17 / 14,15 / 11. PROVED ONLY UNDER A DELIVERY-ORDER HYPOTHESIS: (a) if the delayed notifications are "
             "delivered in spawn order (FIFO; synchronous ones may overtake), then once nothing is pending and the registered "
             "connection has reported after the last user operation, the last notification received shows the state "
             "PairingDetailForSki answers; (b) if in addition no synchronous notification is issued while a delayed one is "
             "pending, no older state is ever shown after a newer one. REFUTED for arbitrary order (witness theorems, both "
             "recorded as known findings): (b) deterministically by Cancel 10 ms after a reported pairing request (application "
             "sees None, ReceivedPairingRequest, None), (a) by two delayed notifications of near-simultaneous reports delivered in "
             "inverted order (application ends on Trusted while the hub answers InProgress); and, independent of order, (a) needs its "
             "settledness hypothesis: CancelPairingWithSKI on a completed connection is ignored by the connection, the application "
             "is told None and the hub keeps answering Completed (third known finding). Tie on every run: a real hub.Hub per "
             "scenario (scripted fake connection that reports from inside Abort/Approve/Close like a real one), realistic "
             "handshake report sequences and random ones interleaved with user operations and pauses; the linearised history "
             "(which pending object each delayed notification carried, what every notification showed when received, whether each "
             "report replaced the stored object, PairingDetailForSki answers) must equal the model's on the same schedule, and "
             "the property's monitors are evaluated inside Coq on those observations. System level: pairs of real hubs over "
             "loopback TLS (generator certificates, fake mDNS, one dialled connection) for success / remote denial / handshake "
             "error / pending then approved or cancelled: per hub the notifications received must be the model's FIFO "
             "notifications (from the user operations, ServeHTTP and the connection's traced state changes) in some order, and "
             "'last = PairingDetailForSki' is evaluated at the stable points (waiting for the user, finished).",
        note="(a) and (b) hold only under in-order delivery; on the pinned tree both fail (known findings "
             "delayed_notifications_inverted, sync_notification_overtakes_delayed); (a) additionally assumes that the registered "
             "connection has reported after the last user operation, which CancelPairingWithSKI on a non-pending connection "
             "breaks for good (known finding cancel_ignored_by_connection_answer_differs). Trusted: Coq kernel + vm_compute; the Go-AST "
             "translator for the state table; the hubunit driver (fake connection/application, goroutine-id test that tells "
             "synchronous from delayed callbacks); error values are modelled as unwrapped distinct objects (errors.Is = identity); "
             "the hypothesis 'an error value is reported with SmeStateError only' is read from ship/handshake.go, its necessity is "
             "theorem C18_error_with_other_state_refuted. ServeHTTP's Queued->ReceivedPairingRequest notification is in the model "
             "and the theorems, exercised by the two-hub runs only (not by the unit harness). The two-hub runs are statistical: a "
             "notification later than 2 s of silence would be missed. No axioms (Print Assumptions: closed under the global context).",
        technique="Coq proof (invariants by induction on the history) + refutation witnesses + table regenerated from source + "
                  "differential correspondence on real-hub histories with monitors evaluated in Coq",
        ref="DESIGN.md §6 C18"),
    imports="From Ship Require Import Base Notify.\nOpen Scope N_scope.",
    case_type="c18_case", check_fn="check_c18",
    drivers=[dict(bin="hubunit", args=["-prop", "C18"], n_quick=1500, n_thorough=30000, timeout=1200),
             dict(bin="hubunit", args=["-prop", "C18sys"], n_quick=18, n_thorough=180, timeout=1200)],
    codes={10: "sync_notification_overtakes_delayed", 11: "delayed_notifications_inverted",
           12: "last_notification_not_current", 14: "cancel_ignored_by_connection_answer_differs", 13: "older_state_after_newer_unexplained",
           15: "terminal_state_mapped_wrongly", 16: "latest_state_never_notified"},
    rule="one case = the complete linearised history of one SKI on its own real hub.Hub: 2 deterministic replays of the "
         "cancel-after-pending-request witness, 2 full client handshake bursts and the cancel-after-completion witness, then 55% realistic runs (client/server; "
         "success, remote denial, error with the double error report, pending then approved / cancelled / left waiting, "
         "unregister after completion; a quarter of them paced = quiescence after every step) and 45% random histories (3-16 "
         "steps over all 40 states, error values incl. ErrConnectionNotFound and ill-formed ones, repeated reports, "
         "register/close of the connection, Register/Unregister/Cancel with or without the connection reacting, queries, "
         "pauses of 0/1-5/100-400/480-540 ms); every history ends with quiescence (poll, cap 8 s) and a query. distinct = hash of "
         "the script; non-trivial = at least one report replaced the stored detail and at least two notifications were received. "
         "Second driver: 18 pairs of real hubs (outcomes success, denied, error, pending_approved, pending_cancelled, success_then_cancel in turn), "
         "one case per hub and stable point (non-trivial = at least two notifications).",
    trusted=["hub fakes: scripted connection (sets ShipHandshakeState, calls HandleShipHandshakeStateUpdate, reacts inside "
             "Abort/Approve/Close), application = the recorder, fake mDNS",
             "synchronous vs delayed callbacks are told apart by the goroutine they run on; the history is linearised by one "
             "lock per scenario",
             "error values: distinct errors.New objects, no wrapping"],
    assumptions=["pair_state_of (regenerated from hub/hub_pairing.go) is the state mapping",
                 "(a),(b): in-order delivery hypotheses fifo / in_order; reports carry an error value only with SmeStateError"],
)

SPEC["manifest"]["text"] += " A third of the unit histories are 'noisy': a second remote service of the same hub goes through handshake states of its own in between; monitor latest_state_never_notified (16): once the history has settled, the last notification received shows the state the hub answers even if an older delayed notification was dropped."
