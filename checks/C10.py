import os, re

HUB_HALVES = ["props/C11_hub.v", "props/C01_hub.v", "props/C09_hub.v"]
COQ_Q = ["-Q", "theories", "Ship", "-Q", "gen", "ShipGen", "-Q", "props", "ShipProps",
         "-w", "-notation-overridden,-deprecated-hint-without-locality,-deprecated-instance-without-locality"]


def hub_halves(ctx):
    """The hub-level halves of C11, C01 and C09 are proved about the same model and tied by the
    same driver; their theorem files are compiled here and their assumptions collected."""
    problems, cov, notes = [], {}, []
    for vfile in HUB_HALVES:
        path = os.path.join(ctx["coq"], vfile)
        if not os.path.exists(path):
            problems.append(("proof", "%s is missing" % vfile))
            continue
        src = open(path).read()
        theorems = re.findall(r"^(?:Theorem|Corollary)\s+(\w+)", src, re.M)
        rc, out, dt = ctx["sh"](["coqc"] + COQ_Q + [vfile, "-o", os.path.join(ctx["wd"], os.path.basename(vfile)[:-2] + ".vo")],
                                cwd=ctx["coq"], timeout=600)
        closed = len(re.findall(r"^Closed under the global context", out, re.M))
        axioms = re.findall(r"^Axioms:", out, re.M)
        cov[os.path.basename(vfile)[:-2]] = dict(theorems=theorems, closed_under_global_context=closed, rc=rc)
        if rc != 0 or closed != len(theorems) or axioms:
            problems.append(("proof", "%s: rc=%d, %d of %d theorems closed under the global context: %s"
                             % (vfile, rc, closed, len(theorems), out[-1500:])))
    notes.append("hub-level halves: " + ", ".join("%s %d theorems" % (k, len(v["theorems"])) for k, v in cov.items()))
    return dict(problems=problems, coverage=dict(hub_level_halves=cov), notes=notes)


SPEC = dict(
    manifest=dict(
        text="Machine-checked theorems (Coq 8.16.1) about an executable model of the hub's pairing and dial bookkeeping over "
             "arbitrarily many SKIs (per SKI: trusted flag, pairing state, registered connection, attempt counter, pending "
             "delayed dial with its counter snapshot, dials in flight; hub flags started / shut down), one label per hub entry "
             "point (register, unregister, cancel, disconnect, auto-accept, shutdown, mDNS report of any SKI set, inbound request, "
             "handshake-state report, close report) and per internal step of a delayed dial (fires: counter / trust-or-queued / "
             "connected checks; the dial in flight succeeds or fails). For every configuration, every hub state and unbounded "
             "label lists: a dial starts only when its SKI is trusted or queued, and that only arises from RegisterRemoteSKI, a "
             "hello-ok report or a report of the initial state (never from mDNS); after UnregisterRemoteSKI the SKI is untrusted, "
             "its connection is told to close, every pending dial is dropped and no dial starts until trust is re-granted; "
             "CancelPairingWithSKI aborts the pending request and clears trust; after Shutdown no dial starts and nothing is "
             "re-announced (true of the repaired tree: the table of which functions consult the shut-down flag is regenerated "
             "from the Go AST; the unrepaired hub is refuted by a witness). One region is refuted and recorded as a finding: a "
             "dial in flight at unregister time completes as a client connection and its hello-ok report re-trusts the SKI. "
             "Hub-level halves of C11 (a close report removes exactly the reporting connection's registry entry and is always "
             "notified once), C01 (trusted only by registration or exactly hello-ok) and C09 (created connections get the stored "
             "SHIP ID) are proved about the same model. Tie, every run: operation sequences (up to 25 operations, 3 SKIs in every "
             "spelling, mDNS reports, pending dials fired and dials failed at chosen moments) on a real hub.Hub whose dial targets "
             "are driver-owned loopback listeners, ending optionally in a real inbound ServeHTTP or a real TLS websocket dial "
             "success; after every operation the calls on connections, callbacks, mDNS calls, dials and the per-SKI state are "
             "compared with the model inside Coq, where the property monitors run on the implementation's own observations.",
        note="Trusted: Coq kernel + vm_compute; the Go-AST translator (harness/cmd/extract/hub10.go: back-off table, shut-down flag "
             "and its four readers); the hubunit driver (fake connections/mDNS/reader, loopback listeners, hook "
             "VerifPrepareConnectionInitation standing for the expiry of a dial delay); atomicity of one hub entry point per label "
             "(mutex-level interleavings inside an entry point are C20's subject). SKIs are indices (spelling is C15). The "
             "connection-level facts that a closed/aborted connection never reports hello-ok and that a server connection reaches "
             "hello-ok only with trust are C01/C04. No axioms (Print Assumptions: closed under the global context).",
        technique="Coq proof (invariants by induction over unbounded label lists, case analysis per entry point) + tables regenerated "
                  "from source + differential correspondence with in-Coq monitors",
        ref="DESIGN.md §6 C10, Appendix D"),
    imports="From Ship Require Import Base HubModel.\nOpen Scope N_scope.",
    case_type="c10_case", check_fn="check_c10",
    drivers=[dict(bin="hubunit", args=["-prop", "C10"], n_quick=1200, n_thorough=40000, timeout=900)],
    codes={10: "dial_to_untrusted_unqueued_ski", 11: "dial_after_shutdown", 12: "dial_after_unregister",
           13: "unregister_left_trust_counter_or_connection", 14: "cancel_did_not_abort_or_clear_trust",
           15: "close_report_removed_wrong_registry_entry", 16: "disconnect_notification_missing_or_repeated",
           17: "trusted_without_registration_or_hello_ok", 18: "connection_created_with_wrong_ship_id",
           19: "client_connection_completed_after_unregister",
           20: "auto_accept_not_what_the_user_set_last"},
    rule="sequences of 6-25 operations on a real hub.Hub over 3 SKIs (random spelling per call) drawn from: register, "
         "unregister, cancel, disconnect, set auto-accept, shutdown, store a SHIP ID, mDNS report of a random SKI subset, "
         "register a fake connection, handshake-state report (any state, with/without error), close report by any fake "
         "connection ever created (registered, replaced or never registered; completed or not), fire the pending dial, fail a "
         "dial in flight; 35% end with a real inbound ServeHTTP or a real TLS websocket dial success; 60% run with four trusted, "
         "never visible ballast SKIs, 15% on a hub that was not started; local SKI below / above / between the peers. "
         "distinct = hash of the whole case; non-trivial = at least one dial was observed and at least one of unregister / "
         "cancel / shutdown occurred in the sequence.",
    trusted=["hub fakes (fake connections, fake mDNS, recording HubReader) stand in for connections, mDNS and application",
             "hub.VerifPrepareConnectionInitation (run on a driver goroutine) stands for the expiry of a dial delay; the hub's own "
             "delay table is set to one hour so that its timers never fire during a run",
             "one label = one hub entry point executed without interleaving (lock-level interleavings: C20)",
             "entries are reported with one IPv4 address and no host name (one dial per attempt; a failing attempt makes "
             "the two TCP connections of connectFoundService's retry without path)"],
    assumptions=["gen/HubTable.v (regenerated from hub/*.go): Shutdown sets a flag that coordinateConnectionInitations, "
                 "prepareConnectionInitation, initateConnection and checkAutoReannounce consult; attempt counter capped at 2; a stale attempt calls checkAutoReannounce; ServeHTTP/connectFoundService register through registerCheckedConnection (second close of the displaced connection)",
                 "connections never report CmiStateInitStart (reports are state changes; the only state mapped to Queued)"],
    extra_steps=[hub_halves],
)

# clause (c) at the connection level: the real ShipConnection under user cancel (the hub-model stream uses fake connections)
SPEC["streams"] = [dict(imports="From Ship Require Import Base Conn ConnData ConnMon ConnCheck.", case_type="conn_case", check_fn="check_C10conn",
                        drivers=[dict(bin="shipdrv", args=["-prop", "conn"], n_quick=1000, n_thorough=20000, timeout=2400)],
                        codes={113: "handshake_progressed_after_user_cancel"})]

SPEC["manifest"]["text"] += " The hub model also observes IsAutoAcceptEnabled right after SetAutoAccept (code 20) and a delayed dial that fires while Shutdown is still inside the provider's Shutdown."
