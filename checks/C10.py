SPEC = dict(
    manifest=dict(
        text="placeholder",
        note="placeholder", technique="Coq proof + differential correspondence", ref="DESIGN.md §6 C10"),
    imports="From Ship Require Import Base HubModel.\nOpen Scope N_scope.",
    case_type="c10_case", check_fn="check_c10",
    drivers=[dict(bin="hubunit", args=["-prop", "C10"], n_quick=1200, n_thorough=30000, timeout=600)],
    codes={10: "dial_to_untrusted_unqueued_ski", 11: "dial_after_shutdown", 12: "dial_after_unregister",
           13: "unregister_left_trust_counter_or_connection", 14: "cancel_did_not_abort_or_clear_trust",
           15: "close_report_removed_wrong_registry_entry", 16: "disconnect_notification_missing_or_repeated",
           17: "trusted_without_registration_or_hello_ok", 18: "connection_created_with_wrong_ship_id",
           19: "client_connection_completed_after_unregister"},
    rule="placeholder",
    trusted=[], assumptions=[],
)
