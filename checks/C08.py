import connspec
SPEC = connspec.spec('C08', 'check_C08', {30: 'panic', 31: 'handler_does_not_return'}, "Theorem (Coq): no event list makes the connection model reach a panic point (index, nil dereference - modelled explicitly), a nested shutdownOnce (deadlock) or unbounded handler recursion: for every received frame content in every state of both roles the handlers return. Proof: certified closure. Tie: differential runs with structured mutations of every message kind and raw bytes, each call under recover and a deadline; directed witnesses of the two defects repaired on the pinned tree. The websocket frame check is covered by C13's driver and the mDNS TXT/entry processing by C16/C17's (total Gallina functions compared with the code on malformed records); memory exhaustion and panics inside encoding/json, gorilla or the mDNS libraries are outside the model.")

# mDNS half: the resolver-callback histories of C17's driver (TXT sets incl. incomplete and own-SKI records, address lists
# with repeated, IPv4, several link-local IPv6 addresses, add/remove), each call under recover and a deadline
SPEC["streams"] = [dict(imports="From Coq Require Import Uint63 ZArith.\nFrom Ship Require Import Base Pack Txt MdnsMap MdnsC08.\nOpen Scope N_scope.", case_type="c08m_case", check_fn="check_mdns_C08",
                        drivers=[dict(bin="mdnsdrv", args=["-prop", "C08"], n_quick=800, n_thorough=20000)],
                        codes={130: "mdns_resolver_callback_panics", 131: "mdns_resolver_callback_does_not_return"})]
