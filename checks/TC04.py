SPEC = dict(imports="From Ship Require Import Base Conn ConnData ConnMon ConnCheck.", case_type="conn_case", check_fn="check_C04",
  drivers=[dict(bin="shipdrv", args=["-prop", "conn"], n_quick=800, n_thorough=20000)], codes={}, rule="", props="props/C15.v")
