import connspec
SPEC = connspec.spec('C09', 'check_C09', {40: 'device_set_up_although_ship_id_differs', 41: 'ship_id_not_reported_before_setup', 42: 'ship_id_reported_again', 43: 'device_set_up_twice', 44: 'device_set_up_without_the_stored_id_being_presented'}, "Theorem (Coq): on every run, if a SHIP id is stored for the SKI then SetupRemoteDevice only happens after an access-methods reply presenting exactly that id, and a wrong, missing or undecodable id ends in the error state without setup in any continuation; if none is stored the presented id is reported exactly once and before setup; the device is set up at most once - independent of the order of the peer's request and reply. Proof: certified closure (the 'matches' bit of the control event is defined from the stored and presented byte strings in ConnData.abs_ev). Tie: differential runs over stored x presented id (equal, different, empty, missing, null, number) x order x role.")

# hub-level half: the hub-model case stream of C10 (real hub.Hub, see checks/C10.py), projected to this property
SPEC["streams"] = [dict(imports="From Ship Require Import Base HubModel HubStreams.", case_type="c10_case", check_fn="check_hub_C09",
                        drivers=[dict(bin="hubunit", args=["-prop", "C10"], n_quick=800, n_thorough=20000, timeout=2400)], codes={118: "connection_created_with_wrong_ship_id"})]
SPEC["props_extra"] = ["props/C09_hub.v"]

# the hub's pass-through of the id report and the setup callback (coq/theories/RegRace.v, hid_case)
SPEC["streams"] += [dict(imports="From Ship Require Import Base RegRace.", case_type="hid_case", check_fn="check_hubid",
                         drivers=[dict(bin="hubunit", args=["-prop", "C09hub"], n_quick=150, n_thorough=2000)],
                         codes={141: "application_told_ship_id_after_setup", 142: "application_told_ship_id_not_exactly_once"})]

SPEC["manifest"]["text"] += " Third stream, the hub's part of 'before setup': Hub.ReportServiceShipID followed on the same goroutine by Hub.SetupRemoteDevice (the order proved for the connection model) must reach the application as RemoteSKIConnected, ServiceShipIDUpdate, SetupRemoteDevice, the id exactly once (RegRace.v, hid_case). In the hub stream the stored id is set under every spelling of the SKI."
