SPEC = dict(
    manifest=dict(
        text="Machine-checked theorems (Coq 8.16.1) about the same interleaving model of ws/websocket.go as C12. For every "
             "schedule - a failure at any read or write (fault labels can be placed anywhere, which covers the k-th operation "
             "for every k), peer close with any code, EOF, invalid frame, local close with or without a reason, any traffic, "
             "with or without the SHIP layer's CloseDataConnection reaction: ReportConnectionError is called at most once, never "
             "for an error that is a consequence of the local close (own close frame sent, own conn.Close), a report implies the "
             "closed-query is non-nil; when the internal steps have run out (they always do: ranking certificate) a connection "
             "marked closed has both pumps at their exit, conn.Close called, and was reported exactly when it was not the "
             "deliberate local close that marked it; the read pump lets no message through after a report. The strict reading "
             "'no HandleIncomingWebsocketMessage call after the report' is refuted (one message already past the closed-check "
             "when the write pump reports) and proved outside that one in-flight message (recorded finding). The tree as found "
             "is refuted twice: after a failing write conn.Close is never called and the read pump stays in its read; a local "
             "close with a reason while a message is in the pump is reported as an error. Tie on every run: shape facts from "
             "the Go AST; wsdrv injects a fault at the k-th read/write for every k of short sessions, peer close frames with "
             "many codes, EOF, invalid frames, local closes, with concurrent traffic, over a real gorilla pair on loopback TCP; "
             "records ReportConnectionError/HandleIncomingWebsocketMessage order, closed-query, Close() on the net.Conn, and "
             "goroutines left in package ws; each outcome must be in the model's outcome set for the scenario class, monitors "
             "evaluated inside Coq on the observations.",
        note="Trusted: Coq kernel + vm_compute; harness/cmd/extract/ws.go; wsdrv (fault-injecting conn, goroutine stack scan "
             "filtered to package ws, polled with a cap). 'Cause' = the call whose setConnClosedError marks the connection first. "
             "Known finding: one in-flight delivery can follow a write-pump report. No axioms.",
        technique="Coq proof: certified inductive invariant + ranking over the finite control model; witness schedules for the "
                  "refutations; tables regenerated from source; fault-injection differential runs checked against the model's "
                  "outcome sets",
        ref="DESIGN.md §6 C13, Appendix B"),
    imports="From Ship Require Import Base Ws WsCheck.",
    case_type="ws_case", check_fn="check_c13",
    drivers=[dict(bin="wsdrv", args=["-prop", "C13"], n_quick=1000, n_thorough=30000, timeout=1500)],
    codes={20: "transport_not_closed", 21: "pump_or_caller_still_running", 22: "loss_not_reported",
           23: "reported_more_than_once", 24: "error_reported_after_local_close", 25: "closed_or_reported_without_cause",
           26: "inflight_delivery_after_write_error_report", 27: "deliveries_after_report",
           28: "closing_event_did_not_close", 29: "closed_query_nil"},
    rule="scenario = (class: fault at the k-th read / k-th write / slow-then-failing write, peer close frame with code, EOF, "
         "invalid frame, local close with/without reason, local close racing peer close / write fault / EOF; 0-3 writer "
         "goroutines x 1-4 messages, 0-7 incoming frames, SHIP-layer reaction on/off, GOMAXPROCS, yield pattern, client/server "
         "side); the first scenarios are the fixed witnesses of the defects found. distinct = hash of the scenario parameters; "
         "non-trivial = a closing event actually happened (fault returned to the library, peer event issued, local close issued).",
    trusted=["gorilla/websocket, net (loopback TCP)", "goroutine exit is observed by scanning all stacks for frames of package ws, "
             "polled up to 3 s", "the reader double calls IsDataConnectionClosed inside ReportConnectionError"],
    assumptions=["WsTable (regenerated from ws/websocket.go), as for C12",
                 "a peer close frame, EOF, an invalid frame and a read fault are all 'the pending read fails'; "
                 "a write fault, EOF and the close echo after a peer close frame are all 'a write fails'"],
)

SPEC["manifest"]["text"] += ' A quarter of the scenarios use a reader that handles the error report under the lock its writers hold while writing; a third of the injected write faults are of the timeout kind (net.Error, Timeout() true).'
