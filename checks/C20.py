"""C20 — data-race freedom of the public API under concurrent use.

Static side (decides the exit code): harness/cmd/extract regenerates coq/gen/Access.v from
the Go AST (must-lockset analysis, internal/lockset), Coq proves `facts |= guard_spec`
(C20_facts_respect_spec, vm_compute) and the generic lockset theorem gives race freedom of
every protected field; the facts are also streamed as cases so that a fact violating the
table is reported with the (field, function, lockset) as replay.

Dynamic side (extra step `race_stress`): racedrv built with `go build -race -tags verif`
drives real hubs over loopback TLS for ~40 s; every race-detector report is attributed to
a field of the table through coq/gen/Access.sites.json and classified:
  race on a protected field                  -> the translator or the table is wrong (correspondence problem)
  race on a field recorded as racy           -> that finding exhibited (replay; statistical)
  anything else (memory outside the table)   -> signature race:<fnA>|<fnB>; VIOLATION unless a known finding
"""
import json, os, re, shutil, time

SECONDS = dict(quick=35, thorough=600)

FINDING_CODES = {
    # 20 racy:Hub.connections and 21 racy:ShipConnection.smeError: repaired in /repo, numbers not reused
    22: "racy:ShipConnection.lastReceivedWaitingValue",
    23: "racy:MdnsManager.autoaccept",
    24: "racy:MdnsManager.mdnsProvider",
    25: "racy:MdnsManager.report",
    # 26-28: AvahiProvider channel fields, a false alarm of the lock-only model (ordered by the
    # shutdownChan rendezvous; exception code 0 in the table), numbers not reused
}

TRACKED_PKGS = ("hub", "ship", "ws", "mdns", "api")


# ---------------------------------------------------------------- the table, as Coq sees it
def dump_spec(ctx):
    """Ask Coq for the guard specification (so that this file never re-states it) and for
    the summary numbers of the facts check."""
    wd, coq, sh = ctx["wd"], ctx["coq"], ctx["sh"]
    q = ["-Q", "theories", "Ship", "-Q", "gen", "ShipGen", "-Q", "props", "ShipProps", "-w", "-notation-overridden"]
    src = r'''From Coq Require Import DecimalString.
From Ship Require Import Base Lockset LocksetSpec.
Open Scope string_scope.
Definition nstr (n : N) : string := NilZero.string_of_uint (N.to_uint n).
Definition join (sep : string) (l : list string) : string :=
  fold_right (fun a b => if String.eqb b "" then a else a ++ sep ++ b) "" l.
Definition gkind (g : sguard) : string :=
  match g with SGuardedBy m => "G," ++ m | SImmutable => "I," | SConfined c _ => "C," ++ c | SRacy c => "X," ++ nstr c end.
Definition dump1 (s : fspec) : string :=
  s_struct s ++ "." ++ s_field s ++ "|" ++ gkind (s_guard s) ++ "|" ++ join "," (s_init s) ++ "|" ++
  join "," (map (fun p => fst p ++ "=" ++ nstr (snd p)) (s_except s)).
Set Printing Width 1000000.
Set Printing Depth 1000000.
Eval vm_compute in join ";" (map dump1 guard_spec).
From ShipGen Require Import Access.
Eval vm_compute in join ";" (map (fun f => f_struct f ++ "." ++ f_field f ++ "@" ++ f_fn f)
  (filter (fun f => existsb (fun c => N.leb c 10) (check_fact guard_spec f)) access_facts)).
'''
    p = os.path.join(wd, "specdump.v")
    open(p, "w").write(src)
    rc, out, _ = sh(["coqc"] + q + [p], cwd=coq, timeout=300)
    if rc != 0:
        return None, "coqc specdump failed: " + out[-1500:]
    ms = re.findall(r'=\s*"(.*?)"\s*:\s*string', out, re.S)
    if len(ms) != 2:
        return None, "cannot parse spec dump: " + out[-500:]
    m = re.match(r"(.*)", ms[0], re.S)
    # facts that violate the table (code 1 or 10), as "Struct.field@function": a race report on
    # such an access is the schedule for the broken obligation, not a broken correspondence
    unprot = {x for x in re.sub(r"\s*\n\s*", "", ms[1]).split(";") if x}
    spec = {}
    for ent in re.sub(r"\s*\n\s*", "", m.group(1)).split(";"):
        name, g, init, exc = ent.split("|")
        kind, arg = g.split(",", 1)
        spec[name] = dict(kind=kind, arg=arg, init=[x for x in init.split(",") if x],
                          exc={a.split("=")[0]: int(a.split("=")[1]) for a in exc.split(",") if a})
    # summary of the computed check (only when LocksetFacts compiled)
    summary = None
    src2 = r'''From Coq Require Import DecimalString.
From Ship Require Import Base Lockset LocksetSpec LocksetFacts.
Eval vm_compute in c20_summary.
Eval vm_compute in c20_stale_codes.
'''
    p2 = os.path.join(wd, "factsum.v")
    open(p2, "w").write(src2)
    rc, out, _ = sh(["coqc"] + q + [p2], cwd=coq, timeout=300)
    if rc == 0:
        nums = re.search(r"=\s*\((\d+)(?:%nat)?,\s*(\d+)(?:%nat)?,\s*(\d+)(?:%nat)?,\s*(\d+)(?:%nat)?\)", out)
        stale = re.search(r"=\s*\[([^\]]*)\]\s*(?:%N)?\s*:\s*list N", out, re.S)
        if nums:
            summary = dict(fields_in_table=int(nums.group(1)), fields_unconditionally_protected=int(nums.group(2)),
                           facts=int(nums.group(3)), facts_clean=int(nums.group(4)),
                           stale_finding_codes=[int(x) for x in re.findall(r"\d+", stale.group(1))] if stale else [])
    if summary is not None:
        summary["facts_violating_table"] = sorted(unprot)
    for e in (".vo", ".glob", ".vok", ".vos"):
        for b in ("specdump", "factsum"):
            try:
                os.remove(os.path.join(wd, b + e))
            except OSError:
                pass
    return (spec, summary, unprot), None


# ---------------------------------------------------------------- race report parsing
def go_fn_to_table(fn):
    """github.com/enbility/ship-go/hub.(*Hub).Shutdown.func1 -> Hub.Shutdown ; ship.NewX -> NewX"""
    fn = fn.split("/")[-1]
    fn = re.sub(r"\(\)$", "", fn)
    m = re.match(r"^\w+\.\(\*?(\w+)\)\.(\w+)", fn)
    if m:
        return m.group(1) + "." + m.group(2)
    m = re.match(r"^\w+\.(\w+)", fn)
    return m.group(1) if m else fn


def short_fn(fn):
    fn = re.sub(r"\(\)$", "", fn.split("/")[-1])
    return re.sub(r"(\.func\d+(\.\d+)*)+$", "", fn)


def parse_reports(text, repo):
    """-> list of dict(stacks=[[(fn, file, line)], [..]], text)"""
    res = []
    for blk in text.split("WARNING: DATA RACE")[1:]:
        blk = blk.split("==================")[0]
        stacks, cur = [], None
        for ln in blk.splitlines():
            if re.match(r"^(Previous )?(atomic )?(read|write) at 0x", ln, re.I):
                cur = []
                stacks.append(cur)
                continue
            if re.match(r"^Goroutine \d+ .*created at:", ln) or ln.startswith("Goroutine "):
                cur = None
                continue
            if cur is None:
                continue
            m = re.match(r"^  (\S.*)$", ln)
            if m and not ln.startswith("      "):
                cur.append([m.group(1).strip(), None, None])
                continue
            m = re.match(r"^      (\S+?):(\d+)(?: \+0x[0-9a-f]+)?$", ln)
            if m and cur:
                cur[-1][1], cur[-1][2] = m.group(1), int(m.group(2))
        if len(stacks) >= 2:
            res.append(dict(stacks=[[tuple(f) for f in s] for s in stacks[:2]], text=("WARNING: DATA RACE" + blk)[:6000]))
    return res


def classify(rep, repo, sites, spec, exc_fns, init_fns, unprot=()):
    """-> (kind, name, detail)  kind in finding | unknown | correspondence"""
    repo = os.path.realpath(repo)
    sides = []
    for st in rep["stacks"]:
        top = st[0][0] if st else ""
        op = "mem"
        if re.search(r"runtime\.(closechan|chansend|chanrecv|selectgo)", top):
            op = "chan"
        elif re.search(r"runtime\.(map|mapiter)", top):
            op = "map"
        site, through = None, set()
        for fn, f, ln in st:
            if not f:
                continue
            rf = os.path.realpath(f)
            if rf.startswith(repo + os.sep):
                rel = os.path.relpath(rf, repo)
                if rel.split(os.sep)[0] in TRACKED_PKGS:
                    if site is None:
                        site = (rel, ln, fn)
                    through.add(go_fn_to_table(fn))
        fields = set()
        tfn = None
        if site:
            for s in sites.get((site[0], site[1]), []):
                fields.add(s["struct"] + "." + s["field"])
                tfn = s["fn"]
        sides.append(dict(op=op, site=site, fields=fields, through=through, tfn=tfn or (go_fn_to_table(site[2]) if site else None),
                          fn=short_fn(site[2]) if site else (short_fn(st[0][0]) if st else "?")))
    a, b = sides
    common = a["fields"] & b["fields"]
    pair = "|".join(sorted([a["fn"], b["fn"]]))
    where = "%s:%s vs %s:%s" % ((a["site"] or ("?", "?"))[0], (a["site"] or ("?", "?"))[1],
                                (b["site"] or ("?", "?"))[0], (b["site"] or ("?", "?"))[1])

    def publication():
        # one side initialises an object (constructor / initialiser function), the other
        # reached it through an access recorded as ignoring its guard: the race is the
        # unsafe publication through that field, i.e. that finding
        for x, y in ((a, b), (b, a)):
            if x["tfn"] in init_fns or (x["site"] and go_fn_to_table(x["site"][2]) in init_fns):
                for fn in sorted(y["through"]):
                    if fn in exc_fns:
                        return exc_fns[fn]
        return None

    if a["op"] == "chan" and b["op"] == "chan":
        f = sorted(common)[0] if common else None
        return "unknown", ("chanrace:" + f) if f else ("chanrace:" + pair), where
    if common:
        f = sorted(common)[0]
        sp = spec.get(f)
        if sp is None:
            return "correspondence", "race on %s which is not in the table (%s)" % (f, where), where
        for side in (a, b):
            if side["tfn"] and (f + "@" + side["tfn"]) in unprot:
                return "unknown", "unprotected_access:%s@%s" % (f, side["tfn"]), where
        if sp["kind"] == "X":
            return "finding", FINDING_CODES.get(int(sp["arg"]), "code%s" % sp["arg"]), where
        for side in (a, b):
            if side["tfn"] in sp["exc"]:
                return "finding", FINDING_CODES.get(sp["exc"][side["tfn"]], "code%d" % sp["exc"][side["tfn"]]), where
        for side in (a, b):  # closures of an excepted function
            for fn in side["through"]:
                if fn in sp["exc"] and side["site"] and go_fn_to_table(side["site"][2]) == fn:
                    return "finding", FINDING_CODES.get(sp["exc"][fn], "code%d" % sp["exc"][fn]), where
        c = publication()
        if c is not None:
            return "finding", FINDING_CODES.get(c, "code%d" % c), where + " (unsafe publication)"
        return "correspondence", "race detector reports a race on %s, which the table calls protected (%s; %s)" % (f, pair, where), where
    c = publication()
    if c is not None:
        return "finding", FINDING_CODES.get(c, "code%d" % c), where + " (unsafe publication)"
    return "unknown", "race:" + pair, where


# ---------------------------------------------------------------- the extra step
def race_stress(ctx):
    t0 = time.time()
    problems, violations, notes, cov = [], [], [], {}
    wd, repo, tier, seed, sh = ctx["wd"], ctx["repo"], ctx["tier"], ctx["seed"], ctx["sh"]
    got, err = dump_spec(ctx)
    if err:
        return dict(problems=[("spec", err)])
    spec, summary, unprot = got
    if summary:
        cov["static_check"] = summary
        if summary["stale_finding_codes"]:
            notes.append("finding codes of the table that no access fact exhibits any more (stale, fixed in the source?): %s"
                         % [FINDING_CODES.get(c, c) for c in summary["stale_finding_codes"]])
    # the code names here and the table's codes must agree
    for name, sp in spec.items():
        codes = list(sp["exc"].values()) + ([int(sp["arg"])] if sp["kind"] == "X" else [])
        for c in codes:
            if c == 0:   # trusted ordering outside the model (channel rendezvous), not a finding
                continue
            if FINDING_CODES.get(c) != "racy:" + name:
                problems.append(("spec", "finding code %d is used for %s in LocksetSpec.v but named %r in checks/C20.py"
                                 % (c, name, FINDING_CODES.get(c))))
    exc_fns = {}
    for name, sp in spec.items():
        for fn, c in list(sp["exc"].items()):
            if c == 0:
                # assumed ordered by channel synchronisation: the race detector models channels, so a
                # report here refutes the assumption -> treated like a race on a protected field
                del sp["exc"][fn]
                continue
            exc_fns[fn] = c
    init_fns = set()
    for sp in spec.values():
        init_fns.update(sp["init"])
    # access sites
    sp_path = os.path.join(ctx["coq"], "gen", "Access.sites.json")
    try:
        sj = json.load(open(sp_path))
    except Exception as e:
        return dict(problems=problems + [("translator", "no access site table %s: %r" % (sp_path, e))], coverage=cov, notes=notes)
    sites = {}
    for s in (sj.get("sites") or []):
        sites.setdefault((s["file"], s["line"]), []).append(s)
    cov["translator"] = dict(functions=sj.get("funcs"), analysis_contexts=sj.get("contexts"), goroutine_entry_points=sj.get("go_bodies"),
                             access_sites=len(sj.get("sites") or []), structs={k: len(v) for k, v in sj.get("structs", {}).items()},
                             mutexes=sj.get("mutexes"), unresolved_selectors=len(sj.get("unresolved") or []))
    # build with the race detector
    alt = os.path.abspath(repo) != "/repo"
    harness = os.path.join(os.path.dirname(os.path.dirname(os.path.abspath(__file__))), "harness")
    binp = os.path.join(ctx["bin"], "racedrv.race")
    cmd = ["go", "build", "-race"]
    if alt:
        cmd += ["-modfile", os.path.join(os.path.dirname(ctx["bin"]), "go.alt.mod")]
    cmd += ["-tags", "verif", "-o", binp, "./cmd/racedrv"]
    with ctx["lock"](".lock_build"):
        rc, out, dt = sh(cmd, cwd=harness, env=ctx["goenv"], timeout=900)
    notes.append("go build -race racedrv rc=%d %.1fs" % (rc, dt))
    if rc != 0:
        return dict(problems=problems + [("build", "racedrv does not build with -race against the current tree:\n" + out[-3000:])],
                    coverage=cov, notes=notes)
    # run
    secs = int(os.environ.get("VERIF_C20_SECONDS", SECONDS[tier]))
    if tier == "quick" and "VERIF_C20_SECONDS" not in os.environ and dt > 20:
        # cold Go build cache (the -race standard library had to be compiled): keep the quick
        # tier inside its time budget by shortening the statistical part
        secs = max(15, int(secs - (dt - 10)))
        notes.append("race build took %.0fs (cold cache): stress shortened to %ds" % (dt, secs))
    rdir = os.path.join(wd, "race")
    shutil.rmtree(rdir, ignore_errors=True)
    os.makedirs(rdir)
    sumf = os.path.join(wd, "stress_summary.json")
    if os.path.exists(sumf):
        os.remove(sumf)
    env = dict(ctx["goenv"], GORACE="halt_on_error=0 history_size=3 log_path=%s" % os.path.join(rdir, "r"))
    rc, out, dt = sh([binp, "-mode", "stress", "-seconds", str(secs), "-seed", str(seed), "-hubs", "3", "-summary", sumf],
                     cwd=harness, env=env, timeout=secs + 60)
    open(os.path.join(wd, "stress.log"), "w").write(out)
    notes.append("race stress rc=%d %.1fs" % (rc, dt))
    try:
        summ = json.load(open(sumf))
    except Exception:
        summ = None
    if rc != 0 or summ is None:
        problems.append(("stress", "racedrv did not complete (rc=%d): %s" % (rc, out[-2000:])))
        summ = summ or {}
    # reports
    text = ""
    for fn in sorted(os.listdir(rdir)):
        text += open(os.path.join(rdir, fn), errors="replace").read()
    reps = parse_reports(text, repo)
    by = {}
    for r in reps:
        kind, name, where = classify(r, repo, sites, spec, exc_fns, init_fns, unprot)
        e = by.setdefault((kind, name), dict(count=0, where=set(), example=r["text"]))
        e["count"] += 1
        e["where"].add(where)
    exhibited = {}
    for (kind, name), e in sorted(by.items()):
        if kind == "correspondence":
            problems.append(("correspondence", name + "\n" + e["example"][:3000]))
        else:
            exhibited[name] = e["count"]
            violations.append((name, dict(signature=name, reports=e["count"], where=sorted(e["where"])[:8],
                                          race_report=e["example"], stress=dict(seconds=secs, seed=seed),
                                          note="statistical replay: run the stress again with the same seed; the race detector "
                                               "report above is the observation")))
    api = summ.get("api_calls") or {}
    cov["race_stress"] = dict(
        seconds=summ.get("seconds_run"), hubs_created=summ.get("hubs_created_total"),
        driver_goroutines=summ.get("driver_goroutines_started"), goroutines_peak=summ.get("goroutines_peak"),
        api_calls=api if not isinstance(api, dict) else sum(v for v in api.values() if isinstance(v, (int, float))),
        api_calls_by_operation=summ.get("api_detail") or api,
        handshakes_completed=summ.get("handshakes_completed"), spine_written=summ.get("spine_payloads_written"),
        spine_received=summ.get("spine_payloads_received"), mdns_reports_to_hubs=summ.get("mdns_reports_to_hubs"),
        real_mdns=summ.get("real_mdns"), avahi_provider=summ.get("avahi_provider"), library_panics=(summ.get("panics") or [])[:10], process_deaths=summ.get("process_deaths"),
        race_reports=len(reps), distinct_signatures=len(by),
        signatures={("%s %s" % k): v["count"] for k, v in by.items()},
        findings_exhibited_this_run=exhibited,
        findings_not_exhibited_this_run=sorted(set(FINDING_CODES.values()) - set(exhibited)),
    )
    notes.append("extra step wall %.1fs" % (time.time() - t0))
    return dict(problems=problems, violations=violations, coverage=cov, notes=notes)


SPEC = dict(
    manifest=dict(
        text="Machine-checked lockset argument (Coq 8.16.1). Generic theorem, proved once for all well-formed traces of "
             "Acq/Rel (exclusive and shared mode), Rd/Wr and Fork events over any number of threads: if every access to a "
             "location made after its publication holds a common lock (writes exclusively), or is a read of a location that "
             "is only written before publication, or is made by one owning thread, then every pair of conflicting accesses is "
             "ordered by happens-before (program order + release->acquire + fork) - no data race in any execution; plus the "
             "converse witness (one unguarded access suffices for a race). Tie, on every run: a flow-sensitive must-lockset "
             "analysis over the Go AST of hub, ship, ws, mdns and api regenerates one fact per field access (struct, field, "
             "read/write, function, locks held, escape flag) of Hub, ShipConnection, WebsocketConnection, MdnsManager, "
             "AvahiProvider, ZeroconfProvider, ServiceDetails and ConnectionStateDetail; Coq checks facts |= the hand-written "
             "guard table by vm_compute and a bridge theorem turns that into race freedom of every protected field for every "
             "execution the facts explain, and into 'races only at the recorded accesses' for the fields with findings. "
             "Validation: a -race build drives three real hubs (loopback TLS, generator certificates, fake mDNS, churn, "
             "Shutdown under traffic, SPINE writes), a real MdnsManager and generations of AvahiProvider over a fake avahi "
             "server, and every race-detector report is attributed to the table; a report on a protected field breaks the "
             "check, a report outside the table must be a known finding.",
        note="Weakest claim of the suite, partial: the translator (purely syntactic go/ast analysis, no go/types; unresolved "
             "selectors are required to be none) is TRUSTED - the theorem's hypothesis `explained` says its facts are the "
             "program's accesses; initialiser lists (incl. 'Hub.Start returns before other methods are used') and thread-class/"
             "confinement annotations are hand-written; publication to application goroutines is assumed safe; races on memory "
             "the table does not name (objects behind the fields such as *MdnsEntry, channel internals, third-party "
             "libraries, closures over locals, package variables) are invisible to the proof and only sampled by the race "
             "detector; race replays are statistical. The AvahiProvider channel fields are read by the listener without the mutex: "
             "ordered with Shutdown's writes by the unbuffered shutdownChan rendezvous, which the lock-only model cannot express "
             "(hand-written exception code 0, validated by the race detector). ZeroconfProvider is covered statically only. "
             "Recorded findings: see known_findings.json (racy:* / race:* codes). No axioms.",
        technique="Coq proof (lockset soundness by induction over well-formed traces) + Go-AST must-lockset translator + computed "
                  "table check + race-detector stress as validation",
        ref="DESIGN.md §6 C20"),
    imports="From Ship Require Import Base Lockset LocksetSpec.\nOpen Scope string_scope.",
    case_type="fact", check_fn="check_c20",
    drivers=[dict(bin="racedrv", args=["-mode", "facts"], n_quick=0, n_thorough=0, timeout=120)],
    codes={10: "unprotected_access", **FINDING_CODES},
    rule="cases = ALL access facts the translator derives from the current source (one per distinct (struct, field, read|write, "
         "enclosing function or goroutine body, must-lockset, escape flag)); each is checked inside Coq against guard_spec "
         "(code 1: field missing from the table; 10: access ignoring its guard; >=20: recorded finding). distinct = hash of the "
         "fact; non-trivial = the access is outside the constructors New*, i.e. needs a lock, immutability or confinement. "
         "The race stress is reported separately under coverage.race_stress.",
    trusted=["internal/lockset: syntactic must-lockset translator (receiver/parameter/constructor-typed variables only; inline "
             "analysis of same-package callees per context; goroutine bodies start with the empty lockset)",
             "hand-written guard_spec: initialiser lists, thread classes of Confined fields",
             "Go race detector + racedrv as validation of the table (statistical)",
             "Go memory model edges used: go statement, Mutex/RWMutex unlock->lock; channel and sync.Once edges are not modelled "
             "(never needed to justify a protected field)"],
    assumptions=["`explained`: every access of an execution to a tracked field is an instance of a translator fact holding at least "
                 "the fact's locks (translator soundness and completeness)",
                 "objects are published safely: initialisers run in the creating goroutine before the object is shared; Hub.Start "
                 "returns before other Hub methods are called; InitDataProcessing is called once, by the ship connection's constructor",
                 "dataReader/remoteShipID are only touched while processing a received message, which only the websocket read "
                 "pump goroutine does",
                 "mutexes are released by the goroutine that acquired them",
                 "AvahiProvider.chanListener's unlocked reads of shutdownChan/addServiceChan/removeServiceChan are ordered with "
                 "Shutdown's and Start's writes by the shutdownChan rendezvous and the go statement (exception code 0)"],
    extra_steps=[race_stress],
)
