import connspec
SPEC = connspec.spec('C06', 'check_C06', {60: 'payload_delivered_before_setup', 61: 'payloads_lost_duplicated_or_reordered', 62: 'payload_delivered_before_completion_was_reported'}, "Theorem (Coq), connection level: on every run of the connection model - any role, any finite event list, SPINE data frames interleaved arbitrarily with the remaining handshake messages, payload lists of unbounded length - the payloads handed to the SPINE reader are exactly the well-formed SPINE payloads received, each once and in arrival order, once the remote device has been set up, and none before: frames arriving earlier are buffered and delivered first. The control facts per step (deliver iff reader set, buffer otherwise, flush exactly in the step that sets the reader, no other delivery) come from the certified closure; the list invariant is proved by induction on the run. Tie: per-event differential comparison incl. every ODeliver with its payload id and the buffer length in the hook snapshot; the same c06_data function is evaluated on the implementation's observations. The two-endpoint half (what one side's writer accepts is what the peer's reader gets) is decided on the Pair model (C03) and the websocket model (C12: wire is a gap-free prefix of accepted); content fidelity is C07.", technique='certified closure for the per-step control facts + induction over the run for the payload lists; differential correspondence')

SPEC["streams"] = [dict(imports="From Ship Require Import Base Conn ConnMon Pair PairClosure PairCheck.", case_type="pair_case",
                        check_fn="check_pair_spine",
                        drivers=[dict(bin="shipdrv", args=["-prop", "pair"], n_quick=400, n_thorough=8000, timeout=2400)],
                        codes={76: "spine_datagrams_between_two_endpoints_not_exactly_once_in_order"})]

# over the real transport: two ShipConnections on real websocket connections (loopback), bursts of 100-1500 datagrams of
# 40 B / 2 KB / 16 KB in both directions while the receiving application blocks for 0-800 ms (full socket buffers and write queue)
SPEC["streams"] += [dict(imports="From Ship Require Import Base RegRace.", case_type="e2e_case", check_fn="check_e2e",
                         drivers=[dict(bin="shipdrv", args=["-prop", "e2e"], n_quick=24, n_thorough=400, timeout=2400)],
                         codes={178: "datagrams_over_real_websocket_not_exactly_once_in_order"})]

SPEC["manifest"]["text"] += " Third stream, over the real transport: two ShipConnections on real ws.WebsocketConnections (loopback websocket), bursts of 100-1500 datagrams of 40 B / 2 KB / 16 KB in both directions while the receiving application blocks until the writers have returned or up to 2.5 s (full socket buffers and write queue); on a connection that stays open each reader's list must equal the other writer's. Payloads of the other two streams also use the words of SHIP messages as keys and values."
