import connspec
SPEC = connspec.spec('C11', 'check_C11', {50: 'connection_end_reported_twice', 51: 'connection_end_not_reported', 52: 'connection_end_never_reported_after_transport_loss'}, 'Theorem (Coq), connection level: on every run HandleConnectionClosed is reported at most once, and whenever the data connection has been closed (by any path: local close, peer announce/confirm, transport error, handshake error/abort, deferred close) it has been reported - for all coincidences of close causes as event orders. Proof: certified closure. Tie: differential runs incl. all pairs of close causes in both orders (directed) and random ones; monitor on implementation traces. The hub-level half (registry removal of the identical object only, per-SKI notification consistency) is decided on the hub model together with C05/C10.')

# hub-level half: the hub-model case stream of C10 (real hub.Hub, see checks/C10.py), projected to this property
SPEC["streams"] = [dict(imports="From Ship Require Import Base HubModel HubStreams.", case_type="c10_case", check_fn="check_hub_C11",
                        drivers=[dict(bin="hubunit", args=["-prop", "C10"], n_quick=800, n_thorough=20000, timeout=2400)], codes={115: "close_report_removed_wrong_registry_entry", 116: "disconnect_notification_missing_or_repeated"})]
SPEC["props_extra"] = ["props/C11_hub.v"]

# causes that coincide on different goroutines (coq/theories/RegRace.v)
SPEC["streams"] += [
    dict(imports="From Ship Require Import Base RegRace.", case_type="rr_case", check_fn="check_regrace",
         drivers=[dict(bin="hubunit", args=["-prop", "C11reg"], n_quick=240, n_thorough=3000)],
         codes={153: "ended_connection_stays_registered"}),
    dict(imports="From Ship Require Import Base RegRace.", case_type="cr_case", check_fn="check_closerace",
         drivers=[dict(bin="shipdrv", args=["-prop", "closerace"], n_quick=4000, n_thorough=60000)],
         codes={150: "end_reported_twice_by_coinciding_closers", 152: "end_never_reported_by_coinciding_closers"}),
]

SPEC["manifest"]["text"] += " Causes coinciding on different goroutines (RegRace.v): (a) theorem, unbounded: with the closed-check and the registry store of registerCheckedConnection in one critical section, every sequence of registrations and end reports of a connection that contains an end report leaves it unregistered; refuted for the two-step version (check - end - store); which one the code is, is regenerated from the AST (hub_register_atomic) and is a proof obligation; stream: a real hub, a harness connection whose end is reported before, after or during the closed-check of its registration. (b) close_body_once (regenerated): the whole body of CloseConnection runs inside sync.Once.Do - the justification of the model's atomic once flag under concurrent closers (Go's contract for sync.Once is trusted); stream: 4000 fresh connections each closed by four goroutines released together (CloseConnection safe/unsafe/with code, ReportConnectionError), counting HandleConnectionClosed. Monitor-free corollary (ConnExplicit.v): on every model run HandleConnectionClosed occurs at most once."
