SPEC = dict(
    manifest=dict(
        text="Machine-checked theorems (Coq 8.16.1) about an executable model of the mDNS TXT record and the QR text of "
             "mdns/mdns.go and mdns/helper.go, for ALL configurations (unbounded byte strings incl. '=', ';', ':' and multi-byte "
             "runes at the 32-byte limit, all category lists below 2^32, both auto-accept values, every reader with another SKI): "
             "announce -> parseTxt -> processMdnsEntry reads back the same SKI, identifier, path, register flag, categories and "
             "the shortened brand/type/model/serial (C16_txt_roundtrip); shortened fields are <= 32 bytes, a prefix of the input, "
             "unchanged if they fit, and well-formed UTF-8 (RFC 3629 automaton) losing at most 3 bytes when the input is "
             "well-formed (C16_shortened_bounds/_utf8/_announced_fields); QRCodeText reads back, with a reference reader of "
             "SHIP;KEY:value;..;ENDSHIP;, as exactly SKI, ID and the non-empty optionals with ';' removed (C16_qr_roundtrip); the "
             "JSON deep copy handed to the report receiver equals the stored entry for well-formed strings (C16_report_copy). "
             "The three behaviours the pinned tree got wrong are parameters of the model: _refuted theorems give the witnesses "
             "(byte cut inside a rune; Split on every '=' hides the service / drops a field; ';' in SKI/identifier breaks the QR "
             "framing), _partial theorems state the property for any behaviour under the exact side condition; the three were "
             "repaired in /repo (e075337, d4404f3, f0551a4) and the full theorems are proved for the regenerated flags. "
             "Tie, on every run: TXT keys and order, shortening limits, mandatory keys, txtvers, the key each entry field is read "
             "from, separators, QR literals/optional keys and the three behaviour flags are regenerated from the Go AST "
             "(gen/MdnsTable.v; unknown shapes break the proofs); mdnsdrv runs a real MdnsManager over a recording fake provider "
             "(hook mdns/verif_hooks.go), feeds the captured TXT slice through the real parseTxt into a second manager's resolver "
             "callback, and records TXT slice, parsed map, stored entry, reported copy and QRCodeText(); Coq compares each "
             "byte-exactly with the model and evaluates the round-trip monitors on the implementation's own outputs.",
        note="Trusted: Coq kernel + vm_compute; the Go-AST translator (harness/cmd/extract/mdns.go); the mdnsdrv driver, its fake "
             "provider/report receiver and the add-only hooks; Go's fmt %v/%d, strings.Split/SplitN/ReplaceAll, strconv.ParseUint "
             "and encoding/json are modelled (bool text, decimal text, split, strip, 32-bit range, U+FFFD replacement) and "
             "exercised by the tie, not verified. Known finding: a category >= 2^32 is announced but skipped by the reader "
             "(ParseUint(…, 32)); theorem hypothesis cats_in_range. DNS TXT 255-byte limits and the real providers are out of "
             "scope. No axioms (Print Assumptions: closed under the global context).",
        technique="Coq proof (round-trip laws by induction over unbounded strings/lists, UTF-8 automaton invariants) + tables and "
                  "behaviour flags regenerated from source + differential correspondence with monitors evaluated in Coq",
        ref="DESIGN.md §6 C16"),
    imports="From Coq Require Import Uint63.\nFrom Ship Require Import Base Pack Txt.\nOpen Scope N_scope.",
    case_type="c16_case", check_fn="check_c16",
    drivers=[dict(bin="mdnsdrv", args=["-prop", "C16"], n_quick=4000, n_thorough=60000)],
    codes={10: "service_invisible_id_or_ski_contains_equals", 11: "service_invisible",
           12: "mandatory_field_differs_value_contains_equals", 13: "mandatory_field_differs",
           14: "descriptive_field_dropped_value_contains_equals", 15: "shortened_field_splits_rune",
           16: "shortened_field_wrong", 17: "category_above_uint32_dropped", 18: "categories_differ",
           19: "qr_framing_broken_by_semicolon_in_ski_or_id", 20: "qr_text_wrong",
           21: "reported_copy_differs_from_entry"},
    rule="10% shortenString(s, n) alone, any limit n (0..5, around len(s), anywhere), s as the descriptive fields below, 15% "
         "ill-formed. Of the rest: 80% configurations (first the 16 fixed witnesses: runes of 2/3/4 bytes across byte 32, '=' in id/SKI/descriptive "
         "fields, ';' in id/SKI/optionals, empty fields, categories 2^32 and 2^32-1): SKI (hex-40 / arbitrary), identifier, "
         "brand/model/type/serial of 0..80 bytes clustered at 28..37 built from 1-4-byte runes with '=', ';', ':' sprinkled in, "
         "6% with ill-formed UTF-8 spliced in, category lists of length <= 4 over 0..8 (rarely 2^32-1, 2^32, 2^40, 2^64-1; nil "
         "and empty), both auto-accept values (set before announcing or re-announced by SetAutoAccept), 4% readers with the "
         "announcer's own SKI; announce on a real manager -> captured TXT -> real parseTxt -> second manager's resolver callback "
         "-> stored entry (hook copy) and reported copy (polled, capped) -> QRCodeText. 20% arbitrary TXT slices (SHIP records "
         "with 0-3 mutations: missing/duplicate keys, txtvers/register variants, 0/2/3 separators, empty key, own SKI, odd "
         "category items, ill-formed UTF-8) through parseTxt and the callback. distinct = hash of the inputs; non-trivial = some "
         "descriptive field longer than 32 bytes or some string containing '=', ';' or ':' (configurations), a mutated record (TXT), "
         "an input longer than the limit (shortenString).",
    trusted=["fake mDNS provider and report receiver stand in for avahi/zeroconf and the hub",
             "Go library functions fmt, strings, strconv, encoding/json are modelled, not verified"],
    assumptions=["gen/MdnsTable.v (regenerated from mdns/mdns.go, mdns/helper.go) describes the TXT items, limits, mandatory keys, "
                 "read keys, QR literals and the three behaviour flags; txt_table_ok / qr_table_ok are re-evaluated on every build",
                 "device categories are below 2^32 (known finding otherwise)"],
)

SPEC["manifest"]["text"] += ' The report receiver keeps its own copy of what it is handed and then overwrites the entries it got (as the hub rewrites address lists in place): nothing of that may reach what the manager knows.'
