import os, re


def source_flags(ctx):
    """The model's configuration of the current code (cfg_repaired = registration re-checks,
    a dropped stale attempt re-reads the mDNS entries) is read off the source on every run."""
    problems, notes = [], []
    try:
        src = open(os.path.join(ctx["repo"], "hub", "hub_connections.go")).read()
    except OSError as e:
        return dict(problems=[("translator", "cannot read hub/hub_connections.go: %r" % e)])

    def body(name):
        m = re.search(r"\nfunc \(h \*Hub\) %s\(.*?\n}\n" % name, src, re.S)
        return m.group(0) if m else ""
    serve, dial, prep, reg = body("ServeHTTP"), body("connectFoundService"), body("prepareConnectionInitation"), body("registerCheckedConnection")
    checks = [
        ("ServeHTTP registers through registerCheckedConnection(.., true) after keepThisConnection(conn, true, ..) and Run",
         re.search(r"keepThisConnection\(conn, true,.*shipConnection\.Run\(\).*registerCheckedConnection\(shipConnection, true\)", serve, re.S)
         and "h.registerConnection(" not in serve),
        ("connectFoundService registers through registerCheckedConnection(.., false) after keepThisConnection(conn, false, ..) and Run",
         re.search(r"keepThisConnection\(conn, false,.*shipConnection\.Run\(\).*registerCheckedConnection\(shipConnection, false\)", dial, re.S)
         and "h.registerConnection(" not in dial),
        ("registerCheckedConnection: closed -> not registered; rule; loser closed",
         re.search(r"IsDataConnectionClosed\(\).*remoteSKI > h\.localService\.SKI\(\).*h\.localService\.SKI\(\) > remoteSKI.*go loser\.CloseConnection\(false, 0, \"\"\)", reg, re.S)),
        ("prepareConnectionInitation calls checkAutoReannounce when it drops a stale attempt",
         re.search(r"if !exists \|\| currentCounter != counter \{[^}]*h\.checkAutoReannounce\(\)[^}]*return\s*\}", prep, re.S)),
    ]
    for what, ok in checks:
        if not ok:
            problems.append(("translator", "the source no longer has the structure the model's configuration cfg_repaired "
                             "states (theorem C05_convergence is about another program): " + what))
    notes.append("source structure behind cfg_repaired: %d of %d points found" % (sum(1 for _, ok in checks if ok), len(checks)))
    return dict(problems=problems, notes=notes, coverage=dict(source_structure_points=len(checks)))


SPEC = dict(
    manifest=dict(
        text="Machine-checked theorems (Coq 8.16.1). (a) Go's string order on SKIs, modelled on byte lists, is a strict total "
             "order, and hub.keepThisConnection makes both hubs keep the connection initiated by the larger SKI for all "
             "SKI strings x<>y and both arrival orders. (b) An interleaving model of two hubs (visibility, attempt counter, "
             "attempt-running flag, pending delayed dials with their counter snapshots, pending mDNS reports, connection "
             "objects with per-side life cycle and registration status; keepThisConnection, registerConnection and "
             "HandleConnectionClosed as separate atomic steps; disturbances: peer becoming visible, failing dials and hub "
             "restarts at any moment, DisconnectSKI and transport cuts whenever the hubs' own steps have settled) with a "
             "kernel-checked closure of the reachable set (7,896 states) and a ranking certificate: every quiet run is finite "
             "and ends with exactly one connection, the same object registered and live on both sides, nothing else alive, "
             "nothing pending; each registry holds at most one connection. The same for the pinned code under the hypothesis "
             "that check..register is atomic per hub (2,283 states), and three refutation witnesses for the pinned code "
             "without it (two registered connections after simultaneous dials; a closed connection registered for ever; no "
             "connection and nobody dialling after a close while dial attempts were pending) - all three repaired in /repo. "
             "Tie on every run: the real keepThisConnection on thousands of SKI pairs and the real registry/"
             "HandleConnectionClosed against the model inside Coq; ~80 scenarios on two REAL hubs in one process (real TLS and "
             "websockets over loopback, fake mDNS, harness TCP proxies, dial back-off scaled to 0-1 s): SKI order x pairing "
             "before/after visibility x simultaneous or staggered x disturbance lists (DisconnectSKI by either side, cutting "
             "the TCP connections, restarting a hub, simultaneous mDNS events, a close while delayed dials are pending, and compound disturbances inside the 500 ms "
             "window of a graceful close: DisconnectSKI on both hubs 0/50/150/400 ms apart in both orders, DisconnectSKI then a "
             "transport cut 50-400 ms later, a cut then DisconnectSKI; pairing by a hub that does not wait for trust, 100-1500 ms after the peer started dialling it - while an aborted request of the peer is still registered or between two; Shutdown and Start of both hub OBJECTS while each has a delayed dial pending whose timer expires while the hubs are down); at "
             "quiescence (polled) the live TCP connections through the proxies, both registries, completion, live set-up "
             "connections and a SPINE payload in both directions are recorded and the model's monitor decides inside Coq; the "
             "source structure the model's configuration states (registration through registerCheckedConnection, the "
             "re-request on a dropped attempt) is re-read from hub_connections.go on every run.",
        note="Bounds of the model: 2 hubs, <= 3 connection objects in flight, <= 2 pending dials and 1 pending report per hub; "
             "the SHIP handshake is abstracted to 'live' (C03: two trusting endpoints complete); both hubs trusted throughout "
             "(pairing after visibility is exercised on the real hubs only); dial timers expire when nothing else can happen, "
             "one alone or both hubs' together (simultaneous dial); DisconnectSKI/cut hit a settled system; real mDNS timing "
             "and TCP are replaced by the fake and the proxies. Trusted: Coq kernel + vm_compute; the drivers hubunit/hubdrv "
             "and their fakes; the regular-expression source check. No axioms.",
        technique="Coq proof (order laws by induction; certified closure + ranking certificate, refutation witnesses by vm_compute) "
                  "+ differential correspondence + two-real-hub system scenarios with the monitor evaluated in Coq",
        ref="DESIGN.md §6 C05"),
    imports="From Ship Require Import Base HubConv.\nOpen Scope N_scope.",
    case_type="c05_case", check_fn="check_c05",
    drivers=[dict(bin="hubunit", args=["-prop", "C05"], n_quick=2000, n_thorough=40000),
             dict(bin="hubdrv", args=["-prop", "C05"], n_quick=82, n_thorough=400, timeout=1200)],
    codes={10: "both_simultaneous_connections_registered", 11: "zero_connections_nothing_pending",
           12: "closed_connection_registered", 13: "two_completed_connections",
           14: "unregistered_extra_connection", 15: "different_objects_kept",
           16: "live_connection_not_registered", 17: "registered_connection_not_complete",
           18: "payload_not_delivered",
           20: "keep_rule_not_larger_ski_initiator", 21: "two_registry_entries_for_one_ski",
           22: "close_removed_another_object"},
    rule="hubunit (90% CKeep, 10% CReg): a real hub.Hub with local SKI l, with or without a registered (fake) connection "
         "to r, asked through keepThisConnection whether a new incoming/outgoing connection is kept - SKI pairs random, "
         "with a common prefix, differing in the last character, one a proper prefix of the other, of different lengths, "
         "equal; registry cases: register one or two connections for a SKI, HandleConnectionClosed of the first or the "
         "second, registry read back. hubdrv: one case per two-real-hub scenario with the quiescent observation. "
         "distinct = hash of the input part; non-trivial = a registered connection exists and l<>r (CKeep), every "
         "registry case, every system scenario.",
    trusted=["hub fakes (FakeConn/FakeReader/FakeMdns) in the unit part; fake mDNS and TCP proxies in the system part",
             "the hook VerifCoordinate stands for a report goroutine that passed its connected-check earlier (scenarios pending_*)",
             "quiescence of the real hubs is judged by polling: good state stable for 600 ms and no attempt running, or an unchanged observation for 6 s"],
    assumptions=["HA is the hub with the larger SKI (the model's names are arbitrary; rule (a) is proved for all SKI pairs)",
                 "bounds: 2 hubs, <= 3 connection objects, <= 2 pending dials per hub, 1 pending report per hub",
                 "dial timers are timely in the model (expire when nothing else can happen, alone or both together)",
                 "source structure of ServeHTTP/connectFoundService/registerCheckedConnection/prepareConnectionInitation as checked by checks/C05.py"],
    extra_steps=[source_flags],
)
