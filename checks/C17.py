import json, os


def inversion_replay(ctx):
    """Statistical replay of the model-level refutation C17_last_report_any_order_refuted on the real code
    (two adds back to back, a receiver that does not serialise).  Recorded in the evidence; never decides
    the exit code."""
    p = os.path.join(ctx["wd"], "cases_0.jsonl.inversion.json")
    if not os.path.exists(p):
        return dict(notes=["report-inversion replay: not run"])
    d = json.load(open(p))
    return dict(coverage=dict(report_inversion_replay=d),
                notes=["report-inversion replay on the real code: last delivered report was not the final map in %d of %d trials; "
                       "with a real hub.Hub as receiver the last VisibleRemoteServicesUpdated was stale in %d of %d trials"
                       % (d.get("last_delivered_report_is_not_the_final_map", -1), d.get("trials", 0),
                          d.get("hub_last_VisibleRemoteServicesUpdated_is_stale", -1), d.get("hub_trials", 0))])


SPEC = dict(
    manifest=dict(
        text="Machine-checked theorems (Coq 8.16.1) about an executable model of the map maintenance in "
             "MdnsManager.processMdnsEntry over ALL finite histories of resolver events (add/update/remove, any TXT "
             "elements, any names/hosts/ports, any address lists with abstract addresses {is_v4; is_v6_linklocal; text}): "
             "(a) by induction over the history, for every SKI the entries map equals the specification — visible iff added "
             "with valid mandatory TXT (txtvers 1, id, path, ski, boolean register; not the local SKI; validation shared with "
             "C16) and not removed since, described by the add that made it visible, addresses = duplicate-free union (by "
             "text) of the usable (non IPv6-link-local) addresses reported since (C17_refinement); the pinned code stored a "
             "new entry's address list as it came (C17_first_add_duplicates_refuted, repaired in /repo; "
             "C17_refinement_faithful/_partial cover both behaviours). (b) reports are snapshots handed to one goroutine per "
             "change: delivered in spawn order the last report is the final map (C17_last_report_in_order), in any order "
             "every report is the map after some prefix of the history (C17_any_order_report_is_some_past_state), but the "
             "last delivered one need not be the final one (C17_last_report_any_order_refuted: two changes, second goroutine "
             "first) — recorded finding, replayed statistically on the real code. Tie, on every run: the de-duplication flag, "
             "mandatory keys and read keys are regenerated from the Go AST; mdnsdrv drives the real resolver callback "
             "(hook mdns/verif_hooks.go) with histories of length <= 40 over 4 services, 14 TXT records (9 damaged), 7 "
             "addresses (both byte forms of one IPv4, IPv4/IPv6 link-local, duplicates inside one call), repeated adds, "
             "removes of unknown services, and records after every event the stored SKIs, the touched entry before/after and "
             "the reported snapshot (polled, capped), at the end the full map and last report; Coq compares them with the "
             "model and evaluates the monitors (map = spec of the history, SKI set after every prefix, report iff change and "
             "showing that state, last in-order report = final map) on the implementation's own observations.",
        note="Trusted: Coq kernel + vm_compute; the Go-AST translator; the mdnsdrv driver, its serialising report receiver and "
             "the add-only hooks (VerifEntries copies the map under the manager's lock); net.IP.To4/IsLinkLocalUnicast/String "
             "are abstracted to {is_v4; is_v6_linklocal; text} computed by the driver with the same library calls. Known "
             "finding: report delivery order is up to the Go scheduler (with back-to-back changes the later goroutine usually "
             "runs first), so the application's last VisibleRemoteServicesUpdated can show a stale set. The real providers "
             "and the hub's use of the report are out of scope. No axioms (Print Assumptions: closed under the global context).",
        technique="Coq proof (refinement by induction over unbounded histories, any-order delivery via Permutation) + flags "
                  "regenerated from source + differential correspondence with monitors evaluated in Coq + statistical replay",
        ref="DESIGN.md §6 C17"),
    imports="From Coq Require Import Uint63 ZArith.\nFrom Ship Require Import Base Pack Txt MdnsMap.\nOpen Scope N_scope.",
    case_type="c17_case", check_fn="check_c17",
    drivers=[dict(bin="mdnsdrv", args=["-prop", "C17"], n_quick=1600, n_thorough=30000)],
    codes={10: "map_differs_from_history_duplicate_address_in_one_add", 11: "map_differs_from_history",
           12: "visible_ski_set_differs_after_some_prefix", 13: "report_missing_spurious_or_not_the_stored_state",
           14: "last_in_order_report_is_not_the_final_map",
           30: "last_delivered_report_stale_when_goroutines_reorder"},
    rule="histories of 1..40 resolver-callback calls (25% 1-6, 25% 6-17, 50% 15-40; the first two cases are the fixed "
         "witnesses: one add carrying an address twice; both byte forms of one IPv4 in the first add, remove, re-add) on a "
         "fresh real MdnsManager: each call picks one of 14 TXT records (4 services, a second different record of service 1, "
         "9 damaged: empty, txtvers 2, register 'maybe', no ski, no id, own SKI, no path, no txtvers, no register; 12% damaged; histories focused on "
         "one, two or all services), 18% removes (70% of them without addresses, like avahi), 0-3 addresses out of 7 with "
         "20% repeats inside one call; name/host/port identify the call. distinct = hash of the event list; non-trivial = "
         "some call hits an already stored service (merge, repeated add or remove of a visible service).",
    trusted=["serialising report receiver stands in for the hub; delivery order of the real goroutines is only sampled "
             "(extra step, never decides)",
             "addresses are abstracted to {is_v4; is_v6_linklocal; text}; the driver computes the three with net.IP's own methods"],
    assumptions=["gen/MdnsTable.v dedup_new_entry (regenerated from mdns/mdns.go) says whether a new entry's address list is "
                 "de-duplicated; TXT validation is the C16 model entry_of_txt",
                 "report deliveries may be reordered by the scheduler (known finding); the in-order theorem is what a "
                 "serialising receiver observes"],
    extra_steps=[inversion_replay],
)

# the hub's part of the property (mDNS report -> VisibleRemoteServicesUpdated): hub-model case stream of C10
SPEC["streams"] = [dict(imports="From Ship Require Import Base HubModel HubStreams.", case_type="c10_case", check_fn="check_hub_C17",
                        drivers=[dict(bin="hubunit", args=["-prop", "C10"], n_quick=600, n_thorough=20000, timeout=2400)],
                        codes={130: "visible_services_list_differs_from_reported_entries"})]

SPEC["manifest"]["text"] += ' The report receiver keeps its own copy of what it is handed and then overwrites the entries it got (as the hub rewrites address lists in place): nothing of that may reach what the manager knows.'
