SPEC = dict(
    manifest=dict(
        text="Machine-checked theorems (Coq 8.16.1) about an executable model of ship/helper.go: JSON documents are trees with "
             "opaque literal bytes (so member order and number literals are part of equality); to_eebus is the tree rewrite of "
             "JsonIntoEEBUSJson, render is Go's compact json.Marshal text, from_eebus is JsonFromEEBUSJson byte for byte "
             "(string literals copied, between them a generic leftmost non-overlapping ReplaceAll for each of the four pattern "
             "pairs regenerated from the Go AST, then the NUL trim). Proved for all documents of any depth and width: (a) the "
             "wire tree has exactly the SHIP shape - every object, at every level, becomes the array of its single-member objects "
             "in order and nothing else changes, and the shape determines the tree; (b) from_eebus(wire d) = render(norm d) for "
             "every lexically well-formed document with a non-empty top-level object and ANY string contents, where norm turns "
             "empty arrays into empty objects, hence = render d without empty arrays; (c) the unrestricted statement is refuted "
             "with witnesses ({\"a\":[]}, the empty document) and the repaired defect is kept as a theorem about the whole-text "
             "replacement ({\"a\":\"[{x}]\"} came back as {\"a\":\"{x}\"}); (d) member names and scalar literals come back in the "
             "same order, digit for digit; (e) end to end through the SHIP data envelope (placeholder splice): the text the receiver "
             "decodes from the sender's websocket message is the envelope around exactly render(norm d). Tie, checked on every run: the real JsonFromEEBUSJson against the model byte-exact on "
             "arbitrary and mutated wire text, the real JsonIntoEEBUSJson against the model as text and as trees on random "
             "documents, two real ShipConnections (WriteShipMessageWithPayload -> HandleIncomingWebsocketMessage -> SPINE reader, "
             "also buffered before completion) against the envelope model, and the shape and round-trip monitors of the theorems evaluated inside Coq on the implementation's own outputs.",
        note="Trusted: Coq kernel + vm_compute; the Go-AST translator (harness/cmd/extract/eebus.go); jsondrv (generator, its "
             "tokenizer, case transport code). Modelled, not verified: encoding/json and go-ordered-json decoding and string "
             "escaping (the model starts from the decoded tree with literals in json.Marshal's spelling); documents with "
             "duplicate member names are outside the model. No axioms (Print Assumptions: closed under the global context). "
             "Repaired in /repo: replacements inside string literals (932d958). Known findings: an empty array comes back as an "
             "empty object (inherent in the wire form, SPINE relies on it); the empty document has an empty wire text.",
        technique="Coq proof (nested induction over trees, token-level simulation of the four ReplaceAll passes, scanner lemma for string literals) + table regenerated from source + differential correspondence with in-Coq monitors",
        ref="DESIGN.md §6 C07"),
    imports="From Ship Require Import Base Eebus.",
    case_type="bytes", check_fn="check_c07_enc",
    drivers=[dict(bin="jsondrv", args=["-prop", "C07"], n_quick=3000, n_thorough=30000)],
    codes={10: "wire_shape_wrong",
           11: "roundtrip_lost_empty_array",
           12: "roundtrip_corrupted_string_containing_pattern",
           13: "roundtrip_lost_empty_document",
           14: "roundtrip_other_loss",
           15: "spine_payload_not_delivered"},
    rule="fixed inputs first (the refutation witnesses of props/C07.v, the helper_test.go messages, SHIP handshake messages, "
         "pattern fragments); then 15% SPINE payload documents sent through one real ShipConnection and received by another "
         "(half of them buffered before the receiver's handshake completes); 47% random documents with a top-level object (depth <= 6, width <= 6, <= 50 nodes, empty "
         "objects/arrays, strings over alphabets rich in []{},\"\\ plus control/non-ASCII/HTML characters, numbers incl. 30+ "
         "digits, exponents, -0, 1.0; true/false/null; a quarter re-spelled with other escapes and white space in the input) "
         "through the real JsonIntoEEBUSJson then JsonFromEEBUSJson, outputs tokenised by the driver's own order- and "
         "literal-preserving parser; 18% arbitrary byte strings (structural alphabet / any byte / pattern fragments) and 20% "
         "mutated or NUL-padded wire text through the real JsonFromEEBUSJson. distinct = hash of the input (document text or "
         "bytes); non-trivial = the implementation's output differs from the (compact) input, i.e. the transform did something "
         "(end to end: a payload was delivered for a document of more than two nodes).",
    trusted=["ship.VerifApproveHandshake (build tag verif) completes the handshake of the two real connections; fake websocket writer / SPINE reader / info provider in jsondrv",
             "encoding/json + go-ordered-json decoding and string escaping are outside the model (literals are canonicalised with json.Marshal by the driver)",
             "member names are distinct within an object (go-ordered-json keeps one value for a repeated name)"],
    assumptions=["eebus_pairs / trim cutset / strip literals (regenerated from ship/helper.go) are the passes JsonFromEEBUSJson applies, in order",
                 "semantic equality of compact documents with canonical literals is equality of their rendered bytes (and of the driver's token trees; both are compared)"],
)
