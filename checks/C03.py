import connspec
SPEC = dict(
    imports="From Ship Require Import Base Conn ConnMon Pair PairClosure PairCheck.",
    case_type="pair_case", check_fn="check_pair",
    drivers=[dict(bin="shipdrv", args=["-prop", "pair"], n_quick=600, n_thorough=12000, timeout=2400)],
    codes={70: "approved_before_peer_ready_handshake_failed", 71: "trusted_pair_did_not_complete",
           72: "untrusted_pair_completed_or_did_not_end", 73: "sides_disagree_at_rest",
           74: "remote_device_set_up_twice", 75: "completed_without_trust", 76: "spine_datagrams_not_exactly_once_in_order",
           77: "completed_after_user_cancel_in_hello_phase", 78: "error_state_with_transport_open", 79: "completed_although_the_stored_ship_id_differs"},
    rule="shipdrv -prop pair: a real client-role and a real server-role ship.ShipConnection joined by two FIFO queues owned "
         "by the harness, which is the scheduler. 17 directed configurations first (among them the recorded finding, prolongation rounds, user actions while a trusting server waits in ready-listen, devices whose SHIP id contains the word 'datagram'), then "
         "random configurations (paired/auto/allow/approves/cancels x stored-id unknown/right/wrong per side; the ids themselves are arbitrary strings, a wrong stored id is another id or the right one in another letter case or with a blank appended) with a random "
         "schedule of the labels of Pair.v: deliver the oldest frame in either direction, approve, cancel, timer expiry on "
         "either side (only when nothing else can happen and the user has acted - and, in the directed patient runs and a third of the random ones, up to three expiries of the pending server's timer before the user acts: prolongation rounds; in a quarter of the random runs racing expiries as in PairArb.v), a real 1.25 s wait for the time.After "
         "goroutines; a CloseDataConnection travels behind the frames in flight and arrives as ReportConnectionError. "
         "After every label both sides' state, closed flag, timer flag, setup count, Complete seen, SHIP id reported and the "
         "content of both queues (frame kinds decoded from the real bytes) are compared with the model. "
         "distinct = hash of (configuration, label list, summaries); non-trivial = at least 6 labels.",
    trusted=connspec.TRUSTED + ["decode_as (Pair.v): what a frame written by ship-go looks like to each decoder of the peer - validated "
             "through the states the real receiver reaches", "the harness owns the two queues: FIFO, reliable until closed (TCP/websocket semantics assumed)"],
    assumptions=["timely mode as defined in Pair.timely_next; patient mode as defined in PairPatient.patient_next", "the user acts at most once per run"],
    search=dict(driver=0, more=2500),
    manifest=dict(
        text="Theorems (Coq) on the two-endpoint model (client and server connection = the same control model as C01/C04, joined "
             "by FIFO channels), for all 288 configurations (server trust x user behaviour x stored SHIP ids) and every "
             "interleaving of deliveries, user action, deferred goroutines, close propagation and timely timer expiries - by "
             "one certified closure per configuration (no depth bound) plus a ranking certificate: (safety) no side completes "
             "without the server's trust, each side sets the device up at most once, ids are pinned/reported as stored; "
             "(outcome) where nothing more can happen both sides are Complete on an open connection or both have ended with "
             "the transport closed, the former whenever trust is settled or approved and ids are consistent, the latter when "
             "trust is never given; (termination) every timely run is finite unless nobody ever answers. Arbitrary mode: for "
             "every event list of a single endpoint a side that gave up has closed or will close the transport, and a "
             "transport error always ends the side (closure of the connection model). PARTIAL: the timely theorems assume the "
             "user approves only after the server has received the client's hello; without that the property is REFUTED "
             "(witness theorem, replayed on two real connections every run, recorded as a known finding: approval while the "
             "client's hello is still in flight makes the server read it as a protocol-handshake message and both sides end "
             "in error); global convergence under arbitrary delays (A3/A4 of DESIGN.md) is not proved. Tie: per-label "
             "differential comparison of both real endpoints and both queues with the model; outcome monitor evaluated on the "
             "implementation's summaries. "
             "Patient mode (PairPatient.v): while the user has not acted the pending server's timer may expire any number of times (prolongation request, answer, re-arm) and the approval or cancel comes between any two rounds - a second certified closure for all 288 configurations, safety everywhere and the correct outcome in every state without successor (C03_patient_agreement_partial; approval restricted to moments at which no hello of the client is under way - the recorded finding). The pair driver schedules such rounds; a trusted pair whose own last summary shows both sides ended with nothing in flight and no timer other than prolongation expiries is reported as trusted_pair_did_not_complete.",
        note="Trusted: Coq kernel + vm_compute (288 closure tables of <= ~120 states, ranking tables computed by an unverified "
             "relaxation and checked); the pair driver (harness-owned FIFO queues stand for the websocket); decode_as; timers "
             "ideal (C14). No axioms.",
        technique="certified closure + ranking certificate per configuration on the two-endpoint interleaving model; closure of the single-endpoint model for arbitrary mode; differential correspondence",
        ref="DESIGN.md §6 C03"),
)

SPEC["manifest"]["text"] += (" Racing mode (PairArb.v), for the property's second sentence: every label at any moment - deliveries, the user's approval or cancel at "
    "ANY moment (the moments of the recorded finding included), deferred goroutines, and the expiry of either side's timer at any point relative to all of these, in "
    "particular while a frame for the expiring side is in flight (one restriction keeps the channels finite: a timer expires only when the peer has taken what the expiring "
    "side wrote before and at most one frame is in flight towards it). Third certified closure for all 288 configurations (50,082 states, largest table 588): safety in every "
    "reachable state, every state in which nothing more can happen is an agreement (both complete on an open connection or both ended, closed, no timer armed) "
    "(C03_racing_agreement_partial), and from EVERY reachable state such a state can still be reached - a kernel-checked distance certificate "
    "(C03_racing_agreement_stays_reachable_partial). A quarter of the random pair runs are scheduled in this mode; after a racing expiry the monitor demands agreement, not success.")
SPEC["assumptions"] += ["racing mode as defined in PairArb.arb_next (expiry_held)"]

# the patient- and racing-mode theorems live in their own statement file (compiled and assumption-checked on every run;
# coqchk in the thorough tier re-checks props/C03.v only - see the header of props/C03_modes.v)
SPEC["props_extra"] = ["props/C03_modes.v"]
