# scratch spec: correspondence of the Conn model only (no property claimed)
SPEC = dict(
    imports="From Ship Require Import Base Conn ConnData.",
    case_type="conn_case", check_fn="check_conn_corr",
    drivers=[dict(bin="shipdrv", args=["-prop", "conn"], n_quick=600, n_thorough=20000)],
    codes={}, rule="", props="props/C15.v",
)
