(* C16 — what a service announces via mDNS is what a ship-go browser reads back; the QR
   text reads back as exactly SKI, identifier and the optional fields.
   Statements only; every proof is `exact <lemma>` (lemmas in theories/TxtProofs.v).

   Model (theories/Txt.v): byte strings are lists of N, unbounded.  [txt fl c] is the TXT
   slice AnnounceMdnsEntry builds for configuration c, [parse_txt] is helper.go's parseTxt,
   [entry_of_txt own] processMdnsEntry's validation and field extraction on a manager whose
   own SKI is [own], [read_back fl own c] their composition, [qr fl c] QRCodeText,
   [parse_qr] a reference reader of SHIP;KEY:value;…;ENDSHIP;.  [fl : mflags] carries the
   three behaviours that were repaired (rune-boundary back-off, SplitN, ';'-stripping of SKI
   and identifier); [gen_flags] and all tables are regenerated from the Go source. *)
From Ship Require Import Base Txt TxtProofs.
From ShipGen Require Import MdnsTable.

(* the regenerated tables satisfy the side conditions all proofs below rely on (keys
   distinct and free of '=', mandatory keys announced unconditionally, every entry field
   read from the key it is announced under, QR literals and optional keys well-formed, the
   translator understood every shape) *)
Theorem C16_tables_ok : txt_table_ok = true /\ qr_table_ok = true.
Proof. exact (conj txt_table_ok_now qr_table_ok_now). Qed.
Print Assumptions C16_tables_ok.

(* processMdnsEntry accepts exactly the records the property calls valid: the five mandatory
   keys present, txtvers "1", SKI not the reader's own, register "true" or "false" *)
Theorem C16_validation :
  forall (own : bytes) (m : elements), is_some (entry_of_txt own m) = txt_valid own m.
Proof. exact validation_agrees. Qed.
Print Assumptions C16_validation.

(* TXT round trip, the code as it is now: for EVERY configuration (any byte strings, any
   length, '=' ';' ':' included), both auto-accept values, every category list within
   32 bits and every reader with another SKI, the entry read back carries the same SKI,
   identifier, path, register flag and categories and the shortened brand/type/model/serial *)
Theorem C16_txt_roundtrip :
  forall (c : mcfg) (own : bytes),
    own <> c_ski c -> cats_in_range c = true ->
    read_back gen_flags own c = Some (expected_entry gen_flags c).
Proof. exact read_back_now. Qed.
Print Assumptions C16_txt_roundtrip.

(* the same for ANY of the behaviours, provided parseTxt cuts at the first '=' only or no
   configuration string contains '=' — exactly the region the pinned parseTxt got right *)
Theorem C16_txt_roundtrip_partial :
  forall (fl : mflags) (c : mcfg) (own : bytes),
    fl_splitn fl = true \/ forallb (fun s => negb (has_byte txt_sep s)) (cfg_strings c) = true ->
    own <> c_ski c -> cats_in_range c = true ->
    read_back fl own c = Some (expected_entry fl c).
Proof. exact read_back_partial. Qed.
Print Assumptions C16_txt_roundtrip_partial.

(* pinned parseTxt (Split on every '='): identifier "a=b" makes the whole service invisible *)
Theorem C16_split_on_every_separator_refuted :
  forall fl, fl_splitn fl = false ->
  exists c own, own <> c_ski c /\ cfg_utf8 c = true /\ cats_in_range c = true /\ read_back fl own c = None.
Proof. exact split_every_sep_hides_service. Qed.
Print Assumptions C16_split_on_every_separator_refuted.

(* ... and brand "a=b" is read back as the empty string *)
Theorem C16_split_on_every_separator_drops_field_refuted :
  forall fl, fl_splitn fl = false ->
  exists c own e, own <> c_ski c /\ cfg_utf8 c = true /\ cats_in_range c = true /\
                  read_back fl own c = Some e /\ e_brand e <> val fl c SBrand.
Proof. exact split_every_sep_drops_field. Qed.
Print Assumptions C16_split_on_every_separator_drops_field_refuted.

(* no slack in the category hypothesis: category 2^32 is announced and not read back
   (strconv.ParseUint(item, 10, 32)) — recorded finding *)
Theorem C16_category_range_refuted :
  forall fl, exists c own e,
    own <> c_ski c /\ cfg_utf8 c = true /\ read_back fl own c = Some e /\ e_cats e <> c_cats c.
Proof. exact category_out_of_range_dropped. Qed.
Print Assumptions C16_category_range_refuted.

(* shortenString, either variant: at most n bytes, a prefix of the input, the input itself if it fits *)
Theorem C16_shortened_bounds :
  forall (rune_boundary : bool) (s : bytes) (n : N),
    N.of_nat (length (shorten rune_boundary s n)) <= n
    /\ (exists t, s = shorten rune_boundary s n ++ t)
    /\ (N.of_nat (length s) <= n -> shorten rune_boundary s n = s).
Proof. exact shorten_bounds. Qed.
Print Assumptions C16_shortened_bounds.

(* shortenString as it is now: a well-formed input stays well-formed UTF-8 (RFC 3629) and
   loses at most three bytes below the limit *)
Theorem C16_shortened_utf8 :
  forall (s : bytes) (n : N),
    utf8_valid s = true ->
    utf8_valid (shorten (fl_rune gen_flags) s n) = true
    /\ (n < N.of_nat (length s) -> n < N.of_nat (length (shorten (fl_rune gen_flags) s n)) + 4).
Proof. exact shorten_now_utf8. Qed.
Print Assumptions C16_shortened_utf8.

(* the four announced descriptive fields of every well-formed configuration: within the
   limit (32), prefixes of the inputs, well-formed *)
Theorem C16_announced_fields :
  forall c, cfg_utf8 c = true ->
  Forall (fun p => N.of_nat (length (snd p)) <= short_limit /\ (exists t, fst p = snd p ++ t)
                   /\ utf8_valid (snd p) = true)
         (descr c (expected_entry gen_flags c)).
Proof. exact announced_fields_now. Qed.
Print Assumptions C16_announced_fields.

(* pinned shortenString (cut at byte 32): 31 ASCII bytes + U+00E9 is announced ill-formed *)
Theorem C16_byte_cut_refuted :
  exists s, utf8_valid s = true /\ utf8_valid (shorten false s 32) = false.
Proof. exact byte_cut_splits_rune. Qed.
Print Assumptions C16_byte_cut_refuted.

(* QR text, the code as it is now: for EVERY configuration it reads back as exactly SKI, ID
   and the non-empty optional fields, values with ';' removed *)
Theorem C16_qr_roundtrip :
  forall c, parse_qr (qr gen_flags c) = Some (qr_fields gen_flags c).
Proof. exact qr_now. Qed.
Print Assumptions C16_qr_roundtrip.

(* for any stripping behaviour: an unstripped SKI / identifier must not contain ';' *)
Theorem C16_qr_roundtrip_partial :
  forall fl c a b,
    qrargs_shape fl a b ->
    (a = true \/ has_byte 59 (c_ski c) = false) -> (b = true \/ has_byte 59 (c_id c) = false) ->
    parse_qr (qr fl c) = Some (qr_fields fl c).
Proof. exact qr_ok. Qed.
Print Assumptions C16_qr_roundtrip_partial.

(* pinned QRCodeText: identifier "a;b" breaks the framing, SKI "a;ID:x" forges a field *)
Theorem C16_qr_unsanitised_id_refuted :
  forall fl a, qrargs_shape fl a false ->
  exists c, utf8_valid (c_id c) = true /\ parse_qr (qr fl c) <> Some (qr_fields fl c).
Proof. exact qr_unsanitised_breaks. Qed.
Print Assumptions C16_qr_unsanitised_id_refuted.

Theorem C16_qr_unsanitised_ski_refuted :
  forall fl b, qrargs_shape fl false b ->
  exists c, utf8_valid (c_ski c) = true /\ parse_qr (qr fl c) <> Some (qr_fields fl c).
Proof. exact qr_unsanitised_ski_breaks. Qed.
Print Assumptions C16_qr_unsanitised_ski_refuted.

(* the copy handed to the report receiver (util.DeepCopy, through JSON) equals the stored
   entry whenever the stored strings are well-formed; ill-formed bytes do not survive it *)
Theorem C16_report_copy :
  (forall e, forallb utf8_valid (entry_strings e) = true -> report_copy e = e)
  /\ (exists s, json_copy s <> s).
Proof. exact (conj report_copy_valid json_copy_invalid_changes). Qed.
Print Assumptions C16_report_copy.

(* the monitors bin/check evaluates on the implementation's observations never fire on the
   model's outputs: well-formed configuration, categories within range, reader with another SKI *)
Theorem C16_monitors_hold :
  forall c own,
    cfg_utf8 c = true -> cats_in_range c = true -> own <> c_ski c ->
    monitors gen_flags own c (read_back gen_flags own c)
             (option_map report_copy (read_back gen_flags own c)) (qr gen_flags c) = [].
Proof. exact monitors_hold_now. Qed.
Print Assumptions C16_monitors_hold.

(* the hypotheses are satisfiable by a non-trivial configuration: 2-byte rune across the
   limit, '=' ';' ':' in values, two categories *)
Theorem C16_example_in_scope :
  cfg_utf8 example_cfg = true /\ cats_in_range example_cfg = true /\ [57] <> c_ski example_cfg
  /\ (exists e, read_back gen_flags [57] example_cfg = Some e
                /\ e_id e = c_id example_cfg /\ length (e_brand e) = 31%nat /\ e_cats e = [2; 7])
  /\ parse_qr (qr gen_flags example_cfg)
     = Some [(b_SKI, [97; 98]); (b_ID, [105; 61; 120; 121]); ([66; 82; 65; 78; 68], repeat 97 31);
             ([84; 89; 80; 69], [58]); ([77; 79; 68; 69; 76], [109; 61; 61]); ([67; 65; 84], [50; 44; 55])].
Proof. exact example_in_scope. Qed.
Print Assumptions C16_example_in_scope.
