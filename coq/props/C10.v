(* C10 — Pairing follows user intent.  Statements only; every proof is `exact <lemma>`.
   Model: coq/theories/HubModel.v (hstep: one hub entry point or one internal step of a
   delayed dial per label; hrun: unbounded label lists). *)
From Ship Require Import Base HubModel HubModelProofs.
From ShipGen Require Import StateTable HubTable.

(* (a) in every hub state, for every configuration: a websocket dial to k starts only in
   the step "the pending dial of k fires", and only if at that moment k is trusted or its
   pairing state is Queued (and k has no registered connection) *)
Theorem C10_dial_only_trusted_or_queued :
  forall (C : cfg) (h : hub) (l : label) (k : N),
    In k (dials_of (snd (hstep C h l))) ->
    l = LFire k /\ may_dial (get h k) = true /\ s_reg (get h k) = None
    /\ (c_gprep C = true -> h_down h = false).
Proof. exact dial_step. Qed.
Print Assumptions C10_dial_only_trusted_or_queued.
