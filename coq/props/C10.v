(* C10 — Pairing follows user intent.  Statements only; every proof is `exact <lemma>`.
   Model: coq/theories/HubModel.v — hstep C h l: one hub entry point, or one internal step
   of a delayed dial (LFire: the pending dial's preparation up to the websocket Dial;
   LDialOk / LDialFail: the dial in flight returns), per label; hrun: unbounded label
   lists.  C : cfg holds the universe of SKIs, the SKI order and the table regenerated
   from hub/*.go (which places consult the shut-down flag); theorems hold for every C
   unless they name the table. *)
From Ship Require Import Base HubModel HubModelProofs HubWindowProofs.
From ShipGen Require Import StateTable HubTable.

(* (a) in every hub state: a websocket dial to k starts only in the step "the pending dial
   of k fires", and only if at that moment k is trusted or its pairing state is Queued,
   k has no registered connection and (if the preparation consults the flag) the hub is
   not shut down *)
Theorem C10_dial_only_trusted_or_queued :
  forall (C : cfg) (h : hub) (l : label) (k : N),
    In k (dials_of (snd (hstep C h l))) ->
    l = LFire k /\ (s_trusted (get h k) || queued (get h k)) = true /\ s_reg (get h k) = None
    /\ (c_gprep C = true -> h_down h = false).
Proof. exact dial_step. Qed.
Print Assumptions C10_dial_only_trusted_or_queued.

(* (a) "trusted or queued" arises only from RegisterRemoteSKI(k), from a hello-ok report
   for k, or from a report of a state the hub maps to Queued (only CmiStateInitStart, see
   C10_only_initial_state_maps_to_queued; connections report state changes only) — never
   from an mDNS report, an inbound request, a close report or any other label *)
Theorem C10_trust_and_queue_origin :
  forall (C : cfg) (h : hub) (l : label) (k : N),
    may_dial (get (fst (hstep C h l)) k) = true -> may_dial (get h k) = false ->
    regrants l k = true.
Proof. exact grant_origin. Qed.
Print Assumptions C10_trust_and_queue_origin.

Theorem C10_only_initial_state_maps_to_queued :
  filter (fun st => N.eqb (pair_state_of st) ConnectionStateQueued) (map N.of_nat (seq 0 64)) = [CmiStateInitStart].
Proof. exact only_initstart_maps_to_queued. Qed.
Print Assumptions C10_only_initial_state_maps_to_queued.

(* (a), histories: from any state in which k is neither trusted nor queued, over any label
   list (any mDNS reports, inbound requests, pending dials firing, operations on other
   SKIs ...) that does not re-grant trust to k, no dial to k ever starts and k stays
   untrusted and unqueued *)
Theorem C10_no_dial_without_registration :
  forall (C : cfg) (k : N) (ls : list label) (h : hub),
    may_dial (get h k) = false ->
    (forall l, In l ls -> regrants l k = false) ->
    ~ In k (dials_of (snd (hrun C h ls))) /\ may_dial (get (fst (hrun C h ls)) k) = false.
Proof. exact no_grant_no_dial. Qed.
Print Assumptions C10_no_dial_without_registration.

(* (b) UnregisterRemoteSKI(k), in any state: k is untrusted, its state None, its attempt
   counter gone, and the registered connection (if any) is told to close with 4500 *)
Theorem C10_unregister_effect :
  forall (C : cfg) (h : hub) (k : N),
    let h' := fst (hstep C h (LUnregister k)) in
    let o := snd (hstep C h (LUnregister k)) in
    s_trusted (get h' k) = false /\ s_pst (get h' k) = ConnectionStateNone /\ s_counter (get h' k) = None
    /\ may_dial (get h' k) = false
    /\ (forall c, s_reg (get h k) = Some c -> In (OClose c true 4500) o).
Proof. exact unregister_effect. Qed.
Print Assumptions C10_unregister_effect.

(* (b) after UnregisterRemoteSKI(k), whatever was pending: every delayed dial to k that
   fires later is dropped at its checks, no dial to k starts and k stays untrusted, for
   every continuation without re-registration / hello-ok report for k *)
Theorem C10_no_dial_after_unregister :
  forall (C : cfg) (h : hub) (k : N) (ls : list label),
    (forall l, In l ls -> regrants l k = false) ->
    let r := hrun C (fst (hstep C h (LUnregister k))) ls in
    ~ In k (dials_of (snd r)) /\ may_dial (get (fst r) k) = false.
Proof. exact no_dial_after_unregister. Qed.
Print Assumptions C10_no_dial_after_unregister.

(* (b) REFUTED in one region (finding client_connection_completed_after_unregister): a dial
   already in flight when the user unregisters completes afterwards as a client-role
   connection, is registered, and its hello-ok report makes k trusted again *)
Theorem C10_unregister_window_refuted :
  let h := fst (hrun window_cfg (hub0 true) window_run) in
  s_trusted (get h 0) = true /\ s_reg (get h 0) = Some 1
  /\ run_window window_cfg ghost0 (hub0 true) window_run = [19]
  /\ window_free window_cfg (hub0 true) window_run = false.
Proof. exact window_witness. Qed.
Print Assumptions C10_unregister_window_refuted.

(* (b) outside that region the statement holds, for every configuration and unbounded
   label lists from a fresh hub: if the user never unregisters / cancels a SKI while a dial
   to it is in flight (window_free), no client-role connection is ever created towards a
   SKI the user unregistered (and not re-registered / re-trusted by a hello-ok report) *)
Theorem C10_unregister_window_partial :
  forall (C : cfg) (started : bool) (ls : list label),
    window_free C (hub0 started) ls = true -> run_window C ghost0 (hub0 started) ls = [].
Proof. exact window_partial_fresh. Qed.
Print Assumptions C10_unregister_window_partial.

(* (c) CancelPairingWithSKI(k), in any state: the registered connection (a pending request)
   gets AbortPendingHandshake, k is untrusted, its state None, its attempt counter gone *)
Theorem C10_cancel_aborts_and_clears_trust :
  forall (C : cfg) (h : hub) (k : N),
    let h' := fst (hstep C h (LCancel k)) in
    let o := snd (hstep C h (LCancel k)) in
    s_trusted (get h' k) = false /\ s_pst (get h' k) = ConnectionStateNone /\ s_counter (get h' k) = None
    /\ may_dial (get h' k) = false
    /\ (forall c, s_reg (get h k) = Some c -> In (OAbort c) o).
Proof. exact cancel_effect. Qed.
Print Assumptions C10_cancel_aborts_and_clears_trust.

(* (d) with the table regenerated from the current source (Shutdown sets a flag, the dial
   preparation consults it): after Shutdown, in any state and for every continuation —
   pending dials firing, mDNS reports, registrations, close reports — no dial starts *)
Theorem C10_no_dial_after_shutdown :
  forall (u : list N) (lgt : N -> bool) (h : hub) (ls : list label),
    dials_of (snd (hrun (with_table u lgt) (fst (hstep (with_table u lgt) h LShutdown)) ls)) = [].
Proof. exact no_dial_after_shutdown_table. Qed.
Print Assumptions C10_no_dial_after_shutdown.

(* (d) ... and a shut-down hub neither re-announces nor requests mDNS entries *)
Theorem C10_no_reannounce_after_shutdown :
  forall (u : list N) (lgt : N -> bool) (h : hub), h_down h = true -> reannounce (with_table u lgt) h = [].
Proof. exact no_reannounce_after_shutdown_table. Qed.
Print Assumptions C10_no_reannounce_after_shutdown.

(* (d) no slack: a hub whose Shutdown sets no flag (the tree before the fix) dials after it *)
Theorem C10_shutdown_without_flag_refuted :
  dials_of (snd (hrun noflag_cfg (hub0 true) [LRegister 0; LReport [0]; LShutdown; LFire 0])) = [0].
Proof. exact shutdown_without_flag_dials. Qed.
Print Assumptions C10_shutdown_without_flag_refuted.

(* independence: a label that names a SKI leaves every other SKI's record untouched *)
Theorem C10_operations_on_one_ski_do_not_touch_another :
  forall (C : cfg) (h : hub) (l : label) (k0 j : N),
    label_ski l = Some k0 -> j <> k0 -> get (fst (hstep C h l)) j = get h j.
Proof. exact hstep_other. Qed.
Print Assumptions C10_operations_on_one_ski_do_not_touch_another.

(* the hypotheses are satisfiable: a registered SKI is dialled, and a pending dial is dropped by unregister *)
Theorem C10_example_dial_after_registration :
  dials_of (snd (hrun (with_table [0;1] (fun _ => false)) (hub0 true)
                 [LReport [0;1]; LRegister 1; LReport [0;1]; LFire 1])) = [1].
Proof. exact dial_after_registration. Qed.
Print Assumptions C10_example_dial_after_registration.
