(* C09, hub-level half — the hub hands the stored SHIP ID to every connection it creates.
   Statements only (model: coq/theories/HubModel.v). *)
From Ship Require Import Base HubModel HubModelProofs.

(* in any hub state, for any label: every connection created for SKI k (inbound by
   ServeHTTP, outbound by connectFoundService) is given the SHIP ID stored for k *)
Theorem C09_hub_created_connection_gets_stored_ship_id :
  forall (C : cfg) (h : hub) (l : label) (k id : N),
    In (k, id) (creates_of (snd (hstep C h l))) -> id = s_shipid (get h k).
Proof. exact create_step. Qed.
Print Assumptions C09_hub_created_connection_gets_stored_ship_id.
