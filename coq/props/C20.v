(* C20 — The public API is free of data races under concurrent use.
   Statements only; every proof is `exact <lemma>`.

   Model: traces of per-thread events Acq/Rel (exclusive or shared mode), Rd/Wr, Fork over
   any number of threads; happens-before = program order + release->acquire on the same
   lock + fork; a data race = two conflicting accesses of different threads not ordered
   by happens-before.  The first four theorems are generic (all traces, all thread
   counts).  The last three tie them to ship-go: access_facts is regenerated from the Go
   source on every run, guard_spec is the hand-written protection table, and `explained`
   is the trusted assumption that the translator's facts are the program's accesses. *)
From Ship Require Import Base Lockset LocksetProofs LocksetSpec LocksetFacts.
From ShipGen Require Import Access.

(* lockset soundness: if every access to x after its publication holds the guard (writes
   exclusively) / is a read / is made by the owning thread, and the accesses before
   publication are the creator's, then no execution has a data race on x *)
Theorem C20_lockset_sound :
  forall tr x pp g, wf tr -> pub_ok tr pp -> disciplined tr x pp g ->
  forall i j, ~ race tr x i j.
Proof. exact lockset_sound. Qed.
Print Assumptions C20_lockset_sound.

(* the same, pairwise: two conflicting accesses that both follow the discipline are ordered
   by happens-before, whatever the other accesses do *)
Theorem C20_disciplined_pair_ordered :
  forall tr pp g i j t u a b x wi wj,
  wf tr -> pub_ok tr pp ->
  (i < j)%nat -> at_ tr i (t, a) -> at_ tr j (u, b) -> t <> u ->
  acc_of a = Some (x, wi) -> acc_of b = Some (x, wj) -> (wi = true \/ wj = true) ->
  obeys pp g tr i t wi -> obeys pp g tr j u wj ->
  hb tr i j.
Proof. exact lockset_pair_ordered. Qed.
Print Assumptions C20_disciplined_pair_ordered.

(* threads started (transitively) after the publication point satisfy the publication
   hypothesis of the discipline *)
Theorem C20_forked_threads_see_publication :
  forall tr t0 p a0 u, wf tr -> at_ tr p (t0, a0) -> forked_after tr t0 p u ->
  forall k b, at_ tr k (u, b) -> hb tr p k.
Proof. exact forked_after_published. Qed.
Print Assumptions C20_forked_threads_see_publication.

(* ... and so do threads that obtain the object through a lock the creator released after
   the publication point (a registry guarded by a mutex) *)
Theorem C20_lock_handover_publishes :
  forall tr t0 p a0 r l m1 u a m2,
  at_ tr p (t0, a0) -> (p <= r)%nat -> at_ tr r (t0, Rel l m1) ->
  (r < a)%nat -> at_ tr a (u, Acq l m2) -> (m1 = Excl \/ m2 = Excl) ->
  forall k b, (a < k)%nat -> at_ tr k (u, b) -> hb tr p k.
Proof. exact lock_handover_published. Qed.
Print Assumptions C20_lock_handover_publishes.

(* no slack: one access without the guard is enough for a race (thread 1 writes x under l,
   thread 0 reads x without it) *)
Theorem C20_unguarded_access_races :
  forall x l, wf (wtrace x l) /\ held_at (wtrace x l) 2 1%N l Excl /\ race (wtrace x l) x 2 4.
Proof. exact unguarded_access_races. Qed.
Print Assumptions C20_unguarded_access_races.

(* the hypotheses are satisfiable by a non-trivial trace (initialisation, fork, exclusive
   and shared critical sections, a real conflict) *)
Theorem C20_discipline_satisfiable :
  wf ex_trace /\ pub_ok ex_trace (Some (0%N, 1%nat)) /\
  disciplined ex_trace 7%N (Some (0%N, 1%nat)) (GuardedBy 3%N) /\
  conflict ex_trace 7%N 3 6 /\ forall i j, ~ race ex_trace 7%N i j.
Proof. exact ex_trace_disciplined. Qed.
Print Assumptions C20_discipline_satisfiable.

(* facts |= spec, computed: the translator ran and typed every selector, every data field
   of the eight structs is in the table, and every access fact of the current source is an
   initialisation, obeys its guard, or is a recorded finding *)
Theorem C20_facts_respect_spec :
  static_check guard_spec access_extract_ok access_unresolved access_fields access_facts = true.
Proof. exact access_facts_respect_spec. Qed.
Print Assumptions C20_facts_respect_spec.

(* race freedom of the protected fields: in every execution explained by the facts, a
   field with a discipline and without recorded exception has no data race *)
Theorem C20_protected_fields_race_free :
  forall tr field_of lock_of owner_of pub_of fn_of,
  wf tr ->
  explained guard_spec access_facts tr field_of lock_of owner_of pub_of fn_of ->
  forall x s,
    find_spec guard_spec (fst (field_of x)) (snd (field_of x)) = Some s ->
    (forall c, s_guard s <> SRacy c) -> s_except s = [] ->
    pub_ok tr (pub_of x) ->
    forall i j, ~ race tr x i j.
Proof. exact shipgo_protected_fields_race_free. Qed.
Print Assumptions C20_protected_fields_race_free.

(* partial statement for the fields with recorded findings: any two conflicting accesses
   are ordered unless one of them is made by a function recorded as ignoring the guard *)
Theorem C20_races_only_at_recorded_findings :
  forall tr field_of lock_of owner_of pub_of fn_of,
  wf tr ->
  explained guard_spec access_facts tr field_of lock_of owner_of pub_of fn_of ->
  forall x s i j,
    find_spec guard_spec (fst (field_of x)) (snd (field_of x)) = Some s ->
    pub_ok tr (pub_of x) -> conflict tr x i j ->
    hb tr i j \/ excused fn_of s i \/ excused fn_of s j.
Proof. exact shipgo_races_only_at_findings. Qed.
Print Assumptions C20_races_only_at_recorded_findings.
