(* C03, further modes of the two-endpoint model: patient (prolongation rounds before the user
   acts) and racing (timer expiries and user actions at any moment).  Statements only; the
   certificates are in coq/theories/PairPatient.v and PairArb.v.  Kept apart from props/C03.v
   because coqchk (thorough tier) has no VM: it re-checks C03.v and everything it depends on in
   about ten minutes, but did not finish the two closure certificates below within an hour;
   they are checked by coqc's kernel at every build. *)
From Coq Require Import FMapPositive.
From Ship Require Import Base Closure Conn ConnEvents ConnData ConnMon ConnClosure ConnLift Pair PairClosure.

(* "a user approval given at any moment while the request is pending", across prolongation
   rounds (patient mode, PairPatient.v): while the user has not acted the pending server's timer
   may expire any number of times - each expiry sends a prolongation request, the client answers,
   both re-arm - and the approval or cancel comes between any two rounds; no other timer expires
   before the user has acted.  Every reachable state of every configuration is safe, and every
   state without successor is a correct outcome (both complete on an open connection when the
   server trusts, both ended when it does not).  Partial for the same reason as the timely
   theorem: the approval is restricted to moments at which no hello of the client is under way
   (approve_quiet) - the finding recorded for C03 - and liveness across an unbounded number of
   rounds needs the fairness assumption that the user acts eventually. *)
From Ship Require Import PairPatient.
Theorem C03_patient_agreement_partial :
  forall (cfg : pcfg) (s : pair),
    reach (patient_next cfg) (pair_init cfg) s -> pat_ok cfg s = true.
Proof. exact pair_patient_ok. Qed.
Print Assumptions C03_patient_agreement_partial.

(* "Under arbitrary delays and timer expiries the two sides still never disagree for good",
   on the two-endpoint model (racing mode, PairArb.v): deliveries in either direction, the
   user's approval or cancel at ANY moment (the moments of the recorded finding included), the
   deferred goroutines and the expiry of either side's timer at any point relative to all of
   these - in particular while a frame for the expiring side is in flight.  For every
   configuration and every reachable state: safety holds; a state in which nothing more can
   happen is an agreement (both complete on an open connection, or both ended with the
   transport closed and no timer armed) ... *)
From Ship Require Import PairArb.
Theorem C03_racing_agreement_partial :
  forall (cfg : pcfg) (s : pair),
    reach (arb_next cfg) (pair_init cfg) s -> arb_ok cfg s = true.
Proof. exact pair_racing_ok. Qed.
Print Assumptions C03_racing_agreement_partial.

(* ... and from every reachable state such an agreement can still be reached: no
   interleaving leads into a region in which the two sides are stuck in disagreement (with a
   fair scheduler they agree eventually).  Partial: to keep the channels finite a timer expires
   only when the peer has taken what the expiring side wrote before and at most one frame is in
   flight towards it (PairArb.expiry_held); unboundedly many expiries against a peer that never
   reads are covered for a single endpoint only (the two theorems above). *)
Theorem C03_racing_agreement_stays_reachable_partial :
  forall (cfg : pcfg) (s : pair),
    reach (arb_next cfg) (pair_init cfg) s -> can_end pair (arb_next cfg) agreement s.
Proof. exact pair_racing_can_settle. Qed.
Print Assumptions C03_racing_agreement_stays_reachable_partial.
