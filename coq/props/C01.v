(* C01 — statements only.  model_mon r stored local es is the state of the property monitors
   (ConnMon.mstep: read it, it is the specification) after the run of the connection model
   for role r, stored SHIP id, local SHIP id and the event list es; viol_in 10 19 selects the
   violation codes of this property.  The run quantifies over every finite list of events:
   received frames of any content (as the view every decoder has of them), timer expiries,
   transport errors and silent closes, user approve/abort, CloseConnection, SPINE writes,
   deferred goroutines, with any environment answers and a transport that may close before
   any data-writer call. *)
From Ship Require Import Base Conn ConnEvents ConnData ConnMon ConnClosure ConnLift ConnCor.

Theorem C01_monitor_never_flags :
  forall (r : role) (stored local : bytes) (es : list eventx),
    viol_in 10 19 (model_mon r stored local es) = [].
Proof. exact (fun r s l es => no_violation r s l es 10 19). Qed.
Print Assumptions C01_monitor_never_flags.

(* the monitor does flag untrusted progress / setup, and accepts an approved one *)
Theorem C01_monitor_flags_untrusted_setup :
  viol_codes (mon_run (init_ms Server false) [BShipId; BSetup]) = [11].
Proof. exact mon_flags_untrusted_setup. Qed.
Print Assumptions C01_monitor_flags_untrusted_setup.

Theorem C01_monitor_flags_untrusted_progress :
  viol_codes (mon_run (init_ms Server false)
     [BReport 4 false; BReport 5 false; BReport 6 false; BPairedQ false; BAutoQ false;
      BReport 10 false; BReport 11 false; BReport 7 false; BReport 8 false; BReport 13 false]) = [10].
Proof. exact mon_flags_untrusted_progress. Qed.
Print Assumptions C01_monitor_flags_untrusted_progress.

(* non-vacuity: a server run with user approval completes, sets the device up and delivers *)
Theorem C01_completing_run_exists :
  let tr := model_trace Server [] [76] happy_server in
  In BSetup tr /\ In (BReport 38 false) tr /\ In BDeliver tr /\ In BShipId tr.
Proof. exact happy_server_completes. Qed.
Print Assumptions C01_completing_run_exists.

(* the function bin/check evaluates on the implementation's observations (ConnCheck.check_C01:
   model = implementation?, and the monitor read off the observations themselves - states from
   the hook snapshots, the stored SHIP id from the id reports) returns no failure code on the
   model's own observations, for every role, ids and event list: what is demanded of the
   implementation is exactly what is proved of the model *)
From Ship Require Import ConnCheck ConnImpl.
Theorem C01_checker_accepts_every_model_run :
  forall (r : role) (stored local : bytes) (es : list eventx),
    check_C01 (model_case r stored local es) = [].
Proof. intros r s l es. pose proof (checkers_accept_model r s l es) as H. cbv zeta in H. tauto. Qed.
Print Assumptions C01_checker_accepts_every_model_run.
