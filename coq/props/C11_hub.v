(* C11, hub-level half — the hub forgets exactly the connection that reported its end.
   Statements only (model: coq/theories/HubModel.v). *)
From Ship Require Import Base HubModel HubModelProofs.

(* HandleConnectionClosed(c, completed) for SKI k, in any hub state: the registry entry of
   k is removed iff the reporting connection is the registered one — a newer connection to
   the same SKI stays registered — and RemoteSKIDisconnected(k) is delivered exactly once,
   also when the handshake was not completed and k is untrusted *)
Theorem C11_hub_close_report :
  forall (C : cfg) (h : hub) (k c : N) (completed : bool),
    let h' := fst (hstep C h (LClosed k c completed)) in
    let o := snd (hstep C h (LClosed k c completed)) in
    s_reg (get h' k) = match s_reg (get h k) with
                       | Some r => if N.eqb r c then None else Some r
                       | None => None end
    /\ count_obs (ODisc k) o = 1%nat.
Proof. exact closed_effect. Qed.
Print Assumptions C11_hub_close_report.

(* ... and the registry entries of all other SKIs are untouched *)
Theorem C11_hub_close_report_other_skis :
  forall (C : cfg) (h : hub) (k c j : N) (completed : bool),
    j <> k -> get (fst (hstep C h (LClosed k c completed))) j = get h j.
Proof. intros C h k c j completed. exact (hstep_other C h (LClosed k c completed) k j eq_refl). Qed.
Print Assumptions C11_hub_close_report_other_skis.

(* the end of a connection against its own registration (RegRace.v): with the closed-check
   and the registry store of registerCheckedConnection in one critical section, every sequence
   of registrations and end reports of a connection - any order, any number - that contains an
   end report leaves it unregistered ... *)
From Ship Require Import RegRace.
From ShipGen Require Import HubTable.
Theorem C11_hub_ended_connection_is_not_registered :
  forall l : list ract,
    atomic_only l = true -> has_end l = true -> r_reg (rrun l) = false.
Proof. exact atomic_registration_forgets. Qed.
Print Assumptions C11_hub_ended_connection_is_not_registered.

(* ... which is what the source does (regenerated on every run) ... *)
Theorem C11_hub_registration_is_one_critical_section : hub_register_atomic = true.
Proof. reflexivity. Qed.
Print Assumptions C11_hub_registration_is_one_critical_section.

(* ... and what a check and a store in two steps would not: check - end - store *)
Theorem C11_hub_split_registration_refuted :
  r_reg (rrun [ACheck; AEnd; AStore]) = true /\ r_closed (rrun [ACheck; AEnd; AStore]) = true.
Proof. exact split_registration_refuted. Qed.
Print Assumptions C11_hub_split_registration_refuted.
