(* C14 — A stopped or replaced handshake timer never fires.
   Statements only; every proof is `exact <lemma>`.
   Model: Timer.v (goroutine-level interleaving model of setHandshakeTimer /
   stopHandshakeTimer; the mechanism the source uses is read from the regenerated
   TimerTable.v).  `mon` is the property's monitor over schedules: a timeout is committed
   (LFire g) only by the generation armed most recently and neither stopped nor replaced,
   at most once per generation, and delivered (LDeliver g) only after that, at most once. *)
From Ship Require Import Base Timer TimerProofs.
From ShipGen Require Import TimerTable.

(* the source arms every timer with its own stop channel, closes it on stop and re-checks
   the generation under the mutex before delivering (fails on the pinned tree) *)
Theorem C14_source_mechanism : src_mech = Some PerArm.
Proof. exact src_is_per_arm. Qed.
Print Assumptions C14_source_mechanism.

(* for ALL arm/stop sequences and ALL schedules of the goroutines: no monitor failure —
   with "stopped before its expiry" read as "before the timeout was committed" (true) and
   as "before its duration had elapsed" (false, the property's wording) *)
Theorem C14_timeout_only_from_current_unstopped_timer :
  forall m, src_mech = Some m ->
  forall sched s, exec m t_init sched = Some s -> mon true sched = [] /\ mon false sched = [].
Proof. exact src_safe. Qed.
Print Assumptions C14_timeout_only_from_current_unstopped_timer.

(* readable form: when generation g commits a timeout, the ideal timer — which sees nothing
   but the arm / stop calls and earlier timeouts — is armed with g: g is the timer armed
   most recently and it was neither stopped nor replaced, nor has it fired before *)
Theorem C14_timeout_only_when_armed :
  forall m, src_mech = Some m ->
  forall pre g post s, exec m t_init (pre ++ LFire g :: post) = Some s ->
  exists i, iexec ideal_init (proj_all pre) = Some i /\ i_armed i = Some g.
Proof. exact src_fire_only_when_armed. Qed.
Print Assumptions C14_timeout_only_when_armed.

(* the property's last sentence: once the timer was stopped (handshake approved, hello
   phase left, connection closed) no timeout is committed by ANY generation — in
   particular none belonging to an earlier phase — until a timer is armed again *)
Theorem C14_no_timeout_after_stop_until_rearmed :
  forall m, src_mech = Some m ->
  forall pre to post s g,
    exec m t_init (pre ++ LStop to :: post) = Some s ->
    forallb (fun a => negb (is_arm a)) post = true ->
    ~ In (LFire g) post.
Proof. exact src_no_timeout_after_stop. Qed.
Print Assumptions C14_no_timeout_after_stop_until_rearmed.

(* each armed timer commits at most one timeout and delivers at most one, and a delivery
   is preceded by its commit *)
Theorem C14_each_timer_delivers_at_most_once :
  forall m, src_mech = Some m ->
  forall sched s g, exec m t_init sched = Some s ->
  (count (is_fire g) sched <= 1)%nat /\ (count (is_deliver g) sched <= 1)%nat /\
  (forall pre post, sched = pre ++ LDeliver g :: post -> In (LFire g) pre).
Proof. exact src_at_most_once. Qed.
Print Assumptions C14_each_timer_delivers_at_most_once.

(* refinement link for the connection model (Conn uses ideal timers): ANY schedule that
   satisfies the monitor projects (arm, stop, committed timeouts) onto a run of the ideal
   timer, whose timeout event is enabled only when armed ... *)
Theorem C14_monitor_implies_ideal_timer_run :
  forall sched, mon true sched = [] ->
  exists i, iexec ideal_init (proj_all sched) = Some i /\
            i_armed i = m_live (fst (mrun true m_init sched)).
Proof. exact mon_ok_projects. Qed.
Print Assumptions C14_monitor_implies_ideal_timer_run.

(* ... hence every run of the source's timer does, and the ideal timer is armed exactly
   when the running flag is set *)
Theorem C14_refines_ideal_timer :
  forall m, src_mech = Some m ->
  forall sched s, exec m t_init sched = Some s ->
  exists i, iexec ideal_init (proj_all sched) = Some i /\
            i_armed i = (if running s then cur s else None) /\ i_n i = length (gs s).
Proof. exact src_refines_ideal. Qed.
Print Assumptions C14_refines_ideal_timer.

(* a timer that is armed and not stopped does fire: whenever the running flag is set, the
   current generation's goroutine can, by its own steps and the passing of time alone,
   commit and deliver the timeout (no other goroutine can prevent it) *)
Theorem C14_armed_timer_can_fire :
  forall m, src_mech = Some m ->
  forall sched s, exec m t_init sched = Some s -> running s = true ->
  exists g p s', cur s = Some g /\ pc_at s g = Some p /\
                 exec m s (finish g p) = Some s' /\ In (LDeliver g) (finish g p) /\
                 pc_at s' g = Some Fired /\ running s' = false.
Proof. exact src_armed_can_fire. Qed.
Print Assumptions C14_armed_timer_can_fire.

(* the pinned tree's mechanism (one shared unbuffered channel, non-blocking send) violates
   the property: arm; stop at once; the "stopped" timer fires *)
Theorem C14_shared_channel_refuted :
  exists sched s, exec Shared t_init sched = Some s /\ mon false sched = [c_stop_early_fired].
Proof. exact shared_refuted. Qed.
Print Assumptions C14_shared_channel_refuted.

(* ... and satisfies it outside exactly that region: if no arm/stop happens while some
   goroutine has not yet reached its select (lost stop) or sits between its time.After arm
   and its flag update (expiry racing the call), no monitor failure — for all schedules *)
Theorem C14_shared_channel_partial :
  forall strict sched s,
    exec Shared t_init sched = Some s -> ops_calm Shared t_init sched = true ->
    mon strict sched = [].
Proof. exact shared_partial. Qed.
Print Assumptions C14_shared_channel_partial.

(* the carve-out is satisfiable by a non-trivial run (stop, replace, fire, stop) and
   excludes the refuting schedule *)
Theorem C14_shared_partial_nonvacuous :
  (exists s, exec Shared t_init shared_calm_example = Some s) /\
  ops_calm Shared t_init shared_calm_example = true /\
  ops_calm Shared t_init lost_stop_witness = false.
Proof. exact shared_calm_example_ok. Qed.
Print Assumptions C14_shared_partial_nonvacuous.

(* that schedule is not a run of the repaired mechanism *)
Theorem C14_witness_impossible_after_fix : exec PerArm t_init lost_stop_witness = None.
Proof. exact witness_not_per_arm. Qed.
Print Assumptions C14_witness_impossible_after_fix.

(* the hypotheses are satisfiable by a non-trivial run *)
Theorem C14_example_run :
  exists s, exec PerArm t_init example_sched = Some s /\ running s = false /\
            map g_pc (gs s) = [Dropped; Stopped; Fired].
Proof. exact example_runs. Qed.
Print Assumptions C14_example_run.

(* The property's last sentence, on the connection model (ConnMon: at rest a handshake timer
   is only armed in a state that waits with a timer of its own phase - init wait, hello
   listen, protocol handshake, access methods - so a phase that was left in time leaves no
   timer behind that could tear the connection down later), for every event list.  The
   connection model uses ideal timers, which C14_refines_ideal_timer justifies. *)
From Ship Require Import Conn ConnEvents ConnData ConnMon ConnClosure ConnLift ConnCor.
Theorem C14_no_timer_left_behind_by_a_finished_phase :
  forall (r : role) (stored local : bytes) (es : list eventx),
    viol_in 80 89 (model_mon r stored local es) = [].
Proof. exact (fun r s l es => no_violation r s l es 80 89). Qed.
Print Assumptions C14_no_timer_left_behind_by_a_finished_phase.

From Ship Require Import ConnCheck ConnImpl.
Theorem C14_conn_checker_accepts_every_model_run :
  forall (r : role) (stored local : bytes) (es : list eventx),
    check_C14conn (model_case r stored local es) = [].
Proof. intros r s l es. pose proof (checkers_accept_model r s l es) as H. cbv zeta in H. tauto. Qed.
Print Assumptions C14_conn_checker_accepts_every_model_run.
