(* C19 — mDNS via Avahi survives daemon restarts without stale or lost announcements.
   Statements only; every proof is `exact <lemma>`.

   Model: coq/theories/Avahi.v — AvahiProvider (mdns/avahi.go) as an interleaving system:
   one sequential API caller (Announce / Unannounce any number of times, Shutdown once, as
   MdnsManager does), the channel listener, reconnect loops, undelivered Disconnected
   notifications, the daemon going down and coming back, browse results.  `reach` is
   reachability over unboundedly many steps of `next` (every interleaving, every history).
   `tree_cfg` are the control-structure switches the extractor reads from the source under
   test; `model_K` = 2 bounds the reconnect loops in flight, and C19_loop_bound_is_slack
   shows the bound is never reached, so it restricts nothing.
   Visible modelling assumptions: initial state = after a successful Start(true, cb); the
   client library behaves like go-avahi (a closed connection frees every object and spawns one
   Disconnected notification, also when the provider itself calls Server.Shutdown); a
   spawned notification reaches mux.Lock() before a one-second sleep that is still running
   expires; while the daemon is up every library call succeeds. *)
From Coq Require Import List Bool NArith.
From Ship Require Import Base Closure Avahi AvahiProofs.
Import ListNotations.

(* In every reachable state: no goroutine has panicked (send on / close of a closed
   channel, a second listener, a listener left behind by Shutdown); Shutdown's blocking
   send under `mux` always has a live receiver; and once Shutdown has returned no browser
   and no announcement is live and no listener runs — in that state and ever after. *)
Theorem C19_no_panic_no_restart_after_shutdown :
  forall s, reach (next tree_cfg model_K) init s -> safe s = true.
Proof. exact c19_safe. Qed.
Print Assumptions C19_no_panic_no_restart_after_shutdown.

(* No deadlock, daemon up or down: unless nothing is left to do (no loop, no pending
   notification, API caller idle or done, listener not processing) some goroutine can step. *)
Theorem C19_no_deadlock :
  forall s, reach (next tree_cfg model_K) init s -> progress tree_cfg model_K s = true.
Proof. exact c19_progress. Qed.
Print Assumptions C19_no_deadlock.

(* At most one reconnect loop is ever in flight: the bound model_K = 2 is never reached. *)
Theorem C19_loop_bound_is_slack :
  forall s, reach (next tree_cfg model_K) init s -> length (loops s) <= 1.
Proof. exact c19_loops_le. Qed.
Print Assumptions C19_loop_bound_is_slack.

(* ... hence any larger bound gives the same system: every state reachable with a bound
   K >= 2 is reachable with bound 2 and has the same successors, so all theorems of this
   file hold for every bound on the loops in flight *)
Theorem C19_loop_bound_irrelevant :
  forall K, 2 <= K -> forall s, reach (next tree_cfg K) init s ->
    reach (next tree_cfg model_K) init s /\ next tree_cfg K s = next tree_cfg model_K s.
Proof. exact c19_any_K. Qed.
Print Assumptions C19_loop_bound_irrelevant.

(* Once the daemon stays up and nobody calls, the goroutines come to rest: from every
   reachable state every sequence of internal steps is finite. *)
Theorem C19_reconnect_terminates :
  forall s, reach (next tree_cfg model_K) init s ->
    Acc (fun b a => In b (quiet tree_cfg model_K a)) s.
Proof. exact c19_terminates. Qed.
Print Assumptions C19_reconnect_terminates.

(* ... and wherever they come to rest with the daemon up, the monitor of C19 is silent on
   the daemon's content: (quiet_run = a maximal run of internal steps with the daemon up) *)
Theorem C19_converges :
  forall s, reach (next tree_cfg model_K) init s ->
    (exists s', quiet_run (quiet tree_cfg model_K) s s') /\
    (forall s', quiet_run (quiet tree_cfg model_K) s s' -> up (co s') = true ->
       settled s' = true /\ mon (ghost_of s') (obs_of s') = []).
Proof. exact c19_converges_spelled. Qed.
Print Assumptions C19_converges.

(* what a silent monitor means: no panic, no hang; after Shutdown nothing is live; otherwise
   exactly one live browser whose results reach the resolver callback, no group with stale
   TXT, and exactly one group with the latest TXT iff an announcement is active *)
Theorem C19_monitor_meaning :
  forall g o, mon g o = [] ->
    o_panic o = false /\ o_hang o = false /\
    (gh_manual g = true -> o_brow o = 0%N /\ o_latest o = 0%N /\ o_stale o = 0%N) /\
    (gh_manual g = false ->
       o_brow o = 1%N /\ o_report o = true /\ o_stale o = 0%N /\
       (gh_want g = true -> o_latest o = 1%N) /\ (gh_want g = false -> o_latest o = 0%N)).
Proof. exact mon_silent_spelled. Qed.
Print Assumptions C19_monitor_meaning.

(* ---- the pinned tree (snapshot 32d50f9) violates C19 in five ways; each witness was
   replayed on the real code by harness/cmd/avahidrv (scenario kinds "witness_...") ---- *)

(* Announce while the daemon is down is overridden by the data captured at disconnect *)
Theorem C19_pinned_stale_txt_refuted :
  exists s, reach (next cfg_pinned 2) init s /\
    (violates_final s = true /\ g_want (co s) = true /\ o_stale (obs_of s) = 1%N /\ o_latest (obs_of s) = 0%N).
Proof. exact pinned_stale. Qed.
Print Assumptions C19_pinned_stale_txt_refuted.

(* Unannounce while the daemon is down is undone: the announcement is resurrected *)
Theorem C19_pinned_resurrected_refuted :
  exists s, reach (next cfg_pinned 2) init s /\
    (violates_final s = true /\ g_want (co s) = false /\ g_manual (co s) = false /\ o_latest (obs_of s) = 1%N).
Proof. exact pinned_resurrect. Qed.
Print Assumptions C19_pinned_resurrected_refuted.

(* Shutdown during the loop's sleep is undone: browser and announcement are live after it returned *)
Theorem C19_pinned_shutdown_undone_refuted :
  exists s, reach (next cfg_pinned 2) init s /\
    (api (co s) = ADone /\ safe s = false /\ o_brow (obs_of s) = 1%N /\ o_latest (obs_of s) = 1%N).
Proof. exact pinned_shutdown. Qed.
Print Assumptions C19_pinned_shutdown_undone_refuted.

(* a second Announce leaks the previous entry group: two live announcements, one stale *)
Theorem C19_pinned_group_leak_refuted :
  exists s, reach (next cfg_pinned 2) init s /\
    (violates_final s = true /\ o_latest (obs_of s) = 1%N /\ o_stale (obs_of s) = 1%N).
Proof. exact pinned_leak. Qed.
Print Assumptions C19_pinned_group_leak_refuted.

(* a failed reconnect attempt is itself reported as a disconnect and spawns another loop:
   two loops restart, two live browsers *)
Theorem C19_pinned_loops_multiply_refuted :
  exists s, reach (next cfg_pinned 2) init s /\
    (violates_final s = true /\ g_manual (co s) = false /\ o_brow (obs_of s) = 2%N).
Proof. exact pinned_multi. Qed.
Print Assumptions C19_pinned_loops_multiply_refuted.

(* ---- no slack: each of the four repairs is necessary on top of the other three ---- *)
Theorem C19_reread_needed : exists s, reach (next without_reread 2) init s /\ violates_final s = true.
Proof. exact need_reread. Qed.
Print Assumptions C19_reread_needed.

Theorem C19_recheck_needed : exists s, reach (next without_recheck 2) init s /\ safe s = false.
Proof. exact need_recheck. Qed.
Print Assumptions C19_recheck_needed.

Theorem C19_free_previous_needed : exists s, reach (next without_free_prev 2) init s /\ violates_final s = true.
Proof. exact need_free_prev. Qed.
Print Assumptions C19_free_previous_needed.

Theorem C19_single_loop_needed : exists s, reach (next without_single_loop 2) init s /\ violates_final s = true.
Proof. exact need_single_loop. Qed.
Print Assumptions C19_single_loop_needed.
