(* C18 — Pairing-state notifications end with the current state.
   Statements only; every proof is `exact <lemma>`.  Model: theories/Notify.v (one SKI:
   stored detail object, spawned delayed deliveries firing in any order, synchronous
   notifications with the live pointer, dedup rule, PairingDetailForSki), hand induction
   over unboundedly many reports / user operations / pending deliveries.
   pair_state_of is regenerated from Hub.mapShipMessageExchangeState on every run. *)
From Ship Require Import Base Notify NotifyProofs.
From ShipGen Require Import StateTable.

(* mapping: whatever the stored detail held before, after HandleShipHandshakeStateUpdate
   (state, error) it holds the table's image of the state, or ConnectionStateError when an
   error value other than nil / ErrConnectionNotFound came with it — replaced or dedup'd *)
Theorem C18_reported_state_is_mapped :
  forall s er h,
    fst (stored (step h (EReport s er))) = report_state s er /\
    (forces_error er = false -> fst (stored (step h (EReport s er))) = pair_state_of s) /\
    (forces_error er = true -> fst (stored (step h (EReport s er))) = ConnectionStateError).
Proof. exact report_stores_mapped_state. Qed.
Print Assumptions C18_reported_state_is_mapped.

(* mapping: while a connection is registered PairingDetailForSki answers the table's image
   of the connection's live state *)
Theorem C18_answer_is_mapped :
  forall h, conn h = true -> fst (answer h) = pair_state_of (fst (live h)).
Proof. exact answer_with_connection. Qed.
Print Assumptions C18_answer_is_mapped.

(* mapping: the terminal pairing states are the images of exactly the terminal SHIP states
   the property names (for every state number, also those outside the enumeration) *)
Theorem C18_terminal_states :
  forall s,
    (pair_state_of s = ConnectionStateCompleted <-> s = SmeStateComplete) /\
    (pair_state_of s = ConnectionStateError <-> s = SmeStateError) /\
    (pair_state_of s = ConnectionStateRemoteDeniedTrust <->
       s = SmeHelloStateRemoteAbortDone \/ s = SmeHelloStateRejected) /\
    (pair_state_of s = ConnectionStateNone <-> s = SmeHelloStateAbort \/ s = SmeHelloStateAbortDone) /\
    (pair_state_of s = ConnectionStateReceivedPairingRequest <-> s = SmeHelloStatePendingListen).
Proof. exact terminal_states. Qed.
Print Assumptions C18_terminal_states.

(* mapping: the hand-written expectation used as monitor on the implementation (Completed,
   Error, RemoteDeniedTrust, None, ReceivedPairingRequest) agrees with what the hub computes *)
Theorem C18_expected_terminal_states :
  forall s er x, wf_ev (EReport s er) = true -> expected_terminal s er = Some x -> report_state s er = x.
Proof. exact expected_terminal_sound. Qed.
Print Assumptions C18_expected_terminal_states.

(* (a), partial — holds when delayed notifications are delivered in spawn order (FIFO;
   synchronous notifications MAY overtake): for every sequence of reports (error values only
   with SmeStateError, as the SHIP connection issues them), user operations, inbound
   requests and deliveries, once nothing is pending and the registered connection (if any)
   has reported after the last user operation, the last notification the application
   received shows the state PairingDetailForSki answers (None if it never got one) *)
Theorem C18_last_is_current_partial :
  forall st es,
    fifo es = true -> wf_reports es = true ->
    settled (run (init st) es) = true -> mon_last (run (init st) es) = true.
Proof. exact fifo_last_is_current. Qed.
Print Assumptions C18_last_is_current_partial.

(* (b), partial — holds under in-order delivery (FIFO and no synchronous notification while
   a delayed one is pending): the versions of the hub's detail shown by successive
   notifications never decrease, for every history *)
Theorem C18_no_older_after_newer_partial :
  forall st es, in_order (init st) es = true -> mon_order (run (init st) es) = true.
Proof. exact in_order_no_older_after_newer. Qed.
Print Assumptions C18_no_older_after_newer_partial.

(* (b) refuted for arbitrary order, deterministically and even with FIFO delayed
   deliveries: pending request reported, CancelPairingWithSKI 10 ms later (the connection's
   abort report replaces the detail, the synchronous notification shows None), the delayed
   notification of the replaced object arrives 490 ms later: None, ReceivedPairingRequest, None *)
Theorem C18_no_older_after_newer_refuted :
  exists es,
    fifo es = true /\ wf_reports es = true /\ settled (run (init true) es) = true /\
    mon_order (run (init true) es) = false /\
    overtaken (rev (log (run (init true) es))) = true /\
    inverted (rev (log (run (init true) es))) = false /\
    map n_st (rev (log (run (init true) es))) = [0; 3; 0] /\
    mon_last (run (init true) es) = true.
Proof. exists wit_overtake. exact overtake_refutes. Qed.
Print Assumptions C18_no_older_after_newer_refuted.

(* (a) refuted for arbitrary order, without any user operation: two reports within
   microseconds, the later delayed notification delivered first; the application ends with
   Trusted (5) while the hub answers InProgress (4): ...4 4 5 instead of ...4 5 4 *)
Theorem C18_last_is_current_refuted :
  exists es,
    wf_reports es = true /\ settled (run (init true) es) = true /\
    mon_last (run (init true) es) = false /\ mon_order (run (init true) es) = false /\
    inverted (rev (log (run (init true) es))) = true /\
    overtaken (rev (log (run (init true) es))) = false /\
    map n_st (rev (log (run (init true) es))) = [4; 4; 5] /\
    fst (answer (run (init true) es)) = 4.
Proof. exists wit_inverted. exact inverted_refutes. Qed.
Print Assumptions C18_last_is_current_refuted.

(* the hypothesis on reports in (a) is needed: an error value together with a state other
   than SmeStateError is notified as Error but answered as the image of the state *)
Theorem C18_error_with_other_state_refuted :
  exists es,
    in_order (init true) es = true /\ settled (run (init true) es) = true /\
    mon_last (run (init true) es) = false.
Proof. exists wit_illformed. exact illformed_report_refutes. Qed.
Print Assumptions C18_error_with_other_state_refuted.

(* the settledness hypothesis of (a) ("the registered connection has reported after the last
   user operation") is needed and its negation is a stable point of the real system:
   pairing completed, every notification delivered in order, then CancelPairingWithSKI.
   The connection ignores the abort request (AbortPendingHandshake acts in the two
   pending states only), stays registered and reports nothing: the application was told
   None, PairingDetailForSki answers Completed *)
Theorem C18_cancel_ignored_refuted :
  exists es,
    in_order (init true) es = true /\ wf_reports es = true /\
    pending (run (init true) es) = [] /\
    cancel_ignored (run (init true) es) es = true /\
    map n_st (rev (log (run (init true) es))) = [1; 2; 7; 0] /\
    fst (answer (run (init true) es)) = ConnectionStateCompleted /\
    mon_last (run (init true) es) = false.
Proof. exists wit_cancel_ignored. exact cancel_ignored_refutes. Qed.
Print Assumptions C18_cancel_ignored_refuted.

(* the hypotheses of the partial theorems are satisfiable by a whole successful pairing *)
Theorem C18_hypotheses_satisfiable :
  in_order (init true) ex_success = true /\ fifo ex_success = true /\ wf_reports ex_success = true /\
  settled (run (init true) ex_success) = true /\
  map n_st (rev (log (run (init true) ex_success))) = [1; 2; 4; 5; 4; 6; 4; 7] /\
  answer (run (init true) ex_success) = (ConnectionStateCompleted, 0).
Proof. exact ex_success_ok. Qed.
Print Assumptions C18_hypotheses_satisfiable.
