(* C12 — A write on a websocket data connection that races with its closure always returns:
   without panic, without blocking forever, with an error once the connection is closed;
   what the transport got is a gap-free prefix of the accepted messages, in order.

   Statements only; every proof is `exact <lemma>`.  Model: Ship.Ws (interleaving model of
   ws/websocket.go), instantiated with V0 = what harness/cmd/extract/ws.go reads from the
   source on every run (ShipGen.WsTable: queue capacity, who closes which channel, how the
   writer sends, how the connection is marked closed).  `reachable s` = some schedule (list
   of labels: any number of writer calls, any placement of local close / peer close / EOF /
   read fault / write fault / slow write / ping tick / SHIP-layer reaction) leads from the
   state after InitDataProcessing to s.  No bound on the length of the schedule, on the
   number of writer calls or on the messages; the queue capacity is the one in the source. *)
From Ship Require Import Base Closure Ws WsProofs WsCheck WsCheckProofs.
From ShipGen Require Import WsTable.

(* no schedule reaches a send on a closed channel, a second close of a channel, or a sender
   blocked on a channel that gets closed *)
Theorem C12_no_panic : forall s, reachable s -> panic s = false.
Proof. exact c12_no_panic. Qed.
Print Assumptions C12_no_panic.

(* every call returns: from any reachable state every run of internal steps is finite
   (well-founded), there is one, and wherever it ends no call is inside the function *)
Theorem C12_every_call_returns :
  forall s, reachable s ->
    Acc (fun b a => In b (quiet V0 a)) s /\
    (exists s', quiet_run (quiet V0) s s') /\
    (forall s', quiet_run (quiet V0) s s' -> wr s' = WFree /\ panic s' = false).
Proof. exact c12_calls_return. Qed.
Print Assumptions C12_every_call_returns.

(* a call that takes the write mutex when the connection is marked closed is a late call *)
Theorem C12_late_call_is_marked :
  forall V s s', step V s LWStart = Some s' -> flag (sh s) = true -> wr s' = WLocked true.
Proof. exact late_call_marked. Qed.
Print Assumptions C12_late_call_is_marked.

(* no late call has ever returned nil, none ever reaches the channel send, and the next
   action of a late call is to return the error *)
Theorem C12_late_call_returns_error :
  forall s, reachable s ->
    late_ok (gh s) = false /\ wr s <> WSend true /\
    (wr s = WLocked true -> step V0 s LWCheck = Some (ret_writer s true true)).
Proof. exact c12_late_error. Qed.
Print Assumptions C12_late_call_returns_error.

(* conversely an error is only ever returned on a connection that is marked closed *)
Theorem C12_error_only_when_closed :
  forall s s' l late, reachable s -> step V0 s l = Some s' -> wr s' = WFree ->
    (wr s = WLocked late /\ l = LWCheck \/ wr s = WSend late /\ l = LWAbort) -> flag (sh s) = true.
Proof. exact error_only_when_closed. Qed.
Print Assumptions C12_error_only_when_closed.

(* messages: for EVERY variant of the code, every configuration and every schedule with
   payloads, what was handed to conn.WriteMessage is a prefix of what was accepted, in
   acceptance order: nothing reordered, duplicated or skipped; only a tail can be lost *)
Theorem C12_wire_is_prefix_of_accepted :
  forall V c ls s d, grun V (init c, data0) ls = Some (s, d) -> exists lost_tail, d_acc d = d_wire d ++ lost_tail.
Proof. exact wire_prefix. Qed.
Print Assumptions C12_wire_is_prefix_of_accepted.

(* the monitor bin/check evaluates on the real code's observations, on the model: wherever
   a run of internal steps ends, the outcome has no panic, no hung call, no late success *)
Theorem C12_monitor_holds_of_model :
  forall s s', reachable s -> quiet_run (quiet V0) s s' -> mon12 (outcome_of s') = [].
Proof. exact c12_outcome. Qed.
Print Assumptions C12_monitor_holds_of_model.

(* the trace monitor of the check (what the peer received against the calls that returned
   nil) reports nothing whenever the frames are a prefix of some acceptance order that extends
   the observable real-time order of the calls — i.e. whenever the run is one the model allows
   by C12_wire_is_prefix_of_accepted; a report therefore refutes the real run *)
Theorem C12_trace_monitor_sound :
  forall (c : ws_case) (acc : list N),
    c_foreign c = 0%N -> NoDup acc ->
    (forall x, In x acc -> In x (map call_id (ok_calls c))) ->
    (forall a b, In a (ok_calls c) -> In b (ok_calls c) -> (wc_end a < wc_start b)%N ->
       exists pa pb, pos_of (call_id a) acc 0%N = Some pa /\ pos_of (call_id b) acc 0%N = Some pb /\ (pa < pb)%N) ->
    (exists lost_tail, acc = wire_ids c ++ lost_tail) ->
    wire_codes c = [].
Proof. exact wire_monitor_sound. Qed.
Print Assumptions C12_trace_monitor_sound.

(* the tree as it was found violates the property: one message in the pump, one queued, a
   third call blocked on the send, the write fails, the pump closes the queue *)
Theorem C12_pinned_refuted : exists ls s, run pinned (init cfg_all) ls = Some s /\ panic s = true.
Proof. exact pinned_panics. Qed.
Print Assumptions C12_pinned_refuted.

(* ... and so does a plain local close between a call's closed-check and its send *)
Theorem C12_pinned_refuted_local_close :
  exists s, run pinned (init cfg_all) pinned_panic_witness2 = Some s /\ panic s = true.
Proof. exact pinned_panics_on_local_close. Qed.
Print Assumptions C12_pinned_refuted_local_close.

(* the statements above are not vacuous: a run with a delivered message, a local close with
   a reason racing a second call, a refused late call; it settles *)
Theorem C12_example :
  exists s d, grun V0 (init cfg_all, data0) example_run = Some (s, d) /\
    settled s = true /\ flag (sh s) = true /\ cause (gh s) = Some CLocal /\ reported (gh s) = C0 /\
    d_acc d = [7%N; 8%N] /\ d_wire d = [7%N] /\ is_quiescent V0 s = true.
Proof. exact example_settles. Qed.
Print Assumptions C12_example.
