(* C17 — the visible-services view tracks the mDNS history; which report is the last one.
   Statements only; every proof is `exact <lemma>` (lemmas in theories/MdnsMapProofs.v).

   Model (theories/MdnsMap.v): a history is a list of resolver-callback calls [mev] (TXT
   elements, name, host, addresses {is_v4; is_v6_linklocal; text}, port, remove flag);
   [mstep] is processMdnsEntry's map maintenance (validation = Txt.entry_of_txt of C16),
   [final dn own h] the entries map after history h on a manager with own SKI [own],
   [reports dn own [] h] the snapshots handed to the report goroutines in spawn order.
   [dn] = a new entry's address list is de-duplicated; [dedup_new_entry] is what the source
   does (regenerated).  [spec own h ski] : visible iff added with valid mandatory TXT and not
   removed since; described by the add that made it visible; addresses = duplicate-free
   union (by text, in order of first report) of the usable addresses reported since. *)
From Coq Require Import ZArith Permutation.
From Ship Require Import Base Txt MdnsMap MdnsMapProofs.
From ShipGen Require Import MdnsTable.

(* (a) the code as it is now: after EVERY history, for every SKI, the map is the specification *)
Theorem C17_refinement :
  forall (own : bytes) (h : list mev) (ski : bytes),
    mlookup ski (final dedup_new_entry own h) = spec own h ski.
Proof. exact refinement_now. Qed.
Print Assumptions C17_refinement.

(* with or without de-duplication of new entries: the map is what the faithful
   specification says (first add's list as stored, later adds merged without duplicates) *)
Theorem C17_refinement_faithful :
  forall (dn : bool) (own : bytes) (h : list mev) (ski : bytes),
    mlookup ski (final dn own h) = spec_faithful dn own h ski.
Proof. exact refinement_faithful. Qed.
Print Assumptions C17_refinement_faithful.

(* ... which is the specification whenever no single event carries a usable address twice *)
Theorem C17_refinement_partial :
  forall (dn : bool) (own : bytes) (h : list mev),
    dn = true \/ Forall (fun ev => dupfreeb (uaddrs ev) = true) h ->
    forall ski, mlookup ski (final dn own h) = spec own h ski.
Proof. exact refinement. Qed.
Print Assumptions C17_refinement_partial.

(* pinned processMdnsEntry (new entry stored as it came): one add carrying an address twice *)
Theorem C17_first_add_duplicates_refuted :
  exists own h ski, mlookup ski (final false own h) <> spec own h ski.
Proof. exact first_add_keeps_duplicates. Qed.
Print Assumptions C17_first_add_duplicates_refuted.

(* (b) reports delivered in spawn order: the last one is the final map; no report at all
   means the map is still empty *)
Theorem C17_last_report_in_order :
  forall (dn : bool) (own : bytes) (h : list mev),
    match last (map Some (reports dn own [] h)) None with
    | Some s => s = final dn own h
    | None => final dn own h = []
    end.
Proof. exact last_report_in_order. Qed.
Print Assumptions C17_last_report_in_order.

(* delivered in ANY order: every report is the map as it was after some prefix of the history *)
Theorem C17_any_order_report_is_some_past_state :
  forall dn own h p r,
    Permutation p (reports dn own [] h) -> In r p ->
    exists h1 h2, h = h1 ++ h2 /\ r = final dn own h1.
Proof. exact any_order_report_is_prefix_state. Qed.
Print Assumptions C17_any_order_report_is_some_past_state.

(* ... but the last delivered one need not be the final map: two services appear one after
   the other, the second report overtakes the first (each report runs on its own goroutine,
   `go m.report.ReportMdnsEntries`) — recorded finding *)
Theorem C17_last_report_any_order_refuted :
  forall dn, exists own h p, Permutation p (reports dn own [] h) /\ last p [] <> final dn own h.
Proof. exact last_report_inverted. Qed.
Print Assumptions C17_last_report_any_order_refuted.

(* the hypotheses are satisfiable by a history with merge, remove and re-add, and the
   specification gives the expected view on it *)
Theorem C17_example :
  let h := [w_ev 0 1 [w_addr] false; w_ev 0 2 [nth 0 std_atab no_addr; nth 3 std_atab no_addr] false;
            w_ev 1 3 [w_addr] false; w_ev 0 4 [] true; w_ev 0 5 [nth 4 std_atab no_addr] false] in
  Forall (fun ev => dupfreeb (uaddrs ev) = true) h
  /\ option_map (fun f => (f_port f, map a_text (f_addrs f))) (spec [111] h (bs "s1")) = Some (5%Z, [bs "2001:db8::1"])
  /\ option_map (fun f => (f_port f, map a_text (f_addrs f))) (spec [111] h (bs "s2")) = Some (3%Z, [bs "10.0.0.2"]).
Proof. exact refinement_example. Qed.
Print Assumptions C17_example.
