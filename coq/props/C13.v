(* C13 — When the transport fails or the peer closes, the SHIP layer is told (and the
   closed-query is non-nil); after a deliberate local close it is not told an error.  In
   every case no further incoming message is let through afterwards, both pumps terminate
   and the network connection is closed.

   Statements only.  Same model and the same reachability as props/C12.v: a failure at any
   read or write (the labels LReadFault / LPumpFault / LCloserFault can be placed anywhere
   in the schedule, which covers "the k-th operation for every k"), a peer close frame with
   any code and EOF (a failing read), local closes with and without a reason, any traffic.
   "Cause": the call that marks the connection closed first (setConnClosedError is a
   test-and-set under muxConnClosed) — CLocal for CloseDataConnection, CRead/CWrite for
   the error paths, with genuine = false when the error is itself a consequence of the
   local close (own close frame sent, own conn.Close). *)
From Ship Require Import Base Closure Ws WsProofs.
From ShipGen Require Import WsTable.

(* in every reachable state: at most one report; never for an error that is a consequence
   of the local close; a report implies the closed-query is non-nil and the cause is a
   loss; a connection marked by the local close has never reported; conn.Close implies
   the close channel is closed; at most one delivery after the report, and only when the
   write pump reported *)
Theorem C13_safety :
  forall s, reachable s ->
    cnt_le1 (reported (gh s)) = true /\ spurious (gh s) = false /\
    (reported (gh s) <> C0 -> flag (sh s) = true /\ is_genuine (cause (gh s)) = true) /\
    (cause (gh s) = Some CLocal -> reported (gh s) = C0) /\
    (connc (sh s) = true -> cch (sh s) = true) /\
    (cause (gh s) <> None -> flag (sh s) = true) /\
    cnt_le1 (deliv_after (gh s)) = true /\
    (deliv_after (gh s) <> C0 -> cause (gh s) = Some (CWrite true)).
Proof. exact c13_facts. Qed.
Print Assumptions C13_safety.

(* released and reported: once the connection is marked closed and the internal steps have
   run out (they always do, C12_every_call_returns), both pumps are at their exit, conn.Close
   was called, and the error was reported exactly when the cause is not the local close *)
Theorem C13_reported_and_released :
  forall s s', reachable s -> quiet_run (quiet V0) s s' -> flag (sh s') = true ->
    pu s' = PExit /\ rd s' = RExit /\ connc (sh s') = true /\
    (cause (gh s') = Some CLocal /\ reported (gh s') = C0 \/ is_genuine (cause (gh s')) = true /\ reported (gh s') = C1).
Proof. exact c13_released. Qed.
Print Assumptions C13_reported_and_released.

(* nothing is reported on a connection that stays open *)
Theorem C13_open_connection_reports_nothing :
  forall s s', reachable s -> quiet_run (quiet V0) s s' -> flag (sh s') = false ->
    reported (gh s') = C0 /\ pu s' = PSel /\ rd s' = RRead.
Proof. exact c13_open_quiet. Qed.
Print Assumptions C13_open_connection_reports_nothing.

(* no message is let through after the report: the read pump hands a message over only if
   it passes the closed-check after the read, and that never happens once a report is out *)
Theorem C13_no_admission_after_report :
  forall s s', reachable s -> rd s = RChk2 GMsg -> step V0 s LRd = Some s' -> rd s' = RDeliver -> reported (gh s) = C0.
Proof. exact c13_no_admission_after_report. Qed.
Print Assumptions C13_no_admission_after_report.

(* the strict reading — no HandleIncomingWebsocketMessage call after ReportConnectionError —
   is false, also of the repaired code: a message that passed the closed-check before the
   write pump's closeWithError is handed over after the report (finding
   inflight_delivery_after_write_error_report; witness replayed by wsdrv) *)
Theorem C13_delivery_after_report_refuted :
  exists ls s, run repaired (init cfg_all) ls = Some s /\ c13_strict_delivery s = false /\ reported (gh s) = C1.
Proof. exact c13_strict_delivery_refuted. Qed.
Print Assumptions C13_delivery_after_report_refuted.

(* ... and that is all: outside that one in-flight message (code 26) the monitor bin/check
   evaluates on the real code's observations holds of the model wherever a run of internal
   steps ends (C13_safety bounds the in-flight deliveries by one, write-pump reports only) *)
Theorem C13_delivery_after_report_partial :
  forall s s', reachable s -> quiet_run (quiet V0) s s' ->
    drop26 (mon13 (class_of_cause (cause (gh s'))) (outcome_of s')) = [].
Proof. exact c13_outcome. Qed.
Print Assumptions C13_delivery_after_report_partial.

(* the tree as it was found: after a failing write the connection is marked closed before
   close() runs, close() returns early: close channel open, conn.Close never called, the
   read pump stays in its read; the monitor says 20 (transport not closed), 21 (pump left) *)
Theorem C13_pinned_refuted :
  exists s, run pinned (init cfg_all) pinned_leak_witness = Some s /\
            is_quiescent pinned s = true /\ flag (sh s) = true /\ connc (sh s) = false /\ cch (sh s) = false /\
            rd s = RRead /\ mon13 ByLoss (outcome_of s) = [20%N; 21%N].
Proof. exact pinned_never_closes_transport. Qed.
Print Assumptions C13_pinned_refuted.

(* the tree as it was found: a deliberate local close with a reason while a message is in
   the pump is reported as a connection error (the write fails because our own close frame
   went out) *)
Theorem C13_pinned_refuted_local_close_reported :
  exists s, run pinned (init cfg_all) pinned_spurious_witness = Some s /\ spurious (gh s) = true /\ reported (gh s) = C1.
Proof. exact pinned_reports_local_close. Qed.
Print Assumptions C13_pinned_refuted_local_close_reported.
