(* C15 — Hub operations are invariant under SKI formatting.
   Statements only; every proof is `exact <lemma>`. *)
From Ship Require Import Base Ski HubOps SkiProofs.
From ShipGen Require Import SkiTable.

(* normalisation is a canonical form *)
Theorem C15_normalize_idempotent : forall s, normalize (normalize s) = normalize s.
Proof. exact normalize_idem. Qed.
Print Assumptions C15_normalize_idempotent.

(* a space (32) or dash (45) inserted anywhere does not change the SKI *)
Theorem C15_ignores_spaces_and_dashes :
  forall a b c, c = 32 \/ c = 45 -> normalize (a ++ c :: b) = normalize (a ++ b).
Proof. intros a b c H. apply normalize_insert, space_dash_stripped, H. Qed.
Print Assumptions C15_ignores_spaces_and_dashes.

(* flipping the case of any ASCII letter anywhere does not change the SKI *)
Theorem C15_ignores_case :
  forall a b c, normalize (a ++ flip c :: b) = normalize (a ++ c :: b).
Proof. exact normalize_flip. Qed.
Print Assumptions C15_ignores_case.

(* the canonical form contains neither separators nor upper-case letters *)
Theorem C15_canonical_form :
  forall s c, In c (normalize s) -> stripped c = false /\ is_upper c = false.
Proof. exact normalize_output. Qed.
Print Assumptions C15_canonical_form.

(* every hub operation, in every hub state, has the same effect (new hub state, calls on
   the connection, callbacks with their arguments, answer) for all spellings of a SKI;
   norm_first is the table regenerated from hub/*.go *)
Theorem C15_hub_operations_invariant :
  forall (h : hub) (k : opk) (s s' : bytes),
    same_ski s s' ->
    step norm_first h (mk_op k s) = step norm_first h (mk_op k s').
Proof. exact (step_invariant norm_first norm_first_all). Qed.
Print Assumptions C15_hub_operations_invariant.

(* no slack: an entry point that looks a connection up by the raw string violates it *)
Theorem C15_raw_lookup_refutes :
  forall nf k, k <> KService -> nf (fn_of (mk_op k [])) = false ->
  exists sc s s', same_ski s s' /\
    run_op nf (hub_of (normalize s) sc) (normalize s) (mk_op k s)
    <> run_op nf (hub_of (normalize s) sc) (normalize s) (mk_op k s').
Proof. exact raw_key_breaks. Qed.
Print Assumptions C15_raw_lookup_refutes.
