(* C07 — EEBUS-JSON transform: SHIP shape of the wire form and the round trip.
   Statements only; every proof is `exact <lemma>`.

   json      a document: scalars and member names are opaque literal bytes
   to_eebus  process_eebus_json_hierarchie_level      (ship/helper.go)
   wire d    JsonIntoEEBUSJson: compact rendering of to_eebus d, outer brackets stripped
   from_eebus  JsonFromEEBUSJson, byte for byte: outside string literals the ReplaceAll passes
             regenerated from helper.go (gen/EebusTable.v), string literals copied, NUL trim
   from_eebus_global  the same passes applied to the whole text (JsonFromEEBUSJson before the
             repair "fix: leave string literals alone")
   render d  the compact JSON text of d;  norm d = d with every empty array turned into {}
   ship_message d / received_text  the SHIP data message around the SPINE payload d as
             sendSpineData writes it, and the JSON text the receiver decodes from a message
   lits_wf d lexical well-formedness only: member names and string values are quote ... quote
             with quotes inside only after a backslash; other literals hold no quote, bracket,
             brace or comma.  Nothing is assumed about the content of strings. *)
From Ship Require Import Base Eebus EebusProofs.
From ShipGen Require Import EebusTable.

(* (a) the wire form has the prescribed shape, at every depth: a scalar stays, an array is
   mapped element by element, an object becomes the array of its single-member objects in
   member order (Shape is exactly that, as an inductive relation) *)
Theorem C07_wire_shape : forall d, Shape d (to_eebus d).
Proof. exact to_eebus_Shape. Qed.
Print Assumptions C07_wire_shape.

(* ... and nothing else has that shape: the shape determines the wire tree *)
Theorem C07_wire_shape_unique : forall d w, Shape d w -> w = to_eebus d.
Proof. exact Shape_unique. Qed.
Print Assumptions C07_wire_shape_unique.

(* the boolean shape monitor the check evaluates on the implementation's output accepts
   exactly to_eebus d *)
Theorem C07_shape_monitor : forall d w, shape_ok d w = true <-> w = to_eebus d.
Proof. exact shape_ok_iff. Qed.
Print Assumptions C07_shape_monitor.

(* the statement of the property, for every document with a top-level object: FALSE *)
Theorem C07_roundtrip_refuted : ~ (forall d, top_object d = true -> from_eebus (wire d) = render d).
Proof. exact full_statement_false. Qed.
Print Assumptions C07_roundtrip_refuted.

(* (c) witness 1: {"a":[]} comes back as {"a":{}} — an empty array is lost although every
   other hypothesis holds; the monitor classifies it as 11 *)
Theorem C07_roundtrip_refuted_empty_array :
  exists d, top_nonempty d = true /\ lits_wf d = true /\
            from_eebus (wire d) <> render d /\ roundtrip_codes d (from_eebus (wire d)) = [11].
Proof. exact refuted_empty_array. Qed.
Print Assumptions C07_roundtrip_refuted_empty_array.

(* (c) witness 2: the empty document {} has the empty wire text, which comes back empty *)
Theorem C07_roundtrip_refuted_empty_document :
  exists d, top_object d = true /\ lits_wf d = true /\ has_empty_array d = false /\
            wire d = [] /\ from_eebus (wire d) <> render d /\
            roundtrip_codes d (from_eebus (wire d)) = [13].
Proof. exact refuted_empty_top. Qed.
Print Assumptions C07_roundtrip_refuted_empty_document.

(* (c) witness 3, the repaired defect: with the replacements applied to the whole text,
   {"a":"[{x}]"} came back as {"a":"{x}"} (monitor code 12) *)
Theorem C07_global_replacement_refuted_string :
  exists d, top_nonempty d = true /\ lits_wf d = true /\ has_empty_array d = false /\
            from_eebus_global (wire d) <> render d /\
            roundtrip_codes d (from_eebus_global (wire d)) = [12] /\
            from_eebus_global (wire d) = hx "7b2261223a227b787d227d".
Proof. exact global_refuted_string. Qed.
Print Assumptions C07_global_replacement_refuted_string.

(* (b) the round trip outside the two refuted regions, for all documents of any depth and
   width and ANY string contents: what comes back is, byte for byte, the document with
   its empty arrays turned into empty objects *)
Theorem C07_roundtrip_partial :
  forall d, top_nonempty d = true -> lits_wf d = true ->
            from_eebus (wire d) = render (norm d).
Proof. exact roundtrip_norm. Qed.
Print Assumptions C07_roundtrip_partial.

(* (b) hence the identity when the document has no empty array *)
Theorem C07_roundtrip_partial_exact :
  forall d, top_nonempty d = true -> lits_wf d = true -> has_empty_array d = false ->
            from_eebus (wire d) = render d.
Proof. exact roundtrip_exact. Qed.
Print Assumptions C07_roundtrip_partial_exact.

(* the same in terms of the monitor the check runs on the implementation's outputs: on the
   model's output it can only ever report code 11, and nothing without an empty array *)
Theorem C07_roundtrip_monitor_partial :
  forall d, top_nonempty d = true -> lits_wf d = true ->
            incl (roundtrip_codes d (from_eebus (wire d))) [11] /\
            (has_empty_array d = false -> roundtrip_codes d (from_eebus (wire d)) = []).
Proof. exact roundtrip_monitor. Qed.
Print Assumptions C07_roundtrip_monitor_partial.

(* the whole-text replacement was right exactly where no literal holds a pattern *)
Theorem C07_global_replacement_partial :
  forall d, top_nonempty d = true -> lits_ok d = true ->
            from_eebus_global (wire d) = render (norm d).
Proof. exact global_roundtrip. Qed.
Print Assumptions C07_global_replacement_partial.

(* (d) member order and literals (numbers to the last digit): what comes back is the text of
   a document with the same member names in the same order and the same scalar literals in
   the same order — even when empty arrays are lost *)
Theorem C07_order_and_literals_partial :
  forall d, top_nonempty d = true -> lits_wf d = true ->
  exists d', from_eebus (wire d) = render d' /\
             names_of d' = names_of d /\ scalars_of d' = scalars_of d /\
             (has_empty_array d = false -> d' = d).
Proof. exact order_and_literals. Qed.
Print Assumptions C07_order_and_literals_partial.

(* (d) the wire tree itself keeps member names and scalar literals, in order *)
Theorem C07_wire_keeps_names_and_literals :
  forall d, names_of (to_eebus d) = names_of d /\ scalars_of (to_eebus d) = scalars_of d.
Proof. exact eebus_keeps_names_and_literals. Qed.
Print Assumptions C07_wire_keeps_names_and_literals.

(* end to end (placeholder splice, ship/connection.go): for the SPINE payload d the sender
   writes ship_message d to the websocket; the text the receiver obtains from it with
   JsonFromEEBUSJson is the SHIP data envelope whose payload bytes - what the SPINE reader
   is handed - are render (norm d) *)
Theorem C07_end_to_end_partial :
  forall d, top_nonempty d = true -> lits_wf d = true ->
  exists msg, ship_message d = Some msg /\
              received_text msg = render (envelope (JS (render (norm d)))).
Proof. exact e2e_roundtrip. Qed.
Print Assumptions C07_end_to_end_partial.

(* the end-to-end monitor of the check on that payload: only code 11, none without an empty array *)
Theorem C07_end_to_end_monitor_partial :
  forall d, top_nonempty d = true -> lits_wf d = true ->
            incl (e2e_codes d (Some (render (norm d)))) [11] /\
            (has_empty_array d = false -> e2e_codes d (Some (render (norm d))) = []).
Proof. exact e2e_monitor. Qed.
Print Assumptions C07_end_to_end_monitor_partial.

(* lits_wf asks nothing of string contents: any bytes without quote and backslash between
   two quotes qualify (escapes are covered by str_tail_ok itself), and so does any
   non-empty literal without quote, bracket, brace or comma *)
Theorem C07_wellformed_string_literals :
  forall body, forallb (fun c => negb (c =? 34) && negb (c =? 92)) body = true ->
               lit_wf (34 :: body ++ [34]) = true.
Proof. exact string_literal_wf. Qed.
Print Assumptions C07_wellformed_string_literals.

Theorem C07_wellformed_other_literals :
  forall l, l <> [] -> forallb (fun c => negb (in_set c [34; 91; 93; 123; 125; 44])) l = true ->
            lit_wf l = true.
Proof. exact atom_literal_wf. Qed.
Print Assumptions C07_wellformed_other_literals.

(* the hypotheses are satisfiable by a non-trivial document (EebusProofs.ex_doc) whose
   strings and a member name hold all four patterns: it round-trips exactly, its wire text
   differs from its JSON text, and the whole-text replacement got it wrong *)
Theorem C07_hypotheses_satisfiable :
  top_nonempty ex_doc = true /\ lits_wf ex_doc = true /\ has_empty_array ex_doc = false /\
  lits_ok ex_doc = false /\
  from_eebus (wire ex_doc) = render ex_doc /\ wire ex_doc <> render ex_doc /\
  from_eebus_global (wire ex_doc) <> render ex_doc.
Proof. exact ex_doc_ok. Qed.
Print Assumptions C07_hypotheses_satisfiable.
