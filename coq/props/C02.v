(* C02 — Peer identity: every connection is bound to the SKI of the presented certificate.
   Statements only; every proof is `exact <lemma>` (plus instantiation).
   [code_config] = the constants regenerated from /repo by harness/cmd/extract (gen/CertTable.v):
   tls.Config.MinVersion / ClientAuth, the upgrader's sub-protocols and the string ServeHTTP
   compares with, the length constant of cert.SkiFromCertificate and whether it compares the
   extension with SHA-1 of the certificate's key, whether connectFoundService compares the
   presented with the dialled SKI.  SHA-1 is a parameter [sha1]; the only thing assumed of
   it, where anything is, is [sha1_spec sha1] (20 output bytes). *)
From Ship Require Import Base Ski Sha1 Cert CertProofs Sha1Proofs.
From ShipGen Require Import CertTable.

(* the regenerated constants and the statement order of ServeHTTP / connectFoundService are the
   ones the model hard-wires and the property needs (closed boolean facts about gen/CertTable.v) *)
Theorem C02_code_settings :
  structure_ok = true /\ config_ok code_config = true /\ config_gen_ok code_config = true.
Proof. exact (conj code_structure_ok (conj code_config_ok code_config_gen_ok)). Qed.
Print Assumptions C02_code_settings.

(* (a) Go's "%0x" rendering of a SKI: injective, two characters per byte, lower-case hex *)
Theorem C02_hex_injective : forall a b, hex a = hex b -> a = b.
Proof. exact hex_inj. Qed.
Print Assumptions C02_hex_injective.

Theorem C02_hex_length : forall l, length (hex l) = (2 * length l)%nat.
Proof. exact hex_length. Qed.
Print Assumptions C02_hex_length.

Theorem C02_hex_lower_case :
  forall l, forallb is_byte l = true -> forallb is_lower_hex (hex l) = true.
Proof. exact hex_lower. Qed.
Print Assumptions C02_hex_lower_case.

(* (b) an accepted inbound connection: TLS 1.2 or later, "ship" was offered, a certificate was
   presented, the attributed SKI is the hex form of the first certificate's 20-byte
   SubjectKeyId, 40 characters, and that SubjectKeyId is the SHA-1 of the key the peer proved
   possession of — for every TLS version, sub-protocol offer and certificate chain *)
Theorem C02_inbound_identity :
  forall (sha1 : bytes -> bytes) ver offered certs k,
    accept_inbound sha1 code_config ver offered certs = Accept k ->
    tls12 <= ver /\ In ship_proto offered /\
    exists c rest s, certs = c :: rest /\ ski_ext c = Some s /\ k = hex s /\ length k = 40%nat /\
                     s = sha1 (pubkey c).
Proof. intros sha1 ver offered certs k. exact (inbound_sound sha1 code_config ver offered certs k code_config_ok). Qed.
Print Assumptions C02_inbound_identity.

(* … hence: below TLS 1.2, without "ship", without a certificate, or with a first certificate
   whose SubjectKeyId is absent or not 20 bytes long, the peer is refused *)
Theorem C02_inbound_refusals :
  forall (sha1 : bytes -> bytes) ver offered certs,
    (ver < tls12 \/ ~ In ship_proto offered \/ certs = [] \/
     (exists c rest, certs = c :: rest /\ forall s, ski_ext c = Some s -> length s <> 20%nat)) ->
    exists st, accept_inbound sha1 code_config ver offered certs = Refuse st.
Proof. intros sha1 ver offered certs. exact (inbound_refusals sha1 code_config ver offered certs code_config_ok_but_key). Qed.
Print Assumptions C02_inbound_refusals.

(* a certificate carrying somebody else's SKI is refused, whatever else is right *)
Theorem C02_inbound_foreign_ski_refused :
  forall (sha1 : bytes -> bytes) ver offered c rest s,
    ski_ext c = Some s -> s <> sha1 (pubkey c) ->
    exists st, accept_inbound sha1 code_config ver offered (c :: rest) = Refuse st.
Proof. intros sha1 ver offered c rest s. exact (inbound_foreign_refused sha1 code_config ver offered c rest s code_config_ok). Qed.
Print Assumptions C02_inbound_foreign_ski_refused.

(* (c) outbound: a connection the hub keeps after dialling SKI [dialled] presented a certificate
   whose 20-byte SubjectKeyId renders to exactly [dialled] and is the SHA-1 of its key … *)
Theorem C02_outbound_identity :
  forall (sha1 : bytes -> bytes) dialled certs,
    accept_outbound sha1 code_config dialled certs = OAccept ->
    exists c rest s, certs = c :: rest /\ ski_ext c = Some s /\ hex s = dialled /\ length s = 20%nat /\
                     s = sha1 (pubkey c).
Proof. intros sha1 dialled certs. exact (outbound_sound sha1 code_config dialled certs code_config_ok). Qed.
Print Assumptions C02_outbound_identity.

(* … any other presented SKI is refused, and a refusal happens before a single SHIP frame was
   written *)
Theorem C02_outbound_mismatch_refused_nothing_sent :
  forall (sha1 : bytes -> bytes) dialled certs,
    (forall c rest s, certs = c :: rest -> ski_ext c = Some s -> hex s <> dialled) ->
    accept_outbound sha1 code_config dialled certs = ORefuse 0.
Proof. intros sha1 dialled certs. exact (outbound_mismatch_nothing_sent sha1 code_config dialled certs code_config_ok). Qed.
Print Assumptions C02_outbound_mismatch_refused_nothing_sent.

Theorem C02_outbound_refusal_sends_nothing :
  forall (sha1 : bytes -> bytes) dialled certs n,
    accept_outbound sha1 code_config dialled certs = ORefuse n -> n = 0.
Proof. intros sha1 dialled certs n. exact (outbound_refuse_sends_nothing sha1 code_config dialled certs n). Qed.
Print Assumptions C02_outbound_refusal_sends_nothing.

(* (d) certificates of the library's own generator always pass, inbound (any TLS version from
   1.2, any offer containing "ship") and outbound (when their SKI was dialled), under the SKI
   hex(sha1(key)): 40 lower-case hex digits *)
Theorem C02_generator_accepted_inbound :
  forall (sha1 : bytes -> bytes), sha1_spec sha1 ->
  forall ver offered pub, tls12 <= ver -> In ship_proto offered ->
    accept_inbound sha1 code_config ver offered [gen_cert sha1 pub] = Accept (hex (sha1 pub)).
Proof.
  intros sha1 Hs ver offered pub.
  exact (gen_accepted_inbound sha1 Hs code_config ver offered pub code_config_gen_ok).
Qed.
Print Assumptions C02_generator_accepted_inbound.

Theorem C02_generator_accepted_outbound :
  forall (sha1 : bytes -> bytes), sha1_spec sha1 ->
  forall pub, accept_outbound sha1 code_config (hex (sha1 pub)) [gen_cert sha1 pub] = OAccept.
Proof. intros sha1 Hs pub. exact (gen_accepted_outbound sha1 Hs code_config pub code_config_gen_ok). Qed.
Print Assumptions C02_generator_accepted_outbound.

Theorem C02_generator_ski_format :
  forall (sha1 : bytes -> bytes), sha1_spec sha1 ->
  forall pub, length (hex (sha1 pub)) = 40%nat /\ forallb is_lower_hex (hex (sha1 pub)) = true.
Proof. intros sha1 Hs pub. exact (gen_ski_format sha1 Hs pub). Qed.
Print Assumptions C02_generator_ski_format.

(* the property's monitor (the function bin/check evaluates on the implementation's
   observations) holds of the model's decision for every input *)
Theorem C02_inbound_monitor :
  forall (sha1 : bytes -> bytes), sha1_spec sha1 ->
  forall ver offered certs,
    mon_inbound sha1 ver offered certs (accept_inbound sha1 code_config ver offered certs) = [].
Proof.
  intros sha1 Hs ver offered certs.
  exact (inbound_monitor sha1 Hs code_config ver offered certs code_config_gen_ok).
Qed.
Print Assumptions C02_inbound_monitor.

Theorem C02_outbound_monitor :
  forall (sha1 : bytes -> bytes), sha1_spec sha1 ->
  forall dialled certs,
    mon_outbound sha1 dialled certs (accept_outbound sha1 code_config dialled certs) = [].
Proof.
  intros sha1 Hs dialled certs.
  exact (outbound_monitor sha1 Hs code_config dialled certs code_config_gen_ok).
Qed.
Print Assumptions C02_outbound_monitor.

(* the executable SHA-1 of Sha1.v — the one bin/check compares with Go's crypto/sha1 on every key
   of every case, and evaluates the monitors with — meets [sha1_spec], so the theorems above
   apply to it without any hypothesis left *)
Theorem C02_executable_sha1_meets_spec : sha1_spec sha1_impl.
Proof. exact sha1_impl_spec. Qed.
Print Assumptions C02_executable_sha1_meets_spec.

Theorem C02_monitors_with_executable_sha1 :
  (forall ver offered certs,
     mon_inbound sha1_impl ver offered certs (accept_inbound sha1_impl code_config ver offered certs) = []) /\
  (forall dialled certs,
     mon_outbound sha1_impl dialled certs (accept_outbound sha1_impl code_config dialled certs) = []) /\
  (forall l x, sha1_of_table (digest_table l) x = sha1_impl x).
Proof.
  exact (conj (fun v o c => inbound_monitor sha1_impl sha1_impl_spec code_config v o c code_config_gen_ok)
        (conj (fun d c => outbound_monitor sha1_impl sha1_impl_spec code_config d c code_config_gen_ok)
              sha1_of_digest_table)).
Qed.
Print Assumptions C02_monitors_with_executable_sha1.

(* no slack: with SkiFromCertificate checking the length only (the pinned tree, before commit
   "fix: bind the SKI to the certificate's public key"), a certificate claiming a SKI that is
   not the hash of its key is accepted under that SKI, inbound and outbound, whatever SHA-1 is *)
Theorem C02_length_check_alone_refuted :
  forall (sha1 : bytes -> bytes),
  exists ver offered certs k,
    accept_inbound sha1 pinned_config ver offered certs = Accept k /\
    exists c rest s, certs = c :: rest /\ ski_ext c = Some s /\ s <> sha1 (pubkey c) /\
                     accept_outbound sha1 pinned_config (hex s) certs = OAccept.
Proof. exact pinned_refuted. Qed.
Print Assumptions C02_length_check_alone_refuted.

(* the hypotheses are satisfiable: a 20-byte digest function exists, and with it a generator
   certificate for a 65-byte key offered "other" and "ship" over TLS 1.3 is accepted *)
Example C02_nontrivial :
  sha1_spec toy_sha1 /\
  accept_inbound toy_sha1 code_config 772 [[111; 116; 104]; ship_proto] [gen_cert toy_sha1 (4 :: repeat 9 64)]
    = Accept (hex (toy_sha1 (4 :: repeat 9 64))) /\
  accept_inbound toy_sha1 code_config 772 [ship_proto]
    [{| ski_ext := Some (repeat 1 20); pubkey := 4 :: repeat 9 64 |}] = Refuse STls.
Proof. split; [exact toy_sha1_ok|]. split; vm_compute; reflexivity. Qed.
