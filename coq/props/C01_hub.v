(* C01, hub-level half — where trust comes from at the hub.  Statements only
   (model: coq/theories/HubModel.v). *)
From Ship Require Import Base HubModel HubModelProofs.
From ShipGen Require Import StateTable.

(* in any hub state, for any label: the trusted flag of k turns true only by
   RegisterRemoteSKI(k) or by a report of exactly SmeHelloStateOk for k — not by abort,
   rejected, error or any other state, not by mDNS, inbound requests or close reports *)
Theorem C01_hub_trusted_only_by_registration_or_hello_ok :
  forall (C : cfg) (h : hub) (l : label) (k : N),
    s_trusted (get (fst (hstep C h l)) k) = true -> s_trusted (get h k) = false ->
    grants_trust l k = true.
Proof. exact trusted_origin. Qed.
Print Assumptions C01_hub_trusted_only_by_registration_or_hello_ok.

(* an outbound dial (whose connection has the client role, trusted by construction) starts
   only for a SKI that is trusted or queued at that moment *)
Theorem C01_hub_dial_only_trusted_or_queued :
  forall (C : cfg) (h : hub) (l : label) (k : N),
    In k (dials_of (snd (hstep C h l))) -> (s_trusted (get h k) || queued (get h k)) = true.
Proof. intros C h l k H. exact (proj1 (proj2 (dial_step C h l k H))). Qed.
Print Assumptions C01_hub_dial_only_trusted_or_queued.

(* "after the user cancelled it" / unpaired it, at the hub: CancelPairingWithSKI(k) and
   UnregisterRemoteSKI(k), in any state, leave k untrusted, not queued and without attempt
   counter, and the registered connection is aborted resp. told to close ... *)
Theorem C01_hub_cancel_withdraws_trust :
  forall (C : cfg) (h : hub) (k : N),
    let h' := fst (hstep C h (LCancel k)) in
    let o := snd (hstep C h (LCancel k)) in
    s_trusted (get h' k) = false /\ s_pst (get h' k) = ConnectionStateNone /\ s_counter (get h' k) = None
    /\ may_dial (get h' k) = false
    /\ (forall c, s_reg (get h k) = Some c -> In (OAbort c) o).
Proof. exact cancel_effect. Qed.
Print Assumptions C01_hub_cancel_withdraws_trust.

Theorem C01_hub_unregister_withdraws_trust :
  forall (C : cfg) (h : hub) (k : N),
    let h' := fst (hstep C h (LUnregister k)) in
    let o := snd (hstep C h (LUnregister k)) in
    s_trusted (get h' k) = false /\ s_pst (get h' k) = ConnectionStateNone /\ s_counter (get h' k) = None
    /\ may_dial (get h' k) = false
    /\ (forall c, s_reg (get h k) = Some c -> In (OClose c true 4500) o).
Proof. exact unregister_effect. Qed.
Print Assumptions C01_hub_unregister_withdraws_trust.

(* ... and from a state in which k may not be dialled, for every continuation of any length
   that does not grant trust to k again (no RegisterRemoteSKI(k), no hello-ok report for k):
   no dial to k ever starts - the hub only initiates connections to SKIs the user registered *)
Theorem C01_hub_no_dial_without_registration :
  forall (C : cfg) (k : N) (ls : list label) (h : hub),
    may_dial (get h k) = false ->
    (forall l, In l ls -> regrants l k = false) ->
    ~ In k (dials_of (snd (hrun C h ls))) /\ may_dial (get (fst (hrun C h ls)) k) = false.
Proof. exact no_grant_no_dial. Qed.
Print Assumptions C01_hub_no_dial_without_registration.

(* auto-accept is what the user set last: SetAutoAccept(b), in any hub state (started or not,
   shut down or not), makes the flag b - and nothing else ever changes it *)
Theorem C01_hub_auto_accept_is_what_the_user_set :
  forall (C : cfg) (h : hub) (b : bool),
    h_auto (fst (hstep C h (LSetAuto b))) = b /\ snd (hstep C h (LSetAuto b)) = [OAuto b].
Proof. intros C h b. split; reflexivity. Qed.
Print Assumptions C01_hub_auto_accept_is_what_the_user_set.
