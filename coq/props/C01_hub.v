(* C01, hub-level half — where trust comes from at the hub.  Statements only
   (model: coq/theories/HubModel.v). *)
From Ship Require Import Base HubModel HubModelProofs.
From ShipGen Require Import StateTable.

(* in any hub state, for any label: the trusted flag of k turns true only by
   RegisterRemoteSKI(k) or by a report of exactly SmeHelloStateOk for k — not by abort,
   rejected, error or any other state, not by mDNS, inbound requests or close reports *)
Theorem C01_hub_trusted_only_by_registration_or_hello_ok :
  forall (C : cfg) (h : hub) (l : label) (k : N),
    s_trusted (get (fst (hstep C h l)) k) = true -> s_trusted (get h k) = false ->
    grants_trust l k = true.
Proof. exact trusted_origin. Qed.
Print Assumptions C01_hub_trusted_only_by_registration_or_hello_ok.

(* an outbound dial (whose connection has the client role, trusted by construction) starts
   only for a SKI that is trusted or queued at that moment *)
Theorem C01_hub_dial_only_trusted_or_queued :
  forall (C : cfg) (h : hub) (l : label) (k : N),
    In k (dials_of (snd (hstep C h l))) -> (s_trusted (get h k) || queued (get h k)) = true.
Proof. intros C h l k H. exact (proj1 (proj2 (dial_step C h l k H))). Qed.
Print Assumptions C01_hub_dial_only_trusted_or_queued.
