(* C04 — statements only.  model_mon r stored local es is the state of the property monitors
   (ConnMon.mstep: read it, it is the specification) after the run of the connection model
   for role r, stored SHIP id, local SHIP id and the event list es; viol_in 20 29 selects the
   violation codes of this property.  The run quantifies over every finite list of events:
   received frames of any content (as the view every decoder has of them), timer expiries,
   transport errors and silent closes, user approve/abort, CloseConnection, SPINE writes,
   deferred goroutines, with any environment answers and a transport that may close before
   any data-writer call. *)
From Ship Require Import Base Conn ConnEvents ConnData ConnMon ConnClosure ConnLift ConnCor.

Theorem C04_monitor_never_flags :
  forall (r : role) (stored local : bytes) (es : list eventx),
    viol_in 20 29 (model_mon r stored local es) = [].
Proof. exact (fun r s l es => no_violation r s l es 20 29). Qed.
Print Assumptions C04_monitor_never_flags.

Theorem C04_monitor_flags_skipped_phase :
  viol_codes (mon_run (init_ms Client false)
     [BReport 1 false; BReport 2 false; BReport 3 false; BReport 6 false; BReport 7 false;
      BReport 8 false; BReport 13 false; BReport 19 false; BReport 22 false; BReport 24 false;
      BReport 36 false]) = [20].
Proof. exact mon_flags_skipped_phase. Qed.
Print Assumptions C04_monitor_flags_skipped_phase.

Theorem C04_monitor_flags_progress_after_error :
  viol_codes (mon_run (init_ms Server false) [BReport 4 false; BReport 39 true; BReport 5 false]) = [21].
Proof. exact mon_flags_progress_after_error. Qed.
Print Assumptions C04_monitor_flags_progress_after_error.

Theorem C04_monitor_flags_armed_timer_after_error :
  viol_codes (mon_run (init_ms Server false)
     [BReport 4 false; BReport 39 true; BCloseData KUser; BClosedCb false; BSnap 39 true true 0 false]) = [22; 80].
Proof. exact mon_flags_armed_timer_after_error. Qed.
Print Assumptions C04_monitor_flags_armed_timer_after_error.

(* the function bin/check evaluates on the implementation's observations (ConnCheck.check_C04:
   model = implementation?, and the monitor read off the observations themselves - states from
   the hook snapshots, the stored SHIP id from the id reports) returns no failure code on the
   model's own observations, for every role, ids and event list: what is demanded of the
   implementation is exactly what is proved of the model *)
From Ship Require Import ConnCheck ConnImpl.
Theorem C04_checker_accepts_every_model_run :
  forall (r : role) (stored local : bytes) (es : list eventx),
    check_C04 (model_case r stored local es) = [].
Proof. intros r s l es. pose proof (checkers_accept_model r s l es) as H. cbv zeta in H. tauto. Qed.
Print Assumptions C04_checker_accepts_every_model_run.

(* the same clauses without the monitor: on every run of the model the reported states, up to
   the first terminal outcome or the report of the connection's end, walk the SHIP state graph
   (ConnMon.edge_ok, regenerated tables aside) from state 0 - every two consecutive distinct
   reports are an edge - and once a terminal outcome was reported every further state is terminal *)
From Ship Require Import ConnExplicit04.
Theorem C04_reported_states_walk_the_graph :
  forall (r : role) (stored local : bytes) (es : list eventx),
    walk r 0 (model_trace r stored local es) = true.
Proof. exact reported_states_walk_the_graph. Qed.
Print Assumptions C04_reported_states_walk_the_graph.

Theorem C04_only_terminal_states_after_a_terminal_outcome :
  forall (r : role) (stored local : bytes) (es : list eventx),
    settled 0 false (model_trace r stored local es) = true.
Proof. exact only_terminal_states_after_a_terminal_outcome. Qed.
Print Assumptions C04_only_terminal_states_after_a_terminal_outcome.
