(* C11 — statements only.  model_mon r stored local es is the state of the property monitors
   (ConnMon.mstep: read it, it is the specification) after the run of the connection model
   for role r, stored SHIP id, local SHIP id and the event list es; viol_in 50 59 selects the
   violation codes of this property.  The run quantifies over every finite list of events:
   received frames of any content (as the view every decoder has of them), timer expiries,
   transport errors and silent closes, user approve/abort, CloseConnection, SPINE writes,
   deferred goroutines, with any environment answers and a transport that may close before
   any data-writer call. *)
From Ship Require Import Base Conn ConnEvents ConnData ConnMon ConnClosure ConnLift ConnCor.

Theorem C11_monitor_never_flags :
  forall (r : role) (stored local : bytes) (es : list eventx),
    viol_in 50 59 (model_mon r stored local es) = [].
Proof. exact (fun r s l es => no_violation r s l es 50 59). Qed.
Print Assumptions C11_monitor_never_flags.

Theorem C11_monitor_flags_double_end :
  viol_codes (mon_run (init_ms Server false) [BCloseData KUser; BClosedCb true; BClosedCb true]) = [50].
Proof. exact mon_flags_double_end. Qed.
Print Assumptions C11_monitor_flags_double_end.

Theorem C11_monitor_flags_missing_end :
  viol_codes (mon_run (init_ms Server false) [BCloseData KUser; BSnap 4 false false 0 false]) = [51].
Proof. exact mon_flags_missing_end. Qed.
Print Assumptions C11_monitor_flags_missing_end.

(* the function bin/check evaluates on the implementation's observations (ConnCheck.check_C11:
   model = implementation?, and the monitor read off the observations themselves - states from
   the hook snapshots, the stored SHIP id from the id reports) returns no failure code on the
   model's own observations, for every role, ids and event list: what is demanded of the
   implementation is exactly what is proved of the model *)
From Ship Require Import ConnCheck ConnImpl.
Theorem C11_checker_accepts_every_model_run :
  forall (r : role) (stored local : bytes) (es : list eventx),
    check_C11 (model_case r stored local es) = [].
Proof. intros r s l es. pose proof (checkers_accept_model r s l es) as H. cbv zeta in H. tauto. Qed.
Print Assumptions C11_checker_accepts_every_model_run.

(* the same clause without the monitor: on every run of the model - every role, ids and event
   list - the callback HandleConnectionClosed appears at most once in the trace *)
From Ship Require Import ConnExplicit.
Theorem C11_end_reported_at_most_once :
  forall (r : role) (stored local : bytes) (es : list eventx),
    (count_cb (model_trace r stored local es) <= 1)%nat.
Proof. exact closed_reported_at_most_once. Qed.
Print Assumptions C11_end_reported_at_most_once.

(* causes that coincide on different goroutines: the model's flag "once" (Conn.cs.once) stands
   for the sync.Once around the whole body of CloseConnection - with it the body runs at most once
   under every interleaving of closers (Go's contract for sync.Once, trusted), so that the
   sequential theorem above carries over; the flag is read off the source on every run, and the
   stream of connections closed by several goroutines released together counts the reports *)
From ShipGen Require Import ConnTable.
Theorem C11_close_body_runs_inside_sync_once : close_body_once = true.
Proof. reflexivity. Qed.
Print Assumptions C11_close_body_runs_inside_sync_once.
