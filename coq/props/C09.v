(* C09 — statements only.  model_mon r stored local es is the state of the property monitors
   (ConnMon.mstep: read it, it is the specification) after the run of the connection model
   for role r, stored SHIP id, local SHIP id and the event list es; viol_in 40 49 selects the
   violation codes of this property.  The run quantifies over every finite list of events:
   received frames of any content (as the view every decoder has of them), timer expiries,
   transport errors and silent closes, user approve/abort, CloseConnection, SPINE writes,
   deferred goroutines, with any environment answers and a transport that may close before
   any data-writer call. *)
From Ship Require Import Base Conn ConnEvents ConnData ConnMon ConnClosure ConnLift ConnCor.

Theorem C09_monitor_never_flags :
  forall (r : role) (stored local : bytes) (es : list eventx),
    viol_in 40 49 (model_mon r stored local es) = [].
Proof. exact (fun r s l es => no_violation r s l es 40 49). Qed.
Print Assumptions C09_monitor_never_flags.

Theorem C09_monitor_flags_wrong_ship_id :
  viol_codes (mon_run (init_ms Client true)
     [BReport 1 false; BReport 2 false; BReport 3 false; BReport 6 false; BReport 7 false;
      BReport 8 false; BReport 13 false; BReport 19 false; BReport 22 false; BReport 24 false;
      BReport 26 false; BReport 27 false; BReport 31 false; BReport 36 false;
      BEv (mkEv (CRecv NotDatagram NoClose (MAcc (AccId false false))) false false true None);
      BReport 37 false; BSetup]) = [40; 44].
Proof. exact mon_flags_wrong_ship_id. Qed.
Print Assumptions C09_monitor_flags_wrong_ship_id.

(* the function bin/check evaluates on the implementation's observations (ConnCheck.check_C09:
   model = implementation?, and the monitor read off the observations themselves - states from
   the hook snapshots, the stored SHIP id from the id reports) returns no failure code on the
   model's own observations, for every role, ids and event list: what is demanded of the
   implementation is exactly what is proved of the model *)
From Ship Require Import ConnCheck ConnImpl.
Theorem C09_checker_accepts_every_model_run :
  forall (r : role) (stored local : bytes) (es : list eventx),
    check_C09 (model_case r stored local es) = [].
Proof. intros r s l es. pose proof (checkers_accept_model r s l es) as H. cbv zeta in H. tauto. Qed.
Print Assumptions C09_checker_accepts_every_model_run.

(* with a stored id the device is set up only after the peer has presented exactly that id in the
   access-methods phase (code 44) - a handshake that reaches the setup without it is flagged -
   and a reply without a usable id is an error whether or not an id is stored *)
Theorem C09_monitor_flags_setup_without_presented_id :
  viol_codes (mon_run (init_ms Client true)
     [BReport 1 false; BReport 2 false; BReport 3 false; BReport 6 false; BReport 7 false;
      BReport 8 false; BReport 13 false; BReport 19 false; BReport 22 false; BReport 24 false;
      BReport 26 false; BReport 27 false; BReport 31 false; BReport 36 false;
      BReport 37 false; BSetup]) = [44].
Proof. vm_compute. reflexivity. Qed.
Print Assumptions C09_monitor_flags_setup_without_presented_id.

Theorem C09_monitor_flags_setup_after_reply_without_id :
  viol_codes (mon_run (init_ms Client false)
     [BReport 1 false; BReport 2 false; BReport 3 false; BReport 6 false; BReport 7 false;
      BReport 8 false; BReport 13 false; BReport 19 false; BReport 22 false; BReport 24 false;
      BReport 26 false; BReport 27 false; BReport 31 false; BReport 36 false;
      BEv (mkEv (CRecv NotDatagram NoClose (MAcc AccNoId)) false false true None);
      BShipId; BReport 37 false; BSetup]) = [40].
Proof. vm_compute. reflexivity. Qed.
Print Assumptions C09_monitor_flags_setup_after_reply_without_id.
