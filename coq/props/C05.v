(* C05 — Mutually paired, visible hubs converge to exactly one working connection.
   Statements only; every proof is `exact <lemma>`.
   Model: coq/theories/HubConv.v (two hubs, HA = the hub with the larger SKI; up to three
   connection objects, up to two pending delayed dials and one pending mDNS report per hub;
   keepThisConnection, registerConnection and HandleConnectionClosed are separate atomic steps). *)
From Coq Require Import FMapPositive.
From Ship Require Import Base Closure HubConv HubConvProofs.

(* (a) Go's string comparison on SKIs, modelled on byte lists, is a strict total order ... *)
Theorem C05_ski_order_strict_total :
  (forall x, bgt x x = false)
  /\ (forall x y z, bgt x y = true -> bgt y z = true -> bgt x z = true)
  /\ (forall x y, x <> y -> (bgt x y = true /\ bgt y x = false) \/ (bgt x y = false /\ bgt y x = true)).
Proof.
  split; [exact blt_irrefl|]. split; [|exact bgt_cases].
  intros x y z H1 H2. exact (blt_trans z y x H2 H1).
Qed.
Print Assumptions C05_ski_order_strict_total.

(* ... and the double-connection rule (hub.keepThisConnection) makes BOTH hubs keep the
   connection initiated by the hub with the larger SKI, for all SKI byte strings x <> y and
   whatever order each hub sees the two simultaneous connections in (cx_first_at_x / _y):
   hub x ends up with cx iff x > y, and so does hub y *)
Theorem C05_both_hubs_keep_connection_of_larger_ski :
  forall (x y : bytes) (cx_first_at_x cx_first_at_y : bool), x <> y ->
    hub_x_keeps_cx x y cx_first_at_x = bgt x y /\ hub_y_keeps_cx x y cx_first_at_y = bgt x y.
Proof. exact rule_agreement. Qed.
Print Assumptions C05_both_hubs_keep_connection_of_larger_ski.

(* (b) CONVERGENCE of the current (repaired) code, by a certified closure of the reachable set
   and a ranking certificate: in every state reachable by the hubs' own steps, dial timers and
   any number of disturbances in any order (peer becoming visible, failing dials, hub restarts
   at any moment; DisconnectSKI by either side and transport cuts whenever the hubs' own steps
   have settled, with dial timers possibly pending):
   - each registry holds at most one connection;
   - every quiet run (no further disturbance; own steps in any interleaving; a dial timer
     expires when nothing else can happen, alone or together with the other hub's) is finite;
   - and it ends, if the hubs see each other, with exactly ONE connection object, live and
     registered on BOTH sides (the same object), no other object alive, nothing pending. *)
Theorem C05_convergence :
  forall s, reach (next cfg_repaired) init s ->
    reg_inv s = true
    /\ Acc (fun b a => In b (quiet cfg_repaired a)) s
    /\ (exists s', quiet_run (quiet cfg_repaired) s s')
    /\ (forall s', quiet_run (quiet cfg_repaired) s s' -> both_visible s' = true -> converged s' = true).
Proof. exact conv_repaired. Qed.
Print Assumptions C05_convergence.

(* the statement is not vacuous: the ordinary schedule (A sees B and dials) is a run of the
   model and ends in a converged state that the monitor of the tie accepts *)
Theorem C05_convergence_nonvacuous :
  exists s, run cfg_repaired init sched_plain = Some s /\ quiet cfg_repaired s = []
            /\ both_visible s = true /\ converged s = true /\ qobs_good (obs_of s) = true.
Proof. exact plain_converges. Qed.
Print Assumptions C05_convergence_nonvacuous.

(* PARTIAL, the code as pinned (registerConnection overwrites unconditionally; a stale dial
   attempt is dropped silently): the same statement under the hypothesis that a hub's
   keepThisConnection .. Run .. registerConnection sequence is atomic (cfg_atomic) *)
Theorem C05_convergence_pinned_partial :
  forall s, reach (next cfg_atomic) init s ->
    reg_inv s = true
    /\ Acc (fun b a => In b (quiet cfg_atomic a)) s
    /\ (exists s', quiet_run (quiet cfg_atomic) s s')
    /\ (forall s', quiet_run (quiet cfg_atomic) s s' -> both_visible s' = true -> converged s' = true).
Proof. exact conv_atomic. Qed.
Print Assumptions C05_convergence_pinned_partial.

(* REFUTED for the pinned code without that hypothesis (sched_double): both hubs dial at the
   same moment, at both hubs both connections pass keepThisConnection before either is
   registered, all four registrations happen: a quiescent state with TWO live connections, each
   application has set the peer up twice, one connection lives on unregistered (monitor code 10).
   Reproduced on two real hubs (DESIGN.md section 7); repaired by registerCheckedConnection. *)
Theorem C05_double_registration_refuted :
  exists s, reach (next cfg_pinned) init s /\ quiet cfg_pinned s = [] /\ both_visible s = true
            /\ converged s = false /\ qobs_codes true (obs_of s) = [10].
Proof. exact double_refuted. Qed.
Print Assumptions C05_double_registration_refuted.

(* REFUTED, second window of the same structure (sched_zombie): a connection that the peer
   rejected is reported closed BEFORE its registerConnection runs; the closed object is then
   registered over the good one and stays in the registry for ever (monitor code 12) *)
Theorem C05_closed_connection_registered_refuted :
  exists s, reach (next cfg_pinned) init s /\ quiet cfg_pinned s = [] /\ both_visible s = true
            /\ converged s = false /\ qobs_codes true (obs_of s) = [12].
Proof. exact zombie_refuted. Qed.
Print Assumptions C05_closed_connection_registered_refuted.

(* REFUTED (sched_stuck): a completed connection is closed while both hubs still have a delayed
   dial attempt pending: the attempt counters are removed, the requested mDNS reports are
   ignored because an attempt is "running", the pending attempts find their counter gone and
   give up: ZERO connections and nothing left that would dial (monitor code 11).  Replayed on
   two real hubs by hubdrv (scenario pending_disconnect); repaired in prepareConnectionInitation. *)
Theorem C05_no_connection_after_close_refuted :
  exists s, reach (next cfg_pinned) init s /\ quiet cfg_pinned s = [] /\ both_visible s = true
            /\ converged s = false /\ qobs_codes true (obs_of s) = [11].
Proof. exact stuck_refuted. Qed.
Print Assumptions C05_no_connection_after_close_refuted.

(* (c) registry step of HandleConnectionClosed (the function the unit tie compares the real
   hub with): closing an object other than the registered one leaves the registered one,
   closing the registered one empties the entry, never more than one entry per SKI *)
Theorem C05_close_removes_only_identical_object :
  forall (second : bool) (closed : N),
    (closed <> (if second then 2 else 1) -> reg_model second closed = (1, if second then 2 else 1))
    /\ (closed = (if second then 2 else 1) -> reg_model second closed = (0, 0))
    /\ (fst (reg_model second closed) <= 1).
Proof. exact reg_model_identity. Qed.
Print Assumptions C05_close_removes_only_identical_object.
