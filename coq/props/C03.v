(* C03 — two ship-go endpoints always agree.  Statements only.
   Pair.v joins a client-role and a server-role connection (the very control model of Conn.v)
   by two FIFO channels; a configuration fixes the server side's trust (paired, auto-accept,
   waiting allowed), what the user will do while the request is pending (approve, cancel,
   nothing) and what each side has stored as the other's SHIP id (unknown, right, wrong):
   288 configurations, every one of them covered. *)
From Coq Require Import FMapPositive.
From Ship Require Import Base Closure Conn ConnEvents ConnData ConnMon ConnClosure ConnLift Pair PairClosure.

(* TIMELY MODE (timers expire only when nothing else can happen; a user who will act does so
   before any timer runs out).  For every configuration and every state reachable by any
   interleaving of deliveries in either direction, the user's action, deferred goroutines,
   propagation of a transport close, and such timer expiries:
   - safety (pair_safe): no endpoint crashes; each side sets the remote device up at most
     once; nobody completes unless the server side's trust was given (paired, auto-accept, or
     approved by the user); a side only completes if the id it had stored was right, reports
     the id iff it had none, and has set the device up when it completes;
   - outcome (pair_final_ok): where nothing more can happen both sides are completed on an
     open connection with one setup each, or both have ended with the transport closed and no
     timer armed; the former if trust is settled (or will be approved and waiting is allowed),
     nobody cancels and the stored ids are not wrong; the latter if nobody gives trust.
   PARTIAL: the user approves only once the server has seen the client's hello "ready" (or
   before the server started waiting) - see C03_approval_before_peer_ready_refuted. *)
Theorem C03_timely_agreement_partial :
  forall (cfg : pcfg) (s : pair),
    reach (timely_next true cfg) (pair_init cfg) s -> pair_ok true cfg s = true.
Proof. exact pair_timely_ok. Qed.
Print Assumptions C03_timely_agreement_partial.

(* ... and every such run is finite whenever somebody settles the trust question: both sides
   DO reach the outcome above (with nobody answering and waiting allowed the prolongation
   exchange legitimately goes on for ever) *)
Theorem C03_timely_runs_terminate_partial :
  forall (cfg : pcfg) (s : pair),
    terminating cfg = true ->
    reach (timely_next true cfg) (pair_init cfg) s ->
    Acc (fun b a => In b (timely_next true cfg a)) s.
Proof. exact pair_timely_terminates. Qed.
Print Assumptions C03_timely_runs_terminate_partial.

(* REFUTED without the restriction: the user approves while the request is pending but before
   the server has received the client's hello "ready" (still in flight): the server jumps to
   the protocol phase, reads the late hello as a protocol handshake message, and both sides
   end in the error state although trust was given.  Replayed on two real connections on
   every run (shipdrv -prop pair, directed scenario 0); recorded as a known finding. *)
Theorem C03_approval_before_peer_ready_refuted :
  exists s, reach (timely_next false cfg_approving) (pair_init cfg_approving) s
            /\ timely_next false cfg_approving s = []
            /\ must_succeed cfg_approving = true
            /\ both_complete_open s = false /\ st_c s = 39 /\ st_s s = 39.
Proof. exact pair_approve_early_refuted. Qed.
Print Assumptions C03_approval_before_peer_ready_refuted.

(* ARBITRARY MODE (timers may expire at any point, any delays), single endpoint, every
   event list: a side that gives up closes the connection ... *)
Theorem C03_arbitrary_gave_up_side_closes :
  forall r stored local es,
    let c := fst (final_state (init_state r stored local) es) in
    terminal_state (st c) = true -> wclosed c || d500 c || d1000 c = true.
Proof. exact gave_up_side_closes. Qed.
Print Assumptions C03_arbitrary_gave_up_side_closes.

(* ... and the peer's close reaching a side (as a transport error) always ends that side *)
Theorem C03_arbitrary_transport_error_ends_side :
  forall r stored local es e,
    x_ev e = EConnErr ->
    let s := final_state (init_state r stored local) es in
    let c' := fst (fst (step s e)) in
    terminal_state (st c') = true /\ wclosed c' = true /\ armed c' = false.
Proof. exact transport_error_ends_side. Qed.
Print Assumptions C03_arbitrary_transport_error_ends_side.
