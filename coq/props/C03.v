(* C03 — two ship-go endpoints always agree.  Statements only.
   Pair.v joins a client-role and a server-role connection (the very control model of Conn.v)
   by two FIFO channels; a configuration fixes the server side's trust (paired, auto-accept,
   waiting allowed), what the user will do while the request is pending (approve, cancel,
   nothing) and what each side has stored as the other's SHIP id (unknown, right, wrong):
   288 configurations, every one of them covered. *)
From Coq Require Import FMapPositive.
From Ship Require Import Base Closure Conn ConnEvents ConnData ConnMon ConnClosure ConnLift Pair PairClosure.

(* TIMELY MODE (timers expire only when nothing else can happen; a user who will act does so
   before any timer runs out).  For every configuration and every state reachable by any
   interleaving of deliveries in either direction, the user's action, deferred goroutines,
   propagation of a transport close, and such timer expiries:
   - safety (pair_safe): no endpoint crashes; each side sets the remote device up at most
     once; nobody completes unless the server side's trust was given (paired, auto-accept, or
     approved by the user); a side only completes if the id it had stored was right, reports
     the id iff it had none, and has set the device up when it completes;
   - outcome (pair_final_ok): where nothing more can happen both sides are completed on an
     open connection with one setup each, or both have ended with the transport closed and no
     timer armed; the former if trust is settled (or will be approved and waiting is allowed),
     nobody cancels and the stored ids are not wrong; the latter if nobody gives trust.
   PARTIAL: the user approves only once the server has seen the client's hello "ready" (or
   before the server started waiting) - see C03_approval_before_peer_ready_refuted. *)
Theorem C03_timely_agreement_partial :
  forall (cfg : pcfg) (s : pair),
    reach (timely_next true cfg) (pair_init cfg) s -> pair_ok true cfg s = true.
Proof. exact pair_timely_ok. Qed.
Print Assumptions C03_timely_agreement_partial.

(* ... and every such run is finite whenever somebody settles the trust question: both sides
   DO reach the outcome above (with nobody answering and waiting allowed the prolongation
   exchange legitimately goes on for ever) *)
Theorem C03_timely_runs_terminate_partial :
  forall (cfg : pcfg) (s : pair),
    terminating cfg = true ->
    reach (timely_next true cfg) (pair_init cfg) s ->
    Acc (fun b a => In b (timely_next true cfg a)) s.
Proof. exact pair_timely_terminates. Qed.
Print Assumptions C03_timely_runs_terminate_partial.

(* REFUTED without the restriction: the user approves while the request is pending but before
   the server has received the client's hello "ready" (still in flight): the server jumps to
   the protocol phase, reads the late hello as a protocol handshake message, and both sides
   end in the error state although trust was given.  Replayed on two real connections on
   every run (shipdrv -prop pair, directed scenario 0); recorded as a known finding. *)
Theorem C03_approval_before_peer_ready_refuted :
  exists s, reach (timely_next false cfg_approving) (pair_init cfg_approving) s
            /\ timely_next false cfg_approving s = []
            /\ must_succeed cfg_approving = true
            /\ both_complete_open s = false /\ st_c s = 39 /\ st_s s = 39.
Proof. exact pair_approve_early_refuted. Qed.
Print Assumptions C03_approval_before_peer_ready_refuted.

(* ARBITRARY MODE (timers may expire at any point, any delays), single endpoint, every
   event list: a side that gives up closes the connection ... *)
Theorem C03_arbitrary_gave_up_side_closes :
  forall r stored local es,
    let c := fst (final_state (init_state r stored local) es) in
    terminal_state (st c) = true -> wclosed c || d500 c || d1000 c = true.
Proof. exact gave_up_side_closes. Qed.
Print Assumptions C03_arbitrary_gave_up_side_closes.

(* ... and the peer's close reaching a side (as a transport error) always ends that side *)
Theorem C03_arbitrary_transport_error_ends_side :
  forall r stored local es e,
    x_ev e = EConnErr ->
    let s := final_state (init_state r stored local) es in
    let c' := fst (fst (step s e)) in
    terminal_state (st c') = true /\ wclosed c' = true /\ armed c' = false.
Proof. exact transport_error_ends_side. Qed.
Print Assumptions C03_arbitrary_transport_error_ends_side.


(* "a user approval given at any moment while the request is pending", across prolongation
   rounds (patient mode, PairPatient.v): while the user has not acted the pending server's timer
   may expire any number of times - each expiry sends a prolongation request, the client answers,
   both re-arm - and the approval or cancel comes between any two rounds; no other timer expires
   before the user has acted.  Every reachable state of every configuration is safe, and every
   state without successor is a correct outcome (both complete on an open connection when the
   server trusts, both ended when it does not).  Partial for the same reason as the timely
   theorem: the approval is restricted to moments at which no hello of the client is under way
   (approve_quiet) - the finding recorded for C03 - and liveness across an unbounded number of
   rounds needs the fairness assumption that the user acts eventually. *)
From Ship Require Import PairPatient.
Theorem C03_patient_agreement_partial :
  forall (cfg : pcfg) (s : pair),
    reach (patient_next cfg) (pair_init cfg) s -> pat_ok cfg s = true.
Proof. exact pair_patient_ok. Qed.
Print Assumptions C03_patient_agreement_partial.

(* "Under arbitrary delays and timer expiries the two sides still never disagree for good",
   on the two-endpoint model (racing mode, PairArb.v): deliveries in either direction, the
   user's approval or cancel at ANY moment (the moments of the recorded finding included), the
   deferred goroutines and the expiry of either side's timer at any point relative to all of
   these - in particular while a frame for the expiring side is in flight.  For every
   configuration and every reachable state: safety holds; a state in which nothing more can
   happen is an agreement (both complete on an open connection, or both ended with the
   transport closed and no timer armed) ... *)
From Ship Require Import PairArb.
Theorem C03_racing_agreement_partial :
  forall (cfg : pcfg) (s : pair),
    reach (arb_next cfg) (pair_init cfg) s -> arb_ok cfg s = true.
Proof. exact pair_racing_ok. Qed.
Print Assumptions C03_racing_agreement_partial.

(* ... and from every reachable state such an agreement can still be reached: no
   interleaving leads into a region in which the two sides are stuck in disagreement (with a
   fair scheduler they agree eventually).  Partial: to keep the channels finite a timer expires
   only when the peer has taken what the expiring side wrote before and at most one frame is in
   flight towards it (PairArb.expiry_held); unboundedly many expiries against a peer that never
   reads are covered for a single endpoint only (the two theorems above). *)
Theorem C03_racing_agreement_stays_reachable_partial :
  forall (cfg : pcfg) (s : pair),
    reach (arb_next cfg) (pair_init cfg) s -> can_end pair (arb_next cfg) agreement s.
Proof. exact pair_racing_can_settle. Qed.
Print Assumptions C03_racing_agreement_stays_reachable_partial.
