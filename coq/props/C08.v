(* C08 — statements only.  model_mon r stored local es is the state of the property monitors
   (ConnMon.mstep: read it, it is the specification) after the run of the connection model
   for role r, stored SHIP id, local SHIP id and the event list es; viol_in 30 39 selects the
   violation codes of this property.  The run quantifies over every finite list of events:
   received frames of any content (as the view every decoder has of them), timer expiries,
   transport errors and silent closes, user approve/abort, CloseConnection, SPINE writes,
   deferred goroutines, with any environment answers and a transport that may close before
   any data-writer call. *)
From Ship Require Import Base Conn ConnEvents ConnData ConnMon ConnClosure ConnLift ConnCor.

Theorem C08_monitor_never_flags :
  forall (r : role) (stored local : bytes) (es : list eventx),
    viol_in 30 39 (model_mon r stored local es) = [].
Proof. exact (fun r s l es => no_violation r s l es 30 39). Qed.
Print Assumptions C08_monitor_never_flags.

(* explicitly: no event list makes the model panic (index / nil / closed-channel points are
   modelled as BPanic), deadlock (nested shutdownOnce = BHang) or exhaust the recursion fuel *)
Theorem C08_no_panic :
  forall r stored local es, ~ In BPanic (model_trace r stored local es).
Proof. exact no_panic. Qed.
Print Assumptions C08_no_panic.

Theorem C08_no_deadlock_no_unbounded_recursion :
  forall r stored local es,
    ~ In BHang (model_trace r stored local es) /\ ~ In BFuel (model_trace r stored local es).
Proof. exact no_hang. Qed.
Print Assumptions C08_no_deadlock_no_unbounded_recursion.

(* the function bin/check evaluates on the implementation's observations (ConnCheck.check_C08:
   model = implementation?, and the monitor read off the observations themselves - states from
   the hook snapshots, the stored SHIP id from the id reports) returns no failure code on the
   model's own observations, for every role, ids and event list: what is demanded of the
   implementation is exactly what is proved of the model *)
From Ship Require Import ConnCheck ConnImpl.
Theorem C08_checker_accepts_every_model_run :
  forall (r : role) (stored local : bytes) (es : list eventx),
    check_C08 (model_case r stored local es) = [].
Proof. intros r s l es. pose proof (checkers_accept_model r s l es) as H. cbv zeta in H. tauto. Qed.
Print Assumptions C08_checker_accepts_every_model_run.
