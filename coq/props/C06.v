(* C06 — SPINE payloads are delivered exactly once, in order, only after completion
   (connection level).  Statements only. *)
From Ship Require Import Base Conn ConnEvents ConnData ConnMon ConnClosure ConnLift ConnCor ConnCheck ConnC06.

(* ConnCheck.c06_data walks a run event by event and checks, after every event, that the
   payloads handed to the SPINE reader so far (ODeliver observations) are exactly the
   payloads of the well-formed SPINE frames received so far (in arrival order, each once) if
   the remote device has been set up, and that nothing has been delivered before that.  It
   returns [] iff this holds.  On every run of the model - any role, ids, any finite event
   list with any interleaving of data frames with the remaining handshake messages,
   payload lists of any length - it does. *)
Theorem C06_exactly_once_in_order_after_setup :
  forall (r : role) (stored local : bytes) (es : list eventx),
    c06_data false [] [] es (run (init_state r stored local) es) = [].
Proof. exact c06_model_ok. Qed.
Print Assumptions C06_exactly_once_in_order_after_setup.

(* control part: a direct delivery only happens when the reader is set *)
Theorem C06_monitor_never_flags :
  forall (r : role) (stored local : bytes) (es : list eventx),
    viol_in 60 69 (model_mon r stored local es) = [].
Proof. exact (fun r s l es => no_violation r s l es 60 69). Qed.
Print Assumptions C06_monitor_never_flags.

(* the check function does reject loss, duplication and early delivery *)
Theorem C06_data_check_rejects_loss :
  c06_data false [] []
    [mk (ERecv (mkView DgOk 7 NoClose InitBadType None ProtErr PinErr VAccNeither));
     mk (ERecv (mkView DgOk 8 NoClose InitBadType None ProtErr PinErr VAccNeither))]
    [[OSetup; ODeliver 7]; []] = [61].
Proof. vm_compute. reflexivity. Qed.
Print Assumptions C06_data_check_rejects_loss.

Theorem C06_data_check_rejects_early_delivery :
  c06_data false [] []
    [mk (ERecv (mkView DgOk 7 NoClose InitBadType None ProtErr PinErr VAccNeither))]
    [[ODeliver 7]] = [60].
Proof. vm_compute. reflexivity. Qed.
Print Assumptions C06_data_check_rejects_early_delivery.

(* the function bin/check evaluates on the implementation's observations (ConnCheck.check_C06:
   model = implementation?, and the monitor read off the observations themselves - states from
   the hook snapshots, the stored SHIP id from the id reports) returns no failure code on the
   model's own observations, for every role, ids and event list: what is demanded of the
   implementation is exactly what is proved of the model *)
From Ship Require Import ConnCheck ConnImpl.
Theorem C06_checker_accepts_every_model_run :
  forall (r : role) (stored local : bytes) (es : list eventx),
    check_C06 (model_case r stored local es) = [].
Proof. intros r s l es. pose proof (checkers_accept_model r s l es) as H. cbv zeta in H. tauto. Qed.
Print Assumptions C06_checker_accepts_every_model_run.

(* "only after completion": a delivery to the reader before SME_STATE_COMPLETE has been reported
   is flagged (code 62), also when the reader has been set up already *)
Theorem C06_monitor_flags_delivery_before_complete :
  viol_codes (mon_run (init_ms Client false)
     [BReport 1 false; BReport 2 false; BReport 3 false; BReport 6 false; BReport 7 false;
      BReport 8 false; BReport 13 false; BReport 19 false; BReport 22 false; BReport 24 false;
      BReport 26 false; BReport 27 false; BReport 31 false; BReport 36 false;
      BShipId; BReport 37 false; BSetup; BDeliver; BReport 38 false]) = [62].
Proof. vm_compute. reflexivity. Qed.
Print Assumptions C06_monitor_flags_delivery_before_complete.
