From Coq Require Import FMapPositive.
From Ship Require Import Base Closure HubConv.
Definition tbl (c : cfg) := explore st_beq st_hash (next c) 400 init.
Definition size (c : cfg) := (length (members (fst (tbl c))), snd (tbl c)).
Time Eval vm_compute in size (cfg_atomic true).
