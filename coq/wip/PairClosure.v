(* PairClosure.v — C03 on the two-endpoint model, timely mode: for EVERY configuration a
   certified closure of the reachable set (no depth bound), the safety facts checked on
   every member, the outcome facts checked on every member without successor. *)
From Coq Require Import FMapPositive.
From Ship Require Import Base Closure Conn ConnEvents ConnMon ConnClosure Pair.

Lemma list_eqb_eq {A} (eqb : A -> A -> bool) (H : forall x y, eqb x y = true -> x = y) :
  forall a b, list_eqb eqb a b = true -> a = b.
Proof.
  induction a as [|x a IH]; intros [|y b] E; simpl in E; try discriminate; [reflexivity|].
  apply andb_true_iff in E as [E1 E2]. f_equal; [apply H; exact E1 | apply IH; exact E2].
Qed.

Lemma pair_eqb_eq a b : pair_eqb a b = true -> a = b.
Proof.
  unfold pair_eqb. intros E. apply andb_true_iff in E as [E E3]. apply andb_true_iff in E as [E1 E2].
  apply internal_pcore_dec_bl in E1.
  apply (list_eqb_eq wire_beq internal_wire_dec_bl) in E2.
  apply (list_eqb_eq wire_beq internal_wire_dec_bl) in E3.
  destruct a, b; simpl in *; subst; reflexivity.
Qed.

(* ---- configurations: a finite type, fully enumerated ---- *)
Definition all_ids : list idcfg := [IdUnknown; IdRight; IdWrong].
Definition bools : list bool := [false; true].
Definition all_cfgs : list pcfg :=
  flat_map (fun a => flat_map (fun b => flat_map (fun c => flat_map (fun d => flat_map (fun e =>
  flat_map (fun i => map (fun j => mkCfg a b c d e i j) all_ids) all_ids) bools) bools) bools) bools) bools.

Scheme Equality for pcfg.

Lemma all_cfgs_complete cfg : In cfg all_cfgs.
Proof.
  assert (H : existsb (pcfg_beq cfg) all_cfgs = true).
  { destruct cfg as [a b c d e i j]. destruct a, b, c, d, e, i, j; vm_compute; reflexivity. }
  apply existsb_exists in H as [x [Hin Heq]]. apply internal_pcfg_dec_bl in Heq. subst x. exact Hin.
Qed.

(* ---- the facts ---- *)
Definition trust_possible (cfg : pcfg) (k : pcore) : bool :=
  f_paired cfg || f_auto cfg || (f_approves cfg && u_done k && u_trusted k).
Definition st_c (p : pair) := p_st (e_c (core p)).
Definition st_s (p : pair) := p_st (e_s (core p)).

(* safety, every reachable state *)
Definition pair_safe (cfg : pcfg) (p : pair) : bool :=
  let k := core p in
  negb (p_dead (e_c k)) && negb (p_dead (e_s k))
  && (n_csetup k <=? 1) && (n_ssetup k <=? 1)
  (* nobody completes without the server side's trust *)
  && implb (c_complete k || s_complete k || N.eqb (n_csetup k) 1 || N.eqb (n_ssetup k) 1) (trust_possible cfg k)
  (* a side only completes if the id it had stored was the right one; an unknown id is reported, a known one is not *)
  && implb (c_complete k) (negb (match f_cid cfg with IdWrong => true | _ => false end))
  && implb (s_complete k) (negb (match f_sid cfg with IdWrong => true | _ => false end))
  && implb (c_idrep k) (match f_cid cfg with IdUnknown => true | _ => false end)
  && implb (s_idrep k) (match f_sid cfg with IdUnknown => true | _ => false end)
  && implb (c_complete k) (N.eqb (n_csetup k) 1 && (c_idrep k || idk_of (f_cid cfg)))
  && implb (s_complete k) (N.eqb (n_ssetup k) 1 && (s_idrep k || idk_of (f_sid cfg))).

Definition both_complete_open (p : pair) : bool :=
  let k := core p in
  N.eqb (st_c p) 38 && N.eqb (st_s p) 38 && negb (p_wclosed (e_c k)) && negb (p_wclosed (e_s k))
  && N.eqb (n_csetup k) 1 && N.eqb (n_ssetup k) 1
  && match q_cs p, q_sc p with [], [] => true | _, _ => false end.
Definition both_ended (p : pair) : bool :=
  let k := core p in
  p_wclosed (e_c k) && p_wclosed (e_s k) && terminal_state (st_c p) && terminal_state (st_s p)
  && negb (p_armed (e_c k)) && negb (p_armed (e_s k)).

(* a configuration in which the handshake has to succeed *)
Definition must_succeed (cfg : pcfg) : bool :=
  (f_paired cfg || f_auto cfg || (f_approves cfg && f_allow cfg)) && negb (f_cancels cfg)
  && negb (match f_cid cfg with IdWrong => true | _ => false end)
  && negb (match f_sid cfg with IdWrong => true | _ => false end).
(* ... and one in which it must not *)
Definition must_fail (cfg : pcfg) : bool :=
  negb (f_paired cfg) && negb (f_auto cfg) && negb (f_approves cfg).

(* outcome: a state in which nothing more can happen (no delivery, no deferred goroutine,
   no user action, no timer) *)
Definition pair_final_ok (strict : bool) (cfg : pcfg) (p : pair) : bool :=
  match timely_next strict cfg p with
  | _ :: _ => true
  | [] =>
      (both_complete_open p || both_ended p)
      && implb (must_succeed cfg) (both_complete_open p)
      && implb (must_fail cfg) (both_ended p)
  end.

Definition pair_ok (strict : bool) (cfg : pcfg) (p : pair) : bool :=
  pair_safe cfg p && pair_final_ok strict cfg p.

Definition pair_table (strict : bool) (cfg : pcfg) : table pair :=
  fst (explore pair_eqb pair_hash (timely_next strict cfg) 500 (pair_init cfg)).

Definition pair_cert (strict : bool) (cfg : pcfg) : bool :=
  let t := pair_table strict cfg in
  mem pair_eqb pair_hash (pair_init cfg) t
  && closed_check pair_eqb pair_hash (timely_next strict cfg) t
  && forallb (pair_ok strict cfg) (members t).
