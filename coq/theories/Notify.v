(* Notify.v — C18: pairing-state notifications of the hub for ONE SKI.  Definitions only.

   Transcribed from hub/hub_shipconnection.go (HandleShipHandshakeStateUpdate),
   hub/hub_pairing.go (PairingDetailForSki, RegisterRemoteSKI, UnregisterRemoteSKI,
   CancelPairingWithSKI) and hub/hub_connections.go (ServeHTTP), as the code is:

   * the service holds a POINTER to a ConnectionStateDetail object (state, error);
   * HandleShipHandshakeStateUpdate builds a NEW object (pair_state_of state, or
     ConnectionStateError when the error is neither nil nor ErrConnectionNotFound),
     and, when its state differs from the stored one or `errors.Is(stored error, new
     error)` is false, REPLACES the stored pointer and spawns a goroutine that sleeps
     500 ms and then hands that new object to the application;
   * Register (started, no connection) / Unregister / Cancel / ServeHTTP (stored state
     Queued) call SetState on the object the service points to NOW (in place, the error
     is kept) and notify synchronously with that same pointer;
   * the application reads the object when it receives the pointer, so a delayed delivery
     of an object that is still the stored one shows every in-place change made meanwhile,
     while a delivery of an object that has been replaced shows what it held when it
     was replaced;
   * PairingDetailForSki answers pair_state_of (connection's live SHIP state) with the
     connection's live error while a connection is registered, the stored object otherwise.

   Pending deliveries may fire in ANY order (labels EDeliver i): the 500 ms sleeps of
   updates issued within microseconds expire together.

   pair_state_of is regenerated from the switch in Hub.mapShipMessageExchangeState. *)
From Ship Require Import Base.
From ShipGen Require Import StateTable.

(* error values: 0 = nil, 1 = api.ErrConnectionNotFound, k >= 2 = any other error value
   (distinct numbers = distinct error objects, none wrapping another: the SHIP connection
   creates them with errors.New / fmt.Errorf without %w).  errors.Is(a, b) on such values
   is identity, and errors.Is(nil, nil) = true. *)
Definition err := N.
Definition errors_is (a b : err) : bool := N.eqb a b.
Definition forces_error (e : err) : bool := negb (N.eqb e 0) && negb (errors_is e 1).

Definition detail := (N * err)%type.           (* ConnectionState, error *)

(* a spawned delayed delivery: None = it holds the object that is still the stored one
   (it will show the stored content at delivery time); Some (d, v) = its object has been
   replaced and is frozen with content d, last written at version v *)
Definition pentry := option (detail * nat).

(* one notification as the application saw it: shown state/error, whether it came
   synchronously from a user operation / ServeHTTP, and (ghost) the version of the hub's
   stored detail that this content was *)
Record note := mkNote { n_sync : bool; n_st : N; n_err : err; n_ver : nat }.

Record hub := mkHub {
  started : bool;            (* Hub.Start was called *)
  stored : detail;           (* content of the object the service points to *)
  ver : nat;                 (* ghost: number of writes to the stored detail so far *)
  pending : list pentry;     (* spawned, not yet delivered, in spawn order *)
  conn : bool;               (* a connection is registered for the SKI *)
  live : detail;             (* the connection's ShipHandshakeState(): SHIP state, error *)
  fresh : bool;              (* ghost: the last write attempt on the stored detail was a report
                                of the connection (no user operation since) *)
  log : list note            (* notifications received, NEWEST FIRST *)
}.

Definition init (st : bool) : hub := mkHub st (0, 0) 0 [] false (0, 0) false [].

Inductive ev :=
| EReport (s : N) (e : err)  (* the connection sets its state and calls HandleShipHandshakeStateUpdate *)
| EConnReg                   (* registerConnection *)
| EConnClosed                (* HandleConnectionClosed of the registered connection *)
| ERegister | EUnregister | ECancel   (* RegisterRemoteSKI / UnregisterRemoteSKI / CancelPairingWithSKI *)
| EInbound                   (* ServeHTTP up to and including its notification *)
| EDeliver (i : nat)         (* the i-th pending delayed delivery fires *)
| EAsk.                      (* PairingDetailForSki (observation only) *)

(* what the application is shown, and what version that is *)
Definition shown (h : hub) (p : pentry) : detail * nat :=
  match p with None => (stored h, ver h) | Some dv => dv end.
Definition shown_ver (h : hub) (p : pentry) : nat := snd (shown h p).

Definition detach (h : hub) (p : pentry) : pentry := Some (shown h p).

Definition add_note (sync : bool) (dv : detail * nat) (h : hub) : hub :=
  mkHub (started h) (stored h) (ver h) (pending h) (conn h) (live h) (fresh h)
        (mkNote sync (fst (fst dv)) (snd (fst dv)) (snd dv) :: log h).

(* SetState on the live object + synchronous notification with the live pointer *)
Definition write_sync (s : N) (h : hub) : hub :=
  add_note true ((s, snd (stored h)), S (ver h))
    (mkHub (started h) (s, snd (stored h)) (S (ver h)) (pending h) (conn h) (live h) false (log h)).

(* the pairing state HandleShipHandshakeStateUpdate computes *)
Definition report_state (s : N) (e : err) : N :=
  if forces_error e then ConnectionStateError else pair_state_of s.

(* the dedup rule: notify only if state or error differs from the stored one *)
Definition differs (old : detail) (ps : N) (e : err) : bool :=
  negb (N.eqb (fst old) ps) || negb (errors_is (snd old) e).

Definition report (s : N) (e : err) (h : hub) : hub :=
  let ps := report_state s e in
  if differs (stored h) ps e then
    mkHub (started h) (ps, e) (S (ver h)) (map (detach h) (pending h) ++ [None])
          (conn h) (s, e) true (log h)
  else
    mkHub (started h) (stored h) (ver h) (pending h) (conn h) (s, e) true (log h).

Fixpoint remove_nth {A} (i : nat) (l : list A) : list A :=
  match l, i with
  | [], _ => []
  | _ :: r, O => r
  | x :: r, S j => x :: remove_nth j r
  end.

Definition deliver (i : nat) (h : hub) : hub :=
  match nth_error (pending h) i with
  | None => h
  | Some p =>
      add_note false (shown h p)
        (mkHub (started h) (stored h) (ver h) (remove_nth i (pending h)) (conn h) (live h) (fresh h) (log h))
  end.

Definition set_conn (b : bool) (h : hub) : hub :=
  mkHub (started h) (stored h) (ver h) (pending h) b (live h) (fresh h) (log h).

(* does this user operation / inbound request write the stored detail and notify? *)
Definition sync_state (h : hub) (e : ev) : option N :=
  match e with
  | ERegister => if started h && negb (conn h) then Some ConnectionStateQueued else None
  | EUnregister | ECancel => Some ConnectionStateNone
  | EInbound => if N.eqb (fst (stored h)) ConnectionStateQueued
                then Some ConnectionStateReceivedPairingRequest else None
  | _ => None
  end.

Definition step (h : hub) (e : ev) : hub :=
  match e with
  | EReport s er => report s er h
  | EConnReg => set_conn true h
  | EConnClosed => set_conn false h
  | EDeliver i => deliver i h
  | EAsk => h
  | _ => match sync_state h e with Some s => write_sync s h | None => h end
  end.

Definition run (h : hub) (es : list ev) : hub := fold_left step es h.

(* "the state the hub itself reports when asked" *)
Definition answer (h : hub) : detail :=
  if conn h then (pair_state_of (fst (live h)), snd (live h)) else stored h.

(* ------------------------------------------------------------------ schedules *)
(* FIFO: every delayed delivery is the oldest pending one *)
Definition is_fifo_ev (e : ev) : bool := match e with EDeliver (S _) => false | _ => true end.
Definition fifo (es : list ev) : bool := forallb is_fifo_ev es.

(* in order: FIFO, and no synchronous notification while a delayed one is pending
   (a synchronous notification never overtakes a delayed one spawned earlier) *)
Fixpoint in_order (h : hub) (es : list ev) : bool :=
  match es with
  | [] => true
  | e :: r =>
      is_fifo_ev e
      && match sync_state h e with
         | Some _ => match pending h with [] => true | _ => false end
         | None => true
         end
      && in_order (step h e) r
  end.

(* reports as the SHIP connection issues them: an error value (other than not-found)
   comes with SmeStateError only (setState(newState, err) is called with a non-nil error by
   endHandshakeWithError alone) *)
Definition wf_ev (e : ev) : bool :=
  match e with
  | EReport s er => if forces_error er then N.eqb s SmeStateError else true
  | _ => true
  end.
Definition wf_reports (es : list ev) : bool := forallb wf_ev es.

(* the attempt has run to a stable point: nothing pending, and the registered connection
   (if any) has reported its state after the last user operation *)
Definition settled (h : hub) : bool :=
  match pending h with [] => negb (conn h) || fresh h | _ => false end.

(* ------------------------------------------------------------------ monitors *)
(* (a) the last notification shows the state the hub answers; an application that was
   never notified assumes ConnectionStateNone *)
Definition last_is (l : list note) (s : N) : bool :=
  match l with
  | [] => N.eqb s ConnectionStateNone
  | n :: _ => N.eqb (n_st n) s
  end.
Definition mon_last (h : hub) : bool := last_is (log h) (fst (answer h)).

(* (b) no older state after a newer one: versions in delivery order never decrease *)
Fixpoint nondec (l : list nat) : bool :=
  match l with
  | [] => true
  | x :: r => forallb (Nat.leb x) r && nondec r
  end.
Definition versions (h : hub) : list nat := map n_ver (rev (log h)).
Definition mon_order (h : hub) : bool := nondec (versions h).

(* triggers, on the notifications in delivery order (oldest first) *)
Definition older_delayed_later (v : nat) (l : list note) : bool :=
  existsb (fun m => negb (n_sync m) && Nat.ltb (n_ver m) v) l.
Fixpoint overtaken (l : list note) : bool :=      (* sync, later a delayed one with an older version *)
  match l with
  | [] => false
  | n :: r => (n_sync n && older_delayed_later (n_ver n) r) || overtaken r
  end.
Fixpoint inverted (l : list note) : bool :=       (* delayed, later a delayed one with an older version *)
  match l with
  | [] => false
  | n :: r => (negb (n_sync n) && older_delayed_later (n_ver n) r) || inverted r
  end.

(* the terminal pairing states the property names, as the application expects them
   (hand-written from the property text, NOT from the switch) *)
Definition expected_terminal (s : N) (e : err) : option N :=
  if forces_error e then Some 9 else
  match s with
  | 38 => Some 7       (* SmeStateComplete -> Completed *)
  | 39 => Some 9       (* SmeStateError -> Error *)
  | 16 | 17 => Some 8  (* remote abort / rejected -> RemoteDeniedTrust *)
  | 14 | 15 => Some 0  (* abort -> None *)
  | 11 => Some 3       (* pending listen -> ReceivedPairingRequest *)
  | _ => None
  end.

(* ------------------------------------------------------------------ correspondence *)
Inductive obs :=
| ONote (sync : bool) (s : N) (e : err)     (* ServicePairingDetailUpdate: what the detail shows when received *)
| OAns (s : N) (e : err)                    (* PairingDetailForSki *)
| ORepl (b : bool).                         (* after a report: was the stored object replaced *)

Definition obs_eqb (a b : obs) : bool :=
  match a, b with
  | ONote x s e, ONote x' s' e' => Bool.eqb x x' && N.eqb s s' && N.eqb e e'
  | OAns s e, OAns s' e' => N.eqb s s' && N.eqb e e'
  | ORepl x, ORepl y => Bool.eqb x y
  | _, _ => false
  end.

Definition note_obs (n : note) : obs := ONote (n_sync n) (n_st n) (n_err n).

(* what the model says the harness sees while event e runs *)
Definition obs_of (h : hub) (e : ev) : list obs :=
  let h' := step h e in
  let new := firstn (length (log h') - length (log h)) (log h') in
  map note_obs (rev new)
  ++ match e with
     | EReport _ _ => [ORepl (negb (Nat.eqb (ver h') (ver h)))]
     | EAsk => [OAns (fst (answer h)) (snd (answer h))]
     | _ => []
     end.

Fixpoint run_obs (h : hub) (es : list ev) : list obs :=
  match es with
  | [] => []
  | e :: r => obs_of h e ++ run_obs (step h e) r
  end.

(* a case: the linearised history of one SKI on a real hub.Hub — operations and the
   deliveries in the order they happened (EDeliver i = the delivered object was the i-th
   pending one), and everything the harness saw *)
Inductive c18_case :=
| CUnit (k_started : bool) (k_evs : list ev) (k_obs : list obs)
(* system level, two real hubs: the operations and the connection's state changes in the
   order they happened (no deliveries: not observable), the states the notifications for
   the peer's SKI showed, in order of receipt, and PairingDetailForSki at quiescence *)
| CSys (k_started : bool) (k_evs : list ev) (k_notes : list N) (k_ans : N).

Definition obs_notes (l : list obs) : list obs :=
  filter (fun o => match o with ONote _ _ _ => true | _ => false end) l.
Definition last_obs_note_state (l : list obs) : option N :=
  match rev (obs_notes l) with ONote _ s _ :: _ => Some s | _ => None end.
Definition last_obs_ans (l : list obs) : option N :=
  match rev l with OAns s _ :: _ => Some s | _ => None end.

(* monitor (a) on the implementation's own observations: when the history ends settled
   (as many deliveries received as reports replaced the stored object; connection and
   freshness as in `settled`) and with a query, the last notification received shows the state answered *)
Definition impl_settled (h : hub) (es : list ev) (o : list obs) : bool :=
  Nat.eqb (length (filter (fun x => match x with ORepl true => true | _ => false end) o))
          (length (filter (fun e => match e with EDeliver _ => true | _ => false end) es))
  && (negb (conn h) || fresh h).
Definition impl_last_ok (h : hub) (es : list ev) (o : list obs) : bool :=
  if impl_settled h es o then
    match last_obs_ans o with
    | None => true
    | Some a => match last_obs_note_state o with
                | Some s => N.eqb s a
                | None => N.eqb a ConnectionStateNone
                end
    end
  else true.

(* terminal-state expectation on the implementation's observations: the answer to a
   query while the connection is registered, against the connection's last (well-formed) report *)
Fixpoint impl_terminal_ok (h : hub) (prev : option (N * err)) (es : list ev) (o : list obs) : bool :=
  match es with
  | [] => true
  | e :: r =>
      let k := length (obs_of h e) in
      let ok := match e, prev, firstn k o with
                | EAsk, Some (s, er), [OAns a _] =>
                    if conn h && wf_ev (EReport s er)
                    then match expected_terminal s er with Some x => N.eqb a x | None => true end
                    else true
                | _, _, _ => true
                end in
      ok && impl_terminal_ok (step h e) (match e with EReport s er => Some (s, er) | _ => prev end) r (skipn k o)
  end.

(* CancelPairingWithSKI asks the connection to abort, which a SHIP connection does in
   SmeHelloStatePendingListen / SmeHelloStateReadyListen only (AbortPendingHandshake returns
   at once in every other state): a connection that is completed stays registered and
   reports nothing any more, the detail says None, PairingDetailForSki says Completed *)
Definition last_user_op (es : list ev) : option ev :=
  fold_left (fun acc e => match e with
                          | ERegister | EUnregister | ECancel | EInbound => Some e
                          | _ => acc end) es None.
Definition cancel_ignored (h : hub) (es : list ev) : bool :=
  conn h && negb (fresh h)
  && match last_user_op es with Some ECancel => true | _ => false end
  && negb (N.eqb (fst (live h)) SmeHelloStatePendingListen || N.eqb (fst (live h)) SmeHelloStateReadyListen)
  && match pending h with [] => true | _ => false end.

Definition check_unit (st : bool) (evs : list ev) (o : list obs) : codes :=
  let h0 := init st in
  let h := run h0 evs in
  let l := rev (log h) in
  (if list_eqb obs_eqb (run_obs h0 evs) o then [] else [1])
  ++ (if mon_order h then []
      else (if overtaken l then [10] else [])
           ++ (if inverted l then [11] else [])
           ++ (if overtaken l || inverted l then [] else [13]))
  ++ (if negb (wf_reports evs) || impl_last_ok h evs o then []
      else if inverted l then [] (* already reported as 11 by the order monitor *) else [12])
  ++ (if cancel_ignored h evs
         && match last_obs_ans o, last_obs_note_state o with
            | Some a, Some n => negb (N.eqb a n)
            | _, _ => false
            end
      then [14] else [])
  ++ (if impl_terminal_ok h0 None evs o then [] else [15])
  (* every history ends with a wait for the delayed notifications (poll, cap 8 s): one that was
     spawned and never delivered may be dropped as long as the last one received shows the state
     the hub answers; otherwise the application is left with an older state for good *)
  ++ (if Nat.eqb (length (filter (fun x => match x with ORepl true => true | _ => false end) o))
               (length (filter (fun e => match e with EDeliver _ => true | _ => false end) evs))
      then []
      else match last_obs_ans o, last_obs_note_state o with
           | Some a, Some n => if N.eqb a n then [] else [16]
           | Some a, None => if N.eqb a ConnectionStateNone then [] else [16]
           | None, _ => []
           end).

(* system level: deliver everything that is pending, oldest first *)
Fixpoint flush (n : nat) (h : hub) : hub :=
  match n with O => h | S k => flush k (deliver 0 h) end.

Fixpoint insert_sorted (x : N) (l : list N) : list N :=
  match l with
  | [] => [x]
  | y :: r => if N.leb x y then x :: l else y :: insert_sorted x r
  end.
Definition sort_n (l : list N) : list N := fold_right insert_sorted [] l.
Definition same_multiset (a b : list N) : bool := list_eqb N.eqb (sort_n a) (sort_n b).

Definition last_report (es : list ev) : option (N * err) :=
  fold_left (fun acc e => match e with EReport s er => Some (s, er) | _ => acc end) es None.

(* the notifications received must be the FIFO ones in some order (code 1 otherwise); the
   last one received must show the state answered (11 when they are the FIFO ones in another
   order, 12 otherwise); a registered connection's terminal state is answered as expected *)
Definition check_sys (st : bool) (evs : list ev) (notes : list N) (ans : N) : codes :=
  let h := run (init st) evs in
  let hq := flush (length (pending h)) h in
  let fifo_notes := map n_st (rev (log hq)) in
  let perm := same_multiset notes fifo_notes in
  let last_ok := match rev notes with [] => N.eqb ans ConnectionStateNone | s :: _ => N.eqb s ans end in
  (if perm then [] else [1])
  ++ (if negb (settled hq) || negb (wf_reports evs) || last_ok then []
      else if perm && negb (list_eqb N.eqb notes fifo_notes) then [11] else [12])
  ++ (if cancel_ignored hq evs && negb last_ok then [14] else [])
  ++ (if conn hq && fresh hq && wf_reports evs then
        match last_report evs with
        | Some (s, er) => match expected_terminal s er with
                          | Some x => if N.eqb ans x then [] else [15]
                          | None => []
                          end
        | None => []
        end
      else []).

Definition check_c18 (c : c18_case) : codes :=
  match c with
  | CUnit st evs o => check_unit st evs o
  | CSys st evs notes ans => check_sys st evs notes ans
  end.
