(* LocksetSpec.v — C20: the hand-written guard specification of ship-go (definitions only).

   One entry per data field of Hub, ShipConnection, WebsocketConnection, MdnsManager,
   AvahiProvider, ZeroconfProvider, ServiceDetails, ConnectionStateDetail: how the field
   is meant to be protected, which functions initialise it before the object is shared,
   and which accesses are known to ignore the discipline (recorded findings, one code per
   racy field; the code names are in checks/C20.py and known_findings.json).

   Hand-written and trusted: the initialiser lists (these functions run in the creating
   goroutine before the object is handed to any other goroutine; Hub.Start returns before
   any other Hub method is called) and the thread classes of Confined fields. *)
From Ship Require Import Base Lockset.
Local Open Scope string_scope.

Definition G st fd m init := mkSpec st fd (SGuardedBy m) init [].
Definition GX st fd m init ex := mkSpec st fd (SGuardedBy m) init ex.
Definition Im st fd init := mkSpec st fd SImmutable init [].
Definition ImX st fd init ex := mkSpec st fd SImmutable init ex.
Definition Cf st fd c fns init := mkSpec st fd (SConfined c fns) init [].
Definition Rc st fd code := mkSpec st fd (SRacy code) [] [].

(* finding codes (>= 20), one per racy field *)
(* 20 racy:Hub.connections and 21 racy:ShipConnection.smeError were repaired in /repo
   (known_findings.json "fixed"); the numbers are not reused *)
Definition c_ship_lastWaiting : N := 22.           (* racy:ShipConnection.lastReceivedWaitingValue *)
Definition c_mdns_autoaccept : N := 23.            (* racy:MdnsManager.autoaccept *)
Definition c_mdns_provider : N := 24.              (* racy:MdnsManager.mdnsProvider *)
Definition c_mdns_report : N := 25.                (* racy:MdnsManager.report *)
(* 26-28 were used for the AvahiProvider channel fields while they were believed racy
   (a false alarm of the lock-only model, see the table); not reused *)

Definition hub_new := ["NewHub"].
(* Start (with startWebsocketServer inline) completes the construction of the hub: it
   stores the http server before starting the goroutines that use it *)
Definition hub_start := ["NewHub"; "Hub.Start"; "Hub.startWebsocketServer"].
Definition ship_new := ["NewConnectionHandler"].
Definition ws_new := ["NewWebsocketConnection"].
(* the ship connection's constructor calls InitDataProcessing (-> run) on the websocket
   object before either is shared; run stores both channels before starting the pumps *)
Definition ws_init := ["NewWebsocketConnection"; "WebsocketConnection.InitDataProcessing"; "WebsocketConnection.run"].
Definition mdns_new := ["NewMDNS"].
Definition avahi_new := ["NewAvahiProvider"].
Definition zc_new := ["NewZeroconfProvider"].
Definition sd_new := ["NewServiceDetails"].
Definition csd_new := ["NewConnectionStateDetail"].

(* the goroutine that delivers incoming websocket messages (ws readShipPump ->
   HandleIncomingWebsocketMessage): one per connection.  The functions below touch the
   field only while processing a received message (message <> nil), which only that
   goroutine does; timers and API calls enter handleState with a nil message. *)
Definition ship_readpump_reader := ["ShipConnection.approveHandshake"; "ShipConnection.HandleIncomingWebsocketMessage";
                                    "ShipConnection.processBufferedSpineMessages"].
Definition ship_readpump_shipid := ["ShipConnection.handshakeAccessMethods_Request"].

Definition guard_spec : list fspec := [
  (* hub.Hub *)
  G "Hub" "connections" "muxCon" hub_new;
  G "Hub" "connectionAttemptCounter" "muxConAttempt" hub_new;
  G "Hub" "connectionAttemptRunning" "muxConAttempt" hub_new;
  Im "Hub" "port" hub_new;
  Im "Hub" "certifciate" hub_new;
  Im "Hub" "localService" hub_new;
  Im "Hub" "hubReader" hub_new;
  G "Hub" "autoaccept" "muxReg" hub_new;
  G "Hub" "remoteServices" "muxReg" hub_new;
  Im "Hub" "httpServer" hub_start;
  Im "Hub" "mdns" hub_new;
  G "Hub" "knownMdnsEntries" "muxMdns" hub_new;
  G "Hub" "hasStarted" "muxStarted" hub_new;
  G "Hub" "hasShutdown" "muxStarted" hub_new;
  (* ship.ShipConnection *)
  Im "ShipConnection" "role" ship_new;
  Im "ShipConnection" "remoteSKI" ship_new;
  Cf "ShipConnection" "remoteShipID" "readpump" ship_readpump_shipid ship_new;
  Im "ShipConnection" "localShipID" ship_new;
  Im "ShipConnection" "infoProvider" ship_new;
  Cf "ShipConnection" "dataReader" "readpump" ship_readpump_reader ship_new;
  Im "ShipConnection" "dataWriter" ship_new;
  G "ShipConnection" "smeState" "mux" ship_new;
  G "ShipConnection" "smeError" "mux" ship_new;
  G "ShipConnection" "handshakeTimerRunning" "handshakeTimerMux" ship_new;
  G "ShipConnection" "handshakeTimerType" "handshakeTimerMux" ship_new;
  G "ShipConnection" "handshakeTimerStopChan" "handshakeTimerMux" ship_new;
  Rc "ShipConnection" "lastReceivedWaitingValue" c_ship_lastWaiting;
  G "ShipConnection" "spineBuffer" "bufferMux" ship_new;
  G "ShipConnection" "isShutdown" "mux" ship_new;
  (* ws.WebsocketConnection *)
  Im "WebsocketConnection" "conn" ws_new;
  Im "WebsocketConnection" "dataProcessing" ws_init;
  Im "WebsocketConnection" "closeChannel" ws_init;
  Im "WebsocketConnection" "shipWriteChannel" ws_init;
  G "WebsocketConnection" "connectionClosed" "muxConnClosed" ws_new;
  G "WebsocketConnection" "connectionClosedError" "muxConnClosed" ws_new;
  Im "WebsocketConnection" "remoteSki" ws_new;
  (* mdns.MdnsManager *)
  Im "MdnsManager" "ski" mdns_new;
  Im "MdnsManager" "deviceBrand" mdns_new;
  Im "MdnsManager" "deviceModel" mdns_new;
  Im "MdnsManager" "deviceSerial" mdns_new;
  Im "MdnsManager" "deviceType" mdns_new;
  Im "MdnsManager" "deviceCategories" mdns_new;
  Im "MdnsManager" "identifier" mdns_new;
  Im "MdnsManager" "serviceName" mdns_new;
  Im "MdnsManager" "ifaces" mdns_new;
  Im "MdnsManager" "port" mdns_new;
  Rc "MdnsManager" "autoaccept" c_mdns_autoaccept;
  G "MdnsManager" "isAnnounced" "muxAnnounced" mdns_new;
  G "MdnsManager" "entries" "mux" mdns_new;
  (* Start stores the report receiver after the provider's listener goroutine (which reads
     it in processMdnsEntry) has been started *)
  ImX "MdnsManager" "report" ["NewMDNS"; "MdnsManager.Start"] [("MdnsManager.Start", c_mdns_report)];
  (* Shutdown resets the provider to nil while Announce/Unannounce read it without a lock *)
  ImX "MdnsManager" "mdnsProvider" ["NewMDNS"; "MdnsManager.Start"]
      [("MdnsManager.Start", c_mdns_provider); ("MdnsManager.Shutdown", c_mdns_provider)];
  Im "MdnsManager" "providerSelection" mdns_new;
  (* mdns.AvahiProvider *)
  Im "AvahiProvider" "ifaceIndexes" avahi_new;
  Im "AvahiProvider" "avServer" avahi_new;
  G "AvahiProvider" "avEntryGroup" "mux" avahi_new;
  G "AvahiProvider" "avBrowser" "mux" avahi_new;
  G "AvahiProvider" "autoReconnect" "mux" avahi_new;
  G "AvahiProvider" "manualShutdown" "mux" avahi_new;
  G "AvahiProvider" "setupSuccessful" "mux" avahi_new;
  G "AvahiProvider" "listenerRunning" "mux" avahi_new;
  G "AvahiProvider" "mdnsServiceData" "mux" avahi_new;
  G "AvahiProvider" "resolveCB" "mux" avahi_new;
  G "AvahiProvider" "reconnecting" "mux" avahi_new;
  G "AvahiProvider" "serviceElements" "muxEl" avahi_new;
  (* the listener goroutine reads the three channel fields in its select without a.mux while
     Shutdown / Start overwrite them under a.mux.  Not a race: Shutdown first stops the
     listener through the unbuffered shutdownChan (the listener evaluates the fields, then
     receives; the receive is synchronised before the completion of the send, which precedes
     the writes), and Start only writes them when they are nil, i.e. before the first
     listener is forked or after Shutdown has stopped the previous one.  Channel edges are
     outside the trace model, so this ordering is a hand-written assumption (code 0),
     validated by the race detector on racedrv's Avahi part. *)
  GX "AvahiProvider" "shutdownChan" "mux" avahi_new [("AvahiProvider.chanListener", 0%N)];
  GX "AvahiProvider" "addServiceChan" "mux" avahi_new [("AvahiProvider.chanListener", 0%N)];
  GX "AvahiProvider" "removeServiceChan" "mux" avahi_new [("AvahiProvider.chanListener", 0%N)];
  (* mdns.ZeroconfProvider *)
  Im "ZeroconfProvider" "ifaces" zc_new;
  G "ZeroconfProvider" "zc" "mux" zc_new;
  (* the listener goroutine creates the context before it starts the browse goroutine;
     only these two read it (Start is called once per provider) *)
  Im "ZeroconfProvider" "ctx" ["NewZeroconfProvider"; "ZeroconfProvider.chanListener"];
  G "ZeroconfProvider" "cancel" "mux" zc_new;
  (* api.ServiceDetails *)
  G "ServiceDetails" "ski" "mux" sd_new;
  G "ServiceDetails" "ipv4" "mux" sd_new;
  G "ServiceDetails" "shipID" "mux" sd_new;
  G "ServiceDetails" "deviceType" "mux" sd_new;
  G "ServiceDetails" "autoAccept" "mux" sd_new;
  G "ServiceDetails" "trusted" "mux" sd_new;
  G "ServiceDetails" "connectionStateDetail" "mux" sd_new;
  (* api.ConnectionStateDetail *)
  G "ConnectionStateDetail" "state" "mux" csd_new;
  G "ConnectionStateDetail" "error" "mux" csd_new
].

(* every finding code used by the table *)
Definition finding_codes : list N :=
  [c_ship_lastWaiting; c_mdns_autoaccept; c_mdns_provider;
   c_mdns_report].

(* the check evaluated by bin/check on every fact *)
Definition check_c20 (f : fact) : codes := check_fact guard_spec f.
