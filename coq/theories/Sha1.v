(* Sha1.v — an executable SHA-1 (FIPS 180-4) on byte lists, definitions only.
   The C02 theorems are stated for an arbitrary function [sha1] (with [sha1_spec] where
   needed); this file gives one instance that is compared with Go's crypto/sha1 on every key
   of every case of every run (check_c02), so that the monitor "the SKI is the SHA-1 of the
   presented key" is evaluated inside Coq on the real digest and not on a label supplied by
   the harness.  32-bit words are N below 2^32. *)
From Ship Require Import Base.

Definition w32 : N := 4294967296.
Definition mask32 : N := 4294967295.
Definition trunc32 (x : N) : N := N.land x mask32.          (* x mod 2^32, bitwise *)
Definition add32 (a b : N) : N := trunc32 (a + b).
Definition rotl (n x : N) : N := N.lor (trunc32 (N.shiftl x n)) (N.shiftr x (32 - n)).
Definition not32 (x : N) : N := N.lxor (trunc32 x) mask32.

(* big-endian *)
Definition word_of_bytes (a b c d : N) : N := ((a * 256 + b) * 256 + c) * 256 + d.
Definition word_bytes (w : N) : bytes :=
  [(w / 16777216) mod 256; (w / 65536) mod 256; (w / 256) mod 256; w mod 256].

Fixpoint words (l : bytes) : list N :=
  match l with
  | a :: b :: c :: d :: r => word_of_bytes a b c d :: words r
  | _ => []
  end.

(* message ++ 0x80 ++ zeros ++ 64-bit length in bits, a multiple of 64 bytes *)
Definition pad (m : bytes) : bytes :=
  let len := N.of_nat (length m) in
  let zeros := (119 - len mod 64) mod 64 in
  let bits := len * 8 in
  m ++ [128] ++ repeat 0 (N.to_nat zeros)
    ++ word_bytes (bits / w32) ++ word_bytes bits.

Fixpoint chunks (fuel : nat) (l : list N) : list (list N) :=
  match fuel with
  | O => []
  | S f => match l with
           | [] => []
           | _ => firstn 16 l :: chunks f (skipn 16 l)
           end
  end.

(* message schedule; ws = the words so far, most recent first *)
Fixpoint expand (n : nat) (ws : list N) : list N :=
  match n with
  | O => ws
  | S k =>
      let w := rotl 1 (N.lxor (N.lxor (nth 2 ws 0) (nth 7 ws 0)) (N.lxor (nth 13 ws 0) (nth 15 ws 0))) in
      expand k (w :: ws)
  end.

Definition state := (N * N * N * N * N)%type.

Definition fk (t : N) (b c d : N) : N * N :=
  if t <? 20 then (N.lor (N.land b c) (N.land (not32 b) d), 1518500249)
  else if t <? 40 then (N.lxor (N.lxor b c) d, 1859775393)
  else if t <? 60 then (N.lor (N.lor (N.land b c) (N.land b d)) (N.land c d), 2400959708)
  else (N.lxor (N.lxor b c) d, 3395469782).

Fixpoint rounds (ws : list N) (t : N) (s : state) : state :=
  match ws with
  | [] => s
  | w :: r =>
      let '(a, b, c, d, e) := s in
      let '(f, k) := fk t b c d in
      let tmp := add32 (add32 (add32 (add32 (rotl 5 a) f) e) k) w in
      rounds r (t + 1) (tmp, a, rotl 30 b, c, d)
  end.

Definition process (s : state) (block : list N) : state :=
  let ws := rev (expand 64 (rev block)) in
  let '(a, b, c, d, e) := rounds ws 0 s in
  let '(h0, h1, h2, h3, h4) := s in
  (add32 h0 a, add32 h1 b, add32 h2 c, add32 h3 d, add32 h4 e).

Definition init_state : state := (1732584193, 4023233417, 2562383102, 271733878, 3285377520).

Definition digest (s : state) : bytes :=
  let '(h0, h1, h2, h3, h4) := s in
  word_bytes h0 ++ word_bytes h1 ++ word_bytes h2 ++ word_bytes h3 ++ word_bytes h4.

Definition sha1_impl (m : bytes) : bytes :=
  let ws := words (pad m) in
  digest (fold_left process (chunks (length ws) ws) init_state).
