(* AvahiMgr.v — C19 through the manager: the calls an application makes (AnnounceMdnsEntry,
   UnannounceMdnsEntry, SetAutoAccept on mdns.MdnsManager) over the real Avahi provider and a
   scripted daemon.  What the property demands at rest, as a function of the calls alone: the
   service is announced exactly when the last of announce / unannounce was an announce, with the
   TXT of the most recently requested data - here the register= value is the last auto-accept
   value.  Daemon events do not appear in the expectation: that is the property. *)
From Ship Require Import Base.

Inductive gact := GDown | GUp | GAnnounce | GUnannounce | GAuto (b : bool).

Record gcase := { gc_acts : list gact; gc_groups : N; gc_true : N; gc_false : N; gc_crash : bool }.

Definition intent (l : list gact) : bool * bool :=     (* (announced, auto-accept) *)
  fold_left (fun s a => match a with
                        | GAnnounce => (true, snd s)
                        | GUnannounce => (false, snd s)
                        | GAuto b => (fst s, b)
                        | _ => s end) l (false, false).

(* the daemon is reachable at the end iff the last daemon event is not GDown *)
Definition daemon_up (l : list gact) : bool :=
  fold_left (fun u a => match a with GDown => false | GUp => true | _ => u end) l true.

Definition V_MGR_CRASH : N := 160.
Definition V_MGR_ANNOUNCED_ALTHOUGH_UNANNOUNCED : N := 161.
Definition V_MGR_NOT_ANNOUNCED : N := 162.
Definition V_MGR_STALE_TXT : N := 163.
Definition V_MGR_SEVERAL_GROUPS : N := 164.

Definition check_mgr (c : gcase) : codes :=
  if gc_crash c then [V_MGR_CRASH] else
  if negb (daemon_up (gc_acts c)) then [] else
  let '(ann, auto) := intent (gc_acts c) in
  if negb ann then (if N.eqb (gc_groups c) 0 then [] else [V_MGR_ANNOUNCED_ALTHOUGH_UNANNOUNCED])
  else if N.eqb (gc_groups c) 0 then [V_MGR_NOT_ANNOUNCED]
  else if 2 <=? gc_groups c then [V_MGR_SEVERAL_GROUPS]
  else if (if auto then N.eqb (gc_true c) 1 else N.eqb (gc_false c) 1) then [] else [V_MGR_STALE_TXT].
