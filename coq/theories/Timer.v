(* Timer.v — the handshake timer of a ShipConnection (ship/handshake.go setHandshakeTimer /
   stopHandshakeTimer), as an interleaving model at the granularity of mutex-protected
   blocks and channel operations.  Definitions only; proofs are in TimerProofs.v.

   Per connection: the running flag, the timer type, the stop channel; one goroutine per
   armed timer ("generation", numbered in arming order).  Two stop mechanisms are modelled;
   which one the source uses is read from the regenerated table (TimerTable.v):

   Shared  (the pinned tree): ONE unbuffered stop channel for all generations; stop is a
           non-blocking send, which succeeds only if some goroutine — of any generation —
           is at its select at that moment; the goroutine delivers unconditionally once
           its time.After arm was taken.
   PerArm  (after fix 311ebfd): every arm installs a fresh stop channel; stop closes the
           current one under handshakeTimerMux; after its time.After arm was taken the
           goroutine re-checks under the mutex that the timer is still running and that
           its channel is still the installed one, and only then clears the flag and
           delivers. *)
From Ship Require Import Base.
From ShipGen Require Import TimerTable.

Inductive mech := Shared | PerArm.

Definition mech_of_code (n : N) : option mech :=
  match n with 0 => Some Shared | 1 => Some PerArm | _ => None end.

(* the mechanism found in the source by harness/cmd/extract/timer.go *)
Definition src_mech : option mech := mech_of_code timer_mechanism_code.

(* ---- state ---- *)
(* program counter of a timer goroutine:
   Spawned     go func() started, select not yet reached
   AtSelect    blocked in select { <-stop ; <-time.After(d) }
   Expired     the time.After arm was taken (duration elapsed), nothing done yet
   Delivering  running flag cleared by this goroutine, handleState(true,nil) about to be called
   Fired       handleState(true,nil) was called
   Stopped     left through the stop arm
   Dropped     PerArm only: generation check failed, left without delivering *)
Inductive pc := Spawned | AtSelect | Expired | Delivering | Fired | Stopped | Dropped.

Record gor := { g_pc : pc; g_closed : bool (* PerArm: this generation's stop channel is closed *) }.

Record tstate := {
  running : bool;          (* handshakeTimerRunning *)
  ttype : N;               (* handshakeTimerType *)
  cur : option nat;        (* PerArm: generation whose channel is in handshakeTimerStopChan
                              (Shared: last armed generation, not consulted by any step) *)
  gs : list gor            (* goroutines, index = generation *)
}.

Definition t_init : tstate := {| running := false; ttype := 0; cur := None; gs := [] |}.

(* ---- labels: one atomic action each ---- *)
Inductive label :=
| LArm (ty d : N) (to : option nat)  (* setHandshakeTimer(ty, d); `to`: Shared only, the goroutine
                                        that receives the stop token of the embedded stop *)
| LStop (to : option nat)            (* stopHandshakeTimer() *)
| LAdv (g : nat)                     (* goroutine g performs its next internal action *)
| LExpire (g : nat)                  (* g's duration has elapsed and select takes the time.After arm *)
| LFire (g : nat)                    (* g clears the running flag and commits to delivering *)
| LDeliver (g : nat).                (* g calls handleState(true, nil) *)

Definition pc_eqb (a b : pc) : bool :=
  match a, b with
  | Spawned, Spawned | AtSelect, AtSelect | Expired, Expired | Delivering, Delivering
  | Fired, Fired | Stopped, Stopped | Dropped, Dropped => true
  | _, _ => false
  end.

Fixpoint upd {A} (l : list A) (i : nat) (x : A) : list A :=
  match l, i with
  | [], _ => []
  | _ :: r, O => x :: r
  | y :: r, S j => y :: upd r j x
  end.

Definition set_pc (l : list gor) (g : nat) (p : pc) : list gor :=
  match nth_error l g with
  | Some r => upd l g {| g_pc := p; g_closed := g_closed r |}
  | None => l
  end.

Definition close_gen (l : list gor) (g : nat) : list gor :=
  match nth_error l g with
  | Some r => upd l g {| g_pc := g_pc r; g_closed := true |}
  | None => l
  end.

Definition any_at_select (l : list gor) : bool := existsb (fun r => pc_eqb (g_pc r) AtSelect) l.

Definition with_gs (s : tstate) (l : list gor) : tstate :=
  {| running := running s; ttype := ttype s; cur := cur s; gs := l |}.

Definition opt_nat_eqb (a b : option nat) : bool :=
  match a, b with
  | Some x, Some y => Nat.eqb x y
  | None, None => true
  | _, _ => false
  end.

(* g owns the installed channel and the flag is set *)
Definition current_running (s : tstate) (g : nat) : bool :=
  running s && opt_nat_eqb (cur s) (Some g).

(* stopHandshakeTimer *)
Definition do_stop (m : mech) (s : tstate) (to : option nat) : option tstate :=
  if negb (running s) then
    match to with None => Some s | Some _ => None end
  else
    match m with
    | PerArm =>
        match to with
        | Some _ => None
        | None =>
            Some {| running := false; ttype := ttype s; cur := cur s;
                    gs := match cur s with Some g => close_gen (gs s) g | None => gs s end |}
        end
    | Shared =>
        match to with
        | Some g =>
            (* the send finds g at its select: g takes the token *)
            match nth_error (gs s) g with
            | Some r =>
                if pc_eqb (g_pc r) AtSelect
                then Some {| running := false; ttype := ttype s; cur := cur s;
                             gs := set_pc (gs s) g Stopped |}
                else None
            | None => None
            end
        | None =>
            (* nobody is receiving: the non-blocking send takes the default branch *)
            if any_at_select (gs s) then None
            else Some {| running := false; ttype := ttype s; cur := cur s; gs := gs s |}
        end
    end.

(* setHandshakeTimer = stop; install (PerArm: a fresh channel); set flag and type; spawn *)
Definition do_arm (m : mech) (s : tstate) (ty : N) (to : option nat) : option tstate :=
  match do_stop m s to with
  | Some s1 =>
      Some {| running := true; ttype := ty; cur := Some (length (gs s1));
              gs := gs s1 ++ [{| g_pc := Spawned; g_closed := false |}] |}
  | None => None
  end.

Definition tstep (m : mech) (s : tstate) (l : label) : option tstate :=
  match l with
  | LArm ty _ to => do_arm m s ty to
  | LStop to => do_stop m s to
  | LAdv g =>
      match nth_error (gs s) g with
      | Some r =>
          match g_pc r with
          | Spawned => Some (with_gs s (set_pc (gs s) g AtSelect))
          | AtSelect => if g_closed r then Some (with_gs s (set_pc (gs s) g Stopped)) else None
          | Expired =>
              match m with
              | PerArm => if current_running s g then None
                          else Some (with_gs s (set_pc (gs s) g Dropped))
              | Shared => None
              end
          | _ => None
          end
      | None => None
      end
  | LExpire g =>
      match nth_error (gs s) g with
      | Some r => if pc_eqb (g_pc r) AtSelect then Some (with_gs s (set_pc (gs s) g Expired)) else None
      | None => None
      end
  | LFire g =>
      match nth_error (gs s) g with
      | Some r =>
          if pc_eqb (g_pc r) Expired &&
             match m with PerArm => current_running s g | Shared => true end
          then Some {| running := false; ttype := ttype s; cur := cur s;
                       gs := set_pc (gs s) g Delivering |}
          else None
      | None => None
      end
  | LDeliver g =>
      match nth_error (gs s) g with
      | Some r => if pc_eqb (g_pc r) Delivering then Some (with_gs s (set_pc (gs s) g Fired)) else None
      | None => None
      end
  end.

(* a schedule is a list of labels; exec = run it, None if some label is not enabled *)
Fixpoint exec (m : mech) (s : tstate) (l : list label) : option tstate :=
  match l with
  | [] => Some s
  | a :: r => match tstep m s a with Some s' => exec m s' r | None => None end
  end.

(* ---- the property's monitor, over label lists ----
   Per generation: was it stopped/replaced (and how) before its expiry; did its goroutine
   advance; did it expire, fire, deliver.  `strict` decides what "before its expiry" refers
   to: true = before LFire (the commit), false = before LExpire (the property's
   "well before its expiry": before expiry was even enabled). *)
Inductive kill := KStopEarly (* stopped before its goroutine reached the select *) | KStop | KReplace.

Record gmon := { k_dead : option kill; k_adv : bool; k_exp : bool; k_fired : bool; k_delivered : bool }.

Record mstate := { m_live : option nat (* armed most recently and neither stopped nor fired since *);
                   m_g : list gmon }.

Definition m_init : mstate := {| m_live := None; m_g := [] |}.
Definition k_fresh : gmon :=
  {| k_dead := None; k_adv := false; k_exp := false; k_fired := false; k_delivered := false |}.

Definition mod_g (l : list gmon) (g : nat) (f : gmon -> gmon) : list gmon :=
  match nth_error l g with Some k => upd l g (f k) | None => l end.

Definition mark_dead (strict : bool) (stop : bool) (k : gmon) : gmon :=
  match k_dead k with
  | Some _ => k
  | None =>
      if strict || negb (k_exp k) then
        {| k_dead := Some (if stop then (if k_adv k then KStop else KStopEarly) else KReplace);
           k_adv := k_adv k; k_exp := k_exp k; k_fired := k_fired k; k_delivered := k_delivered k |}
      else k
  end.

Definition kill_live (strict stop : bool) (ms : mstate) : list gmon :=
  match m_live ms with Some g => mod_g (m_g ms) g (mark_dead strict stop) | None => m_g ms end.

(* failure codes (names in checks/C14.py) *)
Definition c_stop_early_fired : N := 10.   (* stopped_immediately_after_arm_fired *)
Definition c_stopped_fired : N := 11.      (* stopped_timer_fired *)
Definition c_replaced_fired : N := 12.     (* replaced_timer_fired *)
Definition c_fired_twice : N := 13.        (* fired_twice *)
Definition c_deliver_no_fire : N := 14.    (* delivered_without_expiry *)
Definition c_never_fired : N := 15.        (* armed_timer_never_fired *)
Definition c_delivered_twice : N := 16.    (* delivered_twice *)
Definition c_no_such_timer : N := 17.      (* timeout_without_expired_timer *)
Definition c_witness_feasible : N := 20.   (* known_refuting_schedule_is_a_run_of_the_source_model *)

Definition mstep (strict : bool) (ms : mstate) (l : label) : mstate * codes :=
  match l with
  | LArm _ _ _ =>
      ({| m_live := Some (length (m_g ms)); m_g := kill_live strict false ms ++ [k_fresh] |}, [])
  | LStop _ => ({| m_live := None; m_g := kill_live strict true ms |}, [])
  | LAdv g =>
      ({| m_live := m_live ms;
          m_g := mod_g (m_g ms) g (fun k => {| k_dead := k_dead k; k_adv := true; k_exp := k_exp k;
                                               k_fired := k_fired k; k_delivered := k_delivered k |}) |}, [])
  | LExpire g =>
      ({| m_live := m_live ms;
          m_g := mod_g (m_g ms) g (fun k => {| k_dead := k_dead k; k_adv := k_adv k; k_exp := true;
                                               k_fired := k_fired k; k_delivered := k_delivered k |}) |}, [])
  | LFire g =>
      match nth_error (m_g ms) g with
      | None => (ms, [c_no_such_timer])
      | Some k =>
          ({| m_live := if opt_nat_eqb (m_live ms) (Some g) then None else m_live ms;
              m_g := upd (m_g ms) g {| k_dead := k_dead k; k_adv := k_adv k; k_exp := k_exp k;
                                       k_fired := true; k_delivered := k_delivered k |} |},
           if k_fired k then [c_fired_twice]
           else match k_dead k with
                | Some KStopEarly => [c_stop_early_fired]
                | Some KStop => [c_stopped_fired]
                | Some KReplace => [c_replaced_fired]
                | None => []
                end)
      end
  | LDeliver g =>
      match nth_error (m_g ms) g with
      | None => (ms, [c_no_such_timer])
      | Some k =>
          ({| m_live := m_live ms;
              m_g := upd (m_g ms) g {| k_dead := k_dead k; k_adv := k_adv k; k_exp := k_exp k;
                                       k_fired := k_fired k; k_delivered := true |} |},
           if negb (k_fired k) then [c_deliver_no_fire]
           else if k_delivered k then [c_delivered_twice] else [])
      end
  end.

Fixpoint mrun (strict : bool) (ms : mstate) (l : list label) : mstate * codes :=
  match l with
  | [] => (ms, [])
  | a :: r =>
      let '(ms1, c1) := mstep strict ms a in
      let '(ms2, c2) := mrun strict ms1 r in
      (ms2, c1 ++ c2)
  end.

(* THE monitor: [] = a timeout is committed only by the generation armed most recently and
   neither stopped nor replaced (before its expiry), at most once per generation, and is
   delivered only after having been committed, at most once *)
Definition mon (strict : bool) (l : list label) : codes := snd (mrun strict m_init l).

(* ---- the ideal timer used by the connection model (Conn): an armed flag; the timeout
   event is enabled only when armed and disarms ---- *)
Inductive ilabel := IArm | IStop | ITimeout (g : nat).
Record ideal := { i_n : nat (* timers armed so far *); i_armed : option nat }.
Definition ideal_init : ideal := {| i_n := 0%nat; i_armed := None |}.

Definition istep (i : ideal) (l : ilabel) : option ideal :=
  match l with
  | IArm => Some {| i_n := S (i_n i); i_armed := Some (i_n i) |}
  | IStop => Some {| i_n := i_n i; i_armed := None |}
  | ITimeout g => if opt_nat_eqb (i_armed i) (Some g) then Some {| i_n := i_n i; i_armed := None |} else None
  end.

Fixpoint iexec (i : ideal) (l : list ilabel) : option ideal :=
  match l with
  | [] => Some i
  | a :: r => match istep i a with Some i' => iexec i' r | None => None end
  end.

(* projection of a Timer schedule: arm, stop and the commit of a timeout are visible *)
Definition proj (l : label) : list ilabel :=
  match l with
  | LArm _ _ _ => [IArm]
  | LStop _ => [IStop]
  | LFire g => [ITimeout g]
  | _ => []
  end.
Definition proj_all (l : list label) : list ilabel := flat_map proj l.

(* the steps by which the goroutine of generation g, left alone, gets from pc p to Fired *)
Definition finish (g : nat) (p : pc) : list label :=
  match p with
  | Spawned => [LAdv g; LExpire g; LFire g; LDeliver g]
  | AtSelect => [LExpire g; LFire g; LDeliver g]
  | Expired => [LFire g; LDeliver g]
  | Delivering => [LDeliver g]
  | _ => []
  end.

(* no stop/arm racing a goroutine that has not reached its select (the lost-stop window) or
   that is between its time.After arm and its flag update: the region outside of which the
   Shared mechanism satisfies the property *)
Definition calm (s : tstate) : bool :=
  forallb (fun r => negb (pc_eqb (g_pc r) Spawned || pc_eqb (g_pc r) Expired)) (gs s).

Definition is_op (l : label) : bool :=
  match l with LArm _ _ _ | LStop _ => true | _ => false end.

(* every arm/stop of the schedule happens in a calm state *)
Fixpoint ops_calm (m : mech) (s : tstate) (l : list label) : bool :=
  match l with
  | [] => true
  | a :: r =>
      (if is_op a then calm s else true) &&
      match tstep m s a with Some s' => ops_calm m s' r | None => true end
  end.

(* ==== implementation observations (harness/cmd/timerdrv) ====
   One case = one real ShipConnection: the arm/stop calls made on it, with the time just
   before each call and just after its return, and the times at which timeouts were
   delivered to the state machine.  All times in microseconds since the scenario start. *)
Record top := { o_arm : bool; o_d : N (* duration, 0 for stop *); o_call : N; o_ret : N }.
Record timer_case := { tc_ops : list top; tc_fires : list N (* ascending *); tc_end : N (* observation ended *) }.

Definition margin_us : N := 2000.      (* "well before its expiry": returned >= 2 ms before the deadline *)
Definition imm_gap_us : N := 200.      (* a stop called < 200 us after arm returned is "immediately after" *)
Definition grace_us : N := 1000000.    (* liveness is judged only if observed >= 1 s past the deadline *)

Record ginfo := {
  gi_dead : N;        (* earliest possible expiry: time before the arm call + duration *)
  gi_pos : nat;       (* op index before which its timeout is placed if it fires: the first later op
                         that did not return well before gi_dead, or the number of ops *)
  gi_killed : bool    (* an op after it returned well before gi_dead *)
}.

Fixpoint first_late (ops : list top) (i : nat) (dead : N) : nat :=
  match ops with
  | [] => i
  | o :: r => if dead <? o_ret o + margin_us then i else first_late r (S i) dead
  end.

Fixpoint ginfos (i : nat) (ops : list top) : list ginfo :=
  match ops with
  | [] => []
  | o :: r =>
      if o_arm o then
        let dead := o_call o + o_d o in
        let p := first_late r (S i) dead in
        {| gi_dead := dead; gi_pos := p; gi_killed := negb (Nat.eqb p (S i)) |} :: ginfos (S i) r
      else ginfos (S i) r
  end.

Definition nat_mem (x : nat) (l : list nat) : bool := existsb (Nat.eqb x) l.

(* which generation a timeout observed at time t is attributed to — charitably: the latest
   generation that had expired by t, is not yet used and was NOT stopped/replaced well before
   its deadline; failing that the latest unused expired one (a violation); failing that the
   latest expired one (a second timeout of the same timer); failing that none *)
Fixpoint pick (gis : list ginfo) (g : nat) (used : list nat) (t : N)
         (ok unused any : option nat) : option nat * option nat * option nat :=
  match gis with
  | [] => (ok, unused, any)
  | gi :: r =>
      if gi_dead gi <=? t then
        let u := negb (nat_mem g used) in
        pick r (S g) used t
             (if u && negb (gi_killed gi) then Some g else ok)
             (if u then Some g else unused)
             (Some g)
      else pick r (S g) used t ok unused any
  end.

Definition attribute (gis : list ginfo) (used : list nat) (t : N) : nat :=
  match pick gis 0%nat used t None None None with
  | (Some g, _, _) => g
  | (None, Some g, _) => g
  | (None, None, Some g) => g
  | (None, None, None) => length gis     (* no such timer *)
  end.

(* fired generations in the order of their timeouts, with their positions *)
Fixpoint attribute_all (gis : list ginfo) (used : list nat) (fires : list N) : list (nat * nat) :=
  match fires with
  | [] => []
  | t :: r =>
      let g := attribute gis used t in
      let p := match nth_error gis g with Some gi => gi_pos gi | None => 0%nat end in
      (p, g) :: attribute_all gis (g :: used) r
  end.

Definition fires_at (nops : nat) (i : nat) (fl : list (nat * nat)) : list label :=
  flat_map (fun pg : nat * nat =>
              let '(p, g) := pg in
              (* a timeout attributed to no timer is placed at the end *)
              if Nat.eqb (if Nat.ltb nops p then nops else p) i then [LExpire g; LFire g; LDeliver g] else [])
           fl.

Fixpoint build (nops i narm : nat) (ops : list top) (fl : list (nat * nat)) : list label :=
  fires_at nops i fl ++
  match ops with
  | [] => []
  | o :: r =>
      if o_arm o then
        LArm 0 (o_d o) None ::
        (match r with
         | k :: _ => if o_ret o + imm_gap_us <=? o_call k then [LAdv narm] else []
         | [] => [LAdv narm]
         end) ++ build nops (S i) (S narm) r fl
      else LStop None :: build nops (S i) narm r fl
  end.

Definition fire_list (c : timer_case) : list (nat * nat) :=
  let gis := ginfos 0%nat (tc_ops c) in
  map (fun pg : nat * nat => let '(p, g) := pg in
         (match nth_error gis g with Some _ => p | None => length (tc_ops c) end, g))
      (attribute_all gis [] (tc_fires c)).

(* the implementation's run as a label list: the monitor's input *)
Definition trace_of_case (c : timer_case) : list label :=
  build (length (tc_ops c)) 0%nat 0%nat (tc_ops c) (fire_list c).

(* the same run as a schedule of the model: goroutines advance lazily (just before they
   expire), which both mechanisms allow whenever they allow the visible part at all *)
Fixpoint lazy_norm (l : list label) : list label :=
  match l with
  | [] => []
  | LAdv _ :: r => lazy_norm r
  | LExpire g :: r => LAdv g :: LExpire g :: lazy_norm r
  | a :: r => a :: lazy_norm r
  end.

Definition feasible (m : mech) (l : list label) : bool :=
  match exec m t_init (lazy_norm l) with Some _ => true | None => false end.

Fixpoint last_ginfo (gis : list ginfo) : option ginfo :=
  match gis with [] => None | [g] => Some g | _ :: r => last_ginfo r end.

(* a timer still armed at the end, on a connection that never saw a timeout, observed long
   enough past its deadline, must have fired *)
Definition liveness (c : timer_case) (tr : list label) : codes :=
  match m_live (fst (mrun true m_init tr)), tc_fires c, last_ginfo (ginfos 0%nat (tc_ops c)) with
  | Some _, [], Some gi => if gi_dead gi + grace_us <=? tc_end c then [c_never_fired] else []
  | _, _, _ => []
  end.

Definition check_obs (c : timer_case) : codes :=
  let tr := trace_of_case c in
  (match src_mech with
   | Some m => if feasible m tr then [] else [1]
   | None => [1]
   end) ++ mon true tr ++ liveness c tr.

(* corpus: a schedule that once refuted the property (the monitor rejects it).  It must not
   be a run of the model of the current source. *)
Definition check_sched (l : list label) : codes :=
  match src_mech with
  | Some m => match exec m t_init l, mon false l with
              | Some _, _ :: _ => [c_witness_feasible]
              | _, _ => []
              end
  | None => [1]
  end.

Inductive c14_case := COBS (c : timer_case) | CSCHED (l : list label).
Definition check_c14 (c : c14_case) : codes :=
  match c with COBS c => check_obs c | CSCHED l => check_sched l end.
