(* HubModelProofs.v — lemmas about HubModel (C10 and the hub-level halves of C11, C01, C09).
   Everything is proved for an arbitrary configuration (universe of SKIs, SKI order, table
   flags) unless a hypothesis says otherwise, for arbitrary hub states and unbounded label
   lists. *)
From Ship Require Import Base HubModel.
From ShipGen Require Import StateTable HubTable.

Lemma get_upd h k s j : get (upd h k s) j = if N.eqb j k then s else get h j.
Proof. reflexivity. Qed.
Lemma get_upd_same h k s : get (upd h k s) k = s.
Proof. rewrite get_upd, N.eqb_refl. reflexivity. Qed.
Lemma get_upd_other h k s j : j <> k -> get (upd h k s) j = get h j.
Proof. intros H. rewrite get_upd. apply N.eqb_neq in H. rewrite H. reflexivity. Qed.

(* ---- observation lists: what can contain a dial / a creation / a disconnect ---- *)
Lemma dials_app a b : dials_of (a ++ b) = dials_of a ++ dials_of b.
Proof. apply flat_map_app. Qed.
Lemma creates_app a b : creates_of (a ++ b) = creates_of a ++ creates_of b.
Proof. apply flat_map_app. Qed.
Lemma ccreates_app a b : client_creates_of (a ++ b) = client_creates_of a ++ client_creates_of b.
Proof. apply flat_map_app. Qed.

Definition quiet (o : list obs) : Prop :=
  dials_of o = [] /\ creates_of o = [] /\ client_creates_of o = [] /\ forall k, count_obs (ODisc k) o = O.

Lemma quiet_nil : quiet [].
Proof. repeat split. Qed.
Lemma quiet_app a b : quiet a -> quiet b -> quiet (a ++ b).
Proof.
  intros (A1 & A2 & A3 & A4) (B1 & B2 & B3 & B4). repeat split.
  - rewrite dials_app, A1, B1. reflexivity.
  - rewrite creates_app, A2, B2. reflexivity.
  - rewrite ccreates_app, A3, B3. reflexivity.
  - intros k. unfold count_obs in *. rewrite filter_app, app_length, A4, B4. reflexivity.
Qed.
Lemma quiet_reannounce C h : quiet (reannounce C h).
Proof.
  unfold reannounce. destruct (c_grean C && h_down h); [apply quiet_nil|].
  destruct (Nat.ltb _ _); repeat split.
Qed.
Lemma quiet_closes C h : quiet (closes_of C h).
Proof.
  unfold closes_of. induction (c_univ C) as [|k u IH]; [apply quiet_nil|].
  cbn [flat_map]. apply quiet_app; [|exact IH].
  destruct (s_reg (get h k)); repeat split.
Qed.
Lemma quiet_keep C h k inc : quiet (snd (keep_this C h k inc)).
Proof.
  unfold keep_this. destruct (s_reg (get h k)); [|apply quiet_nil].
  destruct (if inc then _ else _); repeat split.
Qed.

(* ---- the report loop only touches counters and pending flags ---- *)
Definition same_core (a b : sk) : Prop :=
  s_trusted a = s_trusted b /\ s_pst a = s_pst b /\ s_perr a = s_perr b /\ s_shipid a = s_shipid b
  /\ s_reg a = s_reg b /\ s_dialing a = s_dialing b.
Lemma same_core_refl a : same_core a a.
Proof. repeat split. Qed.
Lemma same_core_trans a b c : same_core a b -> same_core b c -> same_core a c.
Proof. unfold same_core. intuition congruence. Qed.

Lemma coordinate_core C h k j : same_core (get (coordinate C h k) j) (get h j).
Proof.
  unfold coordinate. destruct (c_gcoord C && h_down h); [apply same_core_refl|].
  destruct (s_pend (get h k)); [apply same_core_refl|].
  rewrite get_upd. destruct (N.eqb_spec j k) as [->|_]; [|apply same_core_refl].
  repeat split.
Qed.
Lemma coordinate_flags C h k :
  h_down (coordinate C h k) = h_down h /\ h_started (coordinate C h k) = h_started h.
Proof.
  unfold coordinate. destruct (c_gcoord C && h_down h); [auto|].
  destruct (s_pend (get h k)); auto.
Qed.
Lemma report_one_core C h k j : same_core (get (report_one C h k) j) (get h j).
Proof.
  unfold report_one. destruct (isSome _); [apply same_core_refl|].
  destruct (negb _); [apply same_core_refl|]. apply coordinate_core.
Qed.
Lemma report_one_flags C h k :
  h_down (report_one C h k) = h_down h /\ h_started (report_one C h k) = h_started h.
Proof.
  unfold report_one. destruct (isSome _); [auto|]. destruct (negb _); [auto|]. apply coordinate_flags.
Qed.
Lemma report_core C ks : forall h j, same_core (get (fold_left (report_one C) ks h) j) (get h j).
Proof.
  induction ks as [|k ks IH]; intros h j; [apply same_core_refl|].
  cbn [fold_left]. eapply same_core_trans; [apply IH|apply report_one_core].
Qed.
Lemma report_flags C ks : forall h,
  h_down (fold_left (report_one C) ks h) = h_down h /\ h_started (fold_left (report_one C) ks h) = h_started h.
Proof.
  induction ks as [|k ks IH]; intros h; [auto|]. cbn [fold_left].
  destruct (IH (report_one C h k)) as [A B]. destruct (report_one_flags C h k) as [A' B'].
  split; congruence.
Qed.

(* ---- (a) a dial starts only from LFire, for a SKI that may be dialled, unconnected, and
   (where the preparation consults the shut-down flag) not after Shutdown ---- *)
Lemma dial_step C h l k :
  In k (dials_of (snd (hstep C h l))) ->
  l = LFire k /\ may_dial (get h k) = true /\ s_reg (get h k) = None
  /\ (c_gprep C = true -> h_down h = false).
Proof.
  destruct l; cbn [hstep].
  - (* register *)
    destruct (negb (h_started h)); cbn [snd].
    + rewrite (proj1 (quiet_reannounce C _)). intros [].
    + destruct (s_reg (get h k0)); cbn [snd]; intros [].
  - cbn [snd]. destruct (s_reg (get h k0)); intros [].
  - cbn [snd]. destruct (s_reg (get h k0)); intros [].
  - cbn [snd]. destruct (s_reg (get h k0)); intros [].
  - intros [].
  - cbn [snd dials_of flat_map]. rewrite app_nil_l. fold (dials_of (closes_of C h)).
    rewrite (proj1 (quiet_closes C h)). intros [].
  - intros [].
  - intros [].
  - intros [].
  - (* inbound *)
    destruct (queued (get h k0)).
    + destruct (keep_this C _ k0 true) as [go o2] eqn:K.
      pose proof (quiet_keep C (upd h k0 (set_pst (get h k0) ConnectionStateReceivedPairingRequest)) k0 true) as Q.
      rewrite K in Q. cbn [snd] in Q.
      destruct go; cbn [snd]; rewrite !dials_app, (proj1 Q); intros [].
    + destruct (keep_this C h k0 true) as [go o2] eqn:K.
      pose proof (quiet_keep C h k0 true) as Q. rewrite K in Q. cbn [snd] in Q.
      destruct go; cbn [snd]; rewrite !dials_app, (proj1 Q); intros [].
  - intros [].
  - intros [].
  - (* closed *)
    cbn [snd]. destruct (negb completed && negb _); [intros []|].
    cbn [dials_of flat_map]. rewrite app_nil_l. fold (dials_of (reannounce C (upd h k0
      match s_reg (get h k0) with
      | Some r => if completed then set_counter (if N.eqb r c then set_reg (get h k0) None else get h k0) None
                  else if N.eqb r c then set_reg (get h k0) None else get h k0
      | None => get h k0 end))).
    rewrite (proj1 (quiet_reannounce C _)). intros [].
  - (* fire *)
    destruct (s_pend (get h k0)) as [n|]; [|intros []].
    destruct (c_gprep C && h_down h) eqn:G; [intros []|].
    destruct (negb (option_eqb N.eqb _ _)); [intros []|].
    destruct (negb (may_dial (get h k0))) eqn:M; [intros []|].
    destruct (isSome (s_reg (get h k0))) eqn:R; [intros []|].
    destruct (c_ginit C && h_down h).
    + cbn [snd]. rewrite (proj1 (quiet_reannounce C _)). intros [].
    + cbn [snd dials_of flat_map app]. intros [<-|[]].
      repeat split.
      * apply negb_false_iff in M. exact M.
      * destruct (s_reg (get h k0)); [discriminate R|reflexivity].
      * intros P. rewrite P in G. exact G.
  - (* dial ok *)
    destruct (N.eqb (s_dialing (get h k0)) 0); [intros []|].
    destruct (keep_this C _ k0 false) as [go o2] eqn:K.
    pose proof (quiet_keep C (upd h k0 (set_dialing (get h k0) (N.pred (s_dialing (get h k0))))) k0 false) as Q.
    rewrite K in Q. cbn [snd] in Q.
    destruct go; cbn [snd]; rewrite !dials_app, (proj1 Q).
    + intros [].
    + rewrite (proj1 (quiet_reannounce C _)). intros [].
  - destruct (N.eqb (s_dialing (get h k0)) 0); [intros []|].
    cbn [snd]. rewrite (proj1 (quiet_reannounce C _)). intros [].
Qed.
