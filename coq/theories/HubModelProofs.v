(* HubModelProofs.v — lemmas about HubModel (C10 and the hub-level halves of C11, C01, C09).
   Everything is proved for an arbitrary configuration (universe of SKIs, SKI order, table
   flags) unless a hypothesis says otherwise, for arbitrary hub states and unbounded label
   lists. *)
From Ship Require Import Base HubModel.
From ShipGen Require Import StateTable HubTable.

Lemma get_upd h k s j : get (upd h k s) j = if N.eqb j k then s else get h j.
Proof. reflexivity. Qed.
Lemma get_upd_same h k s : get (upd h k s) k = s.
Proof. rewrite get_upd, N.eqb_refl. reflexivity. Qed.
Lemma get_upd_other h k s j : j <> k -> get (upd h k s) j = get h j.
Proof. intros H. rewrite get_upd. apply N.eqb_neq in H. rewrite H. reflexivity. Qed.

(* ---- observation lists: what can contain a dial / a creation / a disconnect ---- *)
Lemma dials_app a b : dials_of (a ++ b) = dials_of a ++ dials_of b.
Proof. apply flat_map_app. Qed.
Lemma creates_app a b : creates_of (a ++ b) = creates_of a ++ creates_of b.
Proof. apply flat_map_app. Qed.
Lemma ccreates_app a b : client_creates_of (a ++ b) = client_creates_of a ++ client_creates_of b.
Proof. apply flat_map_app. Qed.

Definition quiet (o : list obs) : Prop :=
  dials_of o = [] /\ creates_of o = [] /\ client_creates_of o = [] /\ forall k, count_obs (ODisc k) o = O.

Lemma quiet_nil : quiet [].
Proof. repeat split. Qed.
Lemma quiet_app a b : quiet a -> quiet b -> quiet (a ++ b).
Proof.
  intros (A1 & A2 & A3 & A4) (B1 & B2 & B3 & B4). repeat split.
  - rewrite dials_app, A1, B1. reflexivity.
  - rewrite creates_app, A2, B2. reflexivity.
  - rewrite ccreates_app, A3, B3. reflexivity.
  - intros k. unfold count_obs in *. rewrite filter_app, app_length, A4, B4. reflexivity.
Qed.
Lemma quiet_reannounce C h : quiet (reannounce C h).
Proof.
  unfold reannounce. destruct (c_grean C && h_down h); [apply quiet_nil|].
  destruct (Nat.ltb _ _); repeat split.
Qed.
Lemma quiet_closes C h : quiet (closes_of C h).
Proof.
  unfold closes_of. induction (c_univ C) as [|k u IH]; [apply quiet_nil|].
  cbn [flat_map]. apply quiet_app; [|exact IH].
  destruct (s_reg (get h k)); repeat split.
Qed.
Lemma quiet_keep C h k inc : quiet (snd (keep_this C h k inc)).
Proof.
  unfold keep_this. destruct (s_reg (get h k)); [|apply quiet_nil].
  destruct (if inc then _ else _); repeat split.
Qed.

Lemma quiet_regclose C o : quiet o -> quiet (reg_close C o).
Proof. intros Q. unfold reg_close. destruct (c_regcheck C); [exact Q|apply quiet_nil]. Qed.

(* ---- the report loop only touches counters and pending flags ---- *)
Definition same_core (a b : sk) : Prop :=
  s_trusted a = s_trusted b /\ s_pst a = s_pst b /\ s_perr a = s_perr b /\ s_shipid a = s_shipid b
  /\ s_reg a = s_reg b /\ s_dialing a = s_dialing b.
Lemma same_core_refl a : same_core a a.
Proof. repeat split. Qed.
Lemma same_core_trans a b c : same_core a b -> same_core b c -> same_core a c.
Proof. unfold same_core. intuition congruence. Qed.

Lemma coordinate_core C h k j : same_core (get (coordinate C h k) j) (get h j).
Proof.
  unfold coordinate. destruct (c_gcoord C && h_down h); [apply same_core_refl|].
  destruct (s_pend (get h k)); [apply same_core_refl|].
  rewrite get_upd. destruct (N.eqb_spec j k) as [->|_]; [|apply same_core_refl].
  repeat split.
Qed.
Lemma coordinate_flags C h k :
  h_down (coordinate C h k) = h_down h /\ h_started (coordinate C h k) = h_started h.
Proof.
  unfold coordinate. destruct (c_gcoord C && h_down h); [auto|].
  destruct (s_pend (get h k)); auto.
Qed.
Lemma report_one_core C h k j : same_core (get (report_one C h k) j) (get h j).
Proof.
  unfold report_one. destruct (isSome _); [apply same_core_refl|].
  destruct (negb _); [apply same_core_refl|]. apply coordinate_core.
Qed.
Lemma report_one_flags C h k :
  h_down (report_one C h k) = h_down h /\ h_started (report_one C h k) = h_started h.
Proof.
  unfold report_one. destruct (isSome _); [auto|]. destruct (negb _); [auto|]. apply coordinate_flags.
Qed.
Lemma report_core C ks : forall h j, same_core (get (fold_left (report_one C) ks h) j) (get h j).
Proof.
  induction ks as [|k ks IH]; intros h j; [apply same_core_refl|].
  cbn [fold_left]. eapply same_core_trans; [apply IH|apply report_one_core].
Qed.
Lemma report_flags C ks : forall h,
  h_down (fold_left (report_one C) ks h) = h_down h /\ h_started (fold_left (report_one C) ks h) = h_started h.
Proof.
  induction ks as [|k ks IH]; intros h; [auto|]. cbn [fold_left].
  destruct (IH (report_one C h k)) as [A B]. destruct (report_one_flags C h k) as [A' B'].
  split; congruence.
Qed.

(* ---- (a) a dial starts only from LFire, for a SKI that may be dialled, unconnected, and
   (where the preparation consults the shut-down flag) not after Shutdown ---- *)
Lemma dial_step C h l k :
  In k (dials_of (snd (hstep C h l))) ->
  l = LFire k /\ may_dial (get h k) = true /\ s_reg (get h k) = None
  /\ (c_gprep C = true -> h_down h = false).
Proof.
  destruct l; cbn [hstep].
  - (* register *)
    destruct (negb (h_started h)); cbn [snd].
    + rewrite (proj1 (quiet_reannounce C _)). intros [].
    + destruct (s_reg (get h k0)); cbn [snd]; intros [].
  - cbn [snd]. destruct (s_reg (get h k0)); intros [].
  - cbn [snd]. destruct (s_reg (get h k0)); intros [].
  - cbn [snd]. destruct (s_reg (get h k0)); intros [].
  - intros [].
  - cbn [snd dials_of flat_map]. rewrite app_nil_l. fold (dials_of (closes_of C h)).
    rewrite (proj1 (quiet_closes C h)). intros [].
  - intros [].
  - intros [].
  - intros [].
  - (* inbound *)
    destruct (queued (get h k0)).
    + destruct (keep_this C _ k0 true) as [go o2] eqn:K.
      pose proof (quiet_keep C (upd h k0 (set_pst (get h k0) ConnectionStateReceivedPairingRequest)) k0 true) as Q.
      rewrite K in Q. cbn [snd] in Q.
      destruct go; cbn [snd]; rewrite !dials_app, ?(proj1 (quiet_regclose C _ Q)), (proj1 Q); intros [].
    + destruct (keep_this C h k0 true) as [go o2] eqn:K.
      pose proof (quiet_keep C h k0 true) as Q. rewrite K in Q. cbn [snd] in Q.
      destruct go; cbn [snd]; rewrite !dials_app, ?(proj1 (quiet_regclose C _ Q)), (proj1 Q); intros [].
  - intros [].
  - intros [].
  - (* closed *)
    cbn [snd]. destruct (negb completed && negb _); [intros []|].
    cbn [dials_of flat_map]. rewrite app_nil_l. fold (dials_of (reannounce C (upd h k0
      match s_reg (get h k0) with
      | Some r => if completed then set_counter (if N.eqb r c then set_reg (get h k0) None else get h k0) None
                  else if N.eqb r c then set_reg (get h k0) None else get h k0
      | None => get h k0 end))).
    rewrite (proj1 (quiet_reannounce C _)). intros [].
  - (* fire *)
    destruct (s_pend (get h k0)) as [n|]; [|intros []].
    destruct (c_gprep C && h_down h) eqn:G; [intros []|].
    destruct (negb (option_eqb N.eqb _ _)); [cbn [snd]; destruct (c_stale C); [rewrite (proj1 (quiet_reannounce C _))|]; intros []|].
    destruct (negb (may_dial (get h k0))) eqn:M; [intros []|].
    destruct (isSome (s_reg (get h k0))) eqn:R; [intros []|].
    destruct (c_ginit C && h_down h).
    + cbn [snd]. rewrite (proj1 (quiet_reannounce C _)). intros [].
    + cbn [snd dials_of flat_map app]. intros [<-|[]].
      repeat split.
      * apply negb_false_iff in M. exact M.
      * destruct (s_reg (get h k0)); [discriminate R|reflexivity].
      * intros P. rewrite P in G. exact G.
  - (* dial ok *)
    destruct (N.eqb (s_dialing (get h k0)) 0); [intros []|].
    destruct (keep_this C _ k0 false) as [go o2] eqn:K.
    pose proof (quiet_keep C (upd h k0 (set_dialing (get h k0) (N.pred (s_dialing (get h k0))))) k0 false) as Q.
    rewrite K in Q. cbn [snd] in Q.
    destruct go; cbn [snd]; rewrite !dials_app, ?(proj1 (quiet_regclose C _ Q)), (proj1 Q).
    + intros [].
    + rewrite (proj1 (quiet_reannounce C _)). intros [].
  - destruct (N.eqb (s_dialing (get h k0)) 0); [intros []|].
    cbn [snd]. rewrite (proj1 (quiet_reannounce C _)). intros [].
Qed.

(* ---- independence: a label that names a SKI leaves every other SKI's record alone ---- *)
Lemma keep_fst_reg C h k inc : fst (keep_this C h k inc) = true \/ fst (keep_this C h k inc) = false.
Proof. destruct (fst _); auto. Qed.

Lemma hstep_other C h l k0 j :
  label_ski l = Some k0 -> j <> k0 -> get (fst (hstep C h l)) j = get h j.
Proof.
  intros LS NE. destruct l; inversion LS; subst; cbn [hstep].
  - destruct (negb (h_started h)); [|destruct (s_reg (get h k0))]; cbn [fst]; apply get_upd_other, NE.
  - cbn [fst]. apply get_upd_other, NE.
  - cbn [fst]. apply get_upd_other, NE.
  - reflexivity.
  - cbn [fst]. apply get_upd_other, NE.
  - destruct (queued (get h k0)).
    + destruct (keep_this C _ k0 true) as [[|] o2]; cbn [fst]; rewrite ?get_upd_other by exact NE; reflexivity.
    + destruct (keep_this C h k0 true) as [[|] o2]; cbn [fst]; rewrite ?get_upd_other by exact NE; reflexivity.
  - cbn [fst]. apply get_upd_other, NE.
  - cbn [fst]. apply get_upd_other, NE.
  - cbn [fst]. apply get_upd_other, NE.
  - destruct (s_pend (get h k0)); [|reflexivity].
    repeat match goal with |- context [if ?b then _ else _] => destruct b end;
      cbn [fst]; apply get_upd_other, NE.
  - destruct (N.eqb (s_dialing (get h k0)) 0); [reflexivity|].
    destruct (keep_this C _ k0 false) as [[|] o2]; cbn [fst]; rewrite ?get_upd_other by exact NE; reflexivity.
  - destruct (N.eqb (s_dialing (get h k0)) 0); [reflexivity|]. cbn [fst]. apply get_upd_other, NE.
Qed.

Lemma hstep_global_core C h l j :
  label_ski l = None -> same_core (get (fst (hstep C h l)) j) (get h j).
Proof.
  intros LS. destruct l; try discriminate LS; cbn [hstep fst]; try apply same_core_refl.
  apply report_core.
Qed.

Lemma may_dial_core a b : same_core a b -> may_dial a = may_dial b.
Proof. intros (A & B & _). unfold may_dial, queued. rewrite A, B. reflexivity. Qed.

(* the shut-down flag is set by Shutdown (when it sets one at all) and by nothing else;
   nothing clears it *)
Lemma hstep_down C h l :
  h_down (fst (hstep C h l)) = h_down h || match l with LShutdown => c_flag C | _ => false end.
Proof.
  destruct l; cbn [hstep]; try (cbn [fst h_down upd]; rewrite ?orb_false_r; reflexivity).
  - destruct (negb (h_started h)); [|destruct (s_reg (get h k))]; cbn [fst]; rewrite orb_false_r; reflexivity.
  - cbn [fst]. rewrite orb_false_r. apply (report_flags C ks h).
  - destruct (queued (get h k)).
    + destruct (keep_this C _ k true) as [[|] o2]; cbn [fst]; rewrite orb_false_r; reflexivity.
    + destruct (keep_this C h k true) as [[|] o2]; cbn [fst]; rewrite orb_false_r; reflexivity.
  - rewrite orb_false_r. destruct (s_pend (get h k)); [|reflexivity].
    repeat match goal with |- context [if ?b then _ else _] => destruct b end; reflexivity.
  - rewrite orb_false_r. destruct (N.eqb (s_dialing (get h k)) 0); [reflexivity|].
    destruct (keep_this C _ k false) as [[|] o2]; reflexivity.
  - rewrite orb_false_r. destruct (N.eqb (s_dialing (get h k)) 0); reflexivity.
Qed.

(* ---- (a) where "trusted or queued" comes from ---- *)
Lemma keep_this_state C h k inc s :
  get (if fst (keep_this C h k inc) then upd h k s else h) k = (if fst (keep_this C h k inc) then s else get h k).
Proof. destruct (fst _); [apply get_upd_same|reflexivity]. Qed.

Lemma grant_origin C h l k :
  may_dial (get (fst (hstep C h l)) k) = true -> may_dial (get h k) = false -> regrants l k = true.
Proof.
  intros A B.
  destruct (label_ski l) as [k0|] eqn:LS.
  2:{ rewrite (may_dial_core _ _ (hstep_global_core C h l k LS)) in A. congruence. }
  destruct (N.eqb_spec k k0) as [->|NE].
  2:{ rewrite (hstep_other C h l k0 k LS NE) in A. congruence. }
  unfold may_dial, queued in *.
  destruct l; inversion LS; subst; cbn [hstep regrants] in *; rewrite ?N.eqb_refl; try reflexivity.
  - exfalso. cbn [fst] in A. rewrite get_upd_same in A. cbn in A. discriminate A.
  - exfalso. cbn [fst] in A. rewrite get_upd_same in A. cbn in A. discriminate A.
  - exfalso. cbn [fst] in A. congruence.
  - exfalso. cbn [fst] in A. rewrite get_upd_same in A. cbn in A. congruence.
  - exfalso. apply orb_false_iff in B as [B1 B2]. unfold queued in A. rewrite B2 in A.
    destruct (keep_this C h k0 true) as [[|] o2]; cbn [fst] in A; rewrite ?get_upd_same in A; cbn in A;
      rewrite B1, B2 in A; discriminate A.
  - exfalso. cbn [fst] in A. rewrite get_upd_same in A. cbn in A. congruence.
  - (* a state report: hello-ok, or a state that maps to Queued *)
    cbn [fst] in A. rewrite get_upd_same in A. apply orb_false_iff in B as [B1 B2].
    unfold grant_state. destruct (N.eqb st SmeHelloStateOk); [reflexivity|].
    cbn in A. rewrite B1 in A. cbn in A. destruct err; [discriminate A|]. cbn. exact A.
  - exfalso. cbn [fst] in A. rewrite get_upd_same in A.
    destruct (s_reg (get h k0)) as [r|]; [destruct (N.eqb r c), completed|]; cbn in A; congruence.
  - exfalso. destruct (s_pend (get h k0)); [|cbn [fst] in A; congruence].
    repeat match type of A with context [if ?b then _ else _] => destruct b end;
      cbn [fst] in A; rewrite get_upd_same in A; cbn in A; congruence.
  - exfalso. destruct (N.eqb (s_dialing (get h k0)) 0); [cbn [fst] in A; congruence|].
    destruct (keep_this C _ k0 false) as [[|] o2]; cbn [fst] in A; rewrite ?get_upd_same in A; cbn in A; congruence.
  - exfalso. destruct (N.eqb (s_dialing (get h k0)) 0); [cbn [fst] in A; congruence|].
    cbn [fst] in A. rewrite get_upd_same in A. cbn in A. congruence.
Qed.

(* ---- runs ---- *)
Lemma hrun_cons C h l r :
  hrun C h (l :: r) = (fst (hrun C (fst (hstep C h l)) r), snd (hstep C h l) ++ snd (hrun C (fst (hstep C h l)) r)).
Proof. cbn [hrun]. destruct (hstep C h l) as [h1 o1]. cbn [fst snd]. destruct (hrun C h1 r). reflexivity. Qed.

(* (a)/(b): as long as nothing re-grants trust to k (no registration, no hello-ok report, no
   report of a state mapped to Queued), k stays neither trusted nor queued and no dial to k
   starts — whatever mDNS reports, however many delayed dials are pending or fire *)
Lemma no_grant_no_dial C k : forall ls h,
  may_dial (get h k) = false ->
  (forall l, In l ls -> regrants l k = false) ->
  ~ In k (dials_of (snd (hrun C h ls))) /\ may_dial (get (fst (hrun C h ls)) k) = false.
Proof.
  induction ls as [|l r IH]; intros h M G.
  - cbn. split; [intros []|exact M].
  - rewrite hrun_cons. cbn [fst snd].
    assert (M1 : may_dial (get (fst (hstep C h l)) k) = false).
    { destruct (may_dial (get (fst (hstep C h l)) k)) eqn:E; [|reflexivity].
      specialize (G l (or_introl eq_refl)). rewrite (grant_origin C h l k E M) in G. discriminate G. }
    destruct (IH (fst (hstep C h l)) M1 (fun l' H => G l' (or_intror H))) as [D1 D2].
    split; [|exact D2].
    rewrite dials_app. intros H. apply in_app_or in H as [H|H]; [|exact (D1 H)].
    apply dial_step in H as (_ & H & _). congruence.
Qed.

(* (b) what UnregisterRemoteSKI does at once *)
Lemma unregister_effect C h k :
  let h' := fst (hstep C h (LUnregister k)) in
  let o := snd (hstep C h (LUnregister k)) in
  s_trusted (get h' k) = false /\ s_pst (get h' k) = ConnectionStateNone /\ s_counter (get h' k) = None
  /\ may_dial (get h' k) = false
  /\ (forall c, s_reg (get h k) = Some c -> In (OClose c true 4500) o).
Proof.
  cbn [hstep fst snd]. rewrite get_upd_same. repeat split.
  intros c R. rewrite R. right. left. reflexivity.
Qed.

(* (c) what CancelPairingWithSKI does at once *)
Lemma cancel_effect C h k :
  let h' := fst (hstep C h (LCancel k)) in
  let o := snd (hstep C h (LCancel k)) in
  s_trusted (get h' k) = false /\ s_pst (get h' k) = ConnectionStateNone /\ s_counter (get h' k) = None
  /\ may_dial (get h' k) = false
  /\ (forall c, s_reg (get h k) = Some c -> In (OAbort c) o).
Proof.
  cbn [hstep fst snd]. rewrite get_upd_same. repeat split.
  intros c R. rewrite R. left. reflexivity.
Qed.

(* (d) once the flag is set no dial starts any more *)
Lemma down_stays C : forall ls h, h_down h = true -> h_down (fst (hrun C h ls)) = true.
Proof.
  induction ls as [|l r IH]; intros h D; [exact D|].
  rewrite hrun_cons. cbn [fst]. apply IH. rewrite hstep_down, D. reflexivity.
Qed.
Lemma no_dial_when_down C : c_gprep C = true -> forall ls h,
  h_down h = true -> dials_of (snd (hrun C h ls)) = [].
Proof.
  intros P. induction ls as [|l r IH]; intros h D; [reflexivity|].
  rewrite hrun_cons. cbn [snd]. rewrite dials_app, IH by (rewrite hstep_down, D; reflexivity).
  rewrite app_nil_r. destruct (dials_of (snd (hstep C h l))) as [|k t] eqn:E; [reflexivity|].
  assert (In k (dials_of (snd (hstep C h l)))) as H by (rewrite E; left; reflexivity).
  apply dial_step in H as (_ & _ & _ & H). rewrite (H P) in D. discriminate D.
Qed.
Lemma no_dial_after_shutdown C : c_flag C = true -> c_gprep C = true -> forall h ls,
  dials_of (snd (hrun C (fst (hstep C h LShutdown)) ls)) = [].
Proof.
  intros F P h ls. apply no_dial_when_down; [exact P|].
  rewrite hstep_down, F. apply orb_true_r.
Qed.
(* ... and nothing is re-announced or requested from mDNS *)
Lemma reannounce_down C h : c_grean C = true -> h_down h = true -> reannounce C h = [].
Proof. intros G D. unfold reannounce. rewrite G, D. reflexivity. Qed.

(* the table regenerated from the current source has the flag and consults it in all four places *)
Lemma table_guards :
  hub_shutdown_flag = true /\ hub_guard_coordinate = true /\ hub_guard_prepare = true
  /\ hub_guard_initiate = true /\ hub_guard_reannounce = true.
Proof. repeat split. Qed.

(* no slack: a hub whose Shutdown sets no flag does dial afterwards *)
Definition noflag_cfg : cfg := mkCfg [0] (fun _ => false) 2 false false false false false false false.
Lemma shutdown_without_flag_dials :
  dials_of (snd (hrun noflag_cfg (hub0 true) [LRegister 0; LReport [0]; LShutdown; LFire 0])) = [0].
Proof. vm_compute. reflexivity. Qed.

(* ---- C11-hub ---- *)
Lemma closed_effect C h k c completed :
  let h' := fst (hstep C h (LClosed k c completed)) in
  let o := snd (hstep C h (LClosed k c completed)) in
  s_reg (get h' k) = match s_reg (get h k) with
                     | Some r => if N.eqb r c then None else Some r
                     | None => None end
  /\ count_obs (ODisc k) o = 1%nat.
Proof.
  cbn [hstep fst snd]. rewrite get_upd_same. split.
  - destruct (s_reg (get h k)) as [r|] eqn:R; [|exact R].
    destruct (N.eqb r c), completed; cbn; try exact R; reflexivity.
  - unfold count_obs. cbn [filter]. 
    assert (obs_beq (ODisc k) (ODisc k) = true) as -> by (apply internal_obs_dec_lb; reflexivity).
    cbn [length]. f_equal.
    destruct (negb completed && negb _); [reflexivity|].
    apply (proj2 (proj2 (proj2 (quiet_reannounce C _)))).
Qed.

(* ---- C09-hub: a created connection carries the SHIP ID stored for its SKI ---- *)
Lemma create_step C h l k id :
  In (k, id) (creates_of (snd (hstep C h l))) -> id = s_shipid (get h k).
Proof.
  destruct l; cbn [hstep].
  - destruct (negb (h_started h)); cbn [snd].
    + rewrite (proj1 (proj2 (quiet_reannounce C _))). intros [].
    + destruct (s_reg (get h k0)); cbn [snd]; intros [].
  - cbn [snd]. destruct (s_reg (get h k0)); intros [].
  - cbn [snd]. destruct (s_reg (get h k0)); intros [].
  - cbn [snd]. destruct (s_reg (get h k0)); intros [].
  - intros [].
  - cbn [snd creates_of flat_map]. rewrite app_nil_l. fold (creates_of (closes_of C h)).
    rewrite (proj1 (proj2 (quiet_closes C h))). intros [].
  - intros [].
  - intros [].
  - intros [].
  - destruct (queued (get h k0)).
    + destruct (keep_this C _ k0 true) as [go o2] eqn:K.
      pose proof (quiet_keep C (upd h k0 (set_pst (get h k0) ConnectionStateReceivedPairingRequest)) k0 true) as Q.
      rewrite K in Q. cbn [snd] in Q. pose proof (quiet_regclose C _ Q) as (_ & Q' & _). destruct Q as (_ & Q & _).
      destruct go; cbn [snd]; rewrite !creates_app, ?Q', Q; cbn; [|intros []].
      intros [E|[]]. inversion E; subst. reflexivity.
    + destruct (keep_this C h k0 true) as [go o2] eqn:K.
      pose proof (quiet_keep C h k0 true) as Q. rewrite K in Q. cbn [snd] in Q. pose proof (quiet_regclose C _ Q) as (_ & Q' & _). destruct Q as (_ & Q & _).
      destruct go; cbn [snd]; rewrite !creates_app, ?Q', Q; cbn; [|intros []].
      intros [E|[]]. inversion E; subst. reflexivity.
  - intros [].
  - intros [].
  - cbn [snd]. destruct (negb completed && negb _); [intros []|].
    cbn [creates_of flat_map]. rewrite app_nil_l.
    match goal with |- In _ (flat_map ?f ?x) -> _ => change (flat_map f x) with (creates_of x) end.
    rewrite (proj1 (proj2 (quiet_reannounce C _))). intros [].
  - destruct (s_pend (get h k0)) as [n|]; [|intros []].
    repeat match goal with |- context [if ?b then _ else _] => destruct b end; cbn [snd]; try (intros []; fail).
    all: rewrite (proj1 (proj2 (quiet_reannounce C _))); intros [].
  - destruct (N.eqb (s_dialing (get h k0)) 0); [intros []|].
    destruct (keep_this C _ k0 false) as [go o2] eqn:K.
    pose proof (quiet_keep C (upd h k0 (set_dialing (get h k0) (N.pred (s_dialing (get h k0))))) k0 false) as Q.
    rewrite K in Q. cbn [snd] in Q. pose proof (quiet_regclose C _ Q) as (_ & Q' & _). destruct Q as (_ & Q & _).
    destruct go; cbn [snd]; rewrite !creates_app, ?Q', Q.
    + cbn. intros [E|[]]. inversion E; subst. reflexivity.
    + rewrite (proj1 (proj2 (quiet_reannounce C _))). intros [].
  - destruct (N.eqb (s_dialing (get h k0)) 0); [intros []|].
    cbn [snd]. rewrite (proj1 (proj2 (quiet_reannounce C _))). intros [].
Qed.

(* ---- (b) the window: an unregister while a dial is in flight ---- *)
Definition window_cfg : cfg := with_table [0] (fun _ => false).
Definition window_run : list label :=
  [LRegister 0; LReport [0]; LFire 0; LUnregister 0; LDialOk 0 1; LState 0 SmeHelloStateOk false].
Lemma window_witness :
  let h := fst (hrun window_cfg (hub0 true) window_run) in
  s_trusted (get h 0) = true /\ s_reg (get h 0) = Some 1
  /\ run_window window_cfg ghost0 (hub0 true) window_run = [19]
  /\ window_free window_cfg (hub0 true) window_run = false.
Proof. vm_compute. repeat split. Qed.

(* ---- C01-hub: the trusted flag becomes true only by registration or a hello-ok report ---- *)
Definition grants_trust (l : label) (k : N) : bool :=
  match l with
  | LRegister j => N.eqb j k
  | LState j st _ => N.eqb j k && N.eqb st SmeHelloStateOk
  | _ => false
  end.

Lemma trusted_origin C h l k :
  s_trusted (get (fst (hstep C h l)) k) = true -> s_trusted (get h k) = false -> grants_trust l k = true.
Proof.
  intros A B.
  destruct (label_ski l) as [k0|] eqn:LS.
  2:{ destruct (hstep_global_core C h l k LS) as (E & _). congruence. }
  destruct (N.eqb_spec k k0) as [->|NE].
  2:{ rewrite (hstep_other C h l k0 k LS NE) in A. congruence. }
  destruct l; inversion LS; subst; cbn [hstep grants_trust] in *; rewrite ?N.eqb_refl; try reflexivity.
  - exfalso. cbn [fst] in A. rewrite get_upd_same in A. cbn in A. discriminate A.
  - exfalso. cbn [fst] in A. rewrite get_upd_same in A. cbn in A. discriminate A.
  - exfalso. cbn [fst] in A. congruence.
  - exfalso. cbn [fst] in A. rewrite get_upd_same in A. cbn in A. congruence.
  - exfalso. destruct (queued (get h k0));
      [destruct (keep_this C _ k0 true) as [[|] o2]|destruct (keep_this C h k0 true) as [[|] o2]];
      cbn [fst] in A; rewrite ?get_upd_same in A; cbn in A; congruence.
  - exfalso. cbn [fst] in A. rewrite get_upd_same in A. cbn in A. congruence.
  - cbn [fst] in A. rewrite get_upd_same in A.
    destruct (N.eqb st SmeHelloStateOk); [reflexivity|]. cbn in A. congruence.
  - exfalso. cbn [fst] in A. rewrite get_upd_same in A.
    destruct (s_reg (get h k0)) as [r|]; [destruct (N.eqb r c), completed|]; cbn in A; congruence.
  - exfalso. destruct (s_pend (get h k0)); [|cbn [fst] in A; congruence].
    repeat match type of A with context [if ?b then _ else _] => destruct b end;
      cbn [fst] in A; rewrite get_upd_same in A; cbn in A; congruence.
  - exfalso. destruct (N.eqb (s_dialing (get h k0)) 0); [cbn [fst] in A; congruence|].
    destruct (keep_this C _ k0 false) as [[|] o2]; cbn [fst] in A; rewrite ?get_upd_same in A; cbn in A; congruence.
  - exfalso. destruct (N.eqb (s_dialing (get h k0)) 0); [cbn [fst] in A; congruence|].
    cbn [fst] in A. rewrite get_upd_same in A. cbn in A. congruence.
Qed.

(* the seeded variant "state >= hello-ok and not error" would trust on abort / rejected states *)
Lemma hello_ok_only : forall st, N.eqb st SmeHelloStateOk = true -> st = 13.
Proof. intros st H. apply N.eqb_eq in H. exact H. Qed.

(* only the initial state is mapped to Queued by the regenerated table (states are below 64) *)
Lemma only_initstart_maps_to_queued :
  filter (fun st => N.eqb (pair_state_of st) ConnectionStateQueued) (map N.of_nat (seq 0 64)) = [CmiStateInitStart].
Proof. vm_compute. reflexivity. Qed.

(* the hypotheses of the run theorems are satisfiable by non-trivial runs *)
Example dial_after_registration :
  dials_of (snd (hrun (with_table [0;1] (fun _ => false)) (hub0 true)
                 [LReport [0;1]; LRegister 1; LReport [0;1]; LFire 1])) = [1].
Proof. vm_compute. reflexivity. Qed.
Example pending_dial_dropped_by_unregister :
  let r := hrun (with_table [0] (fun _ => false)) (hub0 true)
             [LRegister 0; LReport [0]; LFire 0; LDialFail 0; LReport [0]; LUnregister 0; LFire 0] in
  dials_of (snd r) = [0] /\ s_pend (get (fst r) 0) = None.
Proof. vm_compute. split; reflexivity. Qed.
