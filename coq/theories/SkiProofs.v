(* SkiProofs.v — proofs about Ski.normalize and the hub entry points (C15). *)
From Ship Require Import Base Ski HubOps.
From ShipGen Require Import SkiTable StateTable.

Lemma table_ok_true : table_ok = true.
Proof. vm_compute. reflexivity. Qed.

Lemma lowercases_true : lowercases = true.
Proof. pose proof table_ok_true as H. unfold table_ok in H. apply andb_true_iff in H. tauto. Qed.

Lemma stripped_not_letter c :
  stripped c = true -> is_upper c = false /\ is_lowerl c = false.
Proof.
  pose proof table_ok_true as H. unfold table_ok in H.
  apply andb_true_iff in H as [_ H]. rewrite forallb_forall in H.
  unfold stripped. rewrite existsb_exists. intros [x [Hin Heq]].
  apply N.eqb_eq in Heq. subst x. specialize (H c Hin).
  apply andb_true_iff in H as [H1 H2].
  apply negb_true_iff in H1. apply negb_true_iff in H2. tauto.
Qed.

Lemma normalize_eq l : normalize l = map lower (strip l).
Proof. unfold normalize. rewrite lowercases_true. reflexivity. Qed.

Lemma lower_not_upper c : is_upper (lower c) = false.
Proof.
  unfold lower. destruct (is_upper c) eqn:E; [|exact E].
  unfold is_upper in *. apply andb_true_iff in E as [E1 E2].
  apply N.leb_le in E1. apply N.leb_le in E2.
  apply andb_false_iff. right. apply N.leb_gt. lia.
Qed.

Lemma lower_idem c : lower (lower c) = lower c.
Proof. unfold lower at 1. rewrite lower_not_upper. reflexivity. Qed.

(* stripping looks only at non-letters, lower-casing changes only letters *)
Lemma stripped_lower c : stripped (lower c) = stripped c.
Proof.
  unfold lower. destruct (is_upper c) eqn:E; [|reflexivity].
  destruct (stripped c) eqn:S.
  - apply stripped_not_letter in S. destruct S as [S _]. congruence.
  - destruct (stripped (c + 32)) eqn:S2; [|reflexivity].
    apply stripped_not_letter in S2. destruct S2 as [_ S2].
    unfold is_upper in E. unfold is_lowerl in S2.
    apply andb_true_iff in E as [E1 E2]. apply N.leb_le in E1. apply N.leb_le in E2.
    apply andb_false_iff in S2 as [S2|S2]; apply N.leb_gt in S2; lia.
Qed.

Lemma strip_map_lower l : strip (map lower l) = map lower (strip l).
Proof.
  induction l as [|c l IH]; simpl; [reflexivity|].
  rewrite stripped_lower. destruct (stripped c); simpl; rewrite IH; reflexivity.
Qed.

Lemma strip_idem l : strip (strip l) = strip l.
Proof.
  induction l as [|c l IH]; simpl; [reflexivity|].
  destruct (stripped c) eqn:E; simpl; [exact IH|]. rewrite E. simpl. rewrite IH. reflexivity.
Qed.

Lemma normalize_idem s : normalize (normalize s) = normalize s.
Proof.
  rewrite !normalize_eq, strip_map_lower, strip_idem, map_map.
  apply map_ext. intros; apply lower_idem.
Qed.

Lemma strip_app a b : strip (a ++ b) = strip a ++ strip b.
Proof. unfold strip. apply filter_app. Qed.

Lemma normalize_app a b : normalize (a ++ b) = normalize a ++ normalize b.
Proof. rewrite !normalize_eq, strip_app, map_app. reflexivity. Qed.

Lemma normalize_insert a b c :
  stripped c = true -> normalize (a ++ c :: b) = normalize (a ++ b).
Proof.
  intros H. rewrite !normalize_app. f_equal.
  rewrite !normalize_eq. simpl. rewrite H. reflexivity.
Qed.

Lemma lower_flip c : lower (flip c) = lower c.
Proof.
  unfold flip, lower.
  destruct (is_upper c) eqn:U.
  - unfold is_upper in *. apply andb_true_iff in U as [U1 U2].
    apply N.leb_le in U1. apply N.leb_le in U2.
    replace ((65 <=? c + 32) && (c + 32 <=? 90)) with false; [reflexivity|].
    symmetry. apply andb_false_iff. right. apply N.leb_gt. lia.
  - destruct (is_lowerl c) eqn:L; [|rewrite U; reflexivity].
    unfold is_lowerl in L. apply andb_true_iff in L as [L1 L2].
    apply N.leb_le in L1. apply N.leb_le in L2.
    replace (is_upper (c - 32)) with true; [lia|].
    symmetry. unfold is_upper. apply andb_true_iff. split; apply N.leb_le; lia.
Qed.

Lemma stripped_flip c : stripped (flip c) = stripped c.
Proof.
  rewrite <- stripped_lower, lower_flip, stripped_lower. reflexivity.
Qed.

Lemma normalize_flip a b c : normalize (a ++ flip c :: b) = normalize (a ++ c :: b).
Proof.
  rewrite !normalize_app. f_equal. rewrite !normalize_eq. simpl.
  rewrite stripped_flip. destruct (stripped c); simpl; [reflexivity|].
  rewrite lower_flip. reflexivity.
Qed.

Lemma normalize_output s c :
  In c (normalize s) -> stripped c = false /\ is_upper c = false.
Proof.
  rewrite normalize_eq. rewrite in_map_iff. intros [x [Hx Hin]]. subst c.
  unfold strip in Hin. apply filter_In in Hin as [_ Hs]. apply negb_true_iff in Hs.
  rewrite stripped_lower. split; [exact Hs|apply lower_not_upper].
Qed.

(* the property fixes which characters must be ignored: space and dash *)
Lemma space_dash_stripped c : c = 32 \/ c = 45 -> stripped c = true.
Proof. intros [->| ->]; vm_compute; reflexivity. Qed.

(* ---- hub entry points ---- *)
Section Hub.
Variable nf : N -> bool.
Hypothesis nf_all : forall f, f <= 5 -> nf f = true.

Lemma key_norm f raw : f <= 5 -> key nf f raw = normalize raw.
Proof. intros H. unfold key. rewrite nf_all by exact H. reflexivity. Qed.

Lemma touch_same h s s' : same_ski s s' -> touch h s = touch h s'.
Proof. unfold same_ski, touch. intros ->. reflexivity. Qed.

Lemma step_invariant h k s s' :
  same_ski s s' -> step nf h (mk_op k s) = step nf h (mk_op k s').
Proof.
  intros E. unfold same_ski in E.
  destruct k; simpl; rewrite ?key_norm by lia; unfold touch;
    rewrite ?normalize_idem; rewrite E; reflexivity.
Qed.

Lemma run_op_invariant h k s s' :
  same_ski s s' ->
  run_op nf h (normalize s) (mk_op k s) = run_op nf h (normalize s) (mk_op k s').
Proof. intros E. unfold run_op. rewrite (step_invariant h k s s' E). reflexivity. Qed.
End Hub.

Lemma norm_first_all f : f <= 5 -> norm_first f = true.
Proof.
  intros H.
  assert (E : forallb norm_first [0;1;2;3;4;5] = true) by (vm_compute; reflexivity).
  rewrite forallb_forall in E. apply E.
  assert (f = 0 \/ f = 1 \/ f = 2 \/ f = 3 \/ f = 4 \/ f = 5) as D by lia.
  simpl. intuition.
Qed.

(* the converse: an entry point that uses the raw string as a lookup key breaks the
   property — so the table condition above has no slack *)
Lemma raw_key_breaks nf k :
  k <> KService -> nf (fn_of (mk_op k [])) = false ->
  exists sc s s',
    same_ski s s' /\
    run_op nf (hub_of (normalize s) sc) (normalize s) (mk_op k s)
    <> run_op nf (hub_of (normalize s) sc) (normalize s) (mk_op k s').
Proof.
  intros Hk Hnf.
  exists {| sc_started := true; sc_trusted := true; sc_pstate := 0;
            sc_conn := Some (38, false); sc_counter := true; sc_others := 0; sc_fresh := false |}.
  exists [97], [65]. split; [vm_compute; reflexivity|].
  destruct k; try congruence; simpl in Hnf;
    unfold run_op, step, mk_op, key; rewrite Hnf; vm_compute; discriminate.
Qed.
