(* PairPatient.v — C03 on the two-endpoint model, patient mode: the user may take as long as
   the prolongation exchange keeps the request pending.  While the user has not yet acted, the
   pending server's timer may expire any number of times (each expiry sends a prolongation
   request, the client answers and both re-arm), and the approval may come between any two
   rounds.  For EVERY configuration a certified closure of the reachable set; safety on every
   member, outcome on every member without successor.  (Timely mode, PairClosure.v, lets no
   timer expire before the user has acted.) *)
From Coq Require Import FMapPositive.
From Ship Require Import Base Closure Conn ConnEvents ConnMon ConnClosure Pair PairClosure.

(* a hello of the client is on its way to the server, or a prolongation request of the
   server is on its way to the client (its answer will be one) *)
Definition hello_in_flight (p : pair) : bool :=
  existsb (fun w => match w with WMsg SHelloReady => true | _ => false end) (q_cs p)
  || existsb (fun w => match w with WMsg SHelloProlong => true | _ => false end) (q_sc p).

(* strict approval (see the finding recorded for C03): only once the server has seen the
   client's hello "ready" and no further hello is under way *)
Definition approve_quiet (p : pair) : bool :=
  negb (N.eqb (p_st (e_s (core p))) 11) || (s_peer_ready (core p) && negb (hello_in_flight p)).

Definition pat_step (cfg : pcfg) (p : pair) (l : label) : option pair :=
  match l with
  | LApprove => if approve_quiet p then pstep2 true cfg p l else None
  | _ => pstep2 true cfg p l
  end.

Definition pat_enabled (cfg : pcfg) (p : pair) (l : label) : bool :=
  match pat_step cfg p l with Some _ => true | None => false end.

Definition user_pending (cfg : pcfg) (p : pair) : bool :=
  (f_approves cfg || f_cancels cfg) && negb (u_done (core p)).

(* the expiry of the pending server's timer while waiting is allowed sends a prolongation request *)
Definition prolong_expiry (cfg : pcfg) (p : pair) (l : label) : bool :=
  match l with
  | LTimeoutS => N.eqb (p_st (e_s (core p))) 11 && (f_allow cfg || u_trusted (core p))
  | _ => false
  end.

Definition timeout_allowed (cfg : pcfg) (p : pair) (l : label) : bool :=
  negb (existsb (pat_enabled cfg p) internal_labels)
  && (negb (user_pending cfg p) || prolong_expiry cfg p l).

Definition patient_next (cfg : pcfg) (p : pair) : list pair :=
  flat_map (fun l =>
    if is_timeout l && negb (timeout_allowed cfg p l) then []
    else match pat_step cfg p l with Some p' => [p'] | None => [] end) all_labels.

Definition pat_final_ok (cfg : pcfg) (p : pair) : bool :=
  match patient_next cfg p with
  | _ :: _ => true
  | [] =>
      (both_complete_open p || both_ended p)
      && implb (must_succeed cfg) (both_complete_open p)
      && implb (must_fail cfg) (both_ended p)
  end.

Definition pat_ok (cfg : pcfg) (p : pair) : bool := pair_safe cfg p && pat_final_ok cfg p.

Definition pat_table (cfg : pcfg) : table pair :=
  fst (explore pair_eqb pair_hash (patient_next cfg) 2000 (pair_init cfg)).

Definition pat_cert (cfg : pcfg) : bool :=
  mem pair_eqb pair_hash (pair_init cfg) (pat_table cfg)
  && closed_check pair_eqb pair_hash (patient_next cfg) (pat_table cfg)
  && forallb (pat_ok cfg) (members (pat_table cfg)).

Lemma pat_cert_all : forallb pat_cert all_cfgs = true.
Proof. vm_compute. reflexivity. Qed.

Lemma pat_cert_parts cfg :
  pat_cert cfg = true ->
  mem pair_eqb pair_hash (pair_init cfg) (pat_table cfg) = true
  /\ closed_check pair_eqb pair_hash (patient_next cfg) (pat_table cfg) = true
  /\ forallb (pat_ok cfg) (members (pat_table cfg)) = true.
Proof.
  unfold pat_cert.
  generalize (mem pair_eqb pair_hash (pair_init cfg) (pat_table cfg)).
  generalize (closed_check pair_eqb pair_hash (patient_next cfg) (pat_table cfg)).
  generalize (forallb (pat_ok cfg) (members (pat_table cfg))).
  intros a b c H. destruct a, b, c; try discriminate. repeat split.
Qed.

Theorem pair_patient_ok cfg s :
  reach (patient_next cfg) (pair_init cfg) s -> pat_ok cfg s = true.
Proof.
  assert (C : pat_cert cfg = true).
  { pose proof pat_cert_all as H. rewrite forallb_forall in H.
    exact (H cfg (all_cfgs_complete cfg)). }
  destruct (pat_cert_parts cfg C) as [H1 [H2 H3]].
  exact (invariant_by_closure pair pair_eqb pair_eqb_eq pair_hash (patient_next cfg)
           (pair_init cfg) (pat_table cfg) (pat_ok cfg) H1 H2 H3 s).
Qed.

(* the mode is not vacuous: with a user who approves, a run with two prolongation rounds
   before the approval ends with both sides complete *)
Definition cfg_patient : pcfg := mkCfg false false true true false IdUnknown IdUnknown.

Fixpoint pat_settle (fuel : nat) (cfg : pcfg) (p : pair) : pair :=
  match fuel with
  | O => p
  | S n =>
      match find (pat_enabled cfg p) internal_labels with
      | Some l => match pat_step cfg p l with Some q => pat_settle n cfg q | None => p end
      | None => p
      end
  end.

(* external labels one after the other, each only if patient mode allows it at that point,
   with all deliveries done in between *)
Fixpoint pat_script (cfg : pcfg) (p : pair) (ls : list label) : option pair :=
  match ls with
  | [] => Some (pat_settle 40 cfg p)
  | l :: r =>
      let p := pat_settle 40 cfg p in
      if is_timeout l && negb (timeout_allowed cfg p l) then None
      else match pat_step cfg p l with Some q => pat_script cfg q r | None => None end
  end.

Example patient_two_rounds_then_approval_completes :
  match pat_script cfg_patient (pair_init cfg_patient) [LTimeoutS; LTimeoutS; LApprove] with
  | Some s => both_complete_open s && match patient_next cfg_patient s with [] => true | _ => false end
  | None => false
  end = true.
Proof. vm_compute. reflexivity. Qed.

(* ... and the prolongation request really travels: after the first expiry the server has
   written it and waits for the answer with the reply timer *)
Example patient_expiry_sends_request :
  match pat_step cfg_patient (pat_settle 40 cfg_patient (pair_init cfg_patient)) LTimeoutS with
  | Some s => existsb (fun w => match w with WMsg SHelloProlong => true | _ => false end) (q_sc s)
              && N.eqb (p_tty (e_s (core s))) 2
  | None => false
  end = true.
Proof. vm_compute. reflexivity. Qed.

Definition pat_table_sizes : nat * nat :=
  (fold_left Nat.max (map (fun c => length (members (pat_table c))) all_cfgs) O,
   fold_left Nat.add (map (fun c => length (members (pat_table c))) all_cfgs) O).
