(* Base.v — shared definitions: bytes as N, hex literals for harness-emitted cases,
   case-checking plumbing.  No proofs about the system live here. *)
From Coq Require Export Ascii String.
From Coq Require Export List NArith ZArith Bool Lia.
Export ListNotations.
Open Scope N_scope.

Definition bytes := list N.

(* ---- hex literals: the harness writes byte strings as (hx "48656c") ---- *)
Definition hexval (c : ascii) : option N :=
  let n := N_of_ascii c in
  if (48 <=? n) && (n <=? 57) then Some (n - 48)
  else if (97 <=? n) && (n <=? 102) then Some (n - 87)
  else None.

Fixpoint hx (s : string) : bytes :=
  match s with
  | String a (String b r) =>
      match hexval a, hexval b with
      | Some x, Some y => (16 * x + y) :: hx r
      | _, _ => []
      end
  | _ => []
  end.

Arguments hx s%string_scope.

Fixpoint bytes_eqb (a b : bytes) : bool :=
  match a, b with
  | [], [] => true
  | x :: a', y :: b' => N.eqb x y && bytes_eqb a' b'
  | _, _ => false
  end.

Lemma bytes_eqb_eq a b : bytes_eqb a b = true <-> a = b.
Proof.
  revert b; induction a as [|x a IH]; intros [|y b]; simpl; split; intros H;
    try congruence; try discriminate.
  - apply andb_true_iff in H as [H1 H2]. apply N.eqb_eq in H1. apply IH in H2. congruence.
  - inversion H; subst. rewrite N.eqb_refl. simpl. apply IH. reflexivity.
Qed.

Lemma bytes_eqb_refl a : bytes_eqb a a = true.
Proof. apply bytes_eqb_eq; reflexivity. Qed.

(* ---- generic list equality given an element test ---- *)
Fixpoint list_eqb {A} (eqb : A -> A -> bool) (a b : list A) : bool :=
  match a, b with
  | [], [] => true
  | x :: a', y :: b' => eqb x y && list_eqb eqb a' b'
  | _, _ => false
  end.

Definition option_eqb {A} (eqb : A -> A -> bool) (a b : option A) : bool :=
  match a, b with
  | None, None => true
  | Some x, Some y => eqb x y
  | _, _ => false
  end.

(* ---- case checking: a check returns a list of failure codes; [] = fine.
   code 1 = model and implementation disagree (correspondence);
   codes >= 10 = the property's monitor fails on the implementation's own trace. ---- *)
Definition codes := list N.

Fixpoint bad_cases {C} (chk : C -> codes) (i : N) (cs : list C) : list (N * codes) :=
  match cs with
  | [] => []
  | c :: r =>
      match chk c with
      | [] => bad_cases chk (i + 1) r
      | l => (i, l) :: bad_cases chk (i + 1) r
      end
  end.
