(* WsProofs.v — proofs about the Ws model (ws/websocket.go): C12 and C13.

   Finite control part: one certified closure (Closure.v) of the model instantiated with
   what the source says now ([source_variant], regenerated tables) under the most general
   environment [cfg_all]; the table is an inductive invariant checked by the kernel, the
   ranking certificate gives termination of every run of internal steps.
   Unbounded part (message lists, any number of writer calls): induction over the schedule.
   The tree as it was found ([pinned]) is refuted by explicit witness schedules. *)
From Coq Require Import List Bool Arith NArith PArith FMapPositive Lia.
From Ship Require Import Base Closure Ws.
From ShipGen Require Import WsTable.
Import ListNotations.
Local Open Scope nat_scope.

(* the translator recognised every shape fact of ws/websocket.go the model is parametric in;
   if it did not, nothing below is checked and C12/C13 report the broken obligation *)
Lemma source_shape_recognised : ws_shape_recognised = true.
Proof. reflexivity. Qed.

(* ------------------------------------------------------------------ verified equality *)
Lemma beq_bool a b : Bool.eqb a b = true -> a = b.
Proof. apply Bool.eqb_prop. Qed.

Lemma config_beq_eq a b : config_beq a b = true -> a = b.
Proof.
  unfold config_beq. intros H.
  repeat (apply andb_true_iff in H; destruct H as [H ?]).
  destruct a as [x1 x2 x3 x4 x5 x6 x7 x8 x9 x10], b as [y1 y2 y3 y4 y5 y6 y7 y8 y9 y10]. cbn [can_write can_recv can_tick allow_rfail allow_wfail allow_plain allow_reason may_react may_ignore track] in *.
  f_equal; apply beq_bool; assumption.
Qed.

Lemma shared_beq_eq a b : shared_beq a b = true -> a = b.
Proof.
  unfold shared_beq. intros H.
  repeat (apply andb_true_iff in H; destruct H as [H ?]).
  destruct a as [x1 x2 x3 x4 x5 x6 x7], b as [y1 y2 y3 y4 y5 y6 y7]. cbn [flag cch qclosed qn once connc cfsent] in *.
  f_equal; try (apply beq_bool; assumption).
  - apply Nat.eqb_eq; assumption.
  - apply internal_ostate_dec_bl; assumption.
Qed.

Lemma ocause_beq_eq a b : ocause_beq a b = true -> a = b.
Proof.
  destruct a as [x|], b as [y|]; simpl; intros H; try discriminate; [|reflexivity].
  apply internal_cause_t_dec_bl in H. subst. reflexivity.
Qed.

Lemma ghost_beq_eq a b : ghost_beq a b = true -> a = b.
Proof.
  unfold ghost_beq. intros H.
  repeat (apply andb_true_iff in H; destruct H as [H ?]).
  destruct a as [x1 x2 x3 x4 x5 x6 x7], b as [y1 y2 y3 y4 y5 y6 y7]. cbn [cause reported spurious deliv_after late_ok any_err lost] in *.
  f_equal; try (apply beq_bool; assumption); try (apply internal_cnt_dec_bl; assumption).
  apply ocause_beq_eq; assumption.
Qed.

Lemma state_beq_eq a b : state_beq a b = true -> a = b.
Proof.
  unfold state_beq. intros H.
  do 7 (apply andb_true_iff in H; destruct H as [H ?]).
  destruct a as [x1 x2 x3 x4 x5 x6 x7 x8], b as [y1 y2 y3 y4 y5 y6 y7 y8]. cbn [cfg sh gh wr pu rd cl panic] in *.
  f_equal.
  - apply config_beq_eq; assumption.
  - apply shared_beq_eq; assumption.
  - apply ghost_beq_eq; assumption.
  - apply internal_wpc_dec_bl; assumption.
  - apply internal_ppc_dec_bl; assumption.
  - apply internal_rpc_dec_bl; assumption.
  - apply internal_kpc_dec_bl; assumption.
  - apply beq_bool; assumption.
Qed.

(* ------------------------------------------------------------------ schedules and reachability *)
Lemma all_labels_complete l : In l all_labels.
Proof. destruct l as [| | | | | | | | | | | | | | | [|] | |]; simpl; tauto. Qed.

Lemma step_in_succs V ls s l s' : In l ls -> step V s l = Some s' -> In s' (succs V ls s).
Proof.
  intros Hl Hs. unfold succs. apply in_flat_map. exists l. split; [exact Hl|].
  rewrite Hs. left. reflexivity.
Qed.

Lemma step_in_next V s l s' : step V s l = Some s' -> In s' (next V s).
Proof. apply step_in_succs, all_labels_complete. Qed.

Lemma succs_inv V ls s s' : In s' (succs V ls s) -> exists l, In l ls /\ step V s l = Some s'.
Proof.
  unfold succs. intros H. apply in_flat_map in H as [l [Hl H]].
  exists l. split; [exact Hl|]. destruct (step V s l) as [x|]; simpl in H; [|contradiction].
  destruct H as [H|[]]. subst. reflexivity.
Qed.

Lemma quiet_sub_next V s s' : In s' (quiet V s) -> In s' (next V s).
Proof.
  intros H. apply succs_inv in H as [l [Hl Hs]]. eapply step_in_next. exact Hs.
Qed.

Lemma run_app V s ls1 ls2 : run V s (ls1 ++ ls2) = match run V s ls1 with Some s1 => run V s1 ls2 | None => None end.
Proof.
  revert s. induction ls1 as [|l r IH]; intros s; simpl; [reflexivity|].
  destruct (step V s l); [apply IH|reflexivity].
Qed.

Lemma run_reach V s0 ls s : run V s0 ls = Some s -> reach (next V) s0 s.
Proof.
  revert s. induction ls as [|l r IH] using rev_ind; intros s H.
  - simpl in H. inversion H. constructor.
  - rewrite run_app in H. destruct (run V s0 r) as [s1|] eqn:R; [|discriminate].
    simpl in H. destruct (step V s1 l) as [s2|] eqn:S; [|discriminate]. inversion H; subst.
    eapply reach_step; [apply IH; reflexivity|]. eapply step_in_next; exact S.
Qed.

(* ------------------------------------------------------------------ the certificate *)
Definition V0 : variant := source_variant.

Definition cert : table state * bool := Eval vm_compute in explore_from V0 400 cfg_all.
Definition tbl : table state := fst cert.

Lemma cert_complete : snd cert = true.
Proof. vm_compute. reflexivity. Qed.
Lemma cert_init : mem state_beq hash (init cfg_all) tbl = true.
Proof. vm_compute. reflexivity. Qed.
Lemma cert_closed : closed_check state_beq hash (next V0) tbl = true.
Proof. vm_compute. reflexivity. Qed.
Lemma cert_rank : rank_check (quiet V0) rank tbl = true.
Proof. vm_compute. reflexivity. Qed.
Lemma cert_c12 : forallb c12_safe (members tbl) = true.
Proof. vm_compute. reflexivity. Qed.
Lemma cert_c13 : forallb c13_safe (members tbl) = true.
Proof. vm_compute. reflexivity. Qed.
Lemma cert_settled :
  forallb (fun s => match quiet V0 s with [] => settled s | _ => true end) (members tbl) = true.
Proof. vm_compute. reflexivity. Qed.
(* size of the invariant, for the record *)
Definition cert_size : N := Eval vm_compute in fold_left (fun n _ => N.succ n) (members tbl) 0%N.

Definition reachable (s : state) : Prop := exists ls, run V0 (init cfg_all) ls = Some s.

Lemma reachable_reach s : reachable s -> reach (next V0) (init cfg_all) s.
Proof. intros [ls H]. eapply run_reach; exact H. Qed.

Lemma c12_safe_inv s : reachable s -> c12_safe s = true.
Proof.
  intros R. eapply (invariant_by_closure state state_beq state_beq_eq hash (next V0) (init cfg_all) tbl c12_safe).
  - exact cert_init.
  - exact cert_closed.
  - exact cert_c12.
  - apply reachable_reach, R.
Qed.

Lemma c13_safe_inv s : reachable s -> c13_safe s = true.
Proof.
  intros R. eapply (invariant_by_closure state state_beq state_beq_eq hash (next V0) (init cfg_all) tbl c13_safe).
  - exact cert_init.
  - exact cert_closed.
  - exact cert_c13.
  - apply reachable_reach, R.
Qed.

(* every run of internal steps from a reachable state is finite ... *)
Lemma quiet_acc s : reachable s -> Acc (fun b a => In b (quiet V0 a)) s.
Proof.
  intros R. eapply (quiet_terminates state state_beq state_beq_eq hash (next V0) (quiet V0) rank (init cfg_all) tbl).
  - exact cert_init.
  - exact cert_closed.
  - exact cert_rank.
  - intros a b. apply quiet_sub_next.
  - apply reachable_reach, R.
Qed.

(* ... and ends settled *)
Lemma quiet_settles s :
  reachable s ->
  (exists s', quiet_run (quiet V0) s s') /\ (forall s', quiet_run (quiet V0) s s' -> settled s' = true).
Proof.
  intros R. eapply (quiet_run_ends_good state state_beq state_beq_eq hash (next V0) (quiet V0) rank (init cfg_all) tbl settled).
  - exact cert_init.
  - exact cert_closed.
  - exact cert_rank.
  - intros a b. apply quiet_sub_next.
  - exact cert_settled.
  - apply reachable_reach, R.
Qed.

(* ------------------------------------------------------------------ C12 *)
Lemma c12_safe_elim s :
  c12_safe s = true ->
  panic s = false /\ late_ok (gh s) = false /\ (wr_late (wr s) = true -> flag (sh s) = true) /\
  wr s <> WSend true /\ (any_err (gh s) = true -> flag (sh s) = true) /\ (cch (sh s) = true -> flag (sh s) = true).
Proof.
  unfold c12_safe. intros H.
  apply andb_true_iff in H as [H H6]. apply andb_true_iff in H as [H H5]. apply andb_true_iff in H as [H H4].
  apply andb_true_iff in H as [H H3]. apply andb_true_iff in H as [H H2].
  apply negb_true_iff in H. apply negb_true_iff in H2.
  repeat split; auto.
  - intros E. rewrite E in H3. exact H3.
  - intros E. rewrite E in H4. discriminate.
  - intros E. rewrite E in H5. exact H5.
  - intros E. rewrite E in H6. exact H6.
Qed.

Lemma c12_no_panic s : reachable s -> panic s = false.
Proof. intros R. apply (c12_safe_elim s (c12_safe_inv s R)). Qed.

(* a call that takes the mutex when the flag is set is a late call ... *)
Lemma late_call_marked V s s' :
  step V s LWStart = Some s' -> flag (sh s) = true -> wr s' = WLocked true.
Proof.
  unfold step. destruct (panic s); [discriminate|]. unfold writer_step.
  destruct (wr s); try discriminate. destruct (can_write (cfg s)); [|discriminate].
  intros H F. inversion H; subst. simpl. rewrite F. reflexivity.
Qed.

(* ... a late call never gets to the channel send, its next action is to return the error,
   and no late call has ever returned nil *)
Lemma c12_late_error s :
  reachable s ->
  late_ok (gh s) = false /\ wr s <> WSend true /\
  (wr s = WLocked true -> step V0 s LWCheck = Some (ret_writer s true true)).
Proof.
  intros R. destruct (c12_safe_elim s (c12_safe_inv s R)) as (P & L & F & W & _).
  repeat split; auto.
  intros E. unfold step. rewrite P. unfold writer_step. rewrite E.
  rewrite F by (rewrite E; reflexivity). reflexivity.
Qed.

(* an error is only returned on a connection that is marked closed: the two returns with an error *)
Lemma error_only_when_closed s s' l late :
  reachable s -> step V0 s l = Some s' -> wr s' = WFree ->
  (wr s = WLocked late /\ l = LWCheck \/ wr s = WSend late /\ l = LWAbort) -> flag (sh s) = true.
Proof.
  intros R S F [[E L]|[E L]]; subst l.
  - unfold step in S. destruct (panic s); [discriminate|]. unfold writer_step in S. rewrite E in S.
    destruct (flag (sh s)) eqn:Fl; [reflexivity|]. inversion S; subst. simpl in F. discriminate.
  - destruct (c12_safe_elim s (c12_safe_inv s R)) as (_ & _ & _ & _ & _ & C).
    unfold step in S. destruct (panic s); [discriminate|]. unfold writer_step in S. rewrite E in S.
    destruct (v_send_select V0 && cch (sh s)) eqn:C'; [|discriminate].
    apply andb_true_iff in C' as [_ C']. auto.
Qed.

(* every call returns: whatever the schedule did so far, the internal steps that remain
   are finitely many, and when none is left no call is inside the function *)
Lemma settled_basic s : settled s = true -> panic s = false /\ wr s = WFree /\ cl s = KIdle.
Proof.
  unfold settled. intros A.
  apply andb_true_iff in A as [A A4]. apply andb_true_iff in A as [A A3]. apply andb_true_iff in A as [A A2].
  apply negb_true_iff in A. destruct (wr s); try discriminate. destruct (cl s); try discriminate. auto.
Qed.

Lemma c12_calls_return s :
  reachable s ->
  Acc (fun b a => In b (quiet V0 a)) s /\
  (exists s', quiet_run (quiet V0) s s') /\
  (forall s', quiet_run (quiet V0) s s' -> wr s' = WFree /\ panic s' = false).
Proof.
  intros R. split; [apply quiet_acc, R|]. destruct (quiet_settles s R) as [E A]. split; [exact E|].
  intros s' Q. destruct (settled_basic s' (A s' Q)) as (P & W & _). auto.
Qed.

(* the monitor of the check, on the model: a settled state has a clean C12 outcome *)
Lemma mon12_settled s : settled s = true -> late_ok (gh s) = false -> mon12 (outcome_of s) = [].
Proof.
  intros A L. destruct (settled_basic s A) as (P & W & _).
  unfold mon12, outcome_of. cbn [o_panic o_hang o_late_ok]. rewrite P, W, L. reflexivity.
Qed.

Lemma quiet_run_reach s s' : reach (next V0) (init cfg_all) s -> quiet_run (quiet V0) s s' -> reach (next V0) (init cfg_all) s'.
Proof.
  intros R0 Q. induction Q as [s _|s s1 s2 H1 Q IH]; [exact R0|].
  apply IH. eapply reach_step; [exact R0|]. apply quiet_sub_next, H1.
Qed.

Lemma c12_outcome s s' : reachable s -> quiet_run (quiet V0) s s' -> mon12 (outcome_of s') = [].
Proof.
  intros R Q. destruct (quiet_settles s R) as [_ A]. apply mon12_settled; [apply A, Q|].
  pose proof (quiet_run_reach s s' (reachable_reach s R) Q) as R'.
  pose proof (invariant_by_closure state state_beq state_beq_eq hash (next V0) (init cfg_all) tbl c12_safe
                cert_init cert_closed cert_c12 s' R') as H.
  apply (c12_safe_elim s' H).
Qed.

(* ---- the unbounded part: accepted = wire ++ (in the pump | dropped) ++ queue ---- *)
Definition data_inv (s : state) (d : data) : Prop :=
  d_acc d = d_wire d ++ d_mid d ++ d_q d /\ length (d_q d) = qn (sh s) /\ (pu_holds (pu s) = false -> d_mid d = []).

Lemma close_step_qn V who s c s1 c1 :
  close_step V who s c = Some (s1, c1) -> qn (sh s1) = qn (sh s) /\ pu s1 = pu s /\ wr s1 = wr s /\ rd s1 = rd s /\ cl s1 = cl s.
Proof.
  unfold close_step, mark. intros H.
  destruct c; simpl in H;
    repeat match type of H with
           | context [match ?x with _ => _ end] => destruct x eqn:?; simpl in H
           end; inversion H; subst; simpl; auto.
Qed.

Ltac step_cases H :=
  repeat match type of H with
         | context [match ?x with _ => _ end] => destruct x eqn:?; simpl in H; try discriminate
         end.

Lemma writer_step_frame V s l s' :
  panic s = false -> writer_step V s l = Some s' -> pu s' = pu s /\ (l <> LWSend -> qn (sh s') = qn (sh s)) /\
  (l = LWSend -> panic s' = false -> qn (sh s') = S (qn (sh s))) /\ (panic s' = true -> qn (sh s') = qn (sh s)).
Proof.
  unfold writer_step, ret_writer. intros Pn H.
  destruct l; try discriminate; destruct (wr s) eqn:W; try discriminate; step_cases H;
    inversion H; subst; simpl in *; repeat split; intros; try congruence; auto.
Qed.

Lemma reader_step_frame V s l s' : reader_step V s l = Some s' -> pu s' = pu s /\ qn (sh s') = qn (sh s).
Proof.
  unfold reader_step, mark. intros H.
  destruct (rd s) eqn:R; destruct l; try discriminate;
    try (step_cases H; inversion H; subst; simpl; auto; fail).
  - (* RClose *)
    destruct (close_step V (CRead g) s c) as [[s1 [c'|]]|] eqn:C; try discriminate;
      apply close_step_qn in C as (Q & P & _); step_cases H; inversion H; subst; simpl; auto.
  - (* RReact *)
    destruct (close_step V CLocal s c) as [[s1 [c'|]]|] eqn:C; try discriminate;
      apply close_step_qn in C as (Q & P & _); inversion H; subst; simpl; auto.
Qed.

Lemma closer_step_frame V s l s' : closer_step V s l = Some s' -> pu s' = pu s /\ qn (sh s') = qn (sh s).
Proof.
  unfold closer_step, mark. intros H.
  destruct (cl s) eqn:K; destruct l; try discriminate;
    try (step_cases H; inversion H; subst; simpl; auto; fail).
  destruct (close_step V CLocal s c) as [[s1 [c'|]]|] eqn:C; try discriminate;
    apply close_step_qn in C as (Q & P & _); inversion H; subst; simpl; auto.
Qed.

(* what the pump does to the queue length and to "holds a data message" *)
Lemma pump_step_frame V s l s' :
  pump_step V s l = Some s' ->
  (l = LPumpRecv -> (exists n, qn (sh s) = S n /\ qn (sh s') = n /\ pu s = PSel /\ pu_holds (pu s') = true)
                    \/ (qn (sh s) = 0 /\ qn (sh s') = 0 /\ pu_holds (pu s') = true)) /\
  (l <> LPumpRecv -> qn (sh s') = qn (sh s) /\
     (pu_holds (pu s') = false -> pu_holds (pu s) = false \/ (pu s = PW3 KData /\ pu s' = PSel /\ l = LPump))).
Proof.
  unfold pump_step, pump_after, mark. intros H.
  destruct (pu s) eqn:P; destruct l; try discriminate;
    try (step_cases H; inversion H; subst; simpl; split; intros; try congruence; auto;
         try (left; eexists; repeat split; eauto; fail); try (right; repeat split; auto; fail);
         try (destruct k; simpl in *; auto; fail); fail).
  - (* PCwClose *)
    destruct (close_step V (CWrite g) s c) as [[s1 [c'|]]|] eqn:C; try discriminate;
      apply close_step_qn in C as (Q & P' & _); inversion H; subst; simpl; split; intros; try congruence;
        split; auto; destruct k; simpl in *; auto.
  - (* PReact *)
    destruct (close_step V CLocal s c) as [[s1 [c'|]]|] eqn:C; try discriminate;
      apply close_step_qn in C as (Q & P' & _); step_cases H; inversion H; subst; simpl; split; intros; try congruence;
        split; auto; destruct k; simpl in *; auto; try discriminate.
  - (* PDefer *)
    step_cases H; inversion H; subst; simpl; split; intros; try congruence;
      (split; [reflexivity|intros Hh; simpl in Hh; try rewrite P in Hh; discriminate]).
Qed.

Lemma dupd_pump_other s m s' d :
  ~ (pu s = PW3 KData /\ pu s' = PSel) -> dupd s LPump m s' d = d.
Proof.
  intros N. unfold dupd.
  destruct (pu s) as [| |k|k|k|k g|k g c|k g|k c| |] eqn:P0; try reflexivity.
  destruct k; try reflexivity.
  destruct (pu s') eqn:P1; try reflexivity. exfalso. apply N. split; reflexivity.
Qed.

Lemma data_inv_unchanged s s' d :
  data_inv s d -> qn (sh s') = qn (sh s) -> (pu_holds (pu s') = false -> pu_holds (pu s) = false) -> data_inv s' d.
Proof.
  intros (A & Q & M) Hq Hh. repeat split; [exact A|congruence|auto].
Qed.

Lemma data_inv_step V s d l m s' d' :
  data_inv s d -> gstep V (s, d) (l, m) = Some (s', d') -> data_inv s' d'.
Proof.
  intros I G. pose proof I as (A & Q & M). unfold gstep in G. simpl in G.
  destruct (step V s l) as [s1|] eqn:S; [|discriminate]. inversion G; subst s1 d'; clear G.
  unfold step in S. destruct (panic s) eqn:Pn; [discriminate|].
  destruct l.
  (* writer labels *)
  1-4: apply writer_step_frame in S as (P & Q1 & Q2 & Q3); [|exact Pn].
  - cbn [dupd]. unfold data_inv. cbn [d_acc d_wire d_mid d_q d_pend]. rewrite P, Q1 by discriminate. auto.
  - cbn [dupd]. apply (data_inv_unchanged s); [exact I|apply Q1; discriminate|rewrite P; auto].
  - cbn [dupd]. destruct (panic s') eqn:Pn'.
    + apply (data_inv_unchanged s); [exact I|apply Q3; reflexivity|rewrite P; auto].
    + unfold data_inv. cbn [d_acc d_wire d_mid d_q d_pend]. rewrite P, Q2 by reflexivity. rewrite A. repeat split.
      * rewrite <- !app_assoc. reflexivity.
      * rewrite app_length. simpl. lia.
      * exact M.
  - cbn [dupd]. apply (data_inv_unchanged s); [exact I|apply Q1; discriminate|rewrite P; auto].
  (* pump labels *)
  - (* LPumpSelClose *) apply pump_step_frame in S as (_ & S). destruct (S ltac:(discriminate)) as (Q' & H).
    cbn [dupd]. apply (data_inv_unchanged s); [exact I|exact Q'|].
    intros Hh. destruct (H Hh) as [H0|(_ & _ & C)]; [exact H0|discriminate].
  - (* LPumpRecv *) apply pump_step_frame in S as (S & _). cbn [dupd]. unfold data_inv.
    destruct (S eq_refl) as [(n & Q0 & Q1 & P0 & Hh)|(Q0 & Q1 & Hh)].
    + destruct (d_q d) as [|x r] eqn:Dq; [simpl in Q; lia|]. cbn [d_acc d_wire d_mid d_q d_pend]. rewrite Q1. repeat split.
      * rewrite A. rewrite (M ltac:(rewrite P0; reflexivity)). reflexivity.
      * simpl in Q. lia.
      * intros E. rewrite Hh in E. discriminate.
    + destruct (d_q d) as [|x r] eqn:Dq; [|simpl in Q; lia]. rewrite Q1. repeat split.
      * rewrite A, Dq. reflexivity.
      * rewrite Dq. reflexivity.
      * intros E. rewrite Hh in E. discriminate.
  - (* LPumpTick *) apply pump_step_frame in S as (_ & S). destruct (S ltac:(discriminate)) as (Q' & H).
    cbn [dupd]. apply (data_inv_unchanged s); [exact I|exact Q'|].
    intros Hh. destruct (H Hh) as [H0|(_ & _ & C)]; [exact H0|discriminate].
  - (* LPump *) apply pump_step_frame in S as (_ & S). destruct (S ltac:(discriminate)) as (Q' & H).
    destruct (ppc_eq_dec (pu s) (PW3 KData)) as [P0|P0]; [destruct (ppc_eq_dec (pu s') PSel) as [P1|P1]|].
    + (* the message in hand is on the wire *)
      unfold dupd. rewrite P0, P1. unfold data_inv. cbn [d_acc d_wire d_mid d_q d_pend]. rewrite Q'. repeat split.
      * rewrite A. rewrite <- app_assoc. reflexivity.
      * exact Q.
    + rewrite dupd_pump_other by tauto. apply (data_inv_unchanged s); [exact I|exact Q'|].
      intros Hh. destruct (H Hh) as [H0|(_ & C & _)]; [exact H0|contradiction].
    + rewrite dupd_pump_other by tauto. apply (data_inv_unchanged s); [exact I|exact Q'|].
      intros Hh. destruct (H Hh) as [H0|(C & _)]; [exact H0|contradiction].
  - (* LPumpAlt *) apply pump_step_frame in S as (_ & S). destruct (S ltac:(discriminate)) as (Q' & H).
    cbn [dupd]. apply (data_inv_unchanged s); [exact I|exact Q'|].
    intros Hh. destruct (H Hh) as [H0|(_ & _ & C)]; [exact H0|discriminate].
  - (* LPumpFault *) apply pump_step_frame in S as (_ & S). destruct (S ltac:(discriminate)) as (Q' & H).
    cbn [dupd]. apply (data_inv_unchanged s); [exact I|exact Q'|].
    intros Hh. destruct (H Hh) as [H0|(_ & _ & C)]; [exact H0|discriminate].
  (* reader labels *)
  - apply reader_step_frame in S as (P & Q'). cbn [dupd]. apply (data_inv_unchanged s); [exact I|exact Q'|rewrite P; auto].
  - apply reader_step_frame in S as (P & Q'). cbn [dupd]. apply (data_inv_unchanged s); [exact I|exact Q'|rewrite P; auto].
  - apply reader_step_frame in S as (P & Q'). cbn [dupd]. apply (data_inv_unchanged s); [exact I|exact Q'|rewrite P; auto].
  - apply reader_step_frame in S as (P & Q'). cbn [dupd]. apply (data_inv_unchanged s); [exact I|exact Q'|rewrite P; auto].
  - apply reader_step_frame in S as (P & Q'). cbn [dupd]. apply (data_inv_unchanged s); [exact I|exact Q'|rewrite P; auto].
  (* closer labels *)
  - apply closer_step_frame in S as (P & Q'). cbn [dupd]. apply (data_inv_unchanged s); [exact I|exact Q'|rewrite P; auto].
  - apply closer_step_frame in S as (P & Q'). cbn [dupd]. apply (data_inv_unchanged s); [exact I|exact Q'|rewrite P; auto].
  - apply closer_step_frame in S as (P & Q'). cbn [dupd]. apply (data_inv_unchanged s); [exact I|exact Q'|rewrite P; auto].
Qed.

Lemma data_inv_init c : data_inv (init c) data0.
Proof. unfold data_inv. simpl. auto. Qed.

Lemma data_inv_run V sd ls sd' : data_inv (fst sd) (snd sd) -> grun V sd ls = Some sd' -> data_inv (fst sd') (snd sd').
Proof.
  revert sd. induction ls as [|[l m] r IH]; intros [s d] I H; simpl in H.
  - inversion H; subst. exact I.
  - destruct (gstep V (s, d) (l, m)) as [[s1 d1]|] eqn:G; [|discriminate].
    apply (IH (s1, d1)); [|exact H]. simpl. eapply data_inv_step; [exact I|exact G].
Qed.

Lemma is_prefix_app a b : is_prefix a (a ++ b) = true.
Proof. induction a as [|x a IH]; simpl; [reflexivity|]. rewrite N.eqb_refl, IH. reflexivity. Qed.

(* for EVERY variant, every configuration, every number of writer calls and every schedule:
   what was handed to the transport is a prefix of what was accepted, in order *)
Lemma wire_prefix V c ls s d :
  grun V (init c, data0) ls = Some (s, d) ->
  exists rest, d_acc d = d_wire d ++ rest.
Proof.
  intros H. pose proof (data_inv_run V (init c, data0) ls (s, d) (data_inv_init c) H) as (A & _).
  simpl in A. eexists. exact A.
Qed.

Lemma wire_prefix_bool V c ls s d :
  grun V (init c, data0) ls = Some (s, d) -> is_prefix (d_wire d) (d_acc d) = true.
Proof. intros H. destruct (wire_prefix V c ls s d H) as [r E]. rewrite E. apply is_prefix_app. Qed.

(* the control projection of a data run is a run *)
Lemma grun_run V s d ls s' d' : grun V (s, d) ls = Some (s', d') -> run V s (map fst ls) = Some s'.
Proof.
  revert s d. induction ls as [|[l m] r IH]; intros s d H; simpl in *.
  - inversion H; subst. reflexivity.
  - unfold gstep in H. simpl in H. destruct (step V s l) as [s1|]; [|discriminate]. eapply IH. exact H.
Qed.

(* ------------------------------------------------------------------ C13 *)
Lemma c13_safe_elim s :
  c13_safe s = true ->
  cnt_le1 (reported (gh s)) = true /\ spurious (gh s) = false /\
  (reported (gh s) <> C0 -> flag (sh s) = true /\ is_genuine (cause (gh s)) = true) /\
  (cause (gh s) = Some CLocal -> reported (gh s) = C0) /\
  (connc (sh s) = true -> cch (sh s) = true) /\
  (cause (gh s) <> None -> flag (sh s) = true) /\
  cnt_le1 (deliv_after (gh s)) = true /\
  (deliv_after (gh s) <> C0 -> cause (gh s) = Some (CWrite true)).
Proof.
  unfold c13_safe. intros H.
  apply andb_true_iff in H as [H H8]. apply andb_true_iff in H as [H H7]. apply andb_true_iff in H as [H H6].
  apply andb_true_iff in H as [H H5]. apply andb_true_iff in H as [H H4]. apply andb_true_iff in H as [H H3].
  apply andb_true_iff in H as [H H2]. apply negb_true_iff in H2.
  repeat split; auto.
  - destruct (reported (gh s)); simpl in H3; try congruence; apply andb_true_iff in H3; tauto.
  - destruct (reported (gh s)); simpl in H3; try congruence; apply andb_true_iff in H3; tauto.
  - intros E. rewrite E in H4. simpl in H4. destruct (reported (gh s)); simpl in H4; try discriminate; reflexivity.
  - intros E. rewrite E in H5. exact H5.
  - intros E. destruct (cause (gh s)); [exact H6|congruence].
  - intros E. destruct (deliv_after (gh s)); simpl in H8; try congruence;
      destruct (cause (gh s)) as [[|[|]|[|]]|]; try discriminate; reflexivity.
Qed.

Lemma c13_facts s :
  reachable s ->
  cnt_le1 (reported (gh s)) = true /\ spurious (gh s) = false /\
  (reported (gh s) <> C0 -> flag (sh s) = true /\ is_genuine (cause (gh s)) = true) /\
  (cause (gh s) = Some CLocal -> reported (gh s) = C0) /\
  (connc (sh s) = true -> cch (sh s) = true) /\
  (cause (gh s) <> None -> flag (sh s) = true) /\
  cnt_le1 (deliv_after (gh s)) = true /\
  (deliv_after (gh s) <> C0 -> cause (gh s) = Some (CWrite true)).
Proof. intros R. apply c13_safe_elim, c13_safe_inv, R. Qed.

(* a message is passed on to HandleIncomingWebsocketMessage only if it passes the read pump's
   closed-check, and after a report that check fails: no message is let through after the report *)
Lemma c13_no_admission_after_report s s' :
  reachable s -> rd s = RChk2 GMsg -> step V0 s LRd = Some s' -> rd s' = RDeliver -> reported (gh s) = C0.
Proof.
  intros R E S D. destruct (c13_facts s R) as (_ & _ & F & _).
  unfold step in S. destruct (panic s); [discriminate|]. unfold reader_step in S. rewrite E in S.
  assert (v_read_recheck V0 = true) as RC by (vm_compute; reflexivity). rewrite RC in S. simpl in S.
  destruct (flag (sh s)) eqn:Fl.
  - inversion S; subst. simpl in D. discriminate.
  - destruct (reported (gh s)) eqn:Rp; [reflexivity| |]; destruct F as [F _]; congruence.
Qed.

Lemma settled_closed s :
  settled s = true -> flag (sh s) = true ->
  pu s = PExit /\ rd s = RExit /\ connc (sh s) = true /\ cch (sh s) = true /\ wr s = WFree /\ cl s = KIdle /\
  (cause (gh s) = Some CLocal /\ reported (gh s) = C0 \/ is_genuine (cause (gh s)) = true /\ reported (gh s) = C1).
Proof.
  unfold settled. intros A F. rewrite F in A.
  apply andb_true_iff in A as [A A4]. apply andb_true_iff in A as [A A3]. apply andb_true_iff in A as [A A2].
  apply andb_true_iff in A4 as [A4 B6]. apply andb_true_iff in A4 as [A4 B5]. apply andb_true_iff in A4 as [A4 B4].
  apply andb_true_iff in A4 as [A4 B3]. apply andb_true_iff in A4 as [B1 B2].
  destruct (pu s); try discriminate. destruct (rd s); try discriminate.
  destruct (wr s); try discriminate. destruct (cl s); try discriminate.
  repeat split; auto.
  destruct (cause (gh s)) as [[|[|]|[|]]|]; simpl in *; try discriminate;
    destruct (reported (gh s)); simpl in *; try discriminate; auto.
Qed.

Lemma settled_open s :
  settled s = true -> flag (sh s) = false -> pu s = PSel /\ rd s = RRead /\ reported (gh s) = C0 /\ qn (sh s) = 0.
Proof.
  unfold settled. intros A F. rewrite F in A.
  apply andb_true_iff in A as [A A4]. apply andb_true_iff in A as [A A3]. apply andb_true_iff in A as [A A2].
  apply andb_true_iff in A4 as [A4 B5]. apply andb_true_iff in A4 as [A4 B4]. apply andb_true_iff in A4 as [A4 B3].
  apply andb_true_iff in A4 as [B1 B2].
  destruct (pu s); try discriminate. destruct (rd s); try discriminate.
  destruct (reported (gh s)); try discriminate.
  apply Nat.eqb_eq in B2. auto.
Qed.

(* the monitor of the check, on the model (26 = the in-flight delivery, see below) *)
Lemma mon13_settled s :
  settled s = true -> c13_safe s = true ->
  drop26 (mon13 (class_of_cause (cause (gh s))) (outcome_of s)) = [].
Proof.
  intros A B. destruct (c13_safe_elim s B) as (_ & _ & _ & _ & _ & Hc0 & Hd & _).
  destruct (flag (sh s)) eqn:F.
  - destruct (settled_closed s A F) as (P & R & C & _ & W & K & Hc).
    unfold mon13, outcome_of, drop26. cbn [o_closed o_connc o_exited o_rep o_dafter]. rewrite F, C, P, R, W, K. simpl.
    destruct Hc as [[Hc Hr]|[Hc Hr]]; rewrite Hr.
    + rewrite Hc. simpl. destruct (deliv_after (gh s)); simpl in *; try discriminate; reflexivity.
    + destruct (cause (gh s)) as [[|[|]|[|]]|]; simpl in *; try discriminate;
        destruct (deliv_after (gh s)); simpl in *; try discriminate; reflexivity.
  - destruct (settled_open s A F) as (P & R & Rp & _).
    unfold mon13, outcome_of, drop26. cbn [o_closed o_connc o_exited o_rep o_dafter]. rewrite F, Rp. simpl.
    assert (cause (gh s) = None) as Cn.
    { destruct (cause (gh s)) as [c|] eqn:Cs; [|reflexivity]. pose proof (Hc0 ltac:(congruence)) as X. congruence. }
    rewrite Cn. simpl. destruct (deliv_after (gh s)); simpl in *; try discriminate; reflexivity.
Qed.

(* when nothing internal is left to do after ANY schedule: the C13 outcome is clean *)
Lemma c13_outcome s s' :
  reachable s -> quiet_run (quiet V0) s s' ->
  drop26 (mon13 (class_of_cause (cause (gh s'))) (outcome_of s')) = [].
Proof.
  intros R Q. destruct (quiet_settles s R) as [_ A]. apply mon13_settled; [apply A, Q|].
  pose proof (quiet_run_reach s s' (reachable_reach s R) Q) as R'.
  exact (invariant_by_closure state state_beq state_beq_eq hash (next V0) (init cfg_all) tbl c13_safe
           cert_init cert_closed cert_c13 s' R').
Qed.

(* spelled out: once the connection is marked closed and the internal steps have run out,
   both pumps are at their exit, conn.Close was called, and the error was reported exactly
   when the connection was not marked by the deliberate local close *)
Lemma c13_released s s' :
  reachable s -> quiet_run (quiet V0) s s' -> flag (sh s') = true ->
  pu s' = PExit /\ rd s' = RExit /\ connc (sh s') = true /\
  (cause (gh s') = Some CLocal /\ reported (gh s') = C0 \/ is_genuine (cause (gh s')) = true /\ reported (gh s') = C1).
Proof.
  intros R Q F. destruct (quiet_settles s R) as [_ A].
  destruct (settled_closed s' (A s' Q) F) as (P & Rd & C & _ & _ & _ & H). auto.
Qed.

(* a connection that is open when the internal steps run out has reported nothing *)
Lemma c13_open_quiet s s' :
  reachable s -> quiet_run (quiet V0) s s' -> flag (sh s') = false -> reported (gh s') = C0 /\ pu s' = PSel /\ rd s' = RRead.
Proof.
  intros R Q F. destruct (quiet_settles s R) as [_ A].
  destruct (settled_open s' (A s' Q) F) as (P & Rd & Rp & _). auto.
Qed.

(* ---- the strict reading of "no delivery after the report" is false: a message that passed the
   read pump's closed-check before the write pump's closeWithError is handed over afterwards ---- *)
Definition inflight_witness : list label :=
  [LRd; LRd; LReadMsg;            (* read pump: select, closed-check, a frame arrives *)
   LRd;                           (* closed-check after the read: open -> will deliver *)
   LWStart; LWCheck; LWSend;      (* a write call queues a message *)
   LPumpRecv; LPump; LPump;       (* write pump takes it, both closed-checks pass *)
   LPumpFault;                    (* conn.WriteMessage fails *)
   LPump;                         (* closeWithError: marks the connection (first) *)
   LPump; LPump; LPump;           (* close(): flag, close(closeChannel), conn.Close() *)
   LPumpAlt;                      (* ReportConnectionError *)
   LRd].                          (* HandleIncomingWebsocketMessage — after the report *)

Lemma c13_strict_delivery_refuted :
  exists ls s, run repaired (init cfg_all) ls = Some s /\ c13_strict_delivery s = false /\ reported (gh s) = C1.
Proof. exists inflight_witness. eexists. split; [vm_compute; reflexivity|]. split; reflexivity. Qed.

(* ------------------------------------------------------------------ the tree as it was found *)
(* C12: one message in the pump, one in the queue, a third call blocked on the send; the
   write fails, the pump returns and its deferred function closes the queue *)
Definition pinned_panic_witness : list label :=
  [LWStart; LWCheck; LWSend; LPumpRecv; LPump; LPump;   (* message 1 is in conn.WriteMessage *)
   LWStart; LWCheck; LWSend;                            (* message 2 fills the queue *)
   LWStart; LWCheck;                                    (* call 3 has passed the closed-check; its send blocks *)
   LPumpFault; LPump; LPumpAlt;                         (* the write fails: closeWithError, report *)
   LPump;                                               (* deferred close(w.shipWriteChannel) *)
   LWSend].                                             (* panic: send on closed channel *)

(* the shortest one: a local close between a call's closed-check and its send *)
Definition pinned_panic_witness2 : list label :=
  [LCloseStart false; LCloser; LWStart; LWCheck; LCloser; LCloser; LPumpSelClose; LPump; LWSend].

Lemma pinned_panics :
  exists ls s, run pinned (init cfg_all) ls = Some s /\ panic s = true.
Proof. exists pinned_panic_witness. eexists. split; [vm_compute; reflexivity|reflexivity]. Qed.

Lemma pinned_panics_on_local_close :
  exists s, run pinned (init cfg_all) pinned_panic_witness2 = Some s /\ panic s = true.
Proof. eexists. split; [vm_compute; reflexivity|reflexivity]. Qed.

(* C13: after a failing write the flag is set before close() runs; close() returns early, the
   close channel stays open, conn.Close is never called, the read pump stays in its read *)
Definition pinned_leak_witness : list label :=
  [LRd; LRd;         (* the read pump sits in ReadMessage *)
   LWStart; LWCheck; LWSend; LPumpRecv; LPump; LPump; LPumpFault;
   LPump;            (* closeWithError: setConnClosedError(err) *)
   LPump;            (* ReportConnectionError; the SHIP layer reacts with CloseDataConnection *)
   LPump;            (* close(): the once body sees the flag and returns *)
   LPump].           (* the pump returns; nothing ever wakes the read pump *)

Lemma pinned_never_closes_transport :
  exists s, run pinned (init cfg_all) pinned_leak_witness = Some s /\
            is_quiescent pinned s = true /\ flag (sh s) = true /\ connc (sh s) = false /\ cch (sh s) = false /\
            rd s = RRead /\ mon13 ByLoss (outcome_of s) = [20%N; 21%N].
Proof. eexists. split; [vm_compute; reflexivity|]. repeat split; vm_compute; reflexivity. Qed.

(* C13: a deliberate local close with a reason while a message is in the pump: the pump's
   write fails because our own close frame was sent, and that is reported as a connection error *)
Definition pinned_spurious_witness : list label :=
  [LWStart; LWCheck; LWSend; LPumpRecv; LPump; LPump;   (* a message is about to be written *)
   LCloseStart true; LCloser;                           (* CloseDataConnection(4001, "close"): the close frame goes out *)
   LPump;                                               (* conn.WriteMessage: ErrCloseSent *)
   LPump; LPumpAlt].                                    (* closeWithError: ReportConnectionError *)

Lemma pinned_reports_local_close :
  exists s, run pinned (init cfg_all) pinned_spurious_witness = Some s /\ spurious (gh s) = true /\ reported (gh s) = C1.
Proof. eexists. split; [vm_compute; reflexivity|]. split; reflexivity. Qed.

(* ------------------------------------------------------------------ the hypotheses are not vacuous *)
(* a run in which a message is written and received by the transport, a local close with a reason
   races a second call, and a late call is refused; everything settles *)
Definition example_run : list (label * N) :=
  [(LWStart, 7%N); (LWCheck, 0%N); (LWSend, 0%N); (LPumpRecv, 0%N); (LPump, 0%N); (LPump, 0%N); (LPump, 0%N);
   (LWStart, 8%N); (LWCheck, 0%N);
   (LCloseStart true, 0%N); (LCloser, 0%N); (LCloser, 0%N); (LCloser, 0%N); (LCloser, 0%N);
   (LWSend, 0%N);
   (LPumpSelClose, 0%N); (LPump, 0%N);
   (LRd, 0%N);
   (LWStart, 9%N); (LWCheck, 0%N)].

Lemma example_settles :
  exists s d, grun V0 (init cfg_all, data0) example_run = Some (s, d) /\
    settled s = true /\ flag (sh s) = true /\ cause (gh s) = Some CLocal /\ reported (gh s) = C0 /\
    d_acc d = [7%N; 8%N] /\ d_wire d = [7%N] /\ is_quiescent V0 s = true.
Proof. eexists. eexists. split; [vm_compute; reflexivity|]. repeat split; vm_compute; reflexivity. Qed.
