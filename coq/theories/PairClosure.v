(* PairClosure.v — C03 on the two-endpoint model, timely mode: for EVERY configuration a
   certified closure of the reachable set (no depth bound), the safety facts checked on
   every member, the outcome facts checked on every member without successor. *)
From Coq Require Import FMapPositive.
From Ship Require Import Base Closure Conn ConnEvents ConnMon ConnClosure Pair.

Lemma list_eqb_eq {A} (eqb : A -> A -> bool) (H : forall x y, eqb x y = true -> x = y) :
  forall a b, list_eqb eqb a b = true -> a = b.
Proof.
  induction a as [|x a IH]; intros [|y b] E; simpl in E; try discriminate; [reflexivity|].
  apply andb_true_iff in E as [E1 E2]. f_equal; [apply H; exact E1 | apply IH; exact E2].
Qed.

Lemma pair_eqb_eq a b : pair_eqb a b = true -> a = b.
Proof.
  unfold pair_eqb. intros E. apply andb_true_iff in E as [E E3]. apply andb_true_iff in E as [E1 E2].
  apply internal_pcore_dec_bl in E1.
  apply (list_eqb_eq wire_beq internal_wire_dec_bl) in E2.
  apply (list_eqb_eq wire_beq internal_wire_dec_bl) in E3.
  destruct a, b; simpl in *; subst; reflexivity.
Qed.

(* ---- configurations: a finite type, fully enumerated ---- *)
Definition all_ids : list idcfg := [IdUnknown; IdRight; IdWrong].
Definition bools : list bool := [false; true].
Definition all_cfgs : list pcfg :=
  flat_map (fun a => flat_map (fun b => flat_map (fun c => flat_map (fun d => flat_map (fun e =>
  flat_map (fun i => map (fun j => mkCfg a b c d e i j) all_ids) all_ids) bools) bools) bools) bools) bools.

Scheme Equality for pcfg.

Lemma all_cfgs_complete cfg : In cfg all_cfgs.
Proof.
  assert (H : existsb (pcfg_beq cfg) all_cfgs = true).
  { destruct cfg as [a b c d e i j]. destruct a, b, c, d, e, i, j; vm_compute; reflexivity. }
  apply existsb_exists in H as [x [Hin Heq]]. apply internal_pcfg_dec_bl in Heq. subst x. exact Hin.
Qed.

(* ---- the facts ---- *)
Definition trust_possible (cfg : pcfg) (k : pcore) : bool :=
  f_paired cfg || f_auto cfg || (f_approves cfg && u_done k && u_trusted k).
Definition st_c (p : pair) := p_st (e_c (core p)).
Definition st_s (p : pair) := p_st (e_s (core p)).

(* safety, every reachable state *)
Definition pair_safe (cfg : pcfg) (p : pair) : bool :=
  let k := core p in
  negb (p_dead (e_c k)) && negb (p_dead (e_s k))
  && (n_csetup k <=? 1) && (n_ssetup k <=? 1)
  (* nobody completes without the server side's trust *)
  && implb (c_complete k || s_complete k || N.eqb (n_csetup k) 1 || N.eqb (n_ssetup k) 1) (trust_possible cfg k)
  (* a side only completes if the id it had stored was the right one; an unknown id is reported, a known one is not *)
  && implb (c_complete k) (negb (match f_cid cfg with IdWrong => true | _ => false end))
  && implb (s_complete k) (negb (match f_sid cfg with IdWrong => true | _ => false end))
  && implb (c_idrep k) (match f_cid cfg with IdUnknown => true | _ => false end)
  && implb (s_idrep k) (match f_sid cfg with IdUnknown => true | _ => false end)
  && implb (c_complete k) (N.eqb (n_csetup k) 1 && (c_idrep k || idk_of (f_cid cfg)))
  && implb (s_complete k) (N.eqb (n_ssetup k) 1 && (s_idrep k || idk_of (f_sid cfg)))
  (* a cancel while the server's hello phase was waiting is final: nobody completes afterwards *)
  && implb (cancelled k) (negb (c_complete k) && negb (s_complete k) && N.eqb (n_csetup k) 0 && N.eqb (n_ssetup k) 0)
  (* a side that gave up with an error has closed its transport by the time its handler returns *)
  && implb (N.eqb (p_st (e_c k)) 39) (p_wclosed (e_c k))
  && implb (N.eqb (p_st (e_s k)) 39) (p_wclosed (e_s k)).

Definition both_complete_open (p : pair) : bool := sum_both_complete_open (sum_of p).
Definition both_ended (p : pair) : bool := sum_both_ended (sum_of p).

(* a configuration in which the handshake has to succeed *)
Definition must_succeed (cfg : pcfg) : bool :=
  (f_paired cfg || f_auto cfg || (f_approves cfg && f_allow cfg)) && negb (f_cancels cfg)
  && negb (match f_cid cfg with IdWrong => true | _ => false end)
  && negb (match f_sid cfg with IdWrong => true | _ => false end).
(* ... and one in which it must not *)
Definition must_fail (cfg : pcfg) : bool :=
  negb (f_paired cfg) && negb (f_auto cfg) && negb (f_approves cfg).

(* outcome: a state in which nothing more can happen (no delivery, no deferred goroutine,
   no user action, no timer) *)
Definition pair_final_ok (strict : bool) (cfg : pcfg) (p : pair) : bool :=
  match timely_next strict cfg p with
  | _ :: _ => true
  | [] =>
      (both_complete_open p || both_ended p)
      && implb (must_succeed cfg) (both_complete_open p)
      && implb (must_fail cfg) (both_ended p)
  end.

Definition pair_ok (strict : bool) (cfg : pcfg) (p : pair) : bool :=
  pair_safe cfg p && pair_final_ok strict cfg p.

Definition pair_table (strict : bool) (cfg : pcfg) : table pair :=
  fst (explore pair_eqb pair_hash (timely_next strict cfg) 500 (pair_init cfg)).

Definition pair_cert (strict : bool) (cfg : pcfg) : bool :=
  mem pair_eqb pair_hash (pair_init cfg) (pair_table strict cfg)
  && closed_check pair_eqb pair_hash (timely_next strict cfg) (pair_table strict cfg)
  && forallb (pair_ok strict cfg) (members (pair_table strict cfg)).

(* ---- certificates for all 288 configurations ---- *)
Lemma pair_cert_strict_all : forallb (pair_cert true) all_cfgs = true.
Proof. vm_compute. reflexivity. Qed.

Lemma pair_cert_parts strict cfg :
  pair_cert strict cfg = true ->
  mem pair_eqb pair_hash (pair_init cfg) (pair_table strict cfg) = true
  /\ closed_check pair_eqb pair_hash (timely_next strict cfg) (pair_table strict cfg) = true
  /\ forallb (pair_ok strict cfg) (members (pair_table strict cfg)) = true.
Proof.
  unfold pair_cert.
  generalize (mem pair_eqb pair_hash (pair_init cfg) (pair_table strict cfg)).
  generalize (closed_check pair_eqb pair_hash (timely_next strict cfg) (pair_table strict cfg)).
  generalize (forallb (pair_ok strict cfg) (members (pair_table strict cfg))).
  intros a b c H. destruct a, b, c; try discriminate. repeat split.
Qed.

Theorem pair_timely_ok cfg s :
  reach (timely_next true cfg) (pair_init cfg) s -> pair_ok true cfg s = true.
Proof.
  assert (C : pair_cert true cfg = true).
  { pose proof pair_cert_strict_all as H. rewrite forallb_forall in H.
    exact (H cfg (all_cfgs_complete cfg)). }
  destruct (pair_cert_parts true cfg C) as [H1 [H2 H3]].
  exact (invariant_by_closure pair pair_eqb pair_eqb_eq pair_hash (timely_next true cfg)
           (pair_init cfg) (pair_table true cfg) (pair_ok true cfg) H1 H2 H3 s).
Qed.

(* ---- the refutation without the restriction on the moment of approval ---- *)
Fixpoint run_labels (strict : bool) (cfg : pcfg) (p : pair) (ls : list label) : option pair :=
  match ls with
  | [] => Some p
  | l :: r =>
      if is_timeout l && busy strict cfg p then None
      else match pstep2 strict cfg p l with
           | Some p' => run_labels strict cfg p' r
           | None => None
           end
  end.

Lemma timely_next_in strict cfg p l p' :
  In l all_labels -> (is_timeout l && busy strict cfg p) = false -> pstep2 strict cfg p l = Some p' ->
  In p' (timely_next strict cfg p).
Proof.
  intros Hl Hb Hs. unfold timely_next. apply in_flat_map. exists l. split; [exact Hl|].
  rewrite Hb, Hs. left. reflexivity.
Qed.

Lemma all_labels_complete l : In l all_labels.
Proof. destruct l; simpl; tauto. Qed.

Lemma run_labels_reach strict cfg ls : forall p q,
  run_labels strict cfg p ls = Some q -> forall i, reach (timely_next strict cfg) i p -> reach (timely_next strict cfg) i q.
Proof.
  induction ls as [|l ls IH]; intros p q H i R; simpl in H.
  - inversion H; subst. exact R.
  - destruct (is_timeout l && busy strict cfg p) eqn:B; [discriminate|].
    destruct (pstep2 strict cfg p l) as [p'|] eqn:S; [|discriminate].
    apply (IH p' q H i). eapply reach_step; [exact R|].
    apply (timely_next_in strict cfg p l p' (all_labels_complete l) B S).
Qed.

Definition cfg_approving : pcfg := mkCfg false false true true false IdUnknown IdUnknown.
Definition witness_labels : list label :=
  [LDeliverCS; LDeliverSC; LDeliverSC; LApprove; LDeliverSC; LDeliverCS; LDeliverSC;
   LDeliverCS].

(* the user approves while the request is pending, but before the server has received the
   client's hello "ready": the server jumps to the protocol phase, reads the late hello as a
   protocol handshake message and both sides end in the error state *)
Definition early_approval_check : bool :=
  match run_labels false cfg_approving (pair_init cfg_approving) witness_labels with
  | Some s =>
      match timely_next false cfg_approving s with [] => true | _ => false end
      && must_succeed cfg_approving && negb (both_complete_open s)
      && N.eqb (st_c s) 39 && N.eqb (st_s s) 39
  | None => false
  end.

Lemma early_approval_check_true : early_approval_check = true.
Proof. vm_compute. reflexivity. Qed.

Lemma pair_approve_early_refuted :
  exists s, reach (timely_next false cfg_approving) (pair_init cfg_approving) s
            /\ timely_next false cfg_approving s = []
            /\ must_succeed cfg_approving = true
            /\ both_complete_open s = false /\ st_c s = 39 /\ st_s s = 39.
Proof.
  pose proof early_approval_check_true as H. unfold early_approval_check in H.
  destruct (run_labels false cfg_approving (pair_init cfg_approving) witness_labels) as [s|] eqn:E;
    [|discriminate].
  exists s.
  apply andb_true_iff in H as [H H5]. apply andb_true_iff in H as [H H4].
  apply andb_true_iff in H as [H H3]. apply andb_true_iff in H as [H1 H2].
  split; [apply (run_labels_reach false cfg_approving witness_labels _ _ E); apply reach_init|].
  split; [destruct (timely_next false cfg_approving s); [reflexivity|discriminate]|].
  split; [exact H2|]. split; [apply negb_true_iff; exact H3|].
  split; apply N.eqb_eq; assumption.
Qed.

(* sizes of the certified tables, for the evidence *)
Definition pair_table_sizes : nat * nat :=
  (fold_left Nat.max (map (fun c => length (members (pair_table true c))) all_cfgs) O,
   fold_left Nat.add (map (fun c => length (members (pair_table true c))) all_cfgs) O).

(* ---- termination of timely runs: a ranking certificate per configuration ---- *)
Definition rtable := PositiveMap.t (list (pair * nat)).
Definition rk_lookup (t : rtable) (p : pair) : nat :=
  match PositiveMap.find (pair_hash p) t with
  | Some l => match find (fun x => pair_eqb p (fst x)) l with Some (_, n) => n | None => O end
  | None => O
  end.
Definition rk_set (t : rtable) (p : pair) (n : nat) : rtable :=
  let l := match PositiveMap.find (pair_hash p) t with Some l => l | None => [] end in
  PositiveMap.add (pair_hash p) ((p, n) :: filter (fun x => negb (pair_eqb p (fst x))) l) t.
Definition rk_round (edges : list (pair * list pair)) (t : rtable) : rtable :=
  fold_left (fun acc e =>
    match snd e with
    | [] => rk_set acc (fst e) O
    | succ => rk_set acc (fst e) (S (fold_left Nat.max (map (rk_lookup t) succ) O))
    end) edges t.
Fixpoint rk_iter (n : nat) (edges : list (pair * list pair)) (t : rtable) : rtable :=
  match n with O => t | S k => rk_iter k edges (rk_round edges t) end.

(* the rank of a state: longest distance to a state without successor, computed by an
   unverified relaxation; only its strict decrease along every step is checked *)
Definition pair_rank_table (cfg : pcfg) : rtable :=
  let edges := map (fun p => (p, timely_next true cfg p)) (members (pair_table true cfg)) in
  rk_iter 45 edges (PositiveMap.empty _).
Definition pair_rank (cfg : pcfg) : pair -> nat :=
  let t := pair_rank_table cfg in fun p => rk_lookup t p.

(* configurations in which no side may wait indefinitely: trust is settled, or the user
   will approve, or waiting is not allowed.  (With nobody answering and waiting allowed the
   prolongation exchange may go on for ever - that is the protocol; a user who cancels
   before the request has arrived has not answered the request that arrives later.) *)
Definition terminating (cfg : pcfg) : bool :=
  f_paired cfg || f_auto cfg || negb (f_allow cfg) || (f_approves cfg && negb (f_cancels cfg)).

Definition pair_rank_cert (cfg : pcfg) : bool :=
  implb (terminating cfg)
        (rank_check (timely_next true cfg) (pair_rank cfg) (pair_table true cfg)).

Lemma pair_rank_cert_all : forallb pair_rank_cert all_cfgs = true.
Proof. vm_compute. reflexivity. Qed.

Lemma pair_rank_parts cfg :
  pair_rank_cert cfg = true -> terminating cfg = true ->
  rank_check (timely_next true cfg) (pair_rank cfg) (pair_table true cfg) = true.
Proof.
  unfold pair_rank_cert.
  generalize (rank_check (timely_next true cfg) (pair_rank cfg) (pair_table true cfg)).
  intros b H T. rewrite T in H. destruct b; [reflexivity|discriminate].
Qed.

Lemma forallb_in {A} (f : A -> bool) l x : forallb f l = true -> In x l -> f x = true.
Proof. intros H. rewrite forallb_forall in H. apply H. Qed.

(* every timely run of a terminating configuration is finite *)
Theorem pair_timely_terminates cfg s :
  terminating cfg = true ->
  reach (timely_next true cfg) (pair_init cfg) s ->
  Acc (fun b a => In b (timely_next true cfg a)) s.
Proof.
  intros T R.
  pose proof (forallb_in (pair_cert true) all_cfgs cfg pair_cert_strict_all (all_cfgs_complete cfg)) as C.
  destruct (pair_cert_parts true cfg C) as [H1 [H2 _]].
  pose proof (pair_rank_parts cfg
                (forallb_in pair_rank_cert all_cfgs cfg pair_rank_cert_all (all_cfgs_complete cfg)) T) as K.
  exact (quiet_terminates pair pair_eqb pair_eqb_eq pair_hash (timely_next true cfg)
           (timely_next true cfg) (pair_rank cfg) (pair_init cfg) (pair_table true cfg)
           H1 H2 K (fun _ _ h => h) s R).
Qed.
