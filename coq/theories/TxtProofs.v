(* TxtProofs.v — lemmas about the TXT / QR model of Txt.v (statements in props/C16.v). *)
From Coq Require Import DecimalN DecimalPos.
From Ship Require Import Base Txt.
From ShipGen Require Import MdnsTable.

(* ================================================================== generic list facts *)
Lemma has_byte_app ch a b : has_byte ch (a ++ b) = has_byte ch a || has_byte ch b.
Proof. unfold has_byte. apply existsb_app. Qed.

Lemma has_byte_cons ch x a : has_byte ch (x :: a) = (ch =? x) || has_byte ch a.
Proof. reflexivity. Qed.

Lemma has_byte_firstn ch k s : has_byte ch s = false -> has_byte ch (firstn k s) = false.
Proof.
  revert k; induction s as [|x s IH]; intros [|k] H; simpl in *; try reflexivity.
  apply orb_false_iff in H as [H1 H2]. rewrite H1. simpl. apply IH, H2.
Qed.

Lemma strip_no_byte ch s : has_byte ch (strip_byte ch s) = false.
Proof.
  induction s as [|x s IH]; simpl; [reflexivity|].
  destruct (x =? ch) eqn:E; simpl; [exact IH|].
  rewrite N.eqb_sym, E. exact IH.
Qed.

Lemma strip_noop ch s : has_byte ch s = false -> strip_byte ch s = s.
Proof.
  induction s as [|x s IH]; simpl; intros H; [reflexivity|].
  apply orb_false_iff in H as [H1 H2]. rewrite N.eqb_sym, H1. simpl. f_equal. apply IH, H2.
Qed.

Lemma split_first_app ch k v : has_byte ch k = false -> split_first ch (k ++ ch :: v) = Some (k, v).
Proof.
  induction k as [|x k IH]; simpl; intros H.
  - rewrite N.eqb_refl. reflexivity.
  - apply orb_false_iff in H as [H1 H2]. rewrite N.eqb_sym, H1, (IH H2). reflexivity.
Qed.

Lemma split_on_nosep ch s : has_byte ch s = false -> split_on ch s = [s].
Proof.
  induction s as [|x s IH]; simpl; intros H; [reflexivity|].
  apply orb_false_iff in H as [H1 H2]. rewrite N.eqb_sym, H1, (IH H2). reflexivity.
Qed.

Lemma split_on_app ch k v : has_byte ch k = false -> split_on ch (k ++ ch :: v) = k :: split_on ch v.
Proof.
  induction k as [|x k IH]; simpl; intros H.
  - rewrite N.eqb_refl. reflexivity.
  - apply orb_false_iff in H as [H1 H2]. rewrite N.eqb_sym, H1, (IH H2). reflexivity.
Qed.

Lemma split_on_join ch l :
  l <> [] -> Forall (fun x => has_byte ch x = false) l -> split_on ch (join ch l) = l.
Proof.
  induction l as [|x l IH]; intros Hne HF; [congruence|].
  inversion HF as [|? ? Hx Hl]; subst.
  destruct l as [|y l].
  - simpl. apply split_on_nosep, Hx.
  - change (join ch (x :: y :: l)) with (x ++ ch :: join ch (y :: l)).
    rewrite split_on_app by exact Hx. f_equal. apply IH; [discriminate|exact Hl].
Qed.

Lemma list_eqb_bytes_eq a b : list_eqb bytes_eqb a b = true -> a = b.
Proof.
  revert b; induction a as [|x a IH]; intros [|y b]; simpl; intros H; try discriminate; [reflexivity|].
  apply andb_true_iff in H as [H1 H2]. apply bytes_eqb_eq in H1. f_equal; [exact H1|apply IH, H2].
Qed.

Lemma bytes_eqb_neq a b : a <> b -> bytes_eqb a b = false.
Proof.
  intros H. destruct (bytes_eqb a b) eqn:E; [|reflexivity]. apply bytes_eqb_eq in E. contradiction.
Qed.

Lemma is_prefix_app a b : is_prefix a (a ++ b) = true.
Proof. induction a as [|x a IH]; simpl; [reflexivity|]. rewrite N.eqb_refl. exact IH. Qed.

(* ================================================================== UTF-8 *)
Lemma urun_app s a b :
  urun s (a ++ b) = match urun s a with Some s' => urun s' b | None => None end.
Proof.
  revert s; induction a as [|x a IH]; intros s; simpl; [reflexivity|].
  destruct (ustep s x); [apply IH|reflexivity].
Qed.

Lemma in_range_weaken lo hi lo' hi' b :
  lo' <= lo -> hi <= hi' -> in_range lo hi b = true -> in_range lo' hi' b = true.
Proof.
  unfold in_range. intros H1 H2 H. apply andb_true_iff in H as [Ha Hb].
  apply N.leb_le in Ha, Hb. apply andb_true_iff; split; apply N.leb_le; lia.
Qed.

(* inside a sequence only continuation bytes are accepted *)
Lemma ustep_inside_cont s b s' : s <> U0 -> ustep s b = Some s' -> is_cont b = true.
Proof.
  intros Hs H. unfold is_cont.
  destruct s; try congruence; simpl in H;
    match type of H with (if ?c then _ else _) = _ => destruct c eqn:E; [|discriminate] end;
    try exact E; (eapply in_range_weaken; [| |exact E]; lia).
Qed.

(* rank: how many continuation bytes are still missing *)
Definition urank (s : ustate) : nat :=
  match s with U0 => 0 | U1 => 1 | U2 | UE0 | UED => 2 | U3 | UF0 | UF4 => 3 end.

Lemma ustep_cont_rank s b s' : is_cont b = true -> ustep s b = Some s' -> urank s = S (urank s').
Proof.
  intros Hc H. unfold is_cont, in_range in Hc. apply andb_true_iff in Hc as [Ha Hb].
  apply N.leb_le in Ha, Hb.
  destruct s; simpl in H.
  - (* U0 accepts no continuation byte *)
    unfold in_range in H.
    repeat match type of H with
           | (if ?c then _ else _) = _ => let E := fresh "E" in destruct c eqn:E
           end; try discriminate;
      repeat match goal with
             | E : (_ && _) = true |- _ => apply andb_true_iff in E as [? ?]
             | E : (_ <=? _) = true |- _ => apply N.leb_le in E
             | E : (_ =? _) = true |- _ => apply N.eqb_eq in E
             end; lia.
  - destruct (is_cont b); inversion H; reflexivity.
  - destruct (is_cont b); inversion H; reflexivity.
  - destruct (is_cont b); inversion H; reflexivity.
  - destruct (in_range 160 191 b); inversion H; reflexivity.
  - destruct (in_range 128 159 b); inversion H; reflexivity.
  - destruct (in_range 144 191 b); inversion H; reflexivity.
  - destruct (in_range 128 143 b); inversion H; reflexivity.
Qed.

(* a well-formed string cut in front of a byte that starts a rune is well-formed *)
Lemma utf8_valid_cut a b c :
  utf8_valid (a ++ b :: c) = true -> is_cont b = false -> utf8_valid a = true.
Proof.
  unfold utf8_valid. rewrite urun_app. intros H Hb.
  destruct (urun U0 a) as [s|]; [|discriminate].
  simpl in H. destruct (ustep s b) as [s'|] eqn:E; [|discriminate].
  destruct s; try reflexivity; apply ustep_inside_cont in E; congruence.
Qed.

Lemma utf8_valid_nil : utf8_valid [] = true.
Proof. reflexivity. Qed.

(* ================================================================== shortenString *)
Lemma backoff_le s k : (backoff s k <= k)%nat.
Proof.
  induction k as [|k IH]; simpl; [lia|]. destruct (is_cont (nth (S k) s 0)); lia.
Qed.

Lemma backoff_spec s k : backoff s k = 0%nat \/ is_cont (nth (backoff s k) s 0) = false.
Proof.
  induction k as [|k IH]; simpl; [left; reflexivity|].
  destruct (is_cont (nth (S k) s 0)) eqn:E; [exact IH|right; exact E].
Qed.

Lemma split_at_nth (s : bytes) k : (k < length s)%nat -> s = firstn k s ++ nth k s 0 :: skipn (S k) s.
Proof.
  revert k; induction s as [|x s IH]; intros k H; simpl in H; [lia|].
  destruct k as [|k]; simpl; [reflexivity|]. f_equal. apply IH. lia.
Qed.

Lemma shorten_fits rb s n : N.of_nat (length s) <= n -> shorten rb s n = s.
Proof. intros H. unfold shorten. apply N.leb_le in H. rewrite H. reflexivity. Qed.

Lemma shorten_length rb s n : N.of_nat (length (shorten rb s n)) <= n.
Proof.
  unfold shorten. destruct (N.of_nat (length s) <=? n) eqn:E; [apply N.leb_le, E|].
  rewrite firstn_length. pose proof (backoff_le s (N.to_nat n)). destruct rb; lia.
Qed.

Lemma shorten_prefix rb s n : exists t, s = shorten rb s n ++ t.
Proof.
  unfold shorten. destruct (N.of_nat (length s) <=? n).
  - exists []. symmetry. apply app_nil_r.
  - eexists. symmetry. apply firstn_skipn.
Qed.

Lemma shorten_has_byte rb ch s n : has_byte ch s = false -> has_byte ch (shorten rb s n) = false.
Proof.
  intros H. unfold shorten. destruct (N.of_nat (length s) <=? n); [exact H|]. apply has_byte_firstn, H.
Qed.

(* with the back-off to a rune start, a well-formed string stays well-formed *)
Lemma shorten_utf8 s n : utf8_valid s = true -> utf8_valid (shorten true s n) = true.
Proof.
  intros H. unfold shorten. destruct (N.of_nat (length s) <=? n) eqn:E; [exact H|].
  apply N.leb_gt in E.
  pose proof (backoff_le s (N.to_nat n)) as Hle.
  destruct (backoff_spec s (N.to_nat n)) as [H0|Hc].
  - rewrite H0. reflexivity.
  - set (k := backoff s (N.to_nat n)) in *.
    assert (Hk : (k < length s)%nat) by lia.
    rewrite (split_at_nth s k Hk) in H. eapply utf8_valid_cut; eassumption.
Qed.

(* ... and loses at most three bytes: four continuation bytes in a row do not occur *)
Lemma urun_prefix s a b st : urun s (a ++ b) = Some st -> exists s', urun s a = Some s' /\ urun s' b = Some st.
Proof.
  rewrite urun_app. destruct (urun s a) as [s'|]; [|discriminate]. intros H. exists s'. split; [reflexivity|exact H].
Qed.

Lemma four_cont_impossible s b1 b2 b3 b4 r :
  is_cont b1 = true -> is_cont b2 = true -> is_cont b3 = true -> is_cont b4 = true ->
  urun s (b1 :: b2 :: b3 :: b4 :: r) = None.
Proof.
  intros H1 H2 H3 H4. simpl.
  destruct (ustep s b1) as [s1|] eqn:E1; [|reflexivity].
  destruct (ustep s1 b2) as [s2|] eqn:E2; [|reflexivity].
  destruct (ustep s2 b3) as [s3|] eqn:E3; [|reflexivity].
  destruct (ustep s3 b4) as [s4|] eqn:E4; [|reflexivity].
  exfalso.
  apply ustep_cont_rank in E1, E2, E3, E4; try assumption.
  assert (urank s <= 3)%nat by (destruct s; simpl; lia). lia.
Qed.

Lemma backoff_stops s k j :
  (j <= k)%nat -> is_cont (nth j s 0) = false -> (j <= backoff s k)%nat.
Proof.
  induction k as [|k IH]; intros Hj Hc; simpl; [lia|].
  destruct (Nat.eq_dec j (S k)) as [->|Hne].
  - rewrite Hc. lia.
  - destruct (is_cont (nth (S k) s 0)); [apply IH; [lia|exact Hc]|lia].
Qed.

Lemma skipn_nth4 (s : bytes) k :
  (k + 3 < length s)%nat ->
  exists r, skipn k s = nth k s 0 :: nth (k + 1) s 0 :: nth (k + 2) s 0 :: nth (k + 3) s 0 :: r.
Proof.
  revert k; induction s as [|x s IH]; intros k H; simpl in H; [lia|].
  destruct k as [|k].
  - destruct s as [|y [|z [|w r]]]; simpl in H; try lia. exists r. reflexivity.
  - simpl. destruct (IH k) as [r Hr]; [lia|]. exists r. exact Hr.
Qed.

Lemma shorten_keeps_most s n :
  utf8_valid s = true -> n < N.of_nat (length s) -> n < N.of_nat (length (shorten true s n)) + 4.
Proof.
  intros H Hlen. unfold shorten. apply N.leb_gt in Hlen. rewrite Hlen. apply N.leb_gt in Hlen.
  set (m := N.to_nat n). assert (Hm : (m < length s)%nat) by lia.
  rewrite firstn_length. pose proof (backoff_le s m) as Hle.
  rewrite Nat.min_l by lia.
  destruct (Nat.le_gt_cases m 3) as [Hs|Hs]; [lia|].
  (* one of the bytes m-3 .. m starts a rune *)
  destruct (is_cont (nth m s 0)) eqn:C0; [|pose proof (backoff_stops s m m (le_n _) C0); lia].
  destruct (is_cont (nth (m - 1) s 0)) eqn:C1; [|pose proof (backoff_stops s m (m - 1) ltac:(lia) C1); lia].
  destruct (is_cont (nth (m - 2) s 0)) eqn:C2; [|pose proof (backoff_stops s m (m - 2) ltac:(lia) C2); lia].
  destruct (is_cont (nth (m - 3) s 0)) eqn:C3; [|pose proof (backoff_stops s m (m - 3) ltac:(lia) C3); lia].
  exfalso.
  destruct (skipn_nth4 s (m - 3)) as [r Hr]; [lia|].
  replace (m - 3 + 1)%nat with (m - 2)%nat in Hr by lia.
  replace (m - 3 + 2)%nat with (m - 1)%nat in Hr by lia.
  replace (m - 3 + 3)%nat with m in Hr by lia.
  unfold utf8_valid in H. rewrite <- (firstn_skipn (m - 3) s), urun_app in H.
  destruct (urun U0 (firstn (m - 3) s)) as [st|]; [|discriminate].
  rewrite Hr, four_cont_impossible in H by assumption. discriminate.
Qed.

(* without the back-off a rune can be cut in half: 31 ASCII bytes and U+00E9 *)
Lemma byte_cut_splits_rune :
  exists s, utf8_valid s = true /\ utf8_valid (shorten false s 32) = false.
Proof. exists (repeat 97 31 ++ [195; 169]). split; vm_compute; reflexivity. Qed.


(* ================================================================== decimal numbers, categories *)
Lemma bytes_uint_bytes u : bytes_uint (uint_bytes u) = Some u.
Proof. induction u; simpl; try rewrite IHu; reflexivity. Qed.

Lemma uint_bytes_digits u : forallb is_digit (uint_bytes u) = true.
Proof. induction u; simpl; try exact IHu; reflexivity. Qed.

Lemma to_uint_nonnil n : N.to_uint n <> Decimal.Nil.
Proof. destruct n; simpl; [discriminate|apply Unsigned.to_uint_nonnil]. Qed.

Lemma dec_nonnil n : is_nil (dec n) = false.
Proof.
  unfold dec. pose proof (to_uint_nonnil n) as H. destruct (N.to_uint n); simpl; try reflexivity. congruence.
Qed.

Lemma parse_uint_dec bits n : (n <? 2 ^ bits) = true -> parse_uint bits (dec n) = Some n.
Proof.
  intros H. unfold parse_uint. rewrite dec_nonnil. unfold dec. rewrite bytes_uint_bytes.
  rewrite DecimalN.Unsigned.of_to. rewrite H. reflexivity.
Qed.

Lemma digits_no_byte ch s : is_digit ch = false -> forallb is_digit s = true -> has_byte ch s = false.
Proof.
  intros Hc. induction s as [|x s IH]; simpl; intros H; [reflexivity|].
  apply andb_true_iff in H as [H1 H2]. rewrite (IH H2), orb_false_r.
  destruct (ch =? x) eqn:E; [|reflexivity]. apply N.eqb_eq in E. subst. congruence.
Qed.

Lemma dec_no_byte ch n : is_digit ch = false -> has_byte ch (dec n) = false.
Proof. intros H. apply digits_no_byte; [exact H|apply uint_bytes_digits]. Qed.

Lemma join_no_byte ch sep l :
  (ch =? sep) = false -> Forall (fun x => has_byte ch x = false) l -> has_byte ch (join sep l) = false.
Proof.
  intros Hs. induction l as [|x l IH]; intros HF; [reflexivity|].
  inversion HF as [|? ? Hx Hl]; subst. destruct l as [|y l]; [exact Hx|].
  change (join sep (x :: y :: l)) with (x ++ sep :: join sep (y :: l)).
  rewrite has_byte_app, Hx, has_byte_cons, Hs. simpl. apply IH, Hl.
Qed.

Lemma cat_str_no_byte ch cats :
  is_digit ch = false -> (ch =? cat_join) = false -> has_byte ch (cat_str cats) = false.
Proof.
  intros Hd Hj. unfold cat_str. apply join_no_byte; [exact Hj|].
  apply Forall_forall. intros x Hx. apply in_map_iff in Hx as [n [<- _]]. apply dec_no_byte, Hd.
Qed.

Lemma cat_str_nonnil cats : cats <> [] -> is_nil (cat_str cats) = false.
Proof.
  destruct cats as [|n r]; [congruence|]. intros _. unfold cat_str. simpl map.
  pose proof (dec_nonnil n) as H. destruct r as [|m r]; [exact H|].
  change (join cat_join (dec n :: map dec (m :: r))) with (dec n ++ cat_join :: join cat_join (map dec (m :: r))).
  destruct (dec n); [discriminate|reflexivity].
Qed.

Lemma cats_roundtrip cats :
  (cat_split =? cat_join) = true -> is_digit cat_join = false ->
  forallb (fun n => n <? 2 ^ cat_bits) cats = true -> cats <> [] ->
  cats_of (cat_str cats) = cats.
Proof.
  intros Hs Hd Hr Hne. apply N.eqb_eq in Hs. unfold cats_of, cat_str. rewrite Hs.
  rewrite split_on_join.
  - clear Hne. induction cats as [|n r IH]; [reflexivity|].
    cbn [forallb] in Hr. apply andb_true_iff in Hr as [H1 H2]. cbn [map flat_map].
    rewrite (parse_uint_dec _ _ H1). cbn [app]. f_equal. apply IH, H2.
  - destruct cats; [congruence|discriminate].
  - apply Forall_forall. intros x Hx. apply in_map_iff in Hx as [n [<- _]]. apply dec_no_byte, Hd.
Qed.

(* ================================================================== TXT round trip *)
Definition pairs (fl : mflags) (c : mcfg) (l : list (bytes * txt_src * bool)) : elements :=
  flat_map (fun it => let v := val fl c (src_of it) in
                      if cond_of it && is_nil v then [] else [(key_of it, v)]) l.

Lemma parse_item_ok splitn k v :
  has_byte txt_sep k = false -> (splitn = true \/ has_byte txt_sep v = false) ->
  parse_item splitn (k ++ txt_sep :: v) = Some (k, v).
Proof.
  intros Hk Hv. unfold parse_item. destruct splitn.
  - apply split_first_app, Hk.
  - destruct Hv as [Hv|Hv]; [discriminate|].
    rewrite split_on_app by exact Hk. rewrite split_on_nosep by exact Hv. reflexivity.
Qed.

Lemma parse_txt_txt fl c l :
  Forall (fun it => has_byte txt_sep (key_of it) = false) l ->
  (fl_splitn fl = true \/ Forall (fun it => has_byte txt_sep (val fl c (src_of it)) = false) l) ->
  parse_txt (fl_splitn fl) (flat_map (txt_item fl c) l) = pairs fl c l.
Proof.
  induction l as [|it l IH]; intros HK HV; [reflexivity|].
  inversion HK as [|? ? Hk HK']; subst.
  assert (HV' : fl_splitn fl = true \/ Forall (fun it => has_byte txt_sep (val fl c (src_of it)) = false) l).
  { destruct HV as [HV|HV]; [left; exact HV|right; inversion HV; assumption]. }
  assert (Hv : fl_splitn fl = true \/ has_byte txt_sep (val fl c (src_of it)) = false).
  { destruct HV as [HV|HV]; [left; exact HV|right; inversion HV; assumption]. }
  destruct it as [[k s] cond]. unfold key_of, src_of in *. simpl in Hk, Hv.
  simpl flat_map. unfold pairs at 1. simpl flat_map. unfold cond_of, src_of, key_of. simpl.
  destruct (cond && is_nil (val fl c s)); simpl.
  - apply IH; assumption.
  - rewrite (parse_item_ok _ _ _ Hk Hv). f_equal. apply IH; assumption.
Qed.

Lemma lookup_pairs_notin fl c l k : ~ In k (map key_of l) -> lookup k (pairs fl c l) = None.
Proof.
  induction l as [|it l IH]; intros H; [reflexivity|].
  simpl in H. unfold pairs. simpl flat_map.
  destruct (cond_of it && is_nil (val fl c (src_of it))); simpl.
  - apply IH. tauto.
  - fold (pairs fl c l). rewrite IH by tauto.
    rewrite bytes_eqb_neq; [reflexivity|]. intros E. apply H. left. symmetry. exact E.
Qed.

Lemma lookup_pairs fl c l it :
  NoDup (map key_of l) -> In it l ->
  lookup (key_of it) (pairs fl c l) =
    if cond_of it && is_nil (val fl c (src_of it)) then None else Some (val fl c (src_of it)).
Proof.
  induction l as [|it0 l IH]; intros ND HI; [contradiction|].
  simpl in ND. inversion ND as [|? ? Hnotin ND']; subst.
  unfold pairs. simpl flat_map. fold (pairs fl c l).
  destruct HI as [->|HI].
  - destruct (cond_of it && is_nil (val fl c (src_of it))); simpl.
    + apply lookup_pairs_notin, Hnotin.
    + rewrite (lookup_pairs_notin _ _ _ _ Hnotin), bytes_eqb_refl. reflexivity.
  - specialize (IH ND' HI).
    assert (Hne : key_of it <> key_of it0).
    { intros E. apply Hnotin. rewrite <- E. apply in_map, HI. }
    destruct (cond_of it0 && is_nil (val fl c (src_of it0))); simpl; [exact IH|].
    rewrite IH. destruct (cond_of it && is_nil (val fl c (src_of it))); [|reflexivity].
    rewrite (bytes_eqb_neq _ _ Hne). reflexivity.
Qed.

Lemma nodupb_NoDup l : nodupb l = true -> NoDup l.
Proof.
  induction l as [|x l IH]; simpl; intros H; [constructor|].
  apply andb_true_iff in H as [H1 H2]. constructor; [|apply IH, H2].
  intros HI. apply negb_true_iff in H1.
  assert (existsb (bytes_eqb x) l = true); [|congruence].
  apply existsb_exists. exists x. split; [exact HI|apply bytes_eqb_refl].
Qed.

Lemma item_of_in k it : item_of k = Some it -> In it txt_items /\ key_of it = k.
Proof.
  unfold item_of. intros H. apply find_some in H as [H1 H2]. split; [exact H1|]. apply bytes_eqb_eq, H2.
Qed.

Lemma src_eqb_eq a b : src_eqb a b = true -> a = b.
Proof.
  destruct a, b; simpl; intros H; try discriminate; try reflexivity.
  apply bytes_eqb_eq in H. congruence.
Qed.

Lemma reads_item k s : reads k s = true -> exists it, item_of k = Some it /\ src_of it = s.
Proof.
  unfold reads. destruct (item_of k) as [it|]; [|discriminate]. intros H.
  exists it. split; [reflexivity|apply src_eqb_eq, H].
Qed.

(* the separator condition: either parseTxt cuts at the first separator only, or no
   configuration string contains it *)
Definition sep_ok (fl : mflags) (c : mcfg) : Prop :=
  fl_splitn fl = true \/ forallb (fun s => negb (has_byte txt_sep s)) (cfg_strings c) = true.

(* ---- facts about the regenerated tables, each re-checked by computation on every build ---- *)
Lemma txt_table_ok_now : txt_table_ok = true.
Proof. vm_compute. reflexivity. Qed.
Lemma qr_table_ok_now : qr_table_ok = true.
Proof. vm_compute. reflexivity. Qed.

Lemma T_keys_nodup : nodupb (map key_of txt_items) = true.
Proof. vm_compute. reflexivity. Qed.
Lemma T_keys_nosep : forallb (fun it => negb (has_byte txt_sep (key_of it))) txt_items = true.
Proof. vm_compute. reflexivity. Qed.
Lemma T_consts_nosep :
  forallb (fun it => match src_of it with SConst v => negb (has_byte txt_sep v) | _ => true end) txt_items = true.
Proof. vm_compute. reflexivity. Qed.
Lemma T_sep_nodigit : is_digit txt_sep = false.
Proof. vm_compute. reflexivity. Qed.
Lemma T_sep_nojoin : (txt_sep =? cat_join) = false.
Proof. vm_compute. reflexivity. Qed.
Lemma T_sep_bool : has_byte txt_sep b_true = false /\ has_byte txt_sep b_false = false.
Proof. split; vm_compute; reflexivity. Qed.
Lemma T_mandatory :
  forallb (fun k => match item_of k with Some (_, _, false) => true | _ => false end) mandatory_keys = true.
Proof. vm_compute. reflexivity. Qed.
Lemma T_reads :
  reads rd_txtvers (SConst txtvers_value) = true /\ reads rd_ski SSki = true /\ reads rd_id SId = true /\
  reads rd_register SRegister = true /\ reads rd_brand SBrand = true /\ reads rd_type SType = true /\
  reads rd_model SModel = true /\ reads rd_serial SSerial = true.
Proof. repeat split; vm_compute; reflexivity. Qed.
Lemma T_reads_cat : exists k, item_of rd_cat = Some (k, SCat, true).
Proof. eexists. vm_compute. reflexivity. Qed.
Lemma T_reads_path : exists k v c, item_of rd_path = Some (k, SConst v, c) /\ announced_path = v.
Proof. do 3 eexists. split; vm_compute; reflexivity. Qed.
Lemma T_unshortened :
  short_len_of SSki = None /\ short_len_of SId = None /\ short_len_of SRegister = None /\ short_len_of SCat = None.
Proof. repeat split; reflexivity. Qed.
Lemma T_limit :
  short_len_of SBrand = Some short_limit /\ short_len_of SModel = Some short_limit /\
  short_len_of SType = Some short_limit /\ short_len_of SSerial = Some short_limit.
Proof. repeat split; vm_compute; reflexivity. Qed.
Lemma T_register : existsb (bytes_eqb b_true) register_values = true /\ existsb (bytes_eqb b_false) register_values = true
                   /\ register_true = b_true.
Proof. repeat split; vm_compute; reflexivity. Qed.
Lemma T_cat : (cat_split =? cat_join) = true /\ is_digit cat_join = false.
Proof. split; vm_compute; reflexivity. Qed.

Lemma val_const fl c v : val fl c (SConst v) = v.
Proof. reflexivity. Qed.

Lemma val_no_sep fl c it :
  forallb (fun s => negb (has_byte txt_sep s)) (cfg_strings c) = true ->
  In it txt_items -> has_byte txt_sep (val fl c (src_of it)) = false.
Proof.
  intros HC HI.
  unfold cfg_strings in HC. cbn [forallb] in HC.
  apply andb_true_iff in HC as [C1 HC]. apply andb_true_iff in HC as [C2 HC].
  apply andb_true_iff in HC as [C3 HC]. apply andb_true_iff in HC as [C4 HC].
  apply andb_true_iff in HC as [C5 HC]. apply andb_true_iff in HC as [C6 _].
  apply negb_true_iff in C1, C2, C3, C4, C5, C6.
  pose proof T_consts_nosep as TC. rewrite forallb_forall in TC. specialize (TC it HI).
  destruct T_sep_bool as [Bt Bf].
  unfold val. destruct (src_of it) eqn:E; cbn [raw];
    (destruct (short_len_of _); [apply shorten_has_byte|]);
    first [ assumption
          | (apply negb_true_iff in TC; exact TC)
          | (destruct (c_auto c); assumption)
          | (apply cat_str_no_byte; [apply T_sep_nodigit|apply T_sep_nojoin]) ].
Qed.

(* what parseTxt makes of the announced TXT record *)
Lemma parsed_txt fl c : sep_ok fl c -> parse_txt (fl_splitn fl) (txt fl c) = pairs fl c txt_items.
Proof.
  intros HS. unfold txt. apply parse_txt_txt.
  - apply Forall_forall. intros it HI. pose proof T_keys_nosep as TK. rewrite forallb_forall in TK.
    specialize (TK it HI). apply negb_true_iff in TK. exact TK.
  - destruct HS as [HS|HS]; [left; exact HS|right].
    apply Forall_forall. intros it HI. apply val_no_sep; assumption.
Qed.

Lemma lookup_txt fl c k it :
  sep_ok fl c -> item_of k = Some it ->
  lookup k (parse_txt (fl_splitn fl) (txt fl c)) =
    if cond_of it && is_nil (val fl c (src_of it)) then None else Some (val fl c (src_of it)).
Proof.
  intros HS HI. rewrite parsed_txt by exact HS. apply item_of_in in HI as [HI <-].
  apply lookup_pairs; [apply nodupb_NoDup, T_keys_nodup|exact HI].
Qed.

Lemma get_txt fl c k it :
  sep_ok fl c -> item_of k = Some it -> get k (parse_txt (fl_splitn fl) (txt fl c)) = val fl c (src_of it).
Proof.
  intros HS HI. unfold get. rewrite (lookup_txt _ _ _ _ HS HI).
  destruct (cond_of it); cbn [andb]; [|reflexivity].
  destruct (val fl c (src_of it)); reflexivity.
Qed.

Lemma get_reads fl c k s :
  sep_ok fl c -> reads k s = true -> get k (parse_txt (fl_splitn fl) (txt fl c)) = val fl c s.
Proof.
  intros HS HR. apply reads_item in HR as [it [HI <-]]. apply get_txt; assumption.
Qed.

(* announce, parse, process: the entry a second manager (own SKI different) stores *)
Lemma read_back_ok fl c own :
  sep_ok fl c -> own <> c_ski c -> cats_in_range c = true ->
  read_back fl own c = Some (expected_entry fl c).
Proof.
  intros HS Hown Hcats.
  destruct T_reads as [Rv [Rs [Ri [Rr [Rb [Rt [Rm Rse]]]]]]].
  destruct T_unshortened as [Uski [Uid [Ureg Ucat]]].
  destruct T_register as [Gt [Gf Gtrue]].
  unfold read_back, entry_of_txt.
  set (m := parse_txt (fl_splitn fl) (txt fl c)).
  assert (Hm : forallb (fun k => is_some (lookup k m)) mandatory_keys = true).
  { apply forallb_forall. intros k Hk. pose proof T_mandatory as TM. rewrite forallb_forall in TM.
    specialize (TM k Hk). destruct (item_of k) as [[[k' s] cnd]|] eqn:EI; [|discriminate].
    destruct cnd; [discriminate|]. unfold m. rewrite (lookup_txt _ _ _ _ HS EI). reflexivity. }
  rewrite Hm. cbn [negb].
  unfold m. rewrite (get_reads _ _ _ _ HS Rv), val_const, bytes_eqb_refl. cbn [negb].
  rewrite (get_reads _ _ _ _ HS Rs).
  assert (Vski : val fl c SSki = c_ski c) by (unfold val; rewrite Uski; reflexivity).
  assert (Vid : val fl c SId = c_id c) by (unfold val; rewrite Uid; reflexivity).
  assert (Vreg : val fl c SRegister = if c_auto c then b_true else b_false) by (unfold val; rewrite Ureg; reflexivity).
  assert (Vcat : val fl c SCat = cat_str (c_cats c)) by (unfold val; rewrite Ucat; reflexivity).
  rewrite Vski. rewrite (bytes_eqb_neq (c_ski c) own) by congruence.
  rewrite (get_reads _ _ _ _ HS Rr), Vreg.
  assert (Hreg : existsb (bytes_eqb (if c_auto c then b_true else b_false)) register_values = true)
    by (destruct (c_auto c); assumption).
  rewrite Hreg. cbn [negb].
  unfold expected_entry. f_equal. f_equal.
  - apply (get_reads _ _ _ _ HS Ri).
  - destruct T_reads_path as [k [v [cnd [HI Hv]]]]. rewrite (get_txt _ _ _ _ HS HI). rewrite Hv. reflexivity.
  - rewrite Gtrue. destruct (c_auto c); reflexivity.
  - apply (get_reads _ _ _ _ HS Rb).
  - apply (get_reads _ _ _ _ HS Rt).
  - apply (get_reads _ _ _ _ HS Rm).
  - apply (get_reads _ _ _ _ HS Rse).
  - destruct T_reads_cat as [k HI]. rewrite (lookup_txt _ _ _ _ HS HI). cbn [cond_of src_of snd fst andb].
    rewrite Vcat. destruct (c_cats c) as [|n r] eqn:EC; [reflexivity|].
    rewrite cat_str_nonnil by discriminate.
    destruct T_cat as [Cs Cd]. apply cats_roundtrip; try assumption; [|discriminate].
    unfold cats_in_range in Hcats. rewrite EC in Hcats. exact Hcats.
Qed.

(* ================================================================== QR text *)
Lemma Q_lits : qr_lits = [b_SHIP ++ 59 :: b_SKI ++ [58]; 59 :: b_ID ++ [58]; [59]; b_ENDSHIP ++ [59]].
Proof. apply list_eqb_bytes_eq. vm_compute. reflexivity. Qed.
Lemma Q_strip : qr_strip = 59.
Proof. reflexivity. Qed.
Lemma Q_sep : qr_kv_sep = 58.
Proof. reflexivity. Qed.
Lemma Q_keys : forallb (fun o => negb (has_byte 59 (fst o)) && negb (has_byte 58 (fst o))) qr_optionals = true.
Proof. vm_compute. reflexivity. Qed.

Definition qr_seg (fl : mflags) (c : mcfg) (o : bytes * txt_src) : list bytes :=
  let v := val fl c (snd o) in if is_nil v then [] else [fst o ++ 58 :: strip_byte 59 v].

Definition qr_field (fl : mflags) (c : mcfg) (o : bytes * txt_src) : list (bytes * bytes) :=
  let v := val fl c (snd o) in if is_nil v then [] else [(fst o, strip_byte 59 v)].

Lemma split_opts fl c l rest :
  Forall (fun o => has_byte 59 (fst o) = false) l ->
  split_on 59 (flat_map (qr_opt fl c) l ++ rest) = flat_map (qr_seg fl c) l ++ split_on 59 rest.
Proof.
  induction l as [|o l IH]; intros HF; [reflexivity|].
  inversion HF as [|? ? Ho Hl]; subst.
  cbn [flat_map]. unfold qr_opt at 1, qr_seg at 1. rewrite Q_strip, Q_sep.
  destruct (is_nil (val fl c (snd o))).
  - cbn [app]. apply IH, Hl.
  - match goal with |- split_on 59 ?x = _ =>
      replace x with ((fst o ++ 58 :: strip_byte 59 (val fl c (snd o))) ++ 59 :: (flat_map (qr_opt fl c) l ++ rest))
    end.
    2:{ rewrite <- !app_assoc. cbn [app]. rewrite <- !app_assoc. reflexivity. }
    rewrite split_on_app.
    + cbn [app]. f_equal. apply IH, Hl.
    + rewrite has_byte_app, Ho, has_byte_cons, strip_no_byte. reflexivity.
Qed.

Lemma kvs_segs fl c l :
  Forall (fun o => has_byte 58 (fst o) = false) l ->
  kvs (flat_map (qr_seg fl c) l) = Some (flat_map (qr_field fl c) l).
Proof.
  induction l as [|o l IH]; intros HF; [reflexivity|].
  inversion HF as [|? ? Ho Hl]; subst.
  cbn [flat_map]. unfold qr_seg at 1, qr_field at 1.
  destruct (is_nil (val fl c (snd o))); cbn [app]; [apply IH, Hl|].
  cbn [kvs]. rewrite (split_first_app 58 _ _ Ho), (IH Hl). reflexivity.
Qed.

Lemma qr_shape fl c a b :
  qrargs_shape fl a b ->
  qr fl c =
  b_SHIP ++ 59 :: ((b_SKI ++ 58 :: qr_arg fl c (SSki, a)) ++ 59 ::
                   ((b_ID ++ 58 :: qr_arg fl c (SId, b)) ++ 59 ::
                    (flat_map (qr_opt fl c) qr_optionals ++ (b_ENDSHIP ++ [59])))).
Proof.
  intros HA. unfold qr. rewrite HA, Q_lits. cbn [map app]. cbn [interleave].
  unfold b_SHIP, b_SKI, b_ID, b_ENDSHIP. cbn [app]. repeat rewrite <- app_assoc. cbn [app].
  try rewrite app_nil_r. reflexivity.
Qed.

Lemma qr_arg_clean fl c s a :
  short_len_of s = None -> (a = true \/ has_byte 59 (raw c s) = false) ->
  qr_arg fl c (s, a) = strip_byte 59 (raw c s).
Proof.
  intros HU H. unfold qr_arg. cbn [fst snd]. unfold val. rewrite HU, Q_strip.
  destruct a; [reflexivity|]. destruct H as [H|H]; [discriminate|]. symmetry. apply strip_noop, H.
Qed.

(* the QR text reads back as SKI, ID and the non-empty optionals, all without ';' *)
Lemma qr_ok fl c a b :
  qrargs_shape fl a b ->
  (a = true \/ has_byte 59 (c_ski c) = false) -> (b = true \/ has_byte 59 (c_id c) = false) ->
  parse_qr (qr fl c) = Some (qr_fields fl c).
Proof.
  intros HA Ha Hb.
  destruct T_unshortened as [Uski [Uid _]].
  rewrite (qr_shape _ _ _ _ HA).
  rewrite (qr_arg_clean fl c SSki a Uski Ha), (qr_arg_clean fl c SId b Uid Hb). cbn [raw].
  pose proof Q_keys as QK. rewrite forallb_forall in QK.
  assert (K59 : Forall (fun o => has_byte 59 (fst o) = false) qr_optionals).
  { apply Forall_forall. intros o Ho. specialize (QK o Ho). apply andb_true_iff in QK as [Q1 _].
    apply negb_true_iff in Q1. exact Q1. }
  assert (K58 : Forall (fun o => has_byte 58 (fst o) = false) qr_optionals).
  { apply Forall_forall. intros o Ho. specialize (QK o Ho). apply andb_true_iff in QK as [_ Q2].
    apply negb_true_iff in Q2. exact Q2. }
  unfold parse_qr.
  rewrite split_on_app by (vm_compute; reflexivity).
  rewrite split_on_app by (rewrite has_byte_app, has_byte_cons, strip_no_byte; vm_compute; reflexivity).
  rewrite split_on_app by (rewrite has_byte_app, has_byte_cons, strip_no_byte; vm_compute; reflexivity).
  rewrite (split_opts _ _ _ _ K59).
  replace (split_on 59 (b_ENDSHIP ++ [59])) with [b_ENDSHIP; []] by (vm_compute; reflexivity).
  rewrite bytes_eqb_refl.
  set (X1 := b_SKI ++ 58 :: strip_byte 59 (c_ski c)).
  set (X2 := b_ID ++ 58 :: strip_byte 59 (c_id c)).
  set (S := flat_map (qr_seg fl c) qr_optionals).
  change (X1 :: X2 :: S ++ [b_ENDSHIP; []]) with ((X1 :: X2 :: S) ++ [b_ENDSHIP; []]).
  rewrite rev_app_distr. change (rev [b_ENDSHIP; []]) with [[]; b_ENDSHIP]. cbn [app is_nil andb]. rewrite bytes_eqb_refl.
  rewrite rev_involutive. cbn [kvs]. unfold X1, X2, S.
  rewrite (split_first_app 58 b_SKI) by (vm_compute; reflexivity).
  rewrite (split_first_app 58 b_ID) by (vm_compute; reflexivity).
  rewrite (kvs_segs _ _ _ K58). reflexivity.
Qed.

(* without the stripping of SKI and identifier the framing breaks: identifier "a;b" *)
Lemma qr_unsanitised_breaks fl a :
  qrargs_shape fl a false ->
  exists c, utf8_valid (c_id c) = true /\ parse_qr (qr fl c) <> Some (qr_fields fl c).
Proof.
  intros HA.
  exists {| c_ski := [48]; c_id := [97; 59; 98]; c_brand := []; c_model := []; c_type := []; c_serial := [];
            c_cats := []; c_auto := false |}.
  split; [reflexivity|].
  rewrite (qr_shape _ _ _ _ HA). destruct fl as [r sp args]. destruct a; destruct r; vm_compute; discriminate.
Qed.

Lemma qr_unsanitised_ski_breaks fl b :
  qrargs_shape fl false b ->
  exists c, utf8_valid (c_ski c) = true /\ parse_qr (qr fl c) <> Some (qr_fields fl c).
Proof.
  intros HA.
  exists {| c_ski := [97; 59; 73; 68; 58; 120]; c_id := [105]; c_brand := []; c_model := []; c_type := []; c_serial := [];
            c_cats := []; c_auto := false |}.
  split; [reflexivity|].
  rewrite (qr_shape _ _ _ _ HA). destruct fl as [r sp args]. destruct b; destruct r; vm_compute; discriminate.
Qed.

(* ================================================================== the copy handed to the report receiver *)
Lemma ustep_next st b s' :
  st <> U0 -> ustep st b = Some s' ->
  s' = match st with U1 => U0 | U2 | UE0 | UED => U1 | _ => U2 end.
Proof.
  intros Hs H. destruct st; try congruence; simpl in H;
    match type of H with (if ?c then _ else _) = _ => destruct c; [|discriminate] end;
    inversion H; reflexivity.
Qed.

Ltac next_byte_at H r :=
  let b := fresh "b" in let r' := fresh "r" in let E := fresh "E" in let s := fresh "s" in let X := fresh "X" in
  destruct r as [|b r']; [cbn [urun] in H; discriminate H|];
  cbn [urun] in H;
  match type of H with
  | match ustep ?st b with _ => _ end = _ =>
      destruct (ustep st b) as [s|] eqn:E; [|discriminate H];
      assert (X := ustep_next st b s ltac:(discriminate) E); cbv iota in X; subst s;
      cbv iota beta
  end.

Ltac next_byte H := match type of H with urun _ ?r = _ => next_byte_at H r end.

Lemma rune_len_valid b r st :
  ustep U0 b = Some st -> urun st r = Some U0 -> rune_len (b :: r) = Some (S (urank st)).
Proof.
  intros E0 H. unfold rune_len. rewrite E0.
  destruct st; cbn [urank]; cbv iota beta.
  - reflexivity.
  - next_byte H. reflexivity.
  - next_byte H. next_byte H. reflexivity.
  - next_byte H. next_byte H. next_byte H. reflexivity.
  - next_byte H. next_byte H. reflexivity.
  - next_byte H. next_byte H. reflexivity.
  - next_byte H. next_byte H. next_byte H. reflexivity.
  - next_byte H. next_byte H. next_byte H. reflexivity.
Qed.

Lemma json_copy_from_valid r st : urun st r = Some U0 -> json_copy_from (urank st) r = r.
Proof.
  revert st; induction r as [|b r IH]; intros st H; [reflexivity|].
  simpl in H. destruct (ustep st b) as [st'|] eqn:E; [|discriminate].
  destruct (urank st) as [|k] eqn:Ek.
  - assert (st = U0) by (destruct st; simpl in Ek; congruence). subst st.
    cbn [json_copy_from]. rewrite (rune_len_valid b r st' E H). f_equal. apply IH, H.
  - cbn [json_copy_from].
    assert (Hs : st <> U0) by (intros ->; simpl in Ek; discriminate).
    pose proof (ustep_inside_cont _ _ _ Hs E) as Hc.
    pose proof (ustep_cont_rank _ _ _ Hc E) as Hr. rewrite Ek in Hr. inversion Hr; subst k.
    f_equal. apply IH, H.
Qed.

(* a well-formed string survives util.DeepCopy unchanged *)
Lemma json_copy_valid s : utf8_valid s = true -> json_copy s = s.
Proof.
  unfold utf8_valid, json_copy. intros H.
  destruct (urun U0 s) as [st|] eqn:E; [|discriminate]. destruct st; try discriminate.
  apply (json_copy_from_valid s U0 E).
Qed.

(* ill-formed bytes do not survive it: the cut-in-half rune comes back as U+FFFD *)
Lemma json_copy_invalid_changes : exists s, json_copy s <> s.
Proof. exists [97; 195]. vm_compute. discriminate. Qed.

Lemma report_copy_valid e : forallb utf8_valid (entry_strings e) = true -> report_copy e = e.
Proof.
  unfold entry_strings. cbn [forallb]. intros H.
  repeat match type of H with (_ && _) = true => let H' := fresh "V" in apply andb_true_iff in H as [H' H] end.
  destruct e. unfold report_copy. cbn in *. rewrite !json_copy_valid by assumption. reflexivity.
Qed.

(* ================================================================== refutations for the pinned behaviours *)
Definition cfg_of_id (id : bytes) : mcfg :=
  {| c_ski := [48; 49]; c_id := id; c_brand := [98]; c_model := [109]; c_type := [116]; c_serial := [115];
     c_cats := [2]; c_auto := false |}.

(* Split on every '=': an identifier "a=b" makes the whole service invisible *)
Lemma split_every_sep_hides_service fl :
  fl_splitn fl = false ->
  exists c own, own <> c_ski c /\ cfg_utf8 c = true /\ cats_in_range c = true /\ read_back fl own c = None.
Proof.
  intros H. exists (cfg_of_id [97; 61; 98]), [57].
  split; [discriminate|]. split; [reflexivity|]. split; [reflexivity|].
  destruct fl as [r sp args]. simpl in H. subst sp. destruct r; vm_compute; reflexivity.
Qed.

(* ... and a brand "a=b" is read back as the empty string *)
Lemma split_every_sep_drops_field fl :
  fl_splitn fl = false ->
  exists c own e, own <> c_ski c /\ cfg_utf8 c = true /\ cats_in_range c = true /\
                  read_back fl own c = Some e /\ e_brand e <> val fl c SBrand.
Proof.
  intros H.
  exists {| c_ski := [48; 49]; c_id := [105]; c_brand := [97; 61; 98]; c_model := [109]; c_type := [116];
            c_serial := [115]; c_cats := [2]; c_auto := true |}, [57].
  destruct fl as [r sp args]. simpl in H. subst sp.
  destruct r; eexists; (split; [discriminate|]); (split; [reflexivity|]); (split; [reflexivity|]);
    (split; [vm_compute; reflexivity|vm_compute; discriminate]).
Qed.

(* categories that do not fit cat_bits bits are announced but not read back *)
Lemma category_out_of_range_dropped fl :
  exists c own e, own <> c_ski c /\ cfg_utf8 c = true /\ read_back fl own c = Some e /\ e_cats e <> c_cats c.
Proof.
  exists {| c_ski := [48; 49]; c_id := [105]; c_brand := [98]; c_model := [109]; c_type := [116];
            c_serial := [115]; c_cats := [2 ^ cat_bits]; c_auto := true |}, [57].
  destruct fl as [r sp args].
  destruct r, sp; eexists; (split; [discriminate|]); (split; [reflexivity|]);
    (split; [vm_compute; reflexivity|vm_compute; discriminate]).
Qed.

(* ================================================================== the monitors hold of the model *)
Lemma list_eqb_N_refl l : list_eqb N.eqb l l = true.
Proof. induction l as [|x l IH]; simpl; [reflexivity|]. rewrite N.eqb_refl. exact IH. Qed.

Lemma entry_eqb_refl e : entry_eqb e e = true.
Proof.
  unfold entry_eqb. rewrite !bytes_eqb_refl, list_eqb_N_refl, Bool.eqb_reflx. reflexivity.
Qed.

Lemma kvlist_eqb_refl l : list_eqb kv_eqb l l = true.
Proof.
  induction l as [|x l IH]; simpl; [reflexivity|]. unfold kv_eqb at 1. rewrite !bytes_eqb_refl. exact IH.
Qed.

Lemma short_ok_shorten s :
  utf8_valid s = true -> short_ok short_limit (s, shorten true s short_limit) = true
                         /\ short_utf8 s (shorten true s short_limit) = true.
Proof.
  intros Hv. unfold short_ok, short_within, short_prefix, short_keeps, short_utf8. cbn [fst snd].
  rewrite Hv, (shorten_utf8 _ _ Hv). cbn [negb orb]. split; [|reflexivity].
  apply andb_true_iff; split; [apply andb_true_iff; split|].
  - apply N.leb_le, shorten_length.
  - destruct (shorten_prefix true s short_limit) as [t Ht]. rewrite Ht at 2. apply is_prefix_app.
  - destruct (N.of_nat (length s) <=? short_limit) eqn:E.
    + apply N.leb_le in E. rewrite (shorten_fits _ _ _ E). apply bytes_eqb_refl.
    + apply N.leb_gt in E. apply N.ltb_lt. apply shorten_keeps_most; assumption.
Qed.

Lemma announced_path_utf8 : utf8_valid announced_path = true.
Proof. vm_compute. reflexivity. Qed.

(* for every well-formed configuration, every in-range category list, both auto-accept
   values and every reader with another SKI: no monitor fires on what the model produces *)
Lemma monitors_hold fl c own :
  fl_rune fl = true -> fl_splitn fl = true -> qrargs_shape fl true true ->
  cfg_utf8 c = true -> cats_in_range c = true -> own <> c_ski c ->
  monitors fl own c (read_back fl own c) (option_map report_copy (read_back fl own c)) (qr fl c) = [].
Proof.
  intros Fr Fs Fq Hu Hc Hown.
  assert (HS : sep_ok fl c) by (left; exact Fs).
  rewrite (read_back_ok _ _ _ HS Hown Hc). cbn [option_map].
  unfold cfg_utf8, cfg_strings in Hu. cbn [forallb] in Hu.
  apply andb_true_iff in Hu as [V1 Hu]. apply andb_true_iff in Hu as [V2 Hu].
  apply andb_true_iff in Hu as [V3 Hu]. apply andb_true_iff in Hu as [V4 Hu].
  apply andb_true_iff in Hu as [V5 Hu]. apply andb_true_iff in Hu as [V6 _].
  destruct T_limit as [Lb [Lm [Lt Ls]]].
  assert (Eb : val fl c SBrand = shorten true (c_brand c) short_limit) by (unfold val; rewrite Lb, Fr; reflexivity).
  assert (Em : val fl c SModel = shorten true (c_model c) short_limit) by (unfold val; rewrite Lm, Fr; reflexivity).
  assert (Et : val fl c SType = shorten true (c_type c) short_limit) by (unfold val; rewrite Lt, Fr; reflexivity).
  assert (Es : val fl c SSerial = shorten true (c_serial c) short_limit) by (unfold val; rewrite Ls, Fr; reflexivity).
  destruct (short_ok_shorten _ V3) as [B1 B2]. destruct (short_ok_shorten _ V4) as [M1 M2].
  destruct (short_ok_shorten _ V5) as [T1 T2]. destruct (short_ok_shorten _ V6) as [S1 S2].
  unfold monitors, mon_qr. rewrite (bytes_eqb_neq own (c_ski c) Hown).
  rewrite (qr_ok fl c true true Fq (or_introl eq_refl) (or_introl eq_refl)).
  cbn [option_eqb]. rewrite kvlist_eqb_refl. rewrite app_nil_r.
  assert (Hvalid : forallb utf8_valid (entry_strings (expected_entry fl c)) = true).
  { unfold entry_strings, expected_entry. cbn [forallb e_ski e_id e_path e_brand e_type e_model e_serial].
    rewrite V1, V2, announced_path_utf8, Eb, Em, Et, Es, !shorten_utf8 by assumption. reflexivity. }
  unfold mon_report. rewrite (report_copy_valid _ Hvalid), entry_eqb_refl, orb_true_r. rewrite app_nil_r.
  unfold mon_entry, descr, expected_entry.
  cbn [e_ski e_id e_path e_register e_brand e_type e_model e_serial e_cats].
  rewrite !bytes_eqb_refl, Bool.eqb_reflx, list_eqb_N_refl. cbn [andb app].
  rewrite Eb, Em, Et, Es. cbn [filter forallb fst snd].
  rewrite B1, M1, T1, S1, B2, M2, T2, S2. reflexivity.
Qed.

(* a non-trivial configuration within the hypotheses: a 2-byte rune across the limit, '=', ';' and ':' in
   values, two categories *)
Definition example_cfg : mcfg :=
  {| c_ski := [97; 59; 98]; c_id := [105; 61; 120; 59; 121];
     c_brand := repeat 97 31 ++ [195; 169; 61]; c_model := [109; 61; 61]; c_type := [59; 58]; c_serial := [];
     c_cats := [2; 7]; c_auto := true |}.

(* ================================================================== validation *)
Lemma T_validation_tables :
  mandatory_keys = [K_txtvers; K_id; K_path; K_ski; K_register] /\ rd_txtvers = K_txtvers /\ rd_ski = K_ski
  /\ rd_register = K_register /\ txtvers_value = [49] /\ register_values = [b_true; b_false].
Proof. repeat split; reflexivity. Qed.

(* processMdnsEntry accepts exactly the records the property calls valid *)
Lemma validation_agrees own m : is_some (entry_of_txt own m) = txt_valid own m.
Proof.
  destruct T_validation_tables as [Tm [Tv [Ts [Tr [Tw Tg]]]]].
  unfold entry_of_txt, txt_valid. rewrite Tm, Tv, Ts, Tr, Tw, Tg. cbn [forallb existsb].
  destruct (is_some (lookup K_txtvers m)), (is_some (lookup K_id m)), (is_some (lookup K_path m)),
    (is_some (lookup K_ski m)), (is_some (lookup K_register m)); cbn [andb negb]; try reflexivity.
  destruct (bytes_eqb (get K_txtvers m) [49]); cbn [andb negb]; [|reflexivity].
  destruct (bytes_eqb (get K_ski m) own); cbn [andb negb]; [reflexivity|].
  destruct (bytes_eqb (get K_register m) b_true), (bytes_eqb (get K_register m) b_false); reflexivity.
Qed.

(* ================================================================== what the source does now *)
(* these three need the repaired behaviours: they stop compiling if shortenString cuts at a
   plain byte offset again, parseTxt splits on every '=', or QRCodeText passes SKI and
   identifier unstripped *)
Lemma now_rune : fl_rune gen_flags = true.
Proof. reflexivity. Qed.
Lemma now_splitn : fl_splitn gen_flags = true.
Proof. reflexivity. Qed.
Lemma now_qrargs : qrargs_shape gen_flags true true.
Proof. reflexivity. Qed.

Lemma read_back_now c own :
  own <> c_ski c -> cats_in_range c = true ->
  read_back gen_flags own c = Some (expected_entry gen_flags c).
Proof. intros H1 H2. apply read_back_ok; [left; exact now_splitn|exact H1|exact H2]. Qed.

Lemma read_back_partial fl c own :
  fl_splitn fl = true \/ forallb (fun s => negb (has_byte txt_sep s)) (cfg_strings c) = true ->
  own <> c_ski c -> cats_in_range c = true ->
  read_back fl own c = Some (expected_entry fl c).
Proof. exact (read_back_ok fl c own). Qed.

Lemma shorten_bounds rb s n :
  N.of_nat (length (shorten rb s n)) <= n /\ (exists t, s = shorten rb s n ++ t)
  /\ (N.of_nat (length s) <= n -> shorten rb s n = s).
Proof. split; [apply shorten_length|split; [apply shorten_prefix|apply shorten_fits]]. Qed.

Lemma shorten_now_utf8 s n :
  utf8_valid s = true ->
  utf8_valid (shorten (fl_rune gen_flags) s n) = true
  /\ (n < N.of_nat (length s) -> n < N.of_nat (length (shorten (fl_rune gen_flags) s n)) + 4).
Proof. rewrite now_rune. intros H. split; [apply shorten_utf8, H|apply shorten_keeps_most, H]. Qed.

Lemma announced_fields_now c :
  cfg_utf8 c = true ->
  Forall (fun p => N.of_nat (length (snd p)) <= short_limit /\ (exists t, fst p = snd p ++ t) /\ utf8_valid (snd p) = true)
         (descr c (expected_entry gen_flags c)).
Proof.
  intros Hu. unfold cfg_utf8, cfg_strings in Hu. cbn [forallb] in Hu.
  apply andb_true_iff in Hu as [V1 Hu]. apply andb_true_iff in Hu as [V2 Hu].
  apply andb_true_iff in Hu as [V3 Hu]. apply andb_true_iff in Hu as [V4 Hu].
  apply andb_true_iff in Hu as [V5 Hu]. apply andb_true_iff in Hu as [V6 _].
  destruct T_limit as [Lb [Lm [Lt Ls]]].
  unfold descr, expected_entry. cbn [e_brand e_model e_type e_serial].
  unfold val. rewrite Lb, Lm, Lt, Ls, now_rune. cbn [raw].
  repeat constructor; cbn [fst snd];
    first [apply shorten_length | apply shorten_prefix | (apply shorten_utf8; assumption)].
Qed.

Lemma qr_now c : parse_qr (qr gen_flags c) = Some (qr_fields gen_flags c).
Proof. apply (qr_ok gen_flags c true true now_qrargs); left; reflexivity. Qed.

Lemma monitors_hold_now c own :
  cfg_utf8 c = true -> cats_in_range c = true -> own <> c_ski c ->
  monitors gen_flags own c (read_back gen_flags own c)
           (option_map report_copy (read_back gen_flags own c)) (qr gen_flags c) = [].
Proof. apply monitors_hold; [exact now_rune|exact now_splitn|exact now_qrargs]. Qed.

Lemma example_in_scope :
  cfg_utf8 example_cfg = true /\ cats_in_range example_cfg = true /\ [57] <> c_ski example_cfg
  /\ (exists e, read_back gen_flags [57] example_cfg = Some e
                /\ e_id e = c_id example_cfg /\ length (e_brand e) = 31%nat /\ e_cats e = [2; 7])
  /\ parse_qr (qr gen_flags example_cfg)
     = Some [(b_SKI, [97; 98]); (b_ID, [105; 61; 120; 121]); ([66; 82; 65; 78; 68], repeat 97 31);
             ([84; 89; 80; 69], [58]); ([77; 79; 68; 69; 76], [109; 61; 61]); ([67; 65; 84], [50; 44; 55])].
Proof.
  split; [vm_compute; reflexivity|]. split; [vm_compute; reflexivity|]. split; [discriminate|].
  split; [eexists; split; [vm_compute; reflexivity|repeat split]|vm_compute; reflexivity].
Qed.
