(* LocksetProofs.v — C20: soundness of the lockset discipline, for all well-formed traces
   and any number of threads, and the bridge from the computed check  facts |= spec  to
   race freedom of every trace the facts explain. *)
From Ship Require Import Base Lockset.
Local Open Scope nat_scope.

(* ------------------------------------------------------------------ list plumbing *)

Lemma holdings_snoc tr e : holdings (tr ++ [e]) = step_hold (holdings tr) e.
Proof. unfold holdings. rewrite fold_left_app. reflexivity. Qed.

Lemma firstn_S_nth {A} (l : list A) k e :
  nth_error l k = Some e -> firstn (S k) l = firstn k l ++ [e].
Proof.
  revert k; induction l as [|x l IH]; intros [|k] H; simpl in *; try discriminate.
  - inversion H; reflexivity.
  - f_equal. apply IH, H.
Qed.

Lemma firstn_S_none {A} (l : list A) k :
  nth_error l k = None -> firstn (S k) l = firstn k l.
Proof.
  intros H. apply nth_error_None in H. rewrite !firstn_all2 by lia. reflexivity.
Qed.

Lemma nth_error_firstn_lt {A} (l : list A) n k :
  k < n -> nth_error (firstn n l) k = nth_error l k.
Proof.
  revert n k; induction l as [|x l IH]; intros [|n] [|k] H; simpl; try reflexivity; try lia.
  apply IH; lia.
Qed.

Lemma holdings_S tr k e :
  nth_error tr k = Some e ->
  holdings (firstn (S k) tr) = step_hold (holdings (firstn k tr)) e.
Proof. intros H. rewrite (firstn_S_nth _ _ _ H). apply holdings_snoc. Qed.

Lemma remove1_incl h x H : In x (remove1 h H) -> In x H.
Proof.
  induction H as [|y H IH]; simpl; auto.
  destruct (holding_eq_dec h y); simpl; intros; auto.
  destruct H0; auto.
Qed.

Lemma remove1_other h x H : In x H -> x <> h -> In x (remove1 h H).
Proof.
  induction H as [|y H IH]; simpl; auto.
  intros [E|I] Hne.
  - subst y. destruct (holding_eq_dec h x); [congruence | left; reflexivity].
  - destruct (holding_eq_dec h y); auto. right; auto.
Qed.

(* ------------------------------------------------------------------ well-formedness *)

Lemma wf_firstn tr k : wf tr -> wf (firstn k tr).
Proof.
  intros H; revert k; induction H as [|tr e Hwf IH Hok]; intros k.
  - rewrite firstn_nil; constructor.
  - destruct (le_lt_dec k (length tr)) as [Hle|Hgt].
    + rewrite firstn_app. replace (k - length tr) with 0 by lia.
      simpl. rewrite app_nil_r. apply IH.
    + rewrite firstn_all2 by (rewrite app_length; simpl; lia).
      constructor; assumption.
Qed.

(* every event of a well-formed trace was allowed in the state reached by its prefix *)
Lemma wf_step_at tr k e : wf tr -> nth_error tr k = Some e -> ok_step (firstn k tr) e.
Proof.
  intros H; revert k e; induction H as [|tr e0 Hwf IH Hok]; intros k e Hn.
  - destruct k; discriminate.
  - destruct (lt_eq_lt_dec k (length tr)) as [[Hlt|Heq]|Hgt].
    + rewrite nth_error_app1 in Hn by lia.
      rewrite firstn_app. replace (k - length tr) with 0 by lia.
      simpl; rewrite app_nil_r. apply IH, Hn.
    + subst k. rewrite nth_error_app2 in Hn by lia.
      rewrite Nat.sub_diag in Hn. simpl in Hn. inversion Hn; subst.
      rewrite firstn_app, Nat.sub_diag. simpl. rewrite app_nil_r, firstn_all. assumption.
    + rewrite nth_error_app2 in Hn by lia.
      destruct (k - length tr) as [|n] eqn:E; [lia|].
      simpl in Hn. destruct n; discriminate.
Qed.

(* mutual exclusion: two different threads hold the same lock only if both hold it shared *)
Definition no_conflict (H : list holding) : Prop :=
  forall t u l m1 m2, In (t, l, m1) H -> In (u, l, m2) H -> t <> u -> m1 = Shared /\ m2 = Shared.

Lemma wf_no_conflict tr : wf tr -> no_conflict (holdings tr).
Proof.
  induction 1 as [|tr e Hwf IH Hok].
  - intros t u l m1 m2 H; inversion H.
  - rewrite holdings_snoc.
    destruct e as [t0 [l0 m0|l0 m0|x|x|u0]]; simpl step_hold; try exact IH.
    + intros t u l m1 m2 [E1|I1] [E2|I2] Hne.
      * inversion E1; inversion E2; subst. congruence.
      * inversion E1; subst. destruct m1; simpl in Hok.
        -- exfalso. eapply Hok; eauto.
        -- destruct m2; [exfalso; eapply Hok; eauto | split; reflexivity].
      * inversion E2; subst. destruct m2; simpl in Hok.
        -- exfalso. eapply Hok; eauto.
        -- destruct m1; [exfalso; eapply Hok; eauto | split; reflexivity].
      * eapply IH; eauto.
    + intros t u l m1 m2 I1 I2 Hne.
      apply remove1_incl in I1. apply remove1_incl in I2. eapply IH; eauto.
Qed.

(* a holding that appears between two prefixes was acquired in between *)
Lemma acq_between tr t l m :
  forall j i, i <= j ->
    ~ In (t, l, m) (holdings (firstn i tr)) -> In (t, l, m) (holdings (firstn j tr)) ->
    exists a, i <= a /\ a < j /\ at_ tr a (t, Acq l m).
Proof.
  induction j as [|j IH]; intros i Hij Hni Hin.
  - assert (i = 0) by lia; subst; contradiction.
  - destruct (Nat.eq_dec i (S j)) as [->|Hne]; [contradiction|].
    destruct (nth_error tr j) as [e|] eqn:En.
    + rewrite (holdings_S _ _ _ En) in Hin.
      destruct (in_dec holding_eq_dec (t, l, m) (holdings (firstn j tr))) as [Hj|Hj].
      * destruct (IH i) as (a & ? & ? & ?); try lia; auto.
        exists a; repeat split; auto; lia.
      * exists j. repeat split; try lia. unfold at_.
        destruct e as [t0 [l0 m0|l0 m0|x|x|u0]]; simpl in Hin; try contradiction.
        -- destruct Hin as [E|?]; [|contradiction]. inversion E; subst. exact En.
        -- apply remove1_incl in Hin; contradiction.
    + rewrite (firstn_S_none _ _ En) in Hin.
      destruct (IH i) as (a & ? & ? & ?); try lia; auto.
      exists a; repeat split; auto; lia.
Qed.

(* a holding that disappears between two prefixes was released in between *)
Lemma rel_between tr t l m :
  forall j i, i <= j ->
    In (t, l, m) (holdings (firstn i tr)) -> ~ In (t, l, m) (holdings (firstn j tr)) ->
    exists r, i <= r /\ r < j /\ at_ tr r (t, Rel l m).
Proof.
  induction j as [|j IH]; intros i Hij Hin Hni.
  - assert (i = 0) by lia; subst; contradiction.
  - destruct (Nat.eq_dec i (S j)) as [->|Hne]; [contradiction|].
    destruct (nth_error tr j) as [e|] eqn:En.
    + rewrite (holdings_S _ _ _ En) in Hni.
      destruct (in_dec holding_eq_dec (t, l, m) (holdings (firstn j tr))) as [Hj|Hj].
      * exists j. repeat split; try lia. unfold at_.
        destruct e as [t0 [l0 m0|l0 m0|x|x|u0]]; simpl in Hni; try contradiction.
        -- exfalso. apply Hni. right; exact Hj.
        -- destruct (holding_eq_dec (t, l, m) (t0, l0, m0)) as [E|E].
           ++ inversion E; subst. exact En.
           ++ exfalso. apply Hni. apply remove1_other; assumption.
      * destruct (IH i) as (r & ? & ? & ?); try lia; auto.
        exists r; repeat split; auto; lia.
    + rewrite (firstn_S_none _ _ En) in Hni.
      destruct (IH i) as (r & ? & ? & ?); try lia; auto.
      exists r; repeat split; auto; lia.
Qed.

(* the heart of the lockset argument: if t holds l at i and another thread u holds l at
   j >= i, and the two modes exclude each other, then t released l and u acquired it in
   between, in this order *)
Lemma conflicting_holders_ordered tr i j t u l m1 m2 :
  wf tr -> i <= j ->
  held_at tr i t l m1 -> held_at tr j u l m2 -> t <> u -> (m1 = Excl \/ m2 = Excl) ->
  exists r a, i <= r /\ r < a /\ a < j /\
              at_ tr r (t, Rel l m1) /\ at_ tr a (u, Acq l m2).
Proof.
  intros Hwf Hij Hi Hj Hne Hx. unfold held_at in *.
  assert (Hnu : ~ In (u, l, m2) (holdings (firstn i tr))).
  { intros Hin.
    destruct (wf_no_conflict _ (wf_firstn tr i Hwf) t u l m1 m2 Hi Hin Hne) as [E1 E2].
    destruct Hx; congruence. }
  destruct (acq_between tr u l m2 j i Hij Hnu Hj) as (a & Hia & Haj & Ha).
  assert (Hnt : ~ In (t, l, m1) (holdings (firstn a tr))).
  { pose proof (wf_step_at tr a _ Hwf Ha) as Hok.
    destruct m2; simpl in Hok.
    - apply Hok.
    - destruct Hx as [->|E]; [apply Hok | discriminate]. }
  destruct (rel_between tr t l m1 a i Hia Hi Hnt) as (r & Hir & Hra & Hr).
  exists r, a. repeat split; assumption.
Qed.

(* ------------------------------------------------------------------ happens-before *)

Lemma hb_lt tr i j : hb tr i j -> i < j.
Proof. induction 1; lia. Qed.

(* a forked thread has no event before (or at) its fork *)
Lemma fork_fresh tr f k t u b :
  wf tr -> at_ tr f (t, Fork u) -> at_ tr k (u, b) -> f < k.
Proof.
  intros Hwf Hf Hk.
  pose proof (wf_step_at tr f _ Hwf Hf) as [Hne Hfresh]. simpl in *.
  destruct (lt_eq_lt_dec k f) as [[Hlt|Heq]|Hgt]; [| |assumption].
  - exfalso. apply (Hfresh (u, b)); [|reflexivity].
    apply nth_error_In with (n := k). rewrite nth_error_firstn_lt by assumption. exact Hk.
  - subst k. unfold at_ in *. rewrite Hf in Hk. inversion Hk; subst. congruence.
Qed.

(* threads forked (transitively) after the publication point see the object published *)
Lemma forked_after_published tr t0 p a0 u :
  wf tr -> at_ tr p (t0, a0) -> forked_after tr t0 p u ->
  forall k b, at_ tr k (u, b) -> hb tr p k.
Proof.
  intros Hwf Hp Hfa. induction Hfa as [f u Hpf Hf | v g u Hv IH Hg]; intros k b Hk.
  - pose proof (fork_fresh _ _ _ _ _ _ Hwf Hf Hk) as Hfk.
    destruct (Nat.eq_dec p f) as [->|Hne].
    + eapply hb_fork; eauto.
    + eapply hb_trans.
      * eapply hb_po with (i := p) (j := f); eauto. lia.
      * eapply hb_fork; eauto.
  - pose proof (fork_fresh _ _ _ _ _ _ Hwf Hg Hk) as Hgk.
    eapply hb_trans; [eapply IH; eauto | eapply hb_fork; eauto].
Qed.

(* publication through a lock (e.g. a registry map guarded by a mutex): the creator releases
   l at or after the publication point, a thread that acquires l later sees the object
   published *)
Lemma lock_handover_published tr t0 p a0 r l m1 u a m2 :
  at_ tr p (t0, a0) -> p <= r -> at_ tr r (t0, Rel l m1) ->
  r < a -> at_ tr a (u, Acq l m2) -> (m1 = Excl \/ m2 = Excl) ->
  forall k b, a < k -> at_ tr k (u, b) -> hb tr p k.
Proof.
  intros Hp Hpr Hr Hra Ha Hm k b Hak Hk.
  assert (Hrk : hb tr r k).
  { eapply hb_trans; [eapply hb_sw with (i := r) (j := a); eauto | eapply hb_po; eauto]. }
  destruct (Nat.eq_dec p r) as [->|Hne]; [exact Hrk|].
  eapply hb_trans; [|exact Hrk]. eapply hb_po with (i := p) (j := r); eauto. lia.
Qed.

(* ------------------------------------------------------------------ the theorem *)

(* two conflicting accesses that both follow the discipline are ordered *)
Theorem lockset_pair_ordered tr pp g i j t u a b x wi wj :
  wf tr -> pub_ok tr pp ->
  i < j -> at_ tr i (t, a) -> at_ tr j (u, b) -> t <> u ->
  acc_of a = Some (x, wi) -> acc_of b = Some (x, wj) -> (wi = true \/ wj = true) ->
  obeys pp g tr i t wi -> obeys pp g tr j u wj ->
  hb tr i j.
Proof.
  intros Hwf Hpub Hij Hi Hj Hne Ha Hb Hw Oi Oj.
  destruct Oi as [Ei | [Pi Li]]; destruct Oj as [Ej | [Pj Lj]].
  - (* both in the initialisation phase: same thread *)
    destruct pp as [[t0 p]|]; simpl in *; [|contradiction].
    destruct Ei, Ej; congruence.
  - (* initialisation, then an access after publication *)
    destruct pp as [[t0 p]|]; simpl in *; [|contradiction].
    destruct Ei as [-> Hip]. destruct Hpub as [a0 Hp].
    destruct Pj as [[E _]|Hpj]; [congruence|].
    eapply hb_trans; [|exact Hpj]. eapply hb_po; eauto.
  - (* an access after publication cannot precede one of the initialisation phase *)
    destruct pp as [[t0 p]|]; simpl in *; [|contradiction].
    destruct Ej as [-> Hjp].
    destruct Pi as [[E _]|Hpi]; [congruence|].
    apply hb_lt in Hpi. lia.
  - (* both after publication: the guard decides *)
    destruct g as [l| |o]; simpl in Li, Lj.
    + assert (exists m1 m2, held_at tr i t l m1 /\ held_at tr j u l m2 /\ (m1 = Excl \/ m2 = Excl))
        as (m1 & m2 & H1 & H2 & Hx).
      { destruct wi, wj.
        - exists Excl, Excl; auto.
        - destruct Lj as [m2 H2]. exists Excl, m2; auto.
        - destruct Li as [m1 H1]. exists m1, Excl; auto.
        - destruct Hw; discriminate. }
      destruct (conflicting_holders_ordered tr i j t u l m1 m2 Hwf (Nat.lt_le_incl _ _ Hij) H1 H2 Hne Hx)
        as (r & c & Hir & Hrc & Hcj & Hr & Hc).
      assert (i <> r).
      { intros ->. unfold at_ in *. rewrite Hi in Hr. inversion Hr; subst. discriminate. }
      eapply hb_trans; [eapply hb_po with (i := i) (j := r); eauto; lia|].
      eapply hb_trans; [eapply hb_sw with (i := r) (j := c); eauto|].
      eapply hb_po; eauto.
    + subst. destruct Hw; discriminate.
    + congruence.
Qed.

(* lockset soundness: a disciplined location has no data race, in any well-formed trace *)
Theorem lockset_sound tr x pp g :
  wf tr -> pub_ok tr pp -> disciplined tr x pp g ->
  forall i j, ~ race tr x i j.
Proof.
  intros Hwf Hpub Hd i j [Hc Hn]. apply Hn.
  destruct Hc as (t & u & a & b & wi & wj & Hij & Hi & Hj & Hne & Ha & Hb & Hw).
  eapply lockset_pair_ordered; eauto.
Qed.

(* ------------------------------------------------------------------ no slack *)

(* one access that ignores the guard is enough for a race: thread 1 writes x holding l,
   thread 0 reads x without it *)
Definition wtrace (x : loc) (l : lock) : trace :=
  [ (0%N, Fork 1%N); (1%N, Acq l Excl); (1%N, Wr x); (1%N, Rel l Excl); (0%N, Rd x) ].

Lemma wtrace_wf x l : wf (wtrace x l).
Proof.
  unfold wtrace.
  change [(0%N, Fork 1%N); (1%N, Acq l Excl); (1%N, Wr x); (1%N, Rel l Excl); (0%N, Rd x)]
    with ((((([] ++ [(0%N, Fork 1%N)]) ++ [(1%N, Acq l Excl)]) ++ [(1%N, Wr x)])
            ++ [(1%N, Rel l Excl)]) ++ [(0%N, Rd x)]).
  repeat apply wf_snoc; try apply wf_nil; simpl; auto.
  - split; [discriminate | intros e' []].
Qed.

Lemma wtrace_at x l k e :
  at_ (wtrace x l) k e ->
  (k = 0 /\ e = (0%N, Fork 1%N)) \/ (k = 1 /\ e = (1%N, Acq l Excl)) \/
  (k = 2 /\ e = (1%N, Wr x)) \/ (k = 3 /\ e = (1%N, Rel l Excl)) \/ (k = 4 /\ e = (0%N, Rd x)).
Proof.
  unfold at_, wtrace. intros H.
  destruct k as [|[|[|[|[|k]]]]]; simpl in H.
  - inversion H; auto.
  - inversion H; auto.
  - inversion H; auto 6.
  - inversion H; auto 8.
  - inversion H; auto 10.
  - destruct k; discriminate.
Qed.

Lemma wtrace_hb x l i j : hb (wtrace x l) i j -> i < j /\ (j <= 3 \/ i = 0).
Proof.
  induction 1 as [i j t a b Hij Hi Hj | i j t u l0 m1 m2 Hij Hi Hj Hm | i j t u b Hij Hi Hj | i j k H1 IH1 H2 IH2].
  - split; [assumption|].
    apply wtrace_at in Hi. apply wtrace_at in Hj.
    destruct Hi as [[-> Ei]|[[-> Ei]|[[-> Ei]|[[-> Ei]|[-> Ei]]]]];
      destruct Hj as [[-> Ej]|[[-> Ej]|[[-> Ej]|[[-> Ej]|[-> Ej]]]]];
      try lia; inversion Ei; inversion Ej; subst; try discriminate; lia.
  - exfalso.
    apply wtrace_at in Hi. apply wtrace_at in Hj.
    destruct Hi as [[-> Ei]|[[-> Ei]|[[-> Ei]|[[-> Ei]|[-> Ei]]]]]; try discriminate;
      destruct Hj as [[-> Ej]|[[-> Ej]|[[-> Ej]|[[-> Ej]|[-> Ej]]]]]; try discriminate; lia.
  - split; [assumption|].
    apply wtrace_at in Hi.
    destruct Hi as [[-> Ei]|[[-> Ei]|[[-> Ei]|[[-> Ei]|[-> Ei]]]]]; try discriminate.
    right; reflexivity.
  - destruct IH1 as [L1 D1]. destruct IH2 as [L2 D2]. split; [lia|].
    destruct D1 as [? | ->]; [|right; reflexivity].
    destruct D2 as [? | ->]; [left; assumption | lia].
Qed.

Theorem unguarded_access_races x l :
  wf (wtrace x l) /\ held_at (wtrace x l) 2 1%N l Excl /\ race (wtrace x l) x 2 4.
Proof.
  split; [apply wtrace_wf|]. split.
  - unfold held_at, wtrace. simpl. left; reflexivity.
  - split.
    + exists 1%N, 0%N, (Wr x), (Rd x), true, false. unfold at_, wtrace. simpl.
      repeat split; auto; try lia; try discriminate.
    + intros H. apply wtrace_hb in H. lia.
Qed.

(* ------------------------------------------------------------------ the hypotheses are satisfiable *)

(* thread 0 initialises location 7, forks thread 1, then both use it under lock 3
   (thread 1 in shared mode); the trace is well-formed, disciplined, hence race free *)
Definition ex_trace : trace :=
  [ (0%N, Wr 7%N); (0%N, Fork 1%N);
    (0%N, Acq 3%N Excl); (0%N, Wr 7%N); (0%N, Rel 3%N Excl);
    (1%N, Acq 3%N Shared); (1%N, Rd 7%N); (1%N, Rel 3%N Shared) ].

Lemma ex_trace_wf : wf ex_trace.
Proof.
  unfold ex_trace.
  change (wf (((((((([] ++ [(0%N, Wr 7%N)]) ++ [(0%N, Fork 1%N)]) ++ [(0%N, Acq 3%N Excl)])
              ++ [(0%N, Wr 7%N)]) ++ [(0%N, Rel 3%N Excl)]) ++ [(1%N, Acq 3%N Shared)])
              ++ [(1%N, Rd 7%N)]) ++ [(1%N, Rel 3%N Shared)])).
  repeat apply wf_snoc; try apply wf_nil; simpl; auto.
  split; [discriminate|]. intros e' [<-|[]]. discriminate.
Qed.

Example ex_trace_disciplined :
  wf ex_trace /\ pub_ok ex_trace (Some (0%N, 1)) /\
  disciplined ex_trace 7%N (Some (0%N, 1)) (GuardedBy 3%N) /\
  conflict ex_trace 7%N 3 6 /\ forall i j, ~ race ex_trace 7%N i j.
Proof.
  assert (Hd : disciplined ex_trace 7%N (Some (0%N, 1)) (GuardedBy 3%N)).
  { intros k t a w Hk Ha. unfold at_, ex_trace in Hk.
    destruct k as [|[|[|[|[|[|[|[|k]]]]]]]]; simpl in Hk;
      try (inversion Hk; subst; simpl in Ha; try discriminate; inversion Ha; subst).
    - left. simpl. split; [reflexivity | lia].
    - right. split.
      + simpl. left. split; [reflexivity | lia].
      + simpl. unfold held_at. simpl. left; reflexivity.
    - right. split.
      + simpl. right. apply hb_fork with (t := 0%N) (u := 1%N) (b := Rd 7%N); [lia | reflexivity | reflexivity].
      + simpl. exists Shared. unfold held_at. simpl. left; reflexivity.
    - destruct k; discriminate. }
  assert (Hp : pub_ok ex_trace (Some (0%N, 1))) by (simpl; eexists; unfold at_; simpl; reflexivity).
  split; [apply ex_trace_wf|]. split; [exact Hp|]. split; [exact Hd|]. split.
  - exists 0%N, 1%N, (Wr 7%N), (Rd 7%N), true, false. unfold at_. simpl.
    repeat split; auto; try lia; try discriminate.
  - apply lockset_sound with (pp := Some (0%N, 1)) (g := GuardedBy 3%N); auto using ex_trace_wf.
Qed.

(* ------------------------------------------------------------------ from facts to traces *)

Lemma str_in_true s l : str_in s l = true -> In s l.
Proof.
  unfold str_in. intros H. apply existsb_exists in H as (y & Hy & E).
  apply String.eqb_eq in E. subst; assumption.
Qed.

Section Bridge.
  Variable specs : list fspec.     (* the guard specification *)
  Variable facts : list fact.      (* the translator's access facts *)
  Variable tr : trace.             (* an execution *)
  (* how the execution relates to the source: *)
  Variable field_of : loc -> string * string.  (* the (struct, field) a memory location is an instance of *)
  Variable lock_of : loc -> string -> lock.    (* the mutex named m of the object owning the location *)
  Variable owner_of : loc -> string -> tid.    (* the one thread of class c serving that object *)
  Variable pub_of : loc -> pubpoint.           (* where that object was published *)
  Variable fn_of : nat -> string.              (* the source function performing event k *)

  Definition dyn_guard (x : loc) (g : sguard) : option guard :=
    match g with
    | SGuardedBy m => Some (GuardedBy (lock_of x m))
    | SImmutable => Some Immutable
    | SConfined c _ => Some (Confined (owner_of x c))
    | SRacy _ => None
    end.

  (* THE TRUSTED ASSUMPTION, as a hypothesis: every access of the execution is an instance
     of one of the translator's facts (same field, same kind, performed by the fact's
     function while holding at least the fact's locks); accesses the table treats as
     initialisation are made by the creating thread before the object is published, the
     others after; the functions of a thread class run on one thread per object. *)
  Definition explained : Prop :=
    forall k t a x w, at_ tr k (t, a) -> acc_of a = Some (x, w) ->
      exists f, In f facts /\
        (f_struct f, f_field f) = field_of x /\ is_write (f_rw f) = w /\ f_fn f = fn_of k /\
        (forall m md, In (m, md) (f_locks f) -> held_at tr k t (lock_of x m) md) /\
        (forall s, find_spec specs (f_struct f) (f_field f) = Some s ->
            (if is_early s f then early (pub_of x) k t else published (pub_of x) tr k t) /\
            (forall c fns, s_guard s = SConfined c fns -> str_in (f_fn f) fns = true -> t = owner_of x c)).

  (* the access at k is made by a function recorded as ignoring the guard, or the field
     has no discipline at all *)
  Definition excused (s : fspec) (k : nat) : Prop :=
    (exists c, s_guard s = SRacy c) \/ (exists c, assoc_code (fn_of k) (s_except s) = Some c).

  Lemma has_lock_held m excl ls :
    has_lock m excl ls = true ->
    exists md, In (m, md) ls /\ (excl = true -> md = Excl).
  Proof.
    unfold has_lock. intros H. apply existsb_exists in H as ([m' md] & Hin & Hc).
    simpl in Hc. apply andb_true_iff in Hc as [E Hm]. apply String.eqb_eq in E. subst m'.
    exists md. split; [assumption|]. intros ->. destruct md; [reflexivity | discriminate].
  Qed.

  Lemma fact_obeys k t x w f s :
    fact_ok specs f = true ->
    find_spec specs (f_struct f) (f_field f) = Some s ->
    is_write (f_rw f) = w -> f_fn f = fn_of k ->
    (forall m md, In (m, md) (f_locks f) -> held_at tr k t (lock_of x m) md) ->
    (if is_early s f then early (pub_of x) k t else published (pub_of x) tr k t) ->
    (forall c fns, s_guard s = SConfined c fns -> str_in (f_fn f) fns = true -> t = owner_of x c) ->
    excused s k \/ exists g, dyn_guard x (s_guard s) = Some g /\ obeys (pub_of x) g tr k t w.
  Proof.
    intros Hok Hs Hw Hfn Hlocks Hphase Hconf.
    unfold fact_ok, check_fact in Hok. rewrite Hs in Hok.
    destruct (is_early s f) eqn:He.
    { destruct (s_guard s) as [m| |c fns|code] eqn:Hg.
      - right. eexists; split; [reflexivity | left; exact Hphase].
      - right. eexists; split; [reflexivity | left; exact Hphase].
      - right. eexists; split; [reflexivity | left; exact Hphase].
      - left. left. eauto. }
    assert (Hex : late_ok (s_guard s) f = false -> (forall c, s_guard s <> SRacy c) -> excused s k).
    { intros Hl Hnr. destruct (assoc_code (f_fn f) (s_except s)) as [c|] eqn:Ha.
      - right. exists c. rewrite <- Hfn. exact Ha.
      - exfalso. destruct (s_guard s) eqn:Hg; try (rewrite Hl in Hok; simpl in Hok; discriminate).
        eapply Hnr; reflexivity. }
    destruct (late_ok (s_guard s) f) eqn:Hl.
    2:{ destruct (s_guard s) as [m| |c fns|code] eqn:Hg; try (left; apply Hex; [reflexivity | intros c0; discriminate]).
        left. left. eauto. }
    right. destruct (s_guard s) as [m| |c fns|code] eqn:Hg; simpl in Hl; try discriminate.
    - eexists; split; [reflexivity|]. right. split; [exact Hphase|]. simpl.
      apply has_lock_held in Hl as (md & Hin & Hx).
      rewrite Hw in Hx. destruct w.
      + rewrite <- (Hx eq_refl). apply Hlocks, Hin.
      + exists md. apply Hlocks, Hin.
    - eexists; split; [reflexivity|]. right. split; [exact Hphase|]. simpl.
      rewrite <- Hw. destruct (is_write (f_rw f)); [discriminate | reflexivity].
    - eexists; split; [reflexivity|]. right. split; [exact Hphase|]. simpl.
      eapply Hconf; [reflexivity | exact Hl].
  Qed.

  (* MAIN BRIDGE: if the facts respect the specification and explain the execution, two
     conflicting accesses to a location are ordered by happens-before unless one of them
     is made by a function recorded as ignoring the guard (a listed finding). *)
  Theorem facts_give_order :
    wf tr -> facts_respect_spec specs facts = true -> explained ->
    forall x s i j,
      find_spec specs (fst (field_of x)) (snd (field_of x)) = Some s ->
      pub_ok tr (pub_of x) -> conflict tr x i j ->
      hb tr i j \/ excused s i \/ excused s j.
  Proof.
    intros Hwf Hfacts Hex x s i j Hs Hpub Hc.
    destruct Hc as (t & u & a & b & wi & wj & Hij & Hi & Hj & Hne & Ha & Hb & Hw).
    destruct (Hex i t a x wi Hi Ha) as (fi & Hini & Hfi & Hwi & Hfni & Hli & Hpi).
    destruct (Hex j u b x wj Hj Hb) as (fj & Hinj & Hfj & Hwj & Hfnj & Hlj & Hpj).
    unfold facts_respect_spec in Hfacts. rewrite forallb_forall in Hfacts.
    assert (Hsi : find_spec specs (f_struct fi) (f_field fi) = Some s) by (rewrite <- Hfi in Hs; exact Hs).
    assert (Hsj : find_spec specs (f_struct fj) (f_field fj) = Some s) by (rewrite <- Hfj in Hs; exact Hs).
    destruct (Hpi s Hsi) as [Hphi Hci]. destruct (Hpj s Hsj) as [Hphj Hcj].
    destruct (fact_obeys i t x wi fi s (Hfacts _ Hini) Hsi Hwi Hfni Hli Hphi Hci) as [Ei | (gi & Hgi & Oi)];
      [right; left; exact Ei|].
    destruct (fact_obeys j u x wj fj s (Hfacts _ Hinj) Hsj Hwj Hfnj Hlj Hphj Hcj) as [Ej | (gj & Hgj & Oj)];
      [right; right; exact Ej|].
    left. rewrite Hgi in Hgj. inversion Hgj; subst gj.
    eapply lockset_pair_ordered; eauto.
  Qed.

  (* a field with a discipline and without recorded exceptions has no data race *)
  Corollary protected_field_race_free :
    wf tr -> facts_respect_spec specs facts = true -> explained ->
    forall x s,
      find_spec specs (fst (field_of x)) (snd (field_of x)) = Some s ->
      (forall c, s_guard s <> SRacy c) -> s_except s = [] ->
      pub_ok tr (pub_of x) ->
      forall i j, ~ race tr x i j.
  Proof.
    intros Hwf Hfacts Hex x s Hs Hnr Hne Hpub i j [Hc Hn].
    destruct (facts_give_order Hwf Hfacts Hex x s i j Hs Hpub Hc) as [H | [E | E]]; [exact (Hn H) | |].
    - destruct E as [[c E] | [c E]]; [exact (Hnr c E) | rewrite Hne in E; discriminate].
    - destruct E as [[c E] | [c E]]; [exact (Hnr c E) | rewrite Hne in E; discriminate].
  Qed.
End Bridge.
