(* Txt.v — model of the mDNS TXT record and QR text of mdns/mdns.go and mdns/helper.go
   (definitions only; proofs in TxtProofs.v, statements in props/C16.v).

   Byte strings are [list N].  Everything that is a table in the Go source (TXT keys and
   their order, which strings are shortened and to how many bytes, the mandatory keys, the
   txtvers value, the key every entry field is read from, separators, the QR literals and
   optional keys, and the three behaviours that were repaired: rune-boundary back-off in
   shortenString, SplitN in parseTxt, ';'-stripping of SKI/identifier in QRCodeText) is
   regenerated from the Go AST into gen/MdnsTable.v on every run.  The functions below take
   the three behaviours as a [mflags] argument so that the theorems can also say what goes
   wrong without them; [gen_flags] is what the source does now. *)
From Coq Require Import DecimalN.
From Ship Require Import Base.
From ShipGen Require Import MdnsTable.

(* ------------------------------------------------------------------ small helpers *)
Definition is_nil {A} (l : list A) : bool := match l with [] => true | _ => false end.
Definition is_some {A} (o : option A) : bool := match o with Some _ => true | None => false end.
Definition in_range (lo hi b : N) : bool := (lo <=? b) && (b <=? hi).
Definition has_byte (ch : N) (s : bytes) : bool := existsb (N.eqb ch) s.
Definition strip_byte (ch : N) (s : bytes) : bytes := filter (fun b => negb (b =? ch)) s.

Fixpoint is_prefix (p s : bytes) : bool :=
  match p, s with
  | [], _ => true
  | x :: p', y :: s' => (x =? y) && is_prefix p' s'
  | _ :: _, [] => false
  end.

(* strings.Split(s, ch): n separators give n+1 pieces, "" gives [""] *)
Fixpoint split_on (ch : N) (s : bytes) : list bytes :=
  match s with
  | [] => [[]]
  | b :: r =>
      if b =? ch then [] :: split_on ch r
      else match split_on ch r with
           | h :: t => (b :: h) :: t
           | [] => [[b]]
           end
  end.

(* cut at the first ch: strings.SplitN(s, ch, 2) when it returns two parts *)
Fixpoint split_first (ch : N) (s : bytes) : option (bytes * bytes) :=
  match s with
  | [] => None
  | b :: r =>
      if b =? ch then Some ([], r)
      else match split_first ch r with
           | Some (k, v) => Some (b :: k, v)
           | None => None
           end
  end.

Fixpoint join (ch : N) (l : list bytes) : bytes :=
  match l with
  | [] => []
  | [x] => x
  | x :: r => x ++ ch :: join ch r
  end.

Definition b_true : bytes := [116; 114; 117; 101].          (* fmt.Sprintf("%v", true) *)
Definition b_false : bytes := [102; 97; 108; 115; 101].     (* fmt.Sprintf("%v", false) *)

(* ------------------------------------------------------------------ UTF-8, RFC 3629 *)
(* states: U0 between runes; U1/U2/U3 = that many continuation bytes (80..BF) missing;
   UE0 after E0 (next A0..BF), UED after ED (next 80..9F: no surrogates),
   UF0 after F0 (next 90..BF), UF4 after F4 (next 80..8F: at most U+10FFFF) *)
Inductive ustate := U0 | U1 | U2 | U3 | UE0 | UED | UF0 | UF4.

Definition is_cont (b : N) : bool := in_range 128 191 b.

Definition ustep (s : ustate) (b : N) : option ustate :=
  match s with
  | U0 => if b <=? 127 then Some U0
          else if in_range 194 223 b then Some U1
          else if b =? 224 then Some UE0
          else if in_range 225 236 b then Some U2
          else if b =? 237 then Some UED
          else if in_range 238 239 b then Some U2
          else if b =? 240 then Some UF0
          else if in_range 241 243 b then Some U3
          else if b =? 244 then Some UF4
          else None
  | U1 => if is_cont b then Some U0 else None
  | U2 => if is_cont b then Some U1 else None
  | U3 => if is_cont b then Some U2 else None
  | UE0 => if in_range 160 191 b then Some U1 else None
  | UED => if in_range 128 159 b then Some U1 else None
  | UF0 => if in_range 144 191 b then Some U2 else None
  | UF4 => if in_range 128 143 b then Some U2 else None
  end.

Fixpoint urun (s : ustate) (l : bytes) : option ustate :=
  match l with
  | [] => Some s
  | b :: r => match ustep s b with Some s' => urun s' r | None => None end
  end.

Definition utf8_valid (l : bytes) : bool :=
  match urun U0 l with Some U0 => true | _ => false end.

(* length of the well-formed sequence at the head of l, if there is one
   (utf8.DecodeRuneInString returns size 1 and RuneError otherwise) *)
Definition rune_len (l : bytes) : option nat :=
  match l with
  | [] => None
  | b0 :: r0 =>
    match ustep U0 b0 with
    | None => None
    | Some U0 => Some 1%nat
    | Some s1 =>
      match r0 with
      | [] => None
      | b1 :: r1 =>
        match ustep s1 b1 with
        | None => None
        | Some U0 => Some 2%nat
        | Some s2 =>
          match r1 with
          | [] => None
          | b2 :: r2 =>
            match ustep s2 b2 with
            | None => None
            | Some U0 => Some 3%nat
            | Some s3 =>
              match r2 with
              | [] => None
              | b3 :: _ => match ustep s3 b3 with Some U0 => Some 4%nat | _ => None end
              end
            end
          end
        end
      end
    end
  end.

(* what a string becomes in util.DeepCopy (json.Marshal then json.Unmarshal): every byte
   that does not start a well-formed sequence is replaced by U+FFFD (EF BF BD) *)
Definition fffd : bytes := [239; 191; 189].
Fixpoint json_copy_from (skip : nat) (s : bytes) : bytes :=
  match s with
  | [] => []
  | b :: r =>
      match skip with
      | S k => b :: json_copy_from k r
      | O => match rune_len s with
             | Some (S k) => b :: json_copy_from k r
             | _ => fffd ++ json_copy_from 0 r
             end
      end
  end.
Definition json_copy (s : bytes) : bytes := json_copy_from 0 s.

(* ------------------------------------------------------------------ shortenString *)
(* for maxLen > 0 && !utf8.RuneStart(s[maxLen]) { maxLen-- } *)
Fixpoint backoff (s : bytes) (k : nat) : nat :=
  match k with
  | O => O
  | S k' => if is_cont (nth k s 0) then backoff s k' else k
  end.

Definition shorten (rune_boundary : bool) (s : bytes) (n : N) : bytes :=
  if N.of_nat (length s) <=? n then s
  else firstn (if rune_boundary then backoff s (N.to_nat n) else N.to_nat n) s.

(* ------------------------------------------------------------------ configuration *)
Record mcfg := { c_ski : bytes; c_id : bytes; c_brand : bytes; c_model : bytes; c_type : bytes;
                 c_serial : bytes; c_cats : list N; c_auto : bool }.

Record mflags := { fl_rune : bool;                    (* shortenString backs off to a rune start *)
                   fl_splitn : bool;                  (* parseTxt cuts at the first separator only *)
                   fl_qrargs : list (txt_src * bool)  (* QRCodeText's %s arguments, stripped or not *) }.
Definition gen_flags : mflags :=
  {| fl_rune := shorten_rune_boundary; fl_splitn := parse_splitn; fl_qrargs := qr_args |}.

(* decimal text of a number (fmt "%d"), through the standard library's Decimal.uint *)
Fixpoint uint_bytes (u : Decimal.uint) : bytes :=
  match u with
  | Decimal.Nil => []
  | Decimal.D0 r => 48 :: uint_bytes r | Decimal.D1 r => 49 :: uint_bytes r
  | Decimal.D2 r => 50 :: uint_bytes r | Decimal.D3 r => 51 :: uint_bytes r
  | Decimal.D4 r => 52 :: uint_bytes r | Decimal.D5 r => 53 :: uint_bytes r
  | Decimal.D6 r => 54 :: uint_bytes r | Decimal.D7 r => 55 :: uint_bytes r
  | Decimal.D8 r => 56 :: uint_bytes r | Decimal.D9 r => 57 :: uint_bytes r
  end.
Definition dec (n : N) : bytes := uint_bytes (N.to_uint n).

(* digits only; None on any other byte *)
Fixpoint bytes_uint (s : bytes) : option Decimal.uint :=
  match s with
  | [] => Some Decimal.Nil
  | b :: r =>
      match bytes_uint r with
      | None => None
      | Some u =>
          match b with
          | 48 => Some (Decimal.D0 u) | 49 => Some (Decimal.D1 u) | 50 => Some (Decimal.D2 u)
          | 51 => Some (Decimal.D3 u) | 52 => Some (Decimal.D4 u) | 53 => Some (Decimal.D5 u)
          | 54 => Some (Decimal.D6 u) | 55 => Some (Decimal.D7 u) | 56 => Some (Decimal.D8 u)
          | 57 => Some (Decimal.D9 u) | _ => None
          end
      end
  end.

(* strconv.ParseUint(item, 10, bits): non-empty, digits only, value below 2^bits *)
Definition parse_uint (bits : N) (s : bytes) : option N :=
  if is_nil s then None
  else match bytes_uint s with
       | Some u => let n := N.of_uint u in if n <? 2 ^ bits then Some n else None
       | None => None
       end.

Definition cat_str (cats : list N) : bytes := join cat_join (map dec cats).

(* the string a source denotes, before NewMDNS shortens it *)
Definition raw (c : mcfg) (s : txt_src) : bytes :=
  match s with
  | SConst v => v
  | SId => c_id c | SSki => c_ski c
  | SBrand => c_brand c | SModel => c_model c | SType => c_type c | SSerial => c_serial c
  | SRegister => if c_auto c then b_true else b_false
  | SCat => cat_str (c_cats c)
  end.

(* ... and as the manager holds it *)
Definition val (fl : mflags) (c : mcfg) (s : txt_src) : bytes :=
  match short_len_of s with
  | Some n => shorten (fl_rune fl) (raw c s) n
  | None => raw c s
  end.

(* ------------------------------------------------------------------ AnnounceMdnsEntry *)
Definition txt_item (fl : mflags) (c : mcfg) (it : bytes * txt_src * bool) : list bytes :=
  match it with
  | (k, s, cond) => let v := val fl c s in
                    if cond && is_nil v then [] else [k ++ txt_sep :: v]
  end.
Definition txt (fl : mflags) (c : mcfg) : list bytes := flat_map (txt_item fl c) txt_items.

(* ------------------------------------------------------------------ parseTxt *)
(* the Go map is an association list in insertion order; the last binding of a key wins *)
Definition elements := list (bytes * bytes).

Fixpoint lookup (k : bytes) (m : elements) : option bytes :=
  match m with
  | [] => None
  | (k', v) :: r =>
      match lookup k r with
      | Some w => Some w
      | None => if bytes_eqb k k' then Some v else None
      end
  end.

Definition parse_item (splitn : bool) (item : bytes) : option (bytes * bytes) :=
  if splitn then split_first txt_sep item
  else match split_on txt_sep item with
       | [k; v] => Some (k, v)
       | _ => None
       end.

Fixpoint parse_txt (splitn : bool) (l : list bytes) : elements :=
  match l with
  | [] => []
  | it :: r => match parse_item splitn it with
               | Some kv => kv :: parse_txt splitn r
               | None => parse_txt splitn r
               end
  end.

(* ------------------------------------------------------------------ processMdnsEntry: fields *)
Record mentry := { e_ski : bytes; e_id : bytes; e_path : bytes; e_register : bool;
                   e_brand : bytes; e_type : bytes; e_model : bytes; e_serial : bytes;
                   e_cats : list N }.

Definition get (k : bytes) (m : elements) : bytes :=
  match lookup k m with Some v => v | None => [] end.

Definition cats_of (v : bytes) : list N :=
  flat_map (fun item => match parse_uint cat_bits item with Some n => [n] | None => [] end)
           (split_on cat_split v).

(* None = the record is ignored *)
Definition entry_of_txt (own : bytes) (m : elements) : option mentry :=
  if negb (forallb (fun k => is_some (lookup k m)) mandatory_keys) then None
  else if negb (bytes_eqb (get rd_txtvers m) txtvers_value) then None
  else if bytes_eqb (get rd_ski m) own then None
  else if negb (existsb (bytes_eqb (get rd_register m)) register_values) then None
  else Some {| e_ski := get rd_ski m; e_id := get rd_id m; e_path := get rd_path m;
               e_register := bytes_eqb (get rd_register m) register_true;
               e_brand := get rd_brand m; e_type := get rd_type m; e_model := get rd_model m;
               e_serial := get rd_serial m;
               e_cats := match lookup rd_cat m with Some v => cats_of v | None => [] end |}.

(* what the property calls a valid record, in its own words (not from the tables): the five
   mandatory keys are present, txtvers is "1", the SKI is not the reader's own, register is
   "true" or "false" *)
Definition K_txtvers : bytes := [116; 120; 116; 118; 101; 114; 115].
Definition K_id : bytes := [105; 100].
Definition K_path : bytes := [112; 97; 116; 104].
Definition K_ski : bytes := [115; 107; 105].
Definition K_register : bytes := [114; 101; 103; 105; 115; 116; 101; 114].
Definition txt_valid (own : bytes) (m : elements) : bool :=
  is_some (lookup K_txtvers m) && is_some (lookup K_id m) && is_some (lookup K_path m)
  && is_some (lookup K_ski m) && is_some (lookup K_register m)
  && bytes_eqb (get K_txtvers m) [49]
  && negb (bytes_eqb (get K_ski m) own)
  && (bytes_eqb (get K_register m) b_true || bytes_eqb (get K_register m) b_false).

(* the copy handed to the report receiver (copyMdnsEntries -> util.DeepCopy -> JSON) *)
Definition report_copy (e : mentry) : mentry :=
  {| e_ski := json_copy (e_ski e); e_id := json_copy (e_id e); e_path := json_copy (e_path e);
     e_register := e_register e;
     e_brand := json_copy (e_brand e); e_type := json_copy (e_type e);
     e_model := json_copy (e_model e); e_serial := json_copy (e_serial e);
     e_cats := e_cats e |}.

(* announce on one manager, read back on a manager whose own SKI is [own] *)
Definition read_back (fl : mflags) (own : bytes) (c : mcfg) : option mentry :=
  entry_of_txt own (parse_txt (fl_splitn fl) (txt fl c)).

(* ------------------------------------------------------------------ QRCodeText *)
Definition qr_arg (fl : mflags) (c : mcfg) (a : txt_src * bool) : bytes :=
  if snd a then strip_byte qr_strip (val fl c (fst a)) else val fl c (fst a).

Definition qr_opt (fl : mflags) (c : mcfg) (o : bytes * txt_src) : bytes :=
  let v := val fl c (snd o) in
  if is_nil v then [] else fst o ++ qr_kv_sep :: strip_byte qr_strip v ++ [qr_strip].

(* fmt.Sprintf with only %s verbs: literals and arguments alternate *)
Fixpoint interleave (lits args : list bytes) : bytes :=
  match lits, args with
  | l :: lits', a :: args' => l ++ a ++ interleave lits' args'
  | l :: lits', [] => l ++ interleave lits' []
  | [], _ => []
  end.

Definition qr (fl : mflags) (c : mcfg) : bytes :=
  interleave qr_lits (map (qr_arg fl c) (fl_qrargs fl) ++ [flat_map (qr_opt fl c) qr_optionals]).

(* reference reader of "SHIP;KEY:value;…;ENDSHIP;": pieces between ';', the first is SHIP,
   the last two are ENDSHIP and the empty piece after the final ';', every piece in between
   is KEY ':' value, cut at the first ':' *)
Definition b_SHIP : bytes := [83; 72; 73; 80].
Definition b_ENDSHIP : bytes := [69; 78; 68; 83; 72; 73; 80].
Definition b_SKI : bytes := [83; 75; 73].
Definition b_ID : bytes := [73; 68].

Fixpoint kvs (l : list bytes) : option (list (bytes * bytes)) :=
  match l with
  | [] => Some []
  | p :: r => match split_first 58 p, kvs r with
              | Some kv, Some t => Some (kv :: t)
              | _, _ => None
              end
  end.

Definition parse_qr (s : bytes) : option (list (bytes * bytes)) :=
  match split_on 59 s with
  | first :: rest =>
      if bytes_eqb first b_SHIP then
        match rev rest with
        | last :: endm :: mid => if is_nil last && bytes_eqb endm b_ENDSHIP then kvs (rev mid) else None
        | _ => None
        end
      else None
  | [] => None
  end.

(* what the QR text has to say: SKI, ID, then every non-empty optional, all without ';' *)
Definition qr_fields (fl : mflags) (c : mcfg) : list (bytes * bytes) :=
  (b_SKI, strip_byte 59 (c_ski c)) :: (b_ID, strip_byte 59 (c_id c)) ::
  flat_map (fun o => let v := val fl c (snd o) in
                     if is_nil v then [] else [(fst o, strip_byte 59 v)]) qr_optionals.

(* ------------------------------------------------------------------ what the tables must satisfy *)
(* closed boolean conditions on gen/MdnsTable.v; the proofs evaluate them (vm_compute), so a
   change of the Go source that breaks one of them breaks the proofs *)
Definition key_of (it : bytes * txt_src * bool) : bytes := fst (fst it).
Definition src_of (it : bytes * txt_src * bool) : txt_src := snd (fst it).
Definition cond_of (it : bytes * txt_src * bool) : bool := snd it.
Definition item_of (k : bytes) : option (bytes * txt_src * bool) :=
  find (fun it => bytes_eqb (key_of it) k) txt_items.

Fixpoint nodupb (l : list bytes) : bool :=
  match l with [] => true | x :: r => negb (existsb (bytes_eqb x) r) && nodupb r end.

Definition src_eqb (a b : txt_src) : bool :=
  match a, b with
  | SConst x, SConst y => bytes_eqb x y
  | SId, SId | SSki, SSki | SBrand, SBrand | SModel, SModel | SType, SType
  | SSerial, SSerial | SRegister, SRegister | SCat, SCat => true
  | _, _ => false
  end.

Definition reads (k : bytes) (s : txt_src) : bool :=
  match item_of k with Some it => src_eqb (src_of it) s | None => false end.

Definition is_digit (b : N) : bool := in_range 48 57 b.

(* the limit all four descriptive fields share (0 if the table gives them different ones) *)
Definition short_limit : N :=
  match short_len_of SBrand, short_len_of SModel, short_len_of SType, short_len_of SSerial with
  | Some a, Some b, Some c, Some d => if (a =? b) && (b =? c) && (c =? d) then a else 0
  | _, _, _, _ => 0
  end.

Definition txt_table_ok : bool :=
  is_nil mdns_unknown
  && nodupb (map key_of txt_items)
  && forallb (fun it => negb (has_byte txt_sep (key_of it))) txt_items
  (* constants carry no separator; it is no digit, not the category joiner, not in true/false *)
  && forallb (fun it => match src_of it with SConst v => negb (has_byte txt_sep v) | _ => true end) txt_items
  && negb (is_digit txt_sep) && negb (txt_sep =? cat_join)
  && negb (has_byte txt_sep b_true) && negb (has_byte txt_sep b_false)
  (* every mandatory key is announced unconditionally *)
  && forallb (fun k => match item_of k with Some (_, _, false) => true | _ => false end) mandatory_keys
  (* every entry field is read from the key its value is announced under *)
  && reads rd_txtvers (SConst txtvers_value)
  && reads rd_ski SSki && reads rd_id SId && reads rd_register SRegister
  && reads rd_brand SBrand && reads rd_type SType && reads rd_model SModel && reads rd_serial SSerial
  && match item_of rd_cat with Some (_, SCat, true) => true | _ => false end
  && match item_of rd_path with Some (_, SConst _, _) => true | _ => false end
  (* SKI, identifier, register and categories are announced as given; one limit for the rest *)
  && match short_len_of SSki, short_len_of SId, short_len_of SRegister, short_len_of SCat with
     | None, None, None, None => true | _, _, _, _ => false end
  && negb (short_limit =? 0)
  && forallb (fun v => existsb (bytes_eqb v) register_values) [b_true; b_false]
  && bytes_eqb register_true b_true
  && (cat_split =? cat_join) && negb (is_digit cat_join).

Definition qr_table_ok : bool :=
  is_nil mdns_unknown
  && list_eqb bytes_eqb qr_lits
       [b_SHIP ++ 59 :: b_SKI ++ [58]; 59 :: b_ID ++ [58]; [59]; b_ENDSHIP ++ [59]]
  && (qr_strip =? 59) && (qr_kv_sep =? 58)
  && forallb (fun o => negb (has_byte 59 (fst o)) && negb (has_byte 58 (fst o))) qr_optionals
  && match short_len_of SSki, short_len_of SId with None, None => true | _, _ => false end.

(* the QR arguments are SKI then identifier, each stripped of ';' or not *)
Definition qrargs_shape (fl : mflags) (a b : bool) : Prop := fl_qrargs fl = [(SSki, a); (SId, b)].

(* the path every ship-go service announces (the constant of the "path" item) *)
Definition announced_path : bytes :=
  match item_of rd_path with
  | Some (_, SConst v, _) => v
  | _ => []
  end.

(* what a second manager is expected to read back *)
Definition expected_entry (fl : mflags) (c : mcfg) : mentry :=
  {| e_ski := c_ski c; e_id := c_id c; e_path := announced_path; e_register := c_auto c;
     e_brand := val fl c SBrand; e_type := val fl c SType; e_model := val fl c SModel;
     e_serial := val fl c SSerial; e_cats := c_cats c |}.

(* ------------------------------------------------------------------ monitors *)
(* a shortened field: at most [n] bytes, a prefix of the input, the input itself when it
   fits, and when the input is well-formed: well-formed, and at most three bytes short of the limit *)
Definition short_within (n : N) (out : bytes) : bool := N.of_nat (length out) <=? n.
Definition short_prefix (inp out : bytes) : bool := is_prefix out inp.
Definition short_keeps (n : N) (inp out : bytes) : bool :=
  if N.of_nat (length inp) <=? n then bytes_eqb inp out
  else negb (utf8_valid inp) || (n <? N.of_nat (length out) + 4).
Definition short_utf8 (inp out : bytes) : bool := negb (utf8_valid inp) || utf8_valid out.
Definition short_ok (n : N) (p : bytes * bytes) : bool :=
  short_within n (snd p) && short_prefix (fst p) (snd p) && short_keeps n (fst p) (snd p).

Definition entry_eqb (a b : mentry) : bool :=
  bytes_eqb (e_ski a) (e_ski b) && bytes_eqb (e_id a) (e_id b) && bytes_eqb (e_path a) (e_path b)
  && Bool.eqb (e_register a) (e_register b)
  && bytes_eqb (e_brand a) (e_brand b) && bytes_eqb (e_type a) (e_type b)
  && bytes_eqb (e_model a) (e_model b) && bytes_eqb (e_serial a) (e_serial b)
  && list_eqb N.eqb (e_cats a) (e_cats b).

Definition entry_strings (e : mentry) : list bytes :=
  [e_ski e; e_id e; e_path e; e_brand e; e_type e; e_model e; e_serial e].

Definition cfg_strings (c : mcfg) : list bytes :=
  [c_ski c; c_id c; c_brand c; c_model c; c_type c; c_serial c].
Definition cfg_utf8 (c : mcfg) : bool := forallb utf8_valid (cfg_strings c).
Definition cats_in_range (c : mcfg) : bool := forallb (fun n => n <? 2 ^ cat_bits) (c_cats c).

(* the four descriptive fields: (input, what the entry carries) *)
Definition descr (c : mcfg) (e : mentry) : list (bytes * bytes) :=
  [(c_brand c, e_brand e); (c_model c, e_model e); (c_type c, e_type e); (c_serial c, e_serial e)].

(* round-trip monitor on an entry read back for configuration c; codes:
   10/11 no entry (a mandatory value contains the separator / anything else)
   12/13 SKI, id, path or register differ (value contains the separator / else)
   14    a descriptive field is lost or cut short and its input contains the separator
   15    a descriptive field is not well-formed UTF-8 although the input is (cut inside a rune)
   16    a descriptive field is longer than the limit, not a prefix, or needlessly short
   17/18 categories differ (some category is not below 2^cat_bits / else) *)
Definition mon_entry (n : N) (c : mcfg) (oe : option mentry) : codes :=
  match oe with
  | None => if has_byte txt_sep (c_id c) || has_byte txt_sep (c_ski c) then [10] else [11]
  | Some e =>
      (if bytes_eqb (e_ski e) (c_ski c) && bytes_eqb (e_id e) (c_id c)
          && bytes_eqb (e_path e) announced_path && Bool.eqb (e_register e) (c_auto c) then []
       else if has_byte txt_sep (c_id c) || has_byte txt_sep (c_ski c) then [12] else [13]) ++
      (match filter (fun p => negb (short_ok n p)) (descr c e) with
       | [] => []
       | bad => if forallb (fun p => has_byte txt_sep (fst p)) bad then [14] else [16]
       end) ++
      (if forallb (fun p => short_utf8 (fst p) (snd p)) (descr c e) then [] else [15]) ++
      (if list_eqb N.eqb (e_cats e) (c_cats c) then []
       else if cats_in_range c then [18] else [17])
  end.

(* the reported copy equals the stored entry whenever the stored strings are well-formed *)
Definition mon_report (oe orep : option mentry) : codes :=
  match oe, orep with
  | Some e, Some r => if negb (forallb utf8_valid (entry_strings e)) || entry_eqb e r then [] else [21]
  | None, None => []
  | _, _ => [21]
  end.

(* 19/20 the QR text does not read back as SKI, ID and the non-empty optionals
   (SKI or identifier contains ';' / anything else) *)
Definition kv_eqb (a b : bytes * bytes) : bool := bytes_eqb (fst a) (fst b) && bytes_eqb (snd a) (snd b).
Definition mon_qr (want : list (bytes * bytes)) (c : mcfg) (q : bytes) : codes :=
  if option_eqb (list_eqb kv_eqb) (parse_qr q) (Some want) then []
  else if has_byte 59 (c_ski c) || has_byte 59 (c_id c) then [19] else [20].

(* what QR has to say, from the entry-independent inputs only: the optionals' values are
   the shortened fields, so the monitor takes them from the model's [val] under gen_flags;
   the shortening itself is monitored by mon_entry *)
Definition monitors (fl : mflags) (own : bytes) (c : mcfg) (oe orep : option mentry) (q : bytes) : codes :=
  (if bytes_eqb own (c_ski c) then [] else mon_entry short_limit c oe ++ mon_report oe orep) ++
  mon_qr (qr_fields fl c) c q.

(* ------------------------------------------------------------------ cases from the driver *)
(* impl map (sorted by key, keys unique) against the model's association list *)
Definition map_equiv (model impl : elements) : bool :=
  forallb (fun kv => option_eqb bytes_eqb (lookup (fst kv) model) (Some (snd kv))) impl
  && forallb (fun kv => is_some (lookup (fst kv) impl)) model.

Inductive c16_case :=
  (* configuration -> announce -> TXT slice -> parseTxt -> second manager (own SKI) ->
     stored entry, reported copy; QRCodeText *)
  | KCfg (c : mcfg) (own : bytes) (t : list bytes) (m : elements) (e r : option mentry) (q : bytes)
  (* arbitrary TXT slice -> parseTxt -> manager (own SKI) -> stored entry, reported copy *)
  | KTxt (own : bytes) (t : list bytes) (m : elements) (e r : option mentry)
  (* shortenString(s, n) for arbitrary n *)
  | KShort (s : bytes) (n : N) (o : bytes).

Definition oentry_eqb := option_eqb entry_eqb.

Definition check_c16 (k : c16_case) : codes :=
  let fl := gen_flags in
  match k with
  | KCfg c own t m e r q =>
      let mt := txt fl c in
      let mm := parse_txt (fl_splitn fl) mt in
      let me := entry_of_txt own mm in
      (if list_eqb bytes_eqb mt t && map_equiv mm m && oentry_eqb me e
          && oentry_eqb (option_map report_copy me) r && bytes_eqb (qr fl c) q
       then [] else [1]) ++
      monitors fl own c e r q
  | KTxt own t m e r =>
      let mm := parse_txt (fl_splitn fl) t in
      let me := entry_of_txt own mm in
      if map_equiv mm m && oentry_eqb me e && oentry_eqb (option_map report_copy me) r
      then [] else [1]
  | KShort s n o =>
      (if bytes_eqb (shorten (fl_rune fl) s n) o then [] else [1]) ++
      (if short_utf8 s o then [] else [15]) ++
      (if short_ok n (s, o) then [] else [16])
  end.
