(* ConnExplicit04.v — C04 without the monitor: on every run of the model the reported states, up
   to the first terminal outcome (or the report of the connection's end), walk the SHIP state
   graph from state 0, and after a terminal outcome only terminal states are reported.
   Derived from ConnLift.conn_monitors_hold. *)
From Ship Require Import Base Closure Conn ConnEvents ConnData ConnMon ConnClosure ConnLift ConnCor.
From RecordUpdate Require Import RecordUpdate.
Import RecordSetNotations.

Fixpoint walk (r : role) (last : N) (tr : list cobs) : bool :=
  match tr with
  | [] => true
  | BReport s _ :: tr' =>
      (N.eqb s last || edge_ok r last s) && (if terminal_state s then true else walk r s tr')
  | BClosedCb _ :: _ => true
  | _ :: tr' => walk r last tr'
  end.

(* once [term] holds (a terminal state was reported or the end was reported), every further
   reported state that differs from the previous one is terminal *)
Fixpoint settled (last : N) (term : bool) (tr : list cobs) : bool :=
  match tr with
  | [] => true
  | BReport s _ :: tr' =>
      (N.eqb s last || negb term || terminal_state s) && settled s (term || terminal_state s) tr'
  | BClosedCb _ :: tr' => settled last true tr'
  | _ :: tr' => settled last term tr'
  end.

Lemma flag_role c b m : m_role (flag c b m) = m_role m. Proof. destruct b; reflexivity. Qed.
Lemma flag_last c b m : m_last (flag c b m) = m_last m. Proof. destruct b; reflexivity. Qed.
Lemma flag_term c b m : m_term (flag c b m) = m_term m. Proof. destruct b; reflexivity. Qed.

Ltac keep_tac :=
  repeat first
    [ reflexivity
    | rewrite flag_role | rewrite flag_last | rewrite flag_term
    | progress (cbn -[flag N.add N.eqb])
    | match goal with |- context [if ?b then _ else _] => destruct b end
    | match goal with |- context [match ?b with _ => _ end] => destruct b end ].

Definition keeps (m m' : ms) : Prop :=
  m_role m' = m_role m /\ m_last m' = m_last m /\ m_term m' = m_term m.

Lemma mev_keeps m e : keeps m (mev m e).
Proof. unfold keeps, mev. destruct e; cbn -[N.eqb]; (split; [|split]); keep_tac. Qed.

Definition rep_or_cb (o : cobs) : bool :=
  match o with BReport _ _ | BClosedCb _ => true | _ => false end.

Lemma mstep_keeps m o : rep_or_cb o = false -> keeps m (mstep m o).
Proof.
  intros H. unfold keeps.
  destruct o; try discriminate H; cbn [mstep];
    try apply mev_keeps;
    (split; [|split]); keep_tac.
Qed.

Lemma mstep_report m s x :
  m_role (mstep m (BReport s x)) = m_role m /\
  m_last (mstep m (BReport s x)) = s /\
  m_term (mstep m (BReport s x)) = (m_term m || terminal_state s).
Proof.
  cbn [mstep]. cbv zeta.
  repeat split; destruct (N.eqb s (m_last _)); cbn -[flag terminal_state]; rewrite ?flag_role, ?flag_last, ?flag_term; reflexivity.
Qed.

Lemma mstep_cb m b :
  m_role (mstep m (BClosedCb b)) = m_role m /\
  m_last (mstep m (BClosedCb b)) = m_last m /\
  m_term (mstep m (BClosedCb b)) = true.
Proof.
  cbn [mstep]. cbv zeta. repeat split; cbn -[flag]; rewrite ?flag_role, ?flag_last; reflexivity.
Qed.

(* a report that leaves the graph, or makes progress after a terminal outcome, is flagged *)
Lemma report_flags m s x :
  N.eqb s (m_last m) = false ->
  (edge_ok (m_role m) (m_last m) s || m_term m) = false ->
  N.testbit (m_viol (mstep m (BReport s x))) V_BAD_EDGE = true.
Proof.
  intros E1 E2. cbn [mstep]. cbv zeta.
  rewrite ?flag_last, ?flag_role, ?flag_term. rewrite E1.
  cbn -[flag]. rewrite ?flag_last, ?flag_role, ?flag_term. rewrite E2.
  rewrite flag_bit. rewrite flag_bit. cbn. rewrite orb_true_r. reflexivity.
Qed.

Lemma report_flags_term m s x :
  N.eqb s (m_last m) = false ->
  (negb (m_term m) || terminal_state s) = false ->
  N.testbit (m_viol (mstep m (BReport s x))) V_PROGRESS_AFTER_TERMINAL = true.
Proof.
  intros E1 E2. cbn [mstep]. cbv zeta.
  rewrite ?flag_last, ?flag_role, ?flag_term. rewrite E1.
  cbn -[flag]. rewrite ?flag_last, ?flag_role, ?flag_term. rewrite E2.
  rewrite flag_bit. cbn. rewrite orb_true_r. reflexivity.
Qed.

Lemma clean_walk tr : forall m,
  m_term m = false -> m_viol (mon_run m tr) = 0 -> walk (m_role m) (m_last m) tr = true.
Proof.
  induction tr as [|o tr IH]; intros m Ht Hz; [reflexivity|].
  cbn [mon_run fold_left] in Hz.
  destruct (rep_or_cb o) eqn:R.
  - destruct o; try discriminate R; cbn [walk]; [|reflexivity].
    destruct (mstep_report m s e) as (Hr & Hl & Hm).
    apply andb_true_intro. split.
    + destruct (N.eqb s (m_last m)) eqn:E1; [reflexivity|]. cbn [orb].
      destruct (edge_ok (m_role m) (m_last m) s) eqn:E2; [reflexivity|]. exfalso.
      assert (B := report_flags m s e E1 ltac:(rewrite E2, Ht; reflexivity)).
      pose proof (mon_run_mono tr _ _ B) as K. unfold mon_run in K.
      rewrite (zero_no_bit _ _ Hz) in K. discriminate.
    + destruct (terminal_state s) eqn:T; [reflexivity|].
      specialize (IH (mstep m (BReport s e))). rewrite Hr, Hl, Hm, Ht in IH.
      exact (IH eq_refl Hz).
  - destruct (mstep_keeps m o R) as (Hr & Hl & Hm).
    specialize (IH (mstep m o)). rewrite Hr, Hl, Hm in IH. specialize (IH Ht Hz).
    destruct o; try discriminate R; exact IH.
Qed.

Lemma clean_settled tr : forall m,
  m_viol (mon_run m tr) = 0 -> settled (m_last m) (m_term m) tr = true.
Proof.
  induction tr as [|o tr IH]; intros m Hz; [reflexivity|].
  cbn [mon_run fold_left] in Hz.
  destruct (rep_or_cb o) eqn:R.
  - destruct o; try discriminate R; cbn [settled].
    + destruct (mstep_report m s e) as (Hr & Hl & Hm).
      apply andb_true_intro. split.
      * destruct (N.eqb s (m_last m)) eqn:E1; [reflexivity|]. cbn [orb].
        destruct (negb (m_term m) || terminal_state s) eqn:E2; [reflexivity|]. exfalso.
        assert (B := report_flags_term m s e E1 E2).
        pose proof (mon_run_mono tr _ _ B) as K. unfold mon_run in K.
        rewrite (zero_no_bit _ _ Hz) in K. discriminate.
      * specialize (IH (mstep m (BReport s e))). rewrite Hl, Hm in IH. exact (IH Hz).
    + destruct (mstep_cb m completed) as (Hr & Hl & Hm).
      specialize (IH (mstep m (BClosedCb completed))). rewrite Hl, Hm in IH. exact (IH Hz).
  - destruct (mstep_keeps m o R) as (Hr & Hl & Hm).
    specialize (IH (mstep m o)). rewrite Hl, Hm in IH. specialize (IH Hz).
    destruct o; try discriminate R; exact IH.
Qed.

Theorem reported_states_walk_the_graph r stored local es :
  walk r 0 (model_trace r stored local es) = true.
Proof.
  exact (clean_walk (model_trace r stored local es) (init_ms r (negb (is_nil stored)))
           eq_refl (conn_monitors_hold r stored local es)).
Qed.

Theorem only_terminal_states_after_a_terminal_outcome r stored local es :
  settled 0 false (model_trace r stored local es) = true.
Proof.
  exact (clean_settled (model_trace r stored local es) (init_ms r (negb (is_nil stored)))
           (conn_monitors_hold r stored local es)).
Qed.

(* the reading is not vacuous: a report off the graph is rejected *)
Example walk_rejects : walk Server 0 [BReport 4 false; BReport 6 false] = false.
Proof. reflexivity. Qed.
Example walk_accepts : walk Server 0 [BReport 4 false; BReport 5 false; BReport 6 false] = true.
Proof. reflexivity. Qed.
