(* Pair.v — a client-role and a server-role connection (the control model of Conn.v, the very
   same cstep) joined by two FIFO channels.  Definitions only.

   Labels: deliver the oldest frame in either direction, user approve / cancel on the server
   side, handshake timer expiry on either side, the deferred goroutines of either side.
   A CloseDataConnection by one side travels to the peer behind the frames already in
   flight and arrives there as a transport error (ReportConnectionError).

   `decode_as` is the model's statement of what a frame written by ship-go looks like to
   each decoder of the receiving side; the harness checks it frame by frame against the
   views it computes from the real bytes (harness/cmd/shipdrv -prop pair). *)
From Coq Require Import FMapPositive.
From Ship Require Import Base Closure Conn ConnEvents ConnMon ConnClosure.

Inductive wire := WMsg (m : smsg) | WClosed.
Inductive idcfg := IdUnknown | IdRight | IdWrong.   (* what a side has stored as the peer's SHIP id *)

(* what frame m looks like to the decoder of a state of kind k (encoding/json ignores
   unknown members, so a frame of another phase decodes to the zero value, not an error) *)
Definition decode_as (k : skind) (id : idcfg) (m : smsg) : msg :=
  match k with
  | KInit => MInit (match m with SInit => InitOk | _ => InitBadType end)
  | KHello =>
      MHello (match m with
              | SInit => HelloErr
              | SHelloReady => Hello HReady WGe30 PNone
              | SHelloPending => Hello HPending WGe30 PNone
              | SHelloProlong => Hello HPending WNone PTrue
              | SHelloAborted => Hello HAborted WNone PNone
              | _ => Hello HOther WNone PNone
              end)
  | KProt =>
      MProt (match m with
             | SInit => ProtErr
             | SProtAnnounce => Prot PAnnounce true FUtf8
             | SProtSelect => Prot PSelect true FUtf8
             | _ => Prot POtherT false FNil
             end)
  | KPin => MPin (match m with SInit => PinErr | SPin => PinNone | _ => PinOther end)
  | KAcc =>
      MAcc (match m with
            | SAccReq => AccReq
            | SAcc => match id with IdWrong => AccId false false | _ => AccId true false end
            | _ => AccNeither
            end)
  | KNone => MGarbage
  end.

Definition recv_ev (c : pcs) (id : idcfg) (m : smsg) : cev :=
  match m with
  | SData => CRecv DgOk NoClose MGarbage
  | SCloseAnnounce => CRecv NotDatagram ClAnnounce MGarbage
  | SCloseConfirm => CRecv NotDatagram ClConfirm MGarbage
  | _ => CRecv NotDatagram NoClose (decode_as (skind_of (p_st c)) id m)
  end.

Record pcfg := mkCfg {
  f_paired : bool; f_auto : bool; f_allow : bool;    (* the server side's trust configuration *)
  f_approves : bool; f_cancels : bool;                (* what the user will do while it is pending *)
  f_cid : idcfg; f_sid : idcfg                        (* client's / server's stored id of the peer *)
}.

Record pcore := mkCore {
  e_c : pcs; e_s : pcs;
  u_done : bool;                 (* the user has acted (approved or cancelled) *)
  u_trusted : bool;              (* the hub's trusted flag for the client's SKI *)
  n_csetup : N; n_ssetup : N;    (* SetupRemoteDevice calls per side, saturating at 2 *)
  c_complete : bool; s_complete : bool;   (* Complete was reported *)
  c_idrep : bool; s_idrep : bool;         (* the peer's SHIP id was reported *)
  s_peer_ready : bool;                    (* the server has received the client's hello "ready" while pending *)
  cancelled : bool                        (* the user cancelled while the server's hello phase was waiting *)
}.
Record pair := mkPair { core : pcore; q_cs : list wire; q_sc : list wire }.

Inductive label := LDeliverCS | LDeliverSC | LApprove | LCancel
                 | LTimeoutC | LTimeoutS | LDeferredC | LDeferredS.

Definition all_labels : list label :=
  [LDeliverCS; LDeliverSC; LApprove; LCancel; LTimeoutC; LTimeoutS; LDeferredC; LDeferredS].

(* frames written successfully, and a transport close, in order *)
Fixpoint sent_of (l : list cobs) : list wire :=
  match l with
  | [] => []
  | BWrite m true :: r => WMsg m :: sent_of r
  | BCloseData _ :: r => WClosed :: sent_of r
  | _ :: r => sent_of r
  end.

Definition count_of (f : cobs -> bool) (l : list cobs) : N := N.of_nat (length (filter f l)).
Definition is_complete_report o := match o with BReport 38 _ => true | _ => false end.
Definition is_hello_ok_report o := match o with BReport 13 _ => true | _ => false end.
Definition is_shipid o := match o with BShipId => true | _ => false end.
Definition not_close (x : wire) : bool := match x with WClosed => false | _ => true end.

(* only the first transport close of a side travels *)
Definition outgoing (already_closed : bool) (l : list cobs) : list wire :=
  if already_closed then filter not_close (sent_of l) else sent_of l.

(* a transport error means the peer closed first: nothing travels back *)
Definition is_connerr (e : cev) : bool := match e with CConnErr => true | _ => false end.

(* one endpoint processes one control event; the environment's answers come from the
   configuration and the hub's trusted flag *)
Definition estep (cfg : pcfg) (trusted : bool) (c : pcs) (e : cev) : pcs * list cobs :=
  let '(c', l) := cstep (to_cs c)
                    (mkEv e (f_paired cfg || trusted) (f_auto cfg) (f_allow cfg || trusted) None) in
  (of_cs c', l).

(* the client processes e *)
Definition client_ev (cfg : pcfg) (p : pair) (e : cev) : pair :=
  let k := core p in
  let '(c', l) := estep cfg true (e_c k) e in
  mkPair (mkCore c' (e_s k) (u_done k) (u_trusted k)
                 (sat2 (n_csetup k + count_of is_setup l)) (n_ssetup k)
                 (c_complete k || has is_complete_report l) (s_complete k)
                 (c_idrep k || has is_shipid l) (s_idrep k) (s_peer_ready k) (cancelled k))
         (q_cs p ++ outgoing (p_wclosed (e_c k) || is_connerr e) l) (q_sc p).

(* the server processes e; trusted / done are the hub's trusted flag and the user-acted flag
   as they are when the event is handled *)
Definition server_ev (cfg : pcfg) (p : pair) (trusted done : bool) (e : cev) : pair :=
  let k := core p in
  let '(s', l) := estep cfg trusted (e_s k) e in
  mkPair (mkCore (e_c k) s' done (trusted || has is_hello_ok_report l)
                 (n_csetup k) (sat2 (n_ssetup k + count_of is_setup l))
                 (c_complete k) (s_complete k || has is_complete_report l)
                 (c_idrep k) (s_idrep k || has is_shipid l)
                 (s_peer_ready k || (N.eqb (p_st (e_s k)) 11 &&
                    match e with CRecv NotDatagram NoClose (MHello (Hello HReady _ _)) => true | _ => false end))
                 (cancelled k || (match e with CAbort => N.eqb (p_st (e_s k)) 8 || N.eqb (p_st (e_s k)) 11 | _ => false end)))
         (q_cs p) (q_sc p ++ outgoing (p_wclosed (e_s k) || is_connerr e) l).

(* strict = the user only approves once the server has seen the client's hello "ready"
   (or before the server started waiting): see the finding recorded for C03 *)
Definition approve_ok (k : pcore) : bool := negb (N.eqb (p_st (e_s k)) 11) || s_peer_ready k.

Definition pstep2 (strict : bool) (cfg : pcfg) (p : pair) (lb : label) : option pair :=
  let k := core p in
  match lb with
  | LDeliverCS =>
      match q_cs p with
      | [] => None
      | w :: r =>
          let p := mkPair k r (q_sc p) in
          if p_wclosed (e_s k) then Some p          (* the receiving side has closed: dropped *)
          else match w with
               | WClosed => Some (server_ev cfg p (u_trusted k) (u_done k) CConnErr)
               | WMsg m => Some (server_ev cfg p (u_trusted k) (u_done k) (recv_ev (e_s k) (f_sid cfg) m))
               end
      end
  | LDeliverSC =>
      match q_sc p with
      | [] => None
      | w :: r =>
          let p := mkPair k (q_cs p) r in
          if p_wclosed (e_c k) then Some p
          else match w with
               | WClosed => Some (client_ev cfg p CConnErr)
               | WMsg m => Some (client_ev cfg p (recv_ev (e_c k) (f_cid cfg) m))
               end
      end
  | LApprove =>
      (* RegisterRemoteSKI: the hub trusts the SKI from now on and approves a pending request *)
      if f_approves cfg && negb (u_done k) && (negb strict || approve_ok k)
      then Some (server_ev cfg p true true CApprove) else None
  | LCancel =>
      (* CancelPairingWithSKI: abort the pending handshake, trust withdrawn *)
      if f_cancels cfg && negb (u_done k) then
        let p' := server_ev cfg p false true CAbort in
        let k' := core p' in
        Some (mkPair (mkCore (e_c k') (e_s k') true false (n_csetup k') (n_ssetup k')
                             (c_complete k') (s_complete k') (c_idrep k') (s_idrep k') (s_peer_ready k') (cancelled k'))
                     (q_cs p') (q_sc p'))
      else None
  | LTimeoutC => if p_armed (e_c k) then Some (client_ev cfg p CTimeout) else None
  | LTimeoutS => if p_armed (e_s k) then Some (server_ev cfg p (u_trusted k) (u_done k) CTimeout) else None
  | LDeferredC => if p_d500 (e_c k) || p_d1000 (e_c k) then Some (client_ev cfg p CDeferred) else None
  | LDeferredS => if p_d500 (e_s k) || p_d1000 (e_s k)
                  then Some (server_ev cfg p (u_trusted k) (u_done k) CDeferred) else None
  end.

(* timely mode: a timer only expires when nothing else can happen, and the user (if the
   configuration says there is one who will approve or cancel) acts before any timer runs
   out - the prolongation exchange keeps the request pending for as long as that takes *)
Definition internal_labels : list label := [LDeliverCS; LDeliverSC; LDeferredC; LDeferredS].
Definition is_timeout (l : label) : bool := match l with LTimeoutC | LTimeoutS => true | _ => false end.
Definition enabled (strict : bool) (cfg : pcfg) (p : pair) (l : label) : bool :=
  match pstep2 strict cfg p l with Some _ => true | None => false end.
Definition busy (strict : bool) (cfg : pcfg) (p : pair) : bool :=
  existsb (enabled strict cfg p) internal_labels
  (* a user who will act does so before any timer runs out *)
  || ((f_approves cfg || f_cancels cfg) && negb (u_done (core p))).

Definition timely_next (strict : bool) (cfg : pcfg) (p : pair) : list pair :=
  flat_map (fun l =>
    if is_timeout l && busy strict cfg p then []
    else match pstep2 strict cfg p l with Some p' => [p'] | None => [] end) all_labels.

(* both sides have called Run() *)
Definition idk_of (x : idcfg) : bool := match x with IdUnknown => false | _ => true end.
Definition pair_init (cfg : pcfg) : pair :=
  let '(c0, lc) := estep cfg true (of_cs (init_cs Client (idk_of (f_cid cfg)))) CRun in
  let '(s0, ls) := estep cfg false (of_cs (init_cs Server (idk_of (f_sid cfg)))) CRun in
  mkPair (mkCore c0 s0 false false 0 0 false false false false false false) (sent_of lc) (sent_of ls).

(* ---- verified equality and hash for the closure ---- *)
Scheme Equality for wire.
Scheme Equality for pcore.

Definition pair_eqb (a b : pair) : bool :=
  pcore_beq (core a) (core b) && list_eqb wire_beq (q_cs a) (q_cs b) && list_eqb wire_beq (q_sc a) (q_sc b).

Definition wire_code (w : wire) : N :=
  match w with
  | WClosed => 1
  | WMsg m => match m with
              | SInit => 2 | SHelloReady => 3 | SHelloPending => 4 | SHelloProlong => 5
              | SHelloAborted => 6 | SProtAnnounce => 7 | SProtSelect => 8 | SProtErr n => 9 + (n mod 4)
              | SPin => 13 | SAccReq => 14 | SAcc => 15 | SData => 16 | SCloseAnnounce => 17
              | SCloseConfirm => 18 | SUnknown => 19
              end
  end.
Definition queue_code (q : list wire) : N := fold_left (fun acc w => acc * 32 + wire_code w) q 1.

Definition pcs_code (c : pcs) : N :=
  p_st c + 64 * (bN (p_armed c) + 2 * (bN (p_reader c) + 2 * (bN (p_once c) + 2 * (bN (p_wclosed c)
         + 2 * (bN (p_d500 c) + 2 * (bN (p_d1000 c) + 2 * (p_tty c))))))).

Definition pair_hash (p : pair) : positive :=
  let k := core p in
  N.succ_pos (pcs_code (e_c k) + 32768 * (pcs_code (e_s k) + 32768 *
     (bN (u_done k) + 2 * (bN (u_trusted k) + 2 * (bN (s_peer_ready k) + 2 * (bN (cancelled k) + 2 * (n_csetup k + 4 * (n_ssetup k + 4 *
     (queue_code (q_cs p) mod 1048576 + 1048576 * (queue_code (q_sc p) mod 1048576)))))))))).

(* ---- what the harness observes of a pair after every label ---- *)
Record psum := mkSum {
  o_stc : N; o_sts : N; o_closedc : bool; o_closeds : bool; o_armedc : bool; o_armeds : bool;
  o_nsetc : N; o_nsets : N; o_compc : bool; o_comps : bool; o_idrepc : bool; o_idreps : bool;
  o_qcs : list N; o_qsc : list N }.

Definition sum_of (p : pair) : psum :=
  let k := core p in
  mkSum (p_st (e_c k)) (p_st (e_s k)) (p_wclosed (e_c k)) (p_wclosed (e_s k))
        (p_armed (e_c k)) (p_armed (e_s k))
        (n_csetup k) (n_ssetup k) (c_complete k) (s_complete k) (c_idrep k) (s_idrep k)
        (map wire_code (q_cs p)) (map wire_code (q_sc p)).

Definition psum_eqb (a b : psum) : bool :=
  N.eqb (o_stc a) (o_stc b) && N.eqb (o_sts a) (o_sts b)
  && Bool.eqb (o_closedc a) (o_closedc b) && Bool.eqb (o_closeds a) (o_closeds b)
  && Bool.eqb (o_armedc a) (o_armedc b) && Bool.eqb (o_armeds a) (o_armeds b)
  && N.eqb (o_nsetc a) (o_nsetc b) && N.eqb (o_nsets a) (o_nsets b)
  && Bool.eqb (o_compc a) (o_compc b) && Bool.eqb (o_comps a) (o_comps b)
  && Bool.eqb (o_idrepc a) (o_idrepc b) && Bool.eqb (o_idreps a) (o_idreps b)
  && list_eqb N.eqb (o_qcs a) (o_qcs b) && list_eqb N.eqb (o_qsc a) (o_qsc b).

(* outcomes, read off the observable summary *)
Definition sum_both_complete_open (o : psum) : bool :=
  N.eqb (o_stc o) 38 && N.eqb (o_sts o) 38 && negb (o_closedc o) && negb (o_closeds o)
  && N.eqb (o_nsetc o) 1 && N.eqb (o_nsets o) 1
  && match o_qcs o, o_qsc o with [], [] => true | _, _ => false end.
Definition sum_both_ended (o : psum) : bool :=
  o_closedc o && o_closeds o && terminal_state (o_stc o) && terminal_state (o_sts o)
  && negb (o_armedc o) && negb (o_armeds o).
