(* HubConvProofs.v — C05: proofs about HubConv.v.
   (a) Go's string order on SKI byte strings is a strict total order and the double-connection
       rule makes both hubs keep the connection initiated by the larger SKI;
   (b) certified closures (Closure.v) of the two-hub model with a ranking certificate:
       the repaired code, and the pinned code under the atomicity hypothesis; witnesses
       refuting convergence of the pinned code;
   (c) registry facts. *)
From Coq Require Import FMapPositive.
From Ship Require Import Base Closure HubConv.

(* ---------------------------------------------------------------- (a) *)
Lemma blt_irrefl a : blt a a = false.
Proof. induction a as [|x a IH]; simpl; [reflexivity|]. rewrite N.ltb_irrefl, N.eqb_refl. exact IH. Qed.

Lemma blt_asym a : forall b, blt a b = true -> blt b a = false.
Proof.
  induction a as [|x a IH]; intros [|y b] H; simpl in *; try discriminate; try reflexivity.
  destruct (N.ltb_spec x y) as [L|L].
  - destruct (N.ltb_spec y x) as [L2|L2]; [lia|]. destruct (N.eqb_spec y x) as [E|E]; [lia|reflexivity].
  - destruct (N.eqb_spec x y) as [E|E]; [|discriminate]. subst y.
    rewrite N.ltb_irrefl, N.eqb_refl. apply IH. exact H.
Qed.

Lemma blt_trans a : forall b c, blt a b = true -> blt b c = true -> blt a c = true.
Proof.
  induction a as [|x a IH]; intros [|y b] [|z c] H1 H2; simpl in *; try discriminate; try reflexivity.
  destruct (N.ltb_spec x y) as [L1|L1].
  - destruct (N.ltb_spec y z) as [L2|L2].
    + destruct (N.ltb_spec x z) as [L3|L3]; [reflexivity|lia].
    + destruct (N.eqb_spec y z) as [E|E]; [|discriminate]. subst z.
      destruct (N.ltb_spec x y) as [L3|L3]; [reflexivity|lia].
  - destruct (N.eqb_spec x y) as [E|E]; [|discriminate]. subst y.
    destruct (N.ltb_spec x z) as [L2|L2]; [reflexivity|].
    destruct (N.eqb_spec x z) as [E2|E2]; [|discriminate]. eapply IH; eassumption.
Qed.

Lemma blt_total a : forall b, a <> b -> blt a b = true \/ blt b a = true.
Proof.
  induction a as [|x a IH]; intros [|y b] H; simpl.
  - exfalso. apply H. reflexivity.
  - left. reflexivity.
  - right. reflexivity.
  - destruct (N.ltb_spec x y) as [L|L]; [left; reflexivity|].
    destruct (N.eqb_spec x y) as [E|E].
    + subst y. rewrite N.ltb_irrefl, N.eqb_refl. apply IH. intros E. apply H. subst. reflexivity.
    + right. destruct (N.ltb_spec y x) as [L2|L2]; [reflexivity|lia].
Qed.

Lemma bgt_cases x y : x <> y ->
  (bgt x y = true /\ bgt y x = false) \/ (bgt x y = false /\ bgt y x = true).
Proof.
  intros H. unfold bgt. destruct (blt_total x y H) as [L|L].
  - right. split; [apply blt_asym; exact L|exact L].
  - left. split; [exact L|apply blt_asym; exact L].
Qed.

(* both hubs keep the connection initiated by the larger SKI, whatever order each saw them in *)
Lemma rule_agreement x y (ox oy : bool) : x <> y ->
  hub_x_keeps_cx x y ox = bgt x y /\ hub_y_keeps_cx x y oy = bgt x y.
Proof.
  intros H. unfold hub_x_keeps_cx, hub_y_keeps_cx, keep_new.
  destruct (bgt_cases x y H) as [[A B]|[A B]]; rewrite A, B; destruct ox, oy; split; reflexivity.
Qed.

(* keepThisConnection itself: with a registered connection the new one is kept iff it was
   initiated by the hub with the larger SKI *)
Lemma keep_new_initiator local remote incoming : local <> remote ->
  keep_new incoming local remote = bgt (if incoming then remote else local) (if incoming then local else remote).
Proof. intros _. destruct incoming; reflexivity. Qed.

(* ---------------------------------------------------------------- (b) *)
Lemma st_beq_eq a b : st_beq a b = true -> a = b.
Proof. apply internal_st_dec_bl. Qed.

Definition table (c : cfg) : Closure.table st := fst (explore st_beq st_hash (next c) 200 init).

(* rank of a state = length of the longest quiet path from it, computed by an unverified
   memoising depth-first search; only its strict decrease along quiet steps is checked *)
Definition rtable := PositiveMap.t nat.
Definition rank_of (t : rtable) (s : st) : nat :=
  match PositiveMap.find (st_hash s) t with Some n => n | None => O end.
Fixpoint rk_dfs (c : cfg) (fuel : nat) (s : st) (t : rtable) : rtable :=
  match fuel with
  | O => t
  | S f =>
      match PositiveMap.find (st_hash s) t with
      | Some _ => t
      | None =>
          let succ := quiet c s in
          let t1 := fold_left (fun acc s' => rk_dfs c f s' acc) succ t in
          let r := match succ with
                   | [] => O
                   | _ => S (fold_left Nat.max (map (rank_of t1) succ) O)
                   end in
          PositiveMap.add (st_hash s) r t1
      end
  end.
Definition rank_table (c : cfg) (tb : Closure.table st) : rtable :=
  fold_left (fun acc s => rk_dfs c 400 s acc) (members tb) (PositiveMap.empty nat).
Definition rank (c : cfg) : st -> nat := let t := rank_table c (table c) in fun s => rank_of t s.

Definition goal (s : st) : bool := implb (both_visible s) (converged s).
Definition final_goal (c : cfg) (s : st) : bool := match quiet c s with [] => goal s | _ => true end.

Definition cert (c : cfg) : bool :=
  mem st_beq st_hash init (table c)
  && closed_check st_beq st_hash (next c) (table c)
  && forallb reg_inv (members (table c))
  && rank_check (quiet c) (rank c) (table c)
  && forallb (final_goal c) (members (table c)).

Lemma cert_parts c : cert c = true ->
  mem st_beq st_hash init (table c) = true
  /\ closed_check st_beq st_hash (next c) (table c) = true
  /\ forallb reg_inv (members (table c)) = true
  /\ rank_check (quiet c) (rank c) (table c) = true
  /\ forallb (final_goal c) (members (table c)) = true.
Proof.
  unfold cert.
  generalize (mem st_beq st_hash init (table c)).
  generalize (closed_check st_beq st_hash (next c) (table c)).
  generalize (forallb reg_inv (members (table c))).
  generalize (rank_check (quiet c) (rank c) (table c)).
  generalize (forallb (final_goal c) (members (table c))).
  intros a b d e f H. destruct a, b, d, e, f; try discriminate. repeat split.
Qed.

Lemma cert_repaired : cert cfg_repaired = true.
Proof. vm_compute. reflexivity. Qed.

Lemma cert_atomic : cert cfg_atomic = true.
Proof. vm_compute. reflexivity. Qed.

Lemma quiet_sub_next c s s' : In s' (quiet c s) -> In s' (next c s).
Proof. intros H. unfold next. apply in_or_app. left. exact H. Qed.

Section Certified.
  Variable c : cfg.
  Hypothesis C : cert c = true.

  Lemma registry_invariant s : reach (next c) init s -> reg_inv s = true.
  Proof.
    destruct (cert_parts c C) as [H1 [H2 [H3 _]]].
    exact (invariant_by_closure st st_beq st_beq_eq st_hash (next c) init (table c) reg_inv H1 H2 H3 s).
  Qed.

  Lemma quiet_runs_finite s : reach (next c) init s -> Acc (fun b a => In b (quiet c a)) s.
  Proof.
    destruct (cert_parts c C) as [H1 [H2 [_ [H4 _]]]].
    exact (quiet_terminates st st_beq st_beq_eq st_hash (next c) (quiet c) (rank c) init (table c)
             H1 H2 H4 (quiet_sub_next c) s).
  Qed.

  Lemma quiet_runs_converge s : reach (next c) init s ->
    (exists s', quiet_run (quiet c) s s') /\ (forall s', quiet_run (quiet c) s s' -> goal s' = true).
  Proof.
    destruct (cert_parts c C) as [H1 [H2 [_ [H4 H5]]]].
    exact (quiet_run_ends_good st st_beq st_beq_eq st_hash (next c) (quiet c) (rank c) init (table c) goal
             H1 H2 H4 (quiet_sub_next c) H5 s).
  Qed.
End Certified.

Definition conv_statement (c : cfg) : Prop :=
  forall s, reach (next c) init s ->
    reg_inv s = true
    /\ Acc (fun b a => In b (quiet c a)) s
    /\ (exists s', quiet_run (quiet c) s s')
    /\ (forall s', quiet_run (quiet c) s s' -> both_visible s' = true -> converged s' = true).

Lemma conv_of_cert c : cert c = true -> conv_statement c.
Proof.
  intros C s R. split; [exact (registry_invariant c C s R)|].
  split; [exact (quiet_runs_finite c C s R)|].
  destruct (quiet_runs_converge c C s R) as [E G]. split; [exact E|].
  intros s' Q V. specialize (G s' Q). unfold goal in G. rewrite V in G. exact G.
Qed.

Lemma conv_repaired : conv_statement cfg_repaired.
Proof. exact (conv_of_cert cfg_repaired cert_repaired). Qed.

Lemma conv_atomic : conv_statement cfg_atomic.
Proof. exact (conv_of_cert cfg_atomic cert_atomic). Qed.

(* ---- schedules are runs ---- *)
Lemma run_reach c ls : forall s q, run c s ls = Some q ->
  forall i, reach (next c) i s -> reach (next c) i q.
Proof.
  induction ls as [|l ls IH]; intros s q H i R; simpl in H.
  - inversion H; subst. exact R.
  - destruct (step c s l) as [s'|] eqn:S; [|discriminate].
    destruct (existsb (st_beq (norm s')) (next c s)) eqn:E; [|discriminate].
    apply (IH (norm s') q H i). eapply reach_step; [exact R|].
    apply existsb_exists in E as [x [Hin Heq]]. apply st_beq_eq in Heq. subst x. exact Hin.
Qed.

(* a quiescent state that violates the property, classified by the monitor *)
Definition violates (c : cfg) (ls : list label) (code : N) : bool :=
  match run c init ls with
  | Some s =>
      match quiet c s with [] => true | _ => false end
      && both_visible s && negb (converged s)
      && list_eqb N.eqb (qobs_codes true (obs_of s)) [code]
  | None => false
  end.

Lemma violates_witness c ls code : violates c ls code = true ->
  exists s, reach (next c) init s /\ quiet c s = [] /\ both_visible s = true
            /\ converged s = false /\ qobs_codes true (obs_of s) = [code].
Proof.
  unfold violates. destruct (run c init ls) as [s|] eqn:E; [|discriminate].
  intros H. exists s.
  apply andb_true_iff in H as [H H4]. apply andb_true_iff in H as [H H3].
  apply andb_true_iff in H as [H1 H2].
  split; [apply (run_reach c ls init s E); apply reach_init|].
  split; [destruct (quiet c s); [reflexivity|discriminate]|].
  split; [exact H2|]. split; [apply negb_true_iff; exact H3|].
  revert H4. generalize (qobs_codes true (obs_of s)). intros l H4.
  destruct l as [|x [|y l]]; simpl in H4; try discriminate.
  - rewrite andb_true_r in H4. apply N.eqb_eq in H4. subst x. reflexivity.
  - apply andb_true_iff in H4 as [_ H4]. discriminate.
Qed.

(* both hubs become visible to each other, both dial at the same moment; at both hubs both
   connections pass keepThisConnection before either is registered; all four registrations
   happen: two live connections, each hub's application has set the peer up twice *)
Definition sched_double : list label :=
  [EVisible HA; TReport HA; EVisible HB; TReport HB; TFireBoth;
   TCheck HA 1; TCheck HA 2; TCheck HB 1; TCheck HB 2;
   TRegister HA 1; TRegister HA 2; TRegister HB 1; TRegister HB 2].
Lemma double_true : violates cfg_pinned sched_double 10 = true.
Proof. vm_compute. reflexivity. Qed.
Lemma double_refuted :
  exists s, reach (next cfg_pinned) init s /\ quiet cfg_pinned s = [] /\ both_visible s = true
            /\ converged s = false /\ qobs_codes true (obs_of s) = [10].
Proof. exact (violates_witness _ _ _ double_true). Qed.

(* the same start; hub A registers its own connection and rejects B's; B's side of the rejected
   connection notices the close BEFORE its registerConnection ran (HandleConnectionClosed finds
   another object registered and removes nothing); then registerConnection stores the closed
   connection over the good one: B's registry holds a dead connection for ever, the live
   connection is unregistered at B, B never dials again *)
Definition sched_zombie : list label :=
  [EVisible HA; TReport HA; EVisible HB; TReport HB; TFireBoth;
   TCheck HA 1; TRegister HA 1; TCheck HA 2; TCheck HB 1; TCheck HB 2; TRegister HB 1;
   TClose HB 2 false; TRegister HB 2].
Lemma zombie_true : violates cfg_pinned sched_zombie 12 = true.
Proof. vm_compute. reflexivity. Qed.
Lemma zombie_refuted :
  exists s, reach (next cfg_pinned) init s /\ quiet cfg_pinned s = [] /\ both_visible s = true
            /\ converged s = false /\ qobs_codes true (obs_of s) = [12].
Proof. exact (violates_witness _ _ _ zombie_true). Qed.

(* a connection is closed (DisconnectSKI) while on both hubs a delayed dial attempt is still
   pending: HandleConnectionClosed removes the attempt counter and requests the mDNS entries,
   the report is ignored because an attempt is "running", the pending attempts find their
   counter gone and give up: no connection, and nothing left that would dial *)
Definition sched_stuck : list label :=
  [EVisible HA; TReport HA; EVisible HB; TReport HB; TFireBoth;
   TCheck HA 1; TCheck HA 2; TRegister HA 2; TCheck HB 2; TRegister HB 2; TCheck HB 1;
   TClose HB 2 false; TClose HA 2 false; TReport HA; TRegister HA 2; TReport HB; TRegister HB 2;
   EDisconnect HA; TClose HA 2 true; TReport HA; TClose HB 2 true; TReport HB; TFireBoth].
Lemma stuck_true : violates cfg_pinned sched_stuck 11 = true.
Proof. vm_compute. reflexivity. Qed.
Lemma stuck_refuted :
  exists s, reach (next cfg_pinned) init s /\ quiet cfg_pinned s = [] /\ both_visible s = true
            /\ converged s = false /\ qobs_codes true (obs_of s) = [11].
Proof. exact (violates_witness _ _ _ stuck_true). Qed.

(* the hypotheses of the convergence theorems are satisfiable, and the ordinary run converges:
   A sees B, dials, both sides register *)
Definition sched_plain : list label :=
  [EVisible HA; TReport HA; EVisible HB; TReport HB; TFire HA false;
   TCheck HA 2; TRegister HA 2; TCheck HB 2; TRegister HB 2; TFire HB false].
Lemma plain_converges :
  exists s, run cfg_repaired init sched_plain = Some s /\ quiet cfg_repaired s = []
            /\ both_visible s = true /\ converged s = true /\ qobs_good (obs_of s) = true.
Proof.
  assert (H : match run cfg_repaired init sched_plain with
              | Some s => match quiet cfg_repaired s with [] => true | _ => false end
                          && both_visible s && converged s && qobs_good (obs_of s)
              | None => false end = true) by (vm_compute; reflexivity).
  destruct (run cfg_repaired init sched_plain) as [s|]; [|discriminate].
  exists s. apply andb_true_iff in H as [H H4]. apply andb_true_iff in H as [H H3].
  apply andb_true_iff in H as [H1 H2].
  split; [reflexivity|]. split; [destruct (quiet cfg_repaired s); [reflexivity|discriminate]|].
  repeat split; assumption.
Qed.

(* (c) the registry step of HandleConnectionClosed as the unit tie drives it: closing an
   object that is not the registered one leaves the registered one in place, closing the
   registered one empties the entry; never more than one entry *)
Lemma reg_model_identity (second : bool) (closed : N) :
  (closed <> (if second then 2 else 1) -> reg_model second closed = (1, if second then 2 else 1))
  /\ (closed = (if second then 2 else 1) -> reg_model second closed = (0, 0))
  /\ (fst (reg_model second closed) <= 1).
Proof.
  unfold reg_model. destruct (N.eqb_spec closed (if second then 2 else 1)) as [E|E].
  - repeat split; intros; try congruence. cbn. lia.
  - repeat split; intros; try congruence. cbn. lia.
Qed.
