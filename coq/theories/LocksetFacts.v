(* LocksetFacts.v — C20: the computed obligation  facts |= spec  for the access facts
   regenerated from the Go source (coq/gen/Access.v), and the instantiation of the bridge
   theorems with ship-go's table and facts. *)
From Ship Require Import Base Lockset LocksetProofs LocksetSpec.
From ShipGen Require Import Access.
Local Open Scope nat_scope.

(* the translator ran, typed every selector, every field is specified, and every access
   fact is either an initialisation, obeys its guard, or is a recorded finding *)
Lemma access_facts_respect_spec :
  static_check guard_spec access_extract_ok access_unresolved access_fields access_facts = true.
Proof. vm_compute. reflexivity. Qed.

Lemma access_facts_ok : facts_respect_spec guard_spec access_facts = true.
Proof.
  pose proof access_facts_respect_spec as H. unfold static_check in H.
  apply andb_true_iff in H as [_ H]. exact H.
Qed.

(* for every execution the facts explain: conflicting accesses to a field are ordered by
   happens-before unless one of them is a recorded finding *)
Lemma shipgo_races_only_at_findings
      tr field_of lock_of owner_of pub_of fn_of :
  wf tr ->
  explained guard_spec access_facts tr field_of lock_of owner_of pub_of fn_of ->
  forall x s i j,
    find_spec guard_spec (fst (field_of x)) (snd (field_of x)) = Some s ->
    pub_ok tr (pub_of x) -> conflict tr x i j ->
    hb tr i j \/ excused fn_of s i \/ excused fn_of s j.
Proof.
  intros Hwf Hex.
  exact (facts_give_order guard_spec access_facts tr field_of lock_of owner_of pub_of fn_of
                          Hwf access_facts_ok Hex).
Qed.

(* ... and a field with a discipline and no recorded exception has no data race at all *)
Lemma shipgo_protected_fields_race_free
      tr field_of lock_of owner_of pub_of fn_of :
  wf tr ->
  explained guard_spec access_facts tr field_of lock_of owner_of pub_of fn_of ->
  forall x s,
    find_spec guard_spec (fst (field_of x)) (snd (field_of x)) = Some s ->
    (forall c, s_guard s <> SRacy c) -> s_except s = [] ->
    pub_ok tr (pub_of x) ->
    forall i j, ~ race tr x i j.
Proof.
  intros Hwf Hex.
  exact (protected_field_race_free guard_spec access_facts tr field_of lock_of owner_of pub_of fn_of
                                   Hwf access_facts_ok Hex).
Qed.

(* how much of the table is unconditionally protected *)
Definition protected_spec (s : fspec) : bool :=
  match s_guard s, s_except s with
  | SRacy _, _ => false
  | _, [] => true
  | _, _ => false
  end.

(* summary numbers printed into the evidence by checks/C20.py *)
Definition c20_summary : (nat * nat * nat * nat) :=
  (length guard_spec, length (filter protected_spec guard_spec), length access_facts,
   length (filter (fact_clean guard_spec) access_facts)).

(* finding codes of the table that no fact exhibits any more (stale findings) *)
Definition c20_stale_codes : list N :=
  filter (fun c => negb (code_used guard_spec access_facts c)) finding_codes.
