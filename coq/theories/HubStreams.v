(* HubStreams.v — projections of the hub-model case stream (HubModel.check_c10) for the
   properties whose hub-level half is decided on it: codes are renumbered (+100) so that they
   cannot collide with the connection-level codes of the same property.  Definitions only. *)
From Ship Require Import Base HubModel.

Definition hub_project (keep : list N) (c : c10_case) : codes :=
  flat_map (fun k => if N.eqb k 1 then [1]
                     else if existsb (N.eqb k) keep then [k + 100] else [])
           (check_c10 c).

(* C11: the close report removes the identical object only; the disconnect notification is
   delivered for every reported end *)
Definition check_hub_C11 := hub_project [15; 16].
(* C01: trusted only by registration or exactly hello-ok; dial only for trusted/queued SKIs and
   never to a SKI the user unregistered or cancelled; unregister / cancel leave the SKI untrusted
   and unqueued and end its connection *)
Definition check_hub_C01 := hub_project [10; 12; 13; 14; 17; 20].
(* C09: created connections get the stored SHIP id *)
Definition check_hub_C09 := hub_project [18].

(* C17, the hub's part: every mDNS report the hub receives is passed on to the application
   as a visible-services list with one entry per reported service (connected or not) *)
Definition visible_ok (g : list (label * list obs)) : bool :=
  forallb (fun lo =>
    match fst lo with
    | LReport ks => existsb (fun o => match o with OVisible n => N.eqb n (N.of_nat (length ks)) | _ => false end) (snd lo)
    | _ => true
    end) g.

Definition check_hub_C17 (c : c10_case) : codes :=
  hub_project [] c ++
  (if forallb (fun s => visible_ok (st_group s)) (cc_steps c) then [] else [130]).
