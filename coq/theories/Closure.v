(* Closure.v — kernel-checked inductive invariants for finite-state transition systems.

   A table of states (PositiveMap of buckets, equality decided by a verified test, so a
   hash collision can cost time but never soundness) is produced by an unverified
   breadth-first search run with vm_compute.  The kernel then checks three boolean facts:
   the initial state is in the table, every successor of every member is a member, and
   the property holds of every member.  Theorem invariant_by_closure turns these into
   the property for EVERY reachable state — reachability is the usual inductive
   definition over unboundedly many steps; no depth bound appears anywhere.

   Termination of internal ("quiet") steps is proved from a ranking certificate the same
   way (rank strictly decreases along every quiet step between members). *)
From Coq Require Import List Bool Arith PArith NArith FMapPositive Lia Wf_nat.
Import ListNotations.

Section Closure.
  Variable S : Type.
  Variable eqb : S -> S -> bool.
  Hypothesis eqb_eq : forall a b, eqb a b = true -> a = b.
  Variable hash : S -> positive.
  Variable next : S -> list S.

  Definition table := PositiveMap.t (list S).

  Definition mem (s : S) (t : table) : bool :=
    match PositiveMap.find (hash s) t with
    | Some l => existsb (eqb s) l
    | None => false
    end.

  Definition insert (s : S) (t : table) : table :=
    match PositiveMap.find (hash s) t with
    | Some l => PositiveMap.add (hash s) (s :: l) t
    | None => PositiveMap.add (hash s) [s] t
    end.

  Definition members (t : table) : list S :=
    flat_map snd (PositiveMap.elements t).

  Definition closed_check (t : table) : bool :=
    forallb (fun s => forallb (fun s' => mem s' t) (next s)) (members t).

  (* unverified search: fuel-bounded BFS; its result is only ever *checked* *)
  Fixpoint bfs (fuel : nat) (frontier : list S) (t : table) : table * bool :=
    match fuel with
    | O => (t, match frontier with [] => true | _ => false end)
    | Datatypes.S f =>
        match frontier with
        | [] => (t, true)
        | _ =>
            let step := fold_left
              (fun (acc : list S * table) s =>
                 fold_left (fun (acc : list S * table) s' =>
                              let '(fr, t) := acc in
                              if mem s' t then acc else (s' :: fr, insert s' t))
                           (next s) acc)
              frontier ([], t) in
            bfs f (fst step) (snd step)
        end
    end.

  Definition explore (fuel : nat) (init : S) : table * bool :=
    bfs fuel [init] (insert init (PositiveMap.empty _)).

  Inductive reach (init : S) : S -> Prop :=
  | reach_init : reach init init
  | reach_step s s' : reach init s -> In s' (next s) -> reach init s'.

  Lemma mem_members s t : mem s t = true -> In s (members t).
  Proof.
    unfold mem, members. destruct (PositiveMap.find (hash s) t) as [l|] eqn:F; [|discriminate].
    intros H. apply existsb_exists in H as [x [Hin Heq]]. apply eqb_eq in Heq. subst x.
    apply in_flat_map. exists (hash s, l). split; [|exact Hin].
    apply PositiveMap.elements_correct. exact F.
  Qed.

  Theorem invariant_by_closure (init : S) (t : table) (P : S -> bool) :
    mem init t = true -> closed_check t = true -> forallb P (members t) = true ->
    forall s, reach init s -> P s = true.
  Proof.
    intros Hi Hc Hp.
    assert (Hin : forall s, reach init s -> In s (members t)).
    { intros s R. induction R as [|s s' R IH Hs].
      - apply mem_members. exact Hi.
      - unfold closed_check in Hc. rewrite forallb_forall in Hc.
        specialize (Hc s IH). rewrite forallb_forall in Hc.
        apply mem_members. apply Hc. exact Hs. }
    intros s R. rewrite forallb_forall in Hp. apply Hp. apply Hin. exact R.
  Qed.

  Corollary members_by_closure (init : S) (t : table) :
    mem init t = true -> closed_check t = true ->
    forall s, reach init s -> In s (members t).
  Proof.
    intros Hi Hc s R. induction R as [|s s' R IH Hs].
    - apply mem_members. exact Hi.
    - unfold closed_check in Hc. rewrite forallb_forall in Hc.
      specialize (Hc s IH). rewrite forallb_forall in Hc.
      apply mem_members. apply Hc. exact Hs.
  Qed.

  (* ---- termination of quiet steps by a ranking certificate ---- *)
  Variable quiet : S -> list S.              (* internal steps, a subset of next *)
  Variable rank : S -> nat.

  Definition rank_check (t : table) : bool :=
    forallb (fun s => forallb (fun s' => Nat.ltb (rank s') (rank s)) (quiet s)) (members t).

  Inductive quiet_run : S -> S -> Prop :=
  | qr_done s : quiet s = [] -> quiet_run s s
  | qr_step s s' s'' : In s' (quiet s) -> quiet_run s' s'' -> quiet_run s s''.

  (* every quiet path from a member is finite: the relation "is a quiet successor of" is
     well-founded on members *)
  Theorem quiet_terminates (init : S) (t : table) :
    mem init t = true -> closed_check t = true -> rank_check t = true ->
    (forall s s', In s' (quiet s) -> In s' (next s)) ->
    forall s, reach init s -> Acc (fun b a => In b (quiet a)) s.
  Proof.
    intros Hi Hc Hr Hsub.
    assert (Hmem := members_by_closure init t Hi Hc).
    assert (forall n s, reach init s -> rank s < n -> Acc (fun b a => In b (quiet a)) s) as K.
    { induction n as [|n IH]; intros s R Hlt; [lia|].
      constructor. intros s' Hs'.
      apply IH.
      - eapply reach_step; [exact R|]. apply Hsub. exact Hs'.
      - unfold rank_check in Hr. rewrite forallb_forall in Hr.
        specialize (Hr s (Hmem s R)). rewrite forallb_forall in Hr.
        specialize (Hr s' Hs'). apply Nat.ltb_lt in Hr. lia. }
    intros s R. apply (K (Datatypes.S (rank s)) s R). lia.
  Qed.

  (* ... and ends in a state without quiet successor, where the goal predicate holds *)
  Theorem quiet_run_ends_good (init : S) (t : table) (G : S -> bool) :
    mem init t = true -> closed_check t = true -> rank_check t = true ->
    (forall s s', In s' (quiet s) -> In s' (next s)) ->
    forallb (fun s => match quiet s with [] => G s | _ => true end) (members t) = true ->
    forall s, reach init s ->
      (exists s', quiet_run s s') /\ (forall s', quiet_run s s' -> G s' = true).
  Proof.
    intros Hi Hc Hr Hsub Hg s R.
    assert (Hmem := members_by_closure init t Hi Hc).
    split.
    - pose proof (quiet_terminates init t Hi Hc Hr Hsub s R) as A.
      induction A as [s _ IH].
      destruct (quiet s) as [|s1 rest] eqn:Q.
      + exists s. constructor. exact Q.
      + assert (In s1 (quiet s)) as H1 by (rewrite Q; left; reflexivity).
        assert (In s1 (s1 :: rest)) as H1' by (left; reflexivity).
        destruct (IH s1 H1') as [s' Hs'].
        { eapply reach_step; [exact R|]. apply Hsub. exact H1. }
        exists s'. econstructor; eauto.
    - intros s' Q. induction Q as [s Q0 | s s1 s2 H1 Q IH].
      + rewrite forallb_forall in Hg. specialize (Hg s (Hmem s R)). rewrite Q0 in Hg. exact Hg.
      + apply IH. eapply reach_step; [exact R|]. apply Hsub. exact H1.
  Qed.
End Closure.

Arguments mem {S} eqb hash s t.
Arguments insert {S} hash s t.
Arguments members {S} t.
Arguments closed_check {S} eqb hash next t.
Arguments explore {S} eqb hash next fuel init.
Arguments reach {S} next init _.
Arguments rank_check {S} quiet rank t.
Arguments quiet_run {S} quiet _ _.
