(* Pack.v — compact literals for harness-emitted byte strings: (up [w1; w2; …]) where every
   primitive 63-bit word holds a leading 01 byte followed by up to six bytes of the string.
   Elaborating these is an order of magnitude cheaper than the hex string literals of
   Base.hx; the words are only ever decoded by vm_compute in case files, no theorem
   mentions them. *)
From Coq Require Import Uint63.
From Ship Require Import Base.

Definition byte_of (i : int) : N :=
  (if Uint63.eqb (Uint63.land i 1) 0 then 0 else 1) + (if Uint63.eqb (Uint63.land i 2) 0 then 0 else 2) +
  (if Uint63.eqb (Uint63.land i 4) 0 then 0 else 4) + (if Uint63.eqb (Uint63.land i 8) 0 then 0 else 8) +
  (if Uint63.eqb (Uint63.land i 16) 0 then 0 else 16) + (if Uint63.eqb (Uint63.land i 32) 0 then 0 else 32) +
  (if Uint63.eqb (Uint63.land i 64) 0 then 0 else 64) + (if Uint63.eqb (Uint63.land i 128) 0 then 0 else 128).

Fixpoint unpack_word (fuel : nat) (i : int) (acc : bytes) : bytes :=
  match fuel with
  | O => acc
  | S f => if Uint63.leb i 1 then acc else unpack_word f (Uint63.lsr i 8) (byte_of i :: acc)
  end.

Definition up (l : list int) : bytes := flat_map (fun i => unpack_word 7 i []) l.
Arguments up l%uint63_scope.
