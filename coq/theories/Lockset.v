(* Lockset.v — C20, definitions only.

   Part 1: a small trace semantics of threads, mutexes (exclusive and shared mode, for
   sync.Mutex and sync.RWMutex), memory accesses and fork; happens-before; data race;
   the locking discipline ("every access after publication holds the guard / is a read /
   is made by the owning thread; accesses before publication are made by the creating
   thread").

   Part 2: the static side: access facts as emitted by harness/cmd/extract (one per
   field access of the Go source: struct, field, read|write, enclosing function, must-
   lockset, "the object may already have escaped in this function"), the shape of a
   guard specification, and the computable check  facts |= spec  (check_fact), which is
   also the monitor evaluated by bin/check on every fact.

   The soundness proofs are in LocksetProofs.v, the hand-written table for ship-go in
   LocksetSpec.v. *)
From Ship Require Import Base.
Local Open Scope nat_scope.

(* ------------------------------------------------------------------ Part 1: traces *)

Definition tid := N.
Definition lock := N.
Definition loc := N.

Inductive mode := Excl | Shared.

Inductive ev :=
| Acq (l : lock) (m : mode)     (* Lock / RLock returns *)
| Rel (l : lock) (m : mode)     (* Unlock / RUnlock *)
| Rd (x : loc)
| Wr (x : loc)
| Fork (u : tid).               (* go statement starting thread u *)

Definition event := (tid * ev)%type.
Definition trace := list event.

(* who holds which lock in which mode after a prefix of the trace *)
Definition holding := (tid * lock * mode)%type.

Definition mode_eq_dec (a b : mode) : {a = b} + {a <> b}.
Proof. decide equality. Defined.

Definition holding_eq_dec (a b : holding) : {a = b} + {a <> b}.
Proof. repeat decide equality. Defined.

Fixpoint remove1 (h : holding) (H : list holding) : list holding :=
  match H with
  | [] => []
  | h' :: r => if holding_eq_dec h h' then r else h' :: remove1 h r
  end.

Definition step_hold (H : list holding) (e : event) : list holding :=
  match e with
  | (t, Acq l m) => (t, l, m) :: H
  | (t, Rel l m) => remove1 (t, l, m) H
  | _ => H
  end.

Definition holdings (tr : trace) : list holding := fold_left step_hold tr [].

(* what the runtime allows as the next event after the prefix pre:
   - an exclusive acquire only when nobody holds the lock,
   - a shared acquire only when nobody holds it exclusively,
   - a release only by a holder (in that mode),
   - a fork only of a thread that has not run yet. *)
Definition ok_step (pre : trace) (e : event) : Prop :=
  match e with
  | (_, Acq l Excl) => forall t' m', ~ In (t', l, m') (holdings pre)
  | (_, Acq l Shared) => forall t', ~ In (t', l, Excl) (holdings pre)
  | (t, Rel l m) => In (t, l, m) (holdings pre)
  | (t, Fork u) => u <> t /\ forall e', In e' pre -> fst e' <> u
  | _ => True
  end.

(* well-formed traces: built event by event, any number of threads *)
Inductive wf : trace -> Prop :=
| wf_nil : wf []
| wf_snoc tr e : wf tr -> ok_step tr e -> wf (tr ++ [e]).

Definition at_ (tr : trace) (k : nat) (e : event) : Prop := nth_error tr k = Some e.

(* happens-before: program order, release -> later acquire of the same lock (unless both
   are shared), fork -> events of the child; transitive.  These are the edges the Go
   memory model guarantees for go statements, sync.Mutex and sync.RWMutex. *)
Inductive hb (tr : trace) : nat -> nat -> Prop :=
| hb_po i j t a b :
    i < j -> at_ tr i (t, a) -> at_ tr j (t, b) -> hb tr i j
| hb_sw i j t u l m1 m2 :
    i < j -> at_ tr i (t, Rel l m1) -> at_ tr j (u, Acq l m2) ->
    (m1 = Excl \/ m2 = Excl) -> hb tr i j
| hb_fork i j t u b :
    i < j -> at_ tr i (t, Fork u) -> at_ tr j (u, b) -> hb tr i j
| hb_trans i j k : hb tr i j -> hb tr j k -> hb tr i k.

(* memory accesses: location and "is a write" *)
Definition acc_of (e : ev) : option (loc * bool) :=
  match e with
  | Rd x => Some (x, false)
  | Wr x => Some (x, true)
  | _ => None
  end.

(* two accesses of different threads to the same location, at least one a write *)
Definition conflict (tr : trace) (x : loc) (i j : nat) : Prop :=
  exists t u a b wi wj,
    i < j /\ at_ tr i (t, a) /\ at_ tr j (u, b) /\ t <> u /\
    acc_of a = Some (x, wi) /\ acc_of b = Some (x, wj) /\ (wi = true \/ wj = true).

(* a data race: a conflict not ordered by happens-before (hb only relates i < j) *)
Definition race (tr : trace) (x : loc) (i j : nat) : Prop :=
  conflict tr x i j /\ ~ hb tr i j.

(* -- the discipline -- *)

Inductive guard :=
| GuardedBy (l : lock)      (* writes hold l exclusively, reads hold l in some mode *)
| Immutable                 (* only read after publication *)
| Confined (u : tid).       (* only accessed by thread u after publication *)

Definition held_at (tr : trace) (k : nat) (t : tid) (l : lock) (m : mode) : Prop :=
  In (t, l, m) (holdings (firstn k tr)).

Definition obeys_late (g : guard) (tr : trace) (k : nat) (t : tid) (w : bool) : Prop :=
  match g with
  | GuardedBy l => if w then held_at tr k t l Excl else exists m, held_at tr k t l m
  | Immutable => w = false
  | Confined u => t = u
  end.

(* publication point of the object a location belongs to: event number p of the creating
   thread t0 (a fork, or the release through which the pointer is handed over).  None:
   the location has no initialisation phase, every access must obey the guard. *)
Definition pubpoint := option (tid * nat).

Definition pub_ok (tr : trace) (pp : pubpoint) : Prop :=
  match pp with
  | Some (t0, p) => exists a, at_ tr p (t0, a)
  | None => True
  end.

(* an access of the initialisation phase: by the creator, before the publication point *)
Definition early (pp : pubpoint) (k : nat) (t : tid) : Prop :=
  match pp with
  | Some (t0, p) => t = t0 /\ k < p
  | None => False
  end.

(* an access after safe publication: later in the creator, or the publication point
   happens-before it *)
Definition published (pp : pubpoint) (tr : trace) (k : nat) (t : tid) : Prop :=
  match pp with
  | Some (t0, p) => (t = t0 /\ p <= k) \/ hb tr p k
  | None => True
  end.

Definition obeys (pp : pubpoint) (g : guard) (tr : trace) (k : nat) (t : tid) (w : bool) : Prop :=
  early pp k t \/ (published pp tr k t /\ obeys_late g tr k t w).

(* every access to x in the trace follows the discipline *)
Definition disciplined (tr : trace) (x : loc) (pp : pubpoint) (g : guard) : Prop :=
  forall k t a w, at_ tr k (t, a) -> acc_of a = Some (x, w) -> obeys pp g tr k t w.

(* descendants by fork after the publication point (a structural sufficient condition
   for `published`, see LocksetProofs.forked_after_published) *)
Inductive forked_after (tr : trace) (t0 : tid) (p : nat) : tid -> Prop :=
| fa_direct f u : p <= f -> at_ tr f (t0, Fork u) -> forked_after tr t0 p u
| fa_step v g u : forked_after tr t0 p v -> at_ tr g (v, Fork u) -> forked_after tr t0 p u.

(* ------------------------------------------------------------------ Part 2: facts *)

Inductive rw := R | W.

Record fact := mkFact {
  f_struct : string;                  (* struct type owning the field *)
  f_field : string;
  f_rw : rw;
  f_fn : string;                      (* enclosing function, "Type.method", "func", "…$go1" for goroutine bodies *)
  f_locks : list (string * mode);     (* mutex fields of the same object that are held on every path *)
  f_escaped : bool                    (* in this function's flow the object may already be shared (after a go / passing it on) *)
}.

Inductive sguard :=
| SGuardedBy (m : string)
| SImmutable
| SConfined (c : string) (fns : list string)   (* thread class name, the functions that run on it *)
| SRacy (code : N).                            (* no discipline; recorded finding *)

Record fspec := mkSpec {
  s_struct : string;
  s_field : string;
  s_guard : sguard;
  s_init : list string;               (* functions that run before the object is published *)
  s_except : list (string * N)        (* (function, code): accesses known to ignore the guard; code >= 20: a
                                         recorded finding; code 0: ordered with the guarded accesses by a
                                         mechanism outside this model (channel rendezvous), hand-justified *)
}.

Definition is_write (r : rw) : bool := match r with W => true | R => false end.

Definition str_in (s : string) (l : list string) : bool := existsb (String.eqb s) l.

Definition mode_is_excl (m : mode) : bool := match m with Excl => true | Shared => false end.

Definition has_lock (m : string) (excl : bool) (ls : list (string * mode)) : bool :=
  existsb (fun p => String.eqb (fst p) m && (if excl then mode_is_excl (snd p) else true)) ls.

Definition late_ok (g : sguard) (f : fact) : bool :=
  match g with
  | SGuardedBy m => has_lock m (is_write (f_rw f)) (f_locks f)
  | SImmutable => negb (is_write (f_rw f))
  | SConfined _ fns => str_in (f_fn f) fns
  | SRacy _ => false
  end.

Definition is_early (s : fspec) (f : fact) : bool :=
  str_in (f_fn f) (s_init s) && negb (f_escaped f).

Fixpoint find_spec (specs : list fspec) (st fd : string) : option fspec :=
  match specs with
  | [] => None
  | s :: r => if String.eqb (s_struct s) st && String.eqb (s_field s) fd then Some s else find_spec r st fd
  end.

Fixpoint assoc_code (fn : string) (l : list (string * N)) : option N :=
  match l with
  | [] => None
  | (g, c) :: r => if String.eqb g fn then Some c else assoc_code fn r
  end.

(* codes: [] fine; 1 = the field is not in the specification (correspondence broken);
   10 = access that ignores the declared guard and is not a recorded exception;
   >= 20 = a recorded finding (one code per racy field).  An exception with code 0 is a
   trusted ordering outside the model: it yields no code, but the field is then not among
   the unconditionally protected ones (s_except <> []). *)
Definition check_fact (specs : list fspec) (f : fact) : codes :=
  match find_spec specs (f_struct f) (f_field f) with
  | None => [1%N]
  | Some s =>
      if is_early s f then []
      else match s_guard s with
           | SRacy c => [c]
           | g => if late_ok g f then []
                  else match assoc_code (f_fn f) (s_except s) with
                       | Some c => if N.eqb c 0 then [] else [c]
                       | None => [10%N]
                       end
           end
  end.

(* a fact is acceptable when it is fine or a recorded finding *)
Definition fact_ok (specs : list fspec) (f : fact) : bool :=
  forallb (fun c => N.leb 20 c) (check_fact specs f).

(* facts |= spec *)
Definition facts_respect_spec (specs : list fspec) (facts : list fact) : bool :=
  forallb (fact_ok specs) facts.

(* the fact accesses the field without any excuse: early, or obeying its guard *)
Definition fact_clean (specs : list fspec) (f : fact) : bool :=
  match check_fact specs f with [] => true | _ => false end.

(* every recorded exception / racy entry is still used by some fact (otherwise the
   finding is stale: reported by bin/check as a note) *)
Definition code_used (specs : list fspec) (facts : list fact) (c : N) : bool :=
  existsb (fun f => existsb (N.eqb c) (check_fact specs f)) facts.

(* every data field of the tracked structs has an entry in the specification *)
Definition fields_covered (specs : list fspec) (fields : list (string * string)) : bool :=
  forallb (fun p => match find_spec specs (fst p) (snd p) with Some _ => true | None => false end) fields.

(* the whole static obligation: the translator ran, attributed every selector, every field
   is specified and every fact respects the specification *)
Definition static_check (specs : list fspec) (ok : bool) (unresolved : list string)
           (fields : list (string * string)) (facts : list fact) : bool :=
  ok && (match unresolved with [] => true | _ => false end)
     && fields_covered specs fields && facts_respect_spec specs facts.
