(* Avahi.v — interleaving model of mdns.AvahiProvider (mdns/avahi.go) over an Avahi client
   library that behaves like github.com/enbility/go-avahi.  Definitions only.

   Threads: ONE sequential API caller (as MdnsManager: Announce / Unannounce any number of
   times, Shutdown once and last), the channel listener goroutine, any number of
   reconnect loops (bounded by the visible bound K on loops in flight), undelivered
   `go eventCB(Disconnected)` goroutines (counter `pend`).  Environment: daemon goes down /
   comes back, browse results.  Every critical section of `mux` is one atomic step, except
   Shutdown's, which can block inside (send on shutdownChan while holding `mux`): `api =
   ASend` is "mux held, sender blocked".

   Client library semantics (go-avahi server.go): closing the connection (daemon loss, or
   Server.Shutdown with an open connection) frees every object of the client and spawns one
   `go eventCB(Disconnected)`.  A failed provider Start that got past Setup calls
   Server.Shutdown and therefore also produces a Disconnected notification.

   Timing assumption (visible in the step LSleep -> LStart): a spawned notification
   goroutine reaches `mux.Lock()` before a one-second sleep expires, i.e. the sleep of a
   reconnect loop does not end while a notification is still undelivered.

   TXT data is abstracted to {Latest, Stale}: an API Announce carries new data and turns
   every older copy (stored, captured, announced) into Stale.

   The switches of `cfg` select between the pinned code and its repairs; their values for
   the tree under test are regenerated from the Go AST (coq/gen/AvahiTable.v). *)
From Coq Require Import List Bool NArith PArith Arith FMapPositive.
From Ship Require Import Base Closure.
From ShipGen Require Import AvahiTable.
Import ListNotations.
Close Scope N_scope.

Record cfg := {
  reread : bool;      (* the re-announcement reads a.mdnsServiceData after the reconnect (else: the copy captured at disconnect) *)
  recheck : bool;     (* the loop checks manualShutdown under the lock it restarts under, and the restart does not clear it;
                         restart and re-announcement are one critical section *)
  free_prev : bool;   (* Announce frees the previous entry group; an accepted Disconnected drops the (dead) group reference *)
  single_loop : bool; (* an accepted Disconnected is ignored while a reconnect loop is in flight *)
  cb_manual : bool;   (* avahiCallback ignores events after a manual shutdown *)
  cb_autorec : bool   (* avahiCallback ignores events when autoReconnect is off *)
}.

Inductive otag := ONone | OLatest | OStale.          (* *mdnsServiceData: nil / newest data / older data *)
Inductive bref := BNil | BDead | BLive.              (* a.avBrowser: nil / object gone on the daemon / live *)
Inductive gref := GNil | GDead | GLatest | GStale.   (* a.avEntryGroup: nil / gone / live+committed with that TXT *)
Inductive lpc := LCheck | LSleep | LStart | LAnn.    (* reconnect loop: check flag, sleep 1 s, Start, re-announce *)
Inductive apc := AIdle | ASend | AUnann | AFinal | ADone.  (* API caller; ASend..AFinal = inside Shutdown *)
Inductive lst := LsNone | LsIdle | LsBusy.           (* chanListener: not running / in select / processing a service *)
Inductive errk := ENone | EPanicSendClosed | EOrphanListener | EDoubleListener.

Record loop := { l_pc : lpc; l_cap : otag }.

Record core := {
  (* provider fields *)
  manual : bool; autorec : bool; lrun : bool; brow : bref; grp : gref; data : otag;
  chans : bool;        (* the three channels are non-nil (and open); false = nil *)
  reconn : bool;       (* "a reconnect loop is in flight" flag of the single_loop repair *)
  (* goroutines *)
  api : apc; lsn : lst; pend : nat;
  (* server / daemon *)
  up : bool; conn : bool;
  leak_open : bool;    (* a live browser the provider no longer references, delivering into open channels *)
  leak_closed : bool;  (* ... delivering into channels Shutdown has closed *)
  leak_l : bool; leak_s : bool;  (* live committed groups no longer referenced, with Latest / Stale TXT *)
  (* ghost: what the API caller asked for *)
  g_manual : bool;     (* Shutdown has been called *)
  g_want : bool;       (* the last of Announce / Unannounce / Shutdown was Announce *)
  err : errk
}.

Record state := { co : core; loops : list loop }.

Scheme Equality for otag.
Scheme Equality for bref.
Scheme Equality for gref.
Scheme Equality for lpc.
Scheme Equality for apc.
Scheme Equality for lst.
Scheme Equality for errk.
Scheme Equality for loop.
Scheme Equality for core.

Definition state_eqb (a b : state) : bool :=
  core_beq (co a) (co b) && list_eqb loop_beq (loops a) (loops b).

(* ---- field updates ---- *)
Definition upd (s : state) (f : core -> core) : state := {| co := f (co s); loops := loops s |}.

Definition set_manual v c := {| manual := v; autorec := autorec c; lrun := lrun c; brow := brow c; grp := grp c; data := data c; chans := chans c; reconn := reconn c; api := api c; lsn := lsn c; pend := pend c; up := up c; conn := conn c; leak_open := leak_open c; leak_closed := leak_closed c; leak_l := leak_l c; leak_s := leak_s c; g_manual := g_manual c; g_want := g_want c; err := err c |}.
Definition set_autorec v c := {| manual := manual c; autorec := v; lrun := lrun c; brow := brow c; grp := grp c; data := data c; chans := chans c; reconn := reconn c; api := api c; lsn := lsn c; pend := pend c; up := up c; conn := conn c; leak_open := leak_open c; leak_closed := leak_closed c; leak_l := leak_l c; leak_s := leak_s c; g_manual := g_manual c; g_want := g_want c; err := err c |}.
Definition set_lrun v c := {| manual := manual c; autorec := autorec c; lrun := v; brow := brow c; grp := grp c; data := data c; chans := chans c; reconn := reconn c; api := api c; lsn := lsn c; pend := pend c; up := up c; conn := conn c; leak_open := leak_open c; leak_closed := leak_closed c; leak_l := leak_l c; leak_s := leak_s c; g_manual := g_manual c; g_want := g_want c; err := err c |}.
Definition set_brow v c := {| manual := manual c; autorec := autorec c; lrun := lrun c; brow := v; grp := grp c; data := data c; chans := chans c; reconn := reconn c; api := api c; lsn := lsn c; pend := pend c; up := up c; conn := conn c; leak_open := leak_open c; leak_closed := leak_closed c; leak_l := leak_l c; leak_s := leak_s c; g_manual := g_manual c; g_want := g_want c; err := err c |}.
Definition set_grp v c := {| manual := manual c; autorec := autorec c; lrun := lrun c; brow := brow c; grp := v; data := data c; chans := chans c; reconn := reconn c; api := api c; lsn := lsn c; pend := pend c; up := up c; conn := conn c; leak_open := leak_open c; leak_closed := leak_closed c; leak_l := leak_l c; leak_s := leak_s c; g_manual := g_manual c; g_want := g_want c; err := err c |}.
Definition set_data v c := {| manual := manual c; autorec := autorec c; lrun := lrun c; brow := brow c; grp := grp c; data := v; chans := chans c; reconn := reconn c; api := api c; lsn := lsn c; pend := pend c; up := up c; conn := conn c; leak_open := leak_open c; leak_closed := leak_closed c; leak_l := leak_l c; leak_s := leak_s c; g_manual := g_manual c; g_want := g_want c; err := err c |}.
Definition set_chans v c := {| manual := manual c; autorec := autorec c; lrun := lrun c; brow := brow c; grp := grp c; data := data c; chans := v; reconn := reconn c; api := api c; lsn := lsn c; pend := pend c; up := up c; conn := conn c; leak_open := leak_open c; leak_closed := leak_closed c; leak_l := leak_l c; leak_s := leak_s c; g_manual := g_manual c; g_want := g_want c; err := err c |}.
Definition set_reconn v c := {| manual := manual c; autorec := autorec c; lrun := lrun c; brow := brow c; grp := grp c; data := data c; chans := chans c; reconn := v; api := api c; lsn := lsn c; pend := pend c; up := up c; conn := conn c; leak_open := leak_open c; leak_closed := leak_closed c; leak_l := leak_l c; leak_s := leak_s c; g_manual := g_manual c; g_want := g_want c; err := err c |}.
Definition set_api v c := {| manual := manual c; autorec := autorec c; lrun := lrun c; brow := brow c; grp := grp c; data := data c; chans := chans c; reconn := reconn c; api := v; lsn := lsn c; pend := pend c; up := up c; conn := conn c; leak_open := leak_open c; leak_closed := leak_closed c; leak_l := leak_l c; leak_s := leak_s c; g_manual := g_manual c; g_want := g_want c; err := err c |}.
Definition set_lsn v c := {| manual := manual c; autorec := autorec c; lrun := lrun c; brow := brow c; grp := grp c; data := data c; chans := chans c; reconn := reconn c; api := api c; lsn := v; pend := pend c; up := up c; conn := conn c; leak_open := leak_open c; leak_closed := leak_closed c; leak_l := leak_l c; leak_s := leak_s c; g_manual := g_manual c; g_want := g_want c; err := err c |}.
Definition set_pend v c := {| manual := manual c; autorec := autorec c; lrun := lrun c; brow := brow c; grp := grp c; data := data c; chans := chans c; reconn := reconn c; api := api c; lsn := lsn c; pend := v; up := up c; conn := conn c; leak_open := leak_open c; leak_closed := leak_closed c; leak_l := leak_l c; leak_s := leak_s c; g_manual := g_manual c; g_want := g_want c; err := err c |}.
Definition set_up v c := {| manual := manual c; autorec := autorec c; lrun := lrun c; brow := brow c; grp := grp c; data := data c; chans := chans c; reconn := reconn c; api := api c; lsn := lsn c; pend := pend c; up := v; conn := conn c; leak_open := leak_open c; leak_closed := leak_closed c; leak_l := leak_l c; leak_s := leak_s c; g_manual := g_manual c; g_want := g_want c; err := err c |}.
Definition set_conn v c := {| manual := manual c; autorec := autorec c; lrun := lrun c; brow := brow c; grp := grp c; data := data c; chans := chans c; reconn := reconn c; api := api c; lsn := lsn c; pend := pend c; up := up c; conn := v; leak_open := leak_open c; leak_closed := leak_closed c; leak_l := leak_l c; leak_s := leak_s c; g_manual := g_manual c; g_want := g_want c; err := err c |}.
Definition set_leakb o cl c := {| manual := manual c; autorec := autorec c; lrun := lrun c; brow := brow c; grp := grp c; data := data c; chans := chans c; reconn := reconn c; api := api c; lsn := lsn c; pend := pend c; up := up c; conn := conn c; leak_open := o; leak_closed := cl; leak_l := leak_l c; leak_s := leak_s c; g_manual := g_manual c; g_want := g_want c; err := err c |}.
Definition set_leakg l st c := {| manual := manual c; autorec := autorec c; lrun := lrun c; brow := brow c; grp := grp c; data := data c; chans := chans c; reconn := reconn c; api := api c; lsn := lsn c; pend := pend c; up := up c; conn := conn c; leak_open := leak_open c; leak_closed := leak_closed c; leak_l := l; leak_s := st; g_manual := g_manual c; g_want := g_want c; err := err c |}.
Definition set_ghost m w c := {| manual := manual c; autorec := autorec c; lrun := lrun c; brow := brow c; grp := grp c; data := data c; chans := chans c; reconn := reconn c; api := api c; lsn := lsn c; pend := pend c; up := up c; conn := conn c; leak_open := leak_open c; leak_closed := leak_closed c; leak_l := leak_l c; leak_s := leak_s c; g_manual := m; g_want := w; err := err c |}.
Definition set_err v c := {| manual := manual c; autorec := autorec c; lrun := lrun c; brow := brow c; grp := grp c; data := data c; chans := chans c; reconn := reconn c; api := api c; lsn := lsn c; pend := pend c; up := up c; conn := conn c; leak_open := leak_open c; leak_closed := leak_closed c; leak_l := leak_l c; leak_s := leak_s c; g_manual := g_manual c; g_want := g_want c; err := v |}.

(* ---- hash ---- *)
Definition nb (b : bool) : N := if b then 1%N else 0%N.
Definition n_otag t : N := match t with ONone => 0 | OLatest => 1 | OStale => 2 end%N.
Definition n_bref t : N := match t with BNil => 0 | BDead => 1 | BLive => 2 end%N.
Definition n_gref t : N := match t with GNil => 0 | GDead => 1 | GLatest => 2 | GStale => 3 end%N.
Definition n_lpc t : N := match t with LCheck => 0 | LSleep => 1 | LStart => 2 | LAnn => 3 end%N.
Definition n_apc t : N := match t with AIdle => 0 | ASend => 1 | AUnann => 2 | AFinal => 3 | ADone => 4 end%N.
Definition n_lst t : N := match t with LsNone => 0 | LsIdle => 1 | LsBusy => 2 end%N.
Definition n_err t : N := match t with ENone => 0 | EPanicSendClosed => 1 | EOrphanListener => 2 | EDoubleListener => 3 end%N.
Definition n_loop (l : loop) : N := (n_lpc (l_pc l) * 3 + n_otag (l_cap l) + 1)%N.   (* 1..12 *)

Definition hash_core (c : core) : N :=
  let f (acc : N) (radix v : N) := (acc * radix + v)%N in
  (f (f (f (f (f (f (f (f (f (f (f (f (f (f (f (f (f (f (f (f 0
   2 (nb (manual c))) 2 (nb (autorec c))) 2 (nb (lrun c))) 3 (n_bref (brow c))) 4 (n_gref (grp c)))
   3 (n_otag (data c))) 2 (nb (chans c))) 2 (nb (reconn c))) 5 (n_apc (api c))) 3 (n_lst (lsn c)))
   8 (N.of_nat (pend c))) 2 (nb (up c))) 2 (nb (conn c))) 2 (nb (leak_open c))) 2 (nb (leak_closed c)))
   2 (nb (leak_l c))) 2 (nb (leak_s c))) 2 (nb (g_manual c))) 2 (nb (g_want c))) 4 (n_err (err c)))%N.

Definition state_hash (s : state) : positive :=
  N.succ_pos (fold_left (fun acc l => (acc * 13 + n_loop l)%N) (loops s) (hash_core (co s))).

(* ---- loops are kept sorted (the goroutines are indistinguishable) ---- *)
Fixpoint ins_loop (l : loop) (ls : list loop) : list loop :=
  match ls with
  | [] => [l]
  | x :: r => if N.leb (n_loop l) (n_loop x) then l :: ls else x :: ins_loop l r
  end.

Fixpoint remove_nth {A} (n : nat) (l : list A) : list A :=
  match n, l with
  | _, [] => []
  | O, _ :: r => r
  | S k, x :: r => x :: remove_nth k r
  end.

(* ---- server-side effects ---- *)
Definition dead_b b := match b with BLive => BDead | x => x end.
Definition dead_g g := match g with GLatest | GStale => GDead | x => x end.

(* every object of the client disappears (daemon loss or connection closed) *)
Definition kill_all (c : core) : core :=
  set_leakg false false (set_leakb false false (set_grp (dead_g (grp c)) (set_brow (dead_b (brow c)) c))).

(* close the client connection: objects freed, one Disconnected notification spawned *)
Definition close_conn (c : core) : core :=
  if conn c then set_pend (S (pend c)) (set_conn false (kill_all c)) else c.

(* ---- provider operations (each runs under mux, atomically) ---- *)
Definition age_t t := match t with OLatest => OStale | x => x end.
Definition age_g g := match g with GLatest => GStale | x => x end.
Definition age_loop l := {| l_pc := l_pc l; l_cap := age_t (l_cap l) |}.

(* an API Announce brings new data: every older copy becomes Stale *)
Definition age (s : state) : state :=
  let c := co s in
  {| co := set_leakg false (leak_l c || leak_s c) (set_grp (age_g (grp c)) (set_data (age_t (data c)) c));
     loops := map age_loop (loops s) |}.

Definition g_of t := match t with OLatest => GLatest | _ => GStale end.

(* Announce(t): store the data; [free the previous group]; new group, add, commit *)
Definition do_announce (cf : cfg) (t : otag) (c : core) : core :=
  let c1 := set_data t c in
  let c2 := if free_prev cf then set_grp GNil c1 else c1 in
  if up c2 && conn c2 then
    let c3 := match grp c2 with
              | GLatest => set_leakg true (leak_s c2) c2
              | GStale => set_leakg (leak_l c2) true c2
              | _ => c2
              end in
    set_grp (g_of t) c3
  else c2.

Definition do_unannounce (c : core) : core := set_grp GNil (set_data ONone c).

Inductive smode := SOk | SFailSetup | SFailApi.

(* the body of Start(true, cb) after the flag handling *)
Definition do_start (m : smode) (c : core) : core * bool :=
  let c := set_autorec true c in
  match m with
  | SFailSetup => (c, false)
  | SFailApi => (close_conn (set_chans true (set_conn true c)), false)
  | SOk =>
      let c1 := set_chans true (set_conn true c) in
      let c2 := match brow c1 with BLive => set_leakb true (leak_closed c1) c1 | _ => c1 end in
      let c3 := set_brow BLive c2 in
      if lrun c3 then (c3, true)
      else match lsn c3 with
           | LsNone => (set_lsn LsIdle (set_lrun true c3), true)
           | _ => (set_err EDoubleListener (set_lrun true c3), true)
           end
  end.

Definition start_modes (c : core) : list smode := if up c then [SOk] else [SFailSetup; SFailApi].

(* Shutdown after the blocking send (or when there was nothing to send): still under mux *)
Definition sh_close (c : core) : core :=
  let c1 := set_lrun false c in
  let c2 := if chans c1 then
              let c' := set_leakb false (leak_open c1 || leak_closed c1) (set_chans false c1) in
              match lsn c' with LsNone => c' | _ => set_err EOrphanListener c' end
            else c1 in
  set_api AUnann c2.

(* ---- transitions ---- *)
Section Steps.
  Variable cf : cfg.
  Variable K : nat.    (* bound on reconnect loops in flight *)

  Definition ok (s : state) : bool := match err (co s) with ENone => true | _ => false end.
  Definition mux_free (s : state) : bool := match api (co s) with ASend => false | _ => true end.

  (* environment *)
  Definition e_down (s : state) : list state :=
    if up (co s) then [upd s (fun c => close_conn (set_up false (kill_all c)))] else [].
  Definition e_up (s : state) : list state :=
    if up (co s) then [] else [upd s (set_up true)].
  Definition e_browse (s : state) : list state :=
    let c := co s in
    (if up c && chans c && (match brow c with BLive => true | _ => false end || leak_open c)
        && match lsn c with LsIdle => true | _ => false end
     then [upd s (set_lsn LsBusy)] else [])
    ++ (if leak_closed c then [upd s (set_err EPanicSendClosed)] else []).

  (* API caller *)
  Definition api_announce (s : state) : list state :=
    match api (co s) with
    | AIdle => [upd (age s) (fun c => set_ghost (g_manual c) true (do_announce cf OLatest c))]
    | _ => []
    end.
  Definition api_unannounce (s : state) : list state :=
    match api (co s) with
    | AIdle => [upd s (fun c => set_ghost (g_manual c) false (do_unannounce c))]
    | _ => []
    end.
  Definition api_shutdown (s : state) : list state :=
    match api (co s) with
    | AIdle =>
        [upd s (fun c =>
           let c1 := set_autorec false (set_manual true (set_ghost true false c)) in
           match brow c1 with
           | BNil => sh_close c1
           | _ => let c2 := set_brow BNil c1 in
                  if lrun c2 then set_api ASend c2 else sh_close c2
           end)]
    | _ => []
    end.
  Definition t_api (s : state) : list state :=
    let c := co s in
    match api c with
    | ASend => match lsn c with
               | LsIdle => [upd s (fun c => sh_close (set_lsn LsNone c))]
               | _ => []
               end
    | AUnann => [upd s (fun c => set_api AFinal (do_unannounce c))]
    | AFinal => [upd s (fun c => set_api ADone (set_grp GNil (close_conn c)))]
    | _ => []
    end.

  (* delivery of one `go eventCB(Disconnected)` *)
  Definition t_callback (s : state) : list state :=
    let c := co s in
    match pend c with
    | O => []
    | S p =>
        if mux_free s then
          let c1 := set_pend p c in
          if (cb_manual cf && manual c) || (cb_autorec cf && negb (autorec c)) || (single_loop cf && reconn c)
          then [{| co := c1; loops := loops s |}]
          else if Nat.ltb (length (loops s)) K then
            let c2 := if free_prev cf then set_grp GNil c1 else c1 in
            let c3 := if single_loop cf then set_reconn true c2 else c2 in
            [{| co := c3; loops := ins_loop {| l_pc := LCheck; l_cap := if reread cf then ONone else data c |} (loops s) |}]
          else []
        else []
    end.

  Definition loop_exit (c : core) : core := if single_loop cf then set_reconn false c else c.

  Definition t_loop1 (s : state) (i : nat) (l : loop) : list state :=
    let c := co s in
    let rest := remove_nth i (loops s) in
    let at_pc p := {| co := c; loops := ins_loop {| l_pc := p; l_cap := l_cap l |} rest |} in
    match l_pc l with
    | LCheck =>
        if mux_free s then
          if manual c then [{| co := loop_exit c; loops := rest |}] else [at_pc LSleep]
        else []
    | LSleep => match pend c with O => [at_pc LStart] | _ => [] end
    | LStart =>
        if mux_free s then
          if recheck cf then
            if manual c then [{| co := loop_exit c; loops := rest |}]
            else map (fun m =>
                        let '(c1, good) := do_start m c in
                        if good then
                          let c2 := match (if reread cf then data c1 else l_cap l) with
                                    | ONone => c1 | t => do_announce cf t c1 end in
                          {| co := loop_exit c2; loops := rest |}
                        else {| co := c1; loops := ins_loop {| l_pc := LCheck; l_cap := l_cap l |} rest |})
                     (start_modes c)
          else map (fun m =>
                      let '(c1, good) := do_start m (set_manual false c) in
                      {| co := c1; loops := ins_loop {| l_pc := if good then LAnn else LCheck; l_cap := l_cap l |} rest |})
                   (start_modes c)
        else []
    | LAnn =>
        if mux_free s then
          let t := if reread cf then data c else l_cap l in
          let c1 := match t with ONone => c | t => do_announce cf t c end in
          [{| co := loop_exit c1; loops := rest |}]
        else []
    end.

  Fixpoint t_loops_from (s : state) (i : nat) (ls : list loop) : list state :=
    match ls with
    | [] => []
    | l :: r => t_loop1 s i l ++ t_loops_from s (S i) r
    end.
  Definition t_loops (s : state) : list state := t_loops_from s 0 (loops s).

  Definition t_listener (s : state) : list state :=
    match lsn (co s) with LsBusy => [upd s (set_lsn LsIdle)] | _ => [] end.

  (* internal steps: goroutines of the provider and of the client library *)
  Definition internal (s : state) : list state :=
    if ok s then t_callback s ++ t_api s ++ t_loops s ++ t_listener s else [].
  (* steps of the environment: daemon, browse results, API calls *)
  Definition external (s : state) : list state :=
    if ok s then e_down s ++ e_up s ++ e_browse s ++ api_announce s ++ api_unannounce s ++ api_shutdown s else [].

  Definition next (s : state) : list state := internal s ++ external s.

  (* "the daemon stays up and nobody calls": only internal steps, only while the daemon is up *)
  Definition quiet (s : state) : list state := if up (co s) then internal s else [].

  (* ranking certificate for the quiet steps *)
  Definition rank_loop (l : loop) : nat :=
    match l_pc l with LCheck => 4 | LSleep => 3 | LStart => 2 | LAnn => 1 end.
  Definition rank (s : state) : nat :=
    let c := co s in
    pend c * 5 + fold_right (fun l a => rank_loop l + a) 0 (loops s)
    + match api c with ASend => 9 | AUnann => 8 | AFinal => 7 | _ => 0 end
    + match lsn c with LsBusy => 1 | _ => 0 end.
End Steps.

(* ---- labelled runs, for witnesses and for the scenario semantics ---- *)
Inductive label :=
| EDown | EUp | EBrowse | ApiAnnounce | ApiUnannounce | ApiShutdown
| TCallback | TApi | TLoop (i : nat) (m : smode) | TListener.

Definition pick_mode (m : smode) (c : core) (l : list state) : option state :=
  match start_modes c, m with
  | [SOk], _ => nth_error l 0
  | _, SFailSetup => nth_error l 0
  | _, SFailApi => nth_error l 1
  | _, SOk => None
  end.

Definition lstep (cf : cfg) (K : nat) (s : state) (a : label) : option state :=
  if ok s then
    match a with
    | EDown => hd_error (e_down s)
    | EUp => hd_error (e_up s)
    | EBrowse => hd_error (e_browse s)
    | ApiAnnounce => hd_error (api_announce cf s)
    | ApiUnannounce => hd_error (api_unannounce s)
    | ApiShutdown => hd_error (api_shutdown s)
    | TCallback => hd_error (t_callback cf K s)
    | TApi => hd_error (t_api s)
    | TLoop i m =>
        match nth_error (loops s) i with
        | Some l => let r := t_loop1 cf s i l in
                    match r with
                    | [x] => Some x
                    | _ => pick_mode m (co s) r
                    end
        | None => None
        end
    | TListener => hd_error (t_listener s)
    end
  else None.

Fixpoint run (cf : cfg) (K : nat) (s : state) (l : list label) : option state :=
  match l with
  | [] => Some s
  | a :: r => match lstep cf K s a with Some s' => run cf K s' r | None => None end
  end.

(* ---- initial state: Start(true, cb) has succeeded against a running daemon ---- *)
Definition init_core : core :=
  {| manual := false; autorec := true; lrun := true; brow := BLive; grp := GNil; data := ONone;
     chans := true; reconn := false; api := AIdle; lsn := LsIdle; pend := 0;
     up := true; conn := true; leak_open := false; leak_closed := false; leak_l := false; leak_s := false;
     g_manual := false; g_want := false; err := ENone |}.
Definition init : state := {| co := init_core; loops := [] |}.

(* ---- observation and monitor ---- *)
Record obs := {
  o_brow : N;     (* live service browsers on the daemon *)
  o_latest : N;   (* live committed entry groups carrying the most recently requested TXT *)
  o_stale : N;    (* live committed entry groups carrying older TXT *)
  o_report : bool;(* a browse result delivered now reaches the resolver callback *)
  o_panic : bool; (* a goroutine panicked *)
  o_hang : bool   (* an API call did not return / the provider never became quiescent *)
}.

Record ghost := {
  gh_manual : bool;        (* Shutdown was called *)
  gh_want : bool;          (* an announcement is active (last of Announce/Unannounce/Shutdown was Announce) *)
  gh_down_announce : bool; (* trigger: Announce or Unannounce was called while the daemon was unreachable *)
  gh_reannounce : bool;    (* trigger: Announce was called while an announcement was already active *)
  gh_disc : bool           (* trigger: the daemon connection was lost at least once *)
}.

Definition obs_of (s : state) : obs :=
  let c := co s in
  {| o_brow := (match brow c with BLive => 1 | _ => 0 end + nb (leak_open c) + nb (leak_closed c))%N;
     o_latest := (match grp c with GLatest => 1 | _ => 0 end + nb (leak_l c))%N;
     o_stale := (match grp c with GStale => 1 | _ => 0 end + nb (leak_s c))%N;
     o_report := up c && chans c && match brow c with BLive => true | _ => false end
                 && match lsn c with LsIdle | LsBusy => true | _ => false end;
     o_panic := match err c with ENone => false | _ => true end;
     o_hang := match api c with ASend | AUnann | AFinal => true | _ => false end |}.

(* Failure codes, classified by trigger:
   10 restarted_after_shutdown     Shutdown was called and a browser or an announcement is live
   11 stale_after_down_announce    stale TXT live, Announce/Unannounce was issued while the daemon was down
   12 stale_group_leaked           stale TXT live, a second Announce was issued (no down-time call)
   13 stale_other                  stale TXT live, neither trigger
   14 resurrected_after_down_unannounce   no announcement wanted but one is live, down-time call
   15 announcement_unwanted_other  no announcement wanted but one is live, otherwise
   16 announcement_lost            announcement wanted, none with the latest TXT live
   17 duplicate_announcement       more than one live group with the latest TXT
   18 browser_missing              no shutdown, no live browser
   19 browser_duplicated           no shutdown, more than one live browser
   20 results_not_reported         no shutdown, a browse result does not reach the callback
   21 panic                        22 hang *)
Definition mon (g : ghost) (o : obs) : codes :=
  let live_ann := negb (N.eqb (o_latest o + o_stale o) 0) in
  (if o_panic o then [21%N] else []) ++
  (if o_hang o then [22%N] else []) ++
  (if o_panic o || o_hang o then [] else
   if gh_manual g then
     (if negb (N.eqb (o_brow o) 0) || live_ann then [10%N] else [])
   else
     (if gh_want g then
        (if negb (N.eqb (o_stale o) 0) then
           [if gh_down_announce g then 11%N else if gh_reannounce g then 12%N else 13%N] else []) ++
        (if N.eqb (o_latest o) 0 then [16%N] else if N.ltb 1 (o_latest o) then [17%N] else [])
      else
        (if live_ann then [if gh_down_announce g then 14%N else 15%N] else [])) ++
     (if N.eqb (o_brow o) 0 then [18%N] else if N.ltb 1 (o_brow o) then [19%N] else
      if o_report o then [] else [20%N])).

(* the triggers are a classification only: whether the monitor fails does not depend on them *)
Definition ghost_of (s : state) : ghost :=
  {| gh_manual := g_manual (co s); gh_want := g_want (co s);
     gh_down_announce := false; gh_reannounce := false; gh_disc := false |}.

(* a state in which nothing internal is left to do *)
Definition settled (s : state) : bool :=
  match loops s with [] => true | _ => false end && Nat.eqb (pend (co s)) 0
  && match api (co s) with AIdle | ADone => true | _ => false end
  && match lsn (co s) with LsBusy => false | _ => true end.

(* C19, final states: the daemon is up and the provider is at rest => the monitor is silent *)
Definition good_final (s : state) : bool :=
  negb (up (co s)) || (settled s && match mon (ghost_of s) (obs_of s) with [] => true | _ => false end).

(* C19, all states: no panic; the blocked sender always has a live receiver (no deadlock);
   once Shutdown has returned nothing is live and nothing runs *)
Definition safe (s : state) : bool :=
  ok s
  && match api (co s), lsn (co s) with ASend, LsNone => false | _, _ => true end
  && match api (co s) with
     | ADone => N.eqb (o_brow (obs_of s) + o_latest (obs_of s) + o_stale (obs_of s)) 0
                && match lsn (co s) with LsNone => true | _ => false end
     | _ => true
     end.

(* no deadlock in any state, daemon up or down: unless everything is at rest some goroutine can move *)
Definition progress (cf : cfg) (K : nat) (s : state) : bool :=
  negb (ok s) || settled s || match internal cf K s with [] => false | _ => true end.

(* a final state (daemon up, at rest) in which the monitor of C19 fails *)
Definition violates_final (s : state) : bool :=
  up (co s) && settled s && match mon (ghost_of s) (obs_of s) with [] => false | _ => true end.

(* with the single_loop repair the bound K is never what stops a loop from being spawned *)
Definition loops_le1 (s : state) : bool := Nat.leb (length (loops s)) 1.

(* ---- scenario semantics for the correspondence check ----
   A scenario is a list of environment/API actions; between two actions the goroutines
   take any number of internal steps in any order; after the last action (daemon up) they
   run until nothing is left.  The result is the SET of possible final states. *)
Definition add_new (acc : table state * list state) (s : state) : table state * list state :=
  let '(t, fresh) := acc in
  if mem state_eqb state_hash s t then acc else (insert state_hash s t, s :: fresh).

(* closure of a set (hash table `seen`, not yet expanded members `frontier`) under internal steps *)
Fixpoint iclose (cf : cfg) (K fuel : nat) (seen : table state) (frontier : list state) : table state :=
  match fuel with
  | O => seen
  | S f =>
      match frontier with
      | [] => seen
      | _ =>
          let '(seen', fresh) :=
            fold_left (fun acc s => fold_left add_new (internal cf K s) acc) frontier (seen, []) in
          iclose cf K f seen' fresh
      end
  end.

Definition dedup (l : list state) : table state * list state :=
  fold_left add_new l (PositiveMap.empty _, []).

Inductive action := XDown | XUp | XBrowse | XAnnounce | XUnannounce | XShutdown.

Definition act (cf : cfg) (a : action) (s : state) : list state :=
  if ok s then
    match a with
    | XDown => e_down s
    | XUp => e_up s
    | XBrowse => match e_browse s with [] => [s] | l => l end
    | XAnnounce => api_announce cf s
    | XUnannounce => api_unannounce s
    | XShutdown => api_shutdown s
    end
  else [s].

Fixpoint scen (cf : cfg) (K fuel : nat) (acts : list action) (cur : list state) : list state :=
  let '(t0, fr) := dedup cur in
  let closed := members (iclose cf K fuel t0 fr) in
  match acts with
  | [] => filter (fun s => match internal cf K s with [] => true | _ => false end) closed
  | a :: r => scen cf K fuel r (flat_map (act cf a) closed)
  end.

(* the ghost of a scenario, computed from the script alone *)
Fixpoint scen_ghost (acts : list action) (isup : bool) (g : ghost) : ghost :=
  match acts with
  | [] => g
  | a :: r =>
      match a with
      | XDown => scen_ghost r false {| gh_manual := gh_manual g; gh_want := gh_want g; gh_down_announce := gh_down_announce g; gh_reannounce := gh_reannounce g; gh_disc := true |}
      | XUp => scen_ghost r true g
      | XBrowse => scen_ghost r isup g
      | XAnnounce => scen_ghost r isup {| gh_manual := gh_manual g; gh_want := true; gh_down_announce := gh_down_announce g || negb isup; gh_reannounce := gh_reannounce g || gh_want g; gh_disc := gh_disc g |}
      | XUnannounce => scen_ghost r isup {| gh_manual := gh_manual g; gh_want := false; gh_down_announce := gh_down_announce g || negb isup; gh_reannounce := gh_reannounce g; gh_disc := gh_disc g |}
      | XShutdown => scen_ghost r isup {| gh_manual := true; gh_want := false; gh_down_announce := gh_down_announce g; gh_reannounce := gh_reannounce g; gh_disc := gh_disc g |}
      end
  end.
Definition ghost0 : ghost := {| gh_manual := false; gh_want := false; gh_down_announce := false; gh_reannounce := false; gh_disc := false |}.

(* does the implementation's final observation agree with a final model state?
   (the leak flags mean "at least one", so counts above the referenced object are matched loosely) *)
Definition cnt_match (cur leak : bool) (n : N) : bool :=
  match n with
  | 0%N => negb cur && negb leak
  | 1%N => xorb cur leak
  | _ => leak
  end.
Definition obs_match (o : obs) (s : state) : bool :=
  let c := co s in
  let m := obs_of s in
  Bool.eqb (o_panic o) (o_panic m) && Bool.eqb (o_hang o) (o_hang m)
  && (o_panic o || o_hang o ||
      (cnt_match (match brow c with BLive => true | _ => false end) (leak_open c || leak_closed c) (o_brow o)
       && cnt_match (match grp c with GLatest => true | _ => false end) (leak_l c) (o_latest o)
       && cnt_match (match grp c with GStale => true | _ => false end) (leak_s c) (o_stale o)
       && (negb (N.eqb (o_brow o) 1) || Bool.eqb (o_report o) (o_report m)))).

(* the switches as read from the source of the tree under test (harness/cmd/extract) *)
Definition tree_cfg : cfg :=
  {| reread := avahi_reread; recheck := avahi_recheck; free_prev := avahi_free_prev;
     single_loop := avahi_single_loop; cb_manual := avahi_cb_manual; cb_autorec := avahi_cb_autorec |}.
(* the tree as pinned (snapshot 32d50f9) and with the four repairs *)
Definition cfg_pinned : cfg :=
  {| reread := false; recheck := false; free_prev := false; single_loop := false; cb_manual := true; cb_autorec := true |}.
Definition cfg_fixed : cfg :=
  {| reread := true; recheck := true; free_prev := true; single_loop := true; cb_manual := true; cb_autorec := true |}.

Record c19_case := {
  cc_acts : list action;    (* the scenario; the daemon is up at the end *)
  cc_obs : obs              (* what the fake Avahi server and the resolver callback saw at rest *)
}.

Definition scen_fuel : nat := 400.
Definition model_K : nat := 2.

Definition check_c19 (x : c19_case) : codes :=
  let finals := scen tree_cfg model_K scen_fuel (cc_acts x) [init] in
  (if existsb (obs_match (cc_obs x)) finals then [] else [1%N])
  ++ mon (scen_ghost (cc_acts x) true ghost0) (cc_obs x).
