(* MdnsC08.v — C08's mDNS stream: the resolver-callback histories of C17's driver, read for
   crashes.  The model of the callback (MdnsMap.step and the functions around it) is a total
   Gallina function of the TXT elements, the address list and the remove flag - it has a value
   on every input - and the implementation is compared with it on every history (code 1); a
   panic or a hang of the real callback is a case of its own. *)
From Ship Require Import Base MdnsMap.

(* MTxtOk: a raw TXT slice (a SHIP record with 0-3 mutations: items without '=', with several,
   with an empty key, empty items, duplicates) went through parseTxt and the callback and both returned *)
Inductive c08m_case := MHist (k : c17_case) | MCrash (hang : bool) | MTxtOk.

Definition V_MDNS_PANIC : N := 130.
Definition V_MDNS_HANG : N := 131.

Definition check_mdns_C08 (c : c08m_case) : codes :=
  match c with
  | MHist k => filter (N.eqb 1) (check_c17 k)
  | MCrash false => [V_MDNS_PANIC]
  | MCrash true => [V_MDNS_HANG]
  | MTxtOk => []
  end.
