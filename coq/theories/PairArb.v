(* PairArb.v — C03, second sentence: "under arbitrary delays and timer expiries the two sides
   still never disagree for good".  Racing mode of the two-endpoint model: every label of
   Pair.v at any moment - deliveries in either direction, the user's approval or cancel at ANY
   moment (also the moments of the recorded finding), the deferred goroutines, and the expiry of
   either side's timer at any point relative to all of these, in particular while a frame for
   the expiring side is still in flight.  One restriction keeps the channels finite: a timer
   expires only when the peer has taken what the expiring side wrote before and at most one
   frame is in flight towards it (a pending side could otherwise expire for ever without its
   peer ever reading, and the queues would grow without bound).

   For EVERY configuration, by a certified closure of the reachable set:
     - safety in every reachable state (nobody completes without trust, one setup, ids);
     - a state in which nothing more can happen is an agreement: both sides complete on an
       open connection, or both ended with the transport closed and no timer armed;
     - from EVERY reachable state such a state can still be reached (a distance certificate):
       no interleaving ever leads into a region where the two sides are stuck in disagreement. *)
From Coq Require Import FMapPositive.
From Ship Require Import Base Closure Conn ConnEvents ConnMon ConnClosure Pair PairClosure.

(* ---- generic: "a good end state can still be reached" from a distance certificate ---- *)
Section CanEnd.
  Variable S : Type.
  Variable eqb : S -> S -> bool.
  Hypothesis eqb_eq : forall a b, eqb a b = true -> a = b.
  Variable hash : S -> positive.
  Variable next : S -> list S.
  Variable good : S -> bool.
  Variable dist : S -> nat.

  Inductive can_end : S -> Prop :=
  | ce_now s : next s = [] -> good s = true -> can_end s
  | ce_step s s' : In s' (next s) -> can_end s' -> can_end s.

  Definition dist_ok (s : S) : bool :=
    match next s with
    | [] => good s
    | succ => existsb (fun s' => Nat.ltb (dist s') (dist s)) succ
    end.

  Definition dist_check (t : table S) : bool := forallb dist_ok (members t).

  Theorem can_end_by_distance (init : S) (t : table S) :
    mem eqb hash init t = true -> closed_check eqb hash next t = true -> dist_check t = true ->
    forall s, reach next init s -> can_end s.
  Proof.
    intros Hi Hc Hd s R.
    pose proof (members_by_closure S eqb eqb_eq hash next init t Hi Hc s R) as Hin. clear R.
    remember (dist s) as n eqn:En. revert s En Hin.
    induction n as [n IH] using lt_wf_ind. intros s En Hin.
    unfold dist_check in Hd. rewrite forallb_forall in Hd. pose proof (Hd s Hin) as K.
    unfold dist_ok in K. destruct (next s) as [|x r] eqn:N.
    - apply ce_now; assumption.
    - apply existsb_exists in K as [s' [Hs' Hlt]]. apply Nat.ltb_lt in Hlt.
      apply (ce_step s s'); [rewrite N; exact Hs'|].
      apply (IH (dist s')); [subst n; exact Hlt | reflexivity |].
      unfold closed_check in Hc. rewrite forallb_forall in Hc. specialize (Hc s Hin).
      rewrite forallb_forall in Hc. apply (mem_members S eqb eqb_eq hash).
      apply Hc. rewrite N. exact Hs'.
  Qed.
End CanEnd.

(* ---- racing mode ---- *)
Definition expiry_held (p : pair) (l : label) : bool :=
  match l with
  | LTimeoutC => match q_cs p with [] => Nat.ltb 1 (length (q_sc p)) | _ => true end
  | LTimeoutS => match q_sc p with [] => Nat.ltb 1 (length (q_cs p)) | _ => true end
  | _ => false
  end.

Definition arb_next (cfg : pcfg) (p : pair) : list pair :=
  flat_map (fun l =>
    if expiry_held p l then []
    else match pstep2 false cfg p l with Some p' => [p'] | None => [] end) all_labels.

Definition agreement (p : pair) : bool := both_complete_open p || both_ended p.

Definition arb_ok (cfg : pcfg) (p : pair) : bool :=
  pair_safe cfg p && match arb_next cfg p with [] => agreement p | _ => true end.

Definition arb_table (cfg : pcfg) : table pair :=
  fst (explore pair_eqb pair_hash (arb_next cfg) 3000 (pair_init cfg)).

(* distance to the nearest state without successor: unverified relaxation, only checked *)
Definition dtable := PositiveMap.t (list (pair * N)).
Definition dk_lookup (t : dtable) (p : pair) : option N :=
  match PositiveMap.find (pair_hash p) t with
  | Some l => match find (fun x => pair_eqb p (fst x)) l with Some (_, n) => Some n | None => None end
  | None => None
  end.
Definition dk_set (t : dtable) (p : pair) (n : N) : dtable :=
  let l := match PositiveMap.find (pair_hash p) t with Some l => l | None => [] end in
  PositiveMap.add (pair_hash p) ((p, n) :: filter (fun x => negb (pair_eqb p (fst x))) l) t.
Definition omin (a b : option N) : option N :=
  match a, b with
  | Some x, Some y => Some (N.min x y)
  | Some x, None => Some x
  | None, y => y
  end.
Definition dk_round (edges : list (pair * list pair)) (t : dtable) : dtable :=
  fold_left (fun acc e =>
    match snd e with
    | [] => dk_set acc (fst e) 0%N
    | succ => match fold_left omin (map (dk_lookup t) succ) None with
              | Some d => dk_set acc (fst e) (d + 1)%N
              | None => acc
              end
    end) edges t.
Fixpoint dk_iter (n : nat) (edges : list (pair * list pair)) (t : dtable) : dtable :=
  match n with O => t | Datatypes.S k => dk_iter k edges (dk_round edges t) end.
Definition arb_dist_table (cfg : pcfg) : dtable :=
  let edges := map (fun p => (p, arb_next cfg p)) (members (arb_table cfg)) in
  dk_iter 80 edges (PositiveMap.empty _).
Definition arb_dist (cfg : pcfg) : pair -> nat :=
  let t := arb_dist_table cfg in
  fun p => match dk_lookup t p with Some n => N.to_nat n | None => O end.

Definition arb_cert (cfg : pcfg) : bool :=
  mem pair_eqb pair_hash (pair_init cfg) (arb_table cfg)
  && closed_check pair_eqb pair_hash (arb_next cfg) (arb_table cfg)
  && forallb (arb_ok cfg) (members (arb_table cfg))
  && dist_check pair (arb_next cfg) agreement (arb_dist cfg) (arb_table cfg).

Lemma arb_cert_all : forallb arb_cert all_cfgs = true.
Proof. vm_compute. reflexivity. Qed.

Lemma arb_cert_parts cfg :
  arb_cert cfg = true ->
  mem pair_eqb pair_hash (pair_init cfg) (arb_table cfg) = true
  /\ closed_check pair_eqb pair_hash (arb_next cfg) (arb_table cfg) = true
  /\ forallb (arb_ok cfg) (members (arb_table cfg)) = true
  /\ dist_check pair (arb_next cfg) agreement (arb_dist cfg) (arb_table cfg) = true.
Proof.
  unfold arb_cert.
  generalize (mem pair_eqb pair_hash (pair_init cfg) (arb_table cfg)).
  generalize (closed_check pair_eqb pair_hash (arb_next cfg) (arb_table cfg)).
  generalize (forallb (arb_ok cfg) (members (arb_table cfg))).
  generalize (dist_check pair (arb_next cfg) agreement (arb_dist cfg) (arb_table cfg)).
  intros a b c d H. destruct a, b, c, d; try discriminate. repeat split.
Qed.

Lemma arb_cert_of cfg : arb_cert cfg = true.
Proof.
  pose proof arb_cert_all as H. rewrite forallb_forall in H. exact (H cfg (all_cfgs_complete cfg)).
Qed.

Theorem pair_racing_ok cfg s :
  reach (arb_next cfg) (pair_init cfg) s -> arb_ok cfg s = true.
Proof.
  destruct (arb_cert_parts cfg (arb_cert_of cfg)) as [H1 [H2 [H3 _]]].
  exact (invariant_by_closure pair pair_eqb pair_eqb_eq pair_hash (arb_next cfg)
           (pair_init cfg) (arb_table cfg) (arb_ok cfg) H1 H2 H3 s).
Qed.

Theorem pair_racing_can_settle cfg s :
  reach (arb_next cfg) (pair_init cfg) s ->
  can_end pair (arb_next cfg) agreement s.
Proof.
  destruct (arb_cert_parts cfg (arb_cert_of cfg)) as [H1 [H2 [_ H4]]].
  exact (can_end_by_distance pair pair_eqb pair_eqb_eq pair_hash (arb_next cfg) agreement
           (arb_dist cfg) (pair_init cfg) (arb_table cfg) H1 H2 H4 s).
Qed.

(* the mode really contains the races: the client's timer expires while the server's hello is
   in flight towards it, and the run goes on to an agreement (both ended) *)
Definition cfg_race : pcfg := mkCfg true false true false false IdUnknown IdUnknown.
Fixpoint arb_run (cfg : pcfg) (p : pair) (ls : list label) : option pair :=
  match ls with
  | [] => Some p
  | l :: r => if expiry_held p l then None
              else match pstep2 false cfg p l with Some q => arb_run cfg q r | None => None end
  end.
Example racing_expiry_with_frame_in_flight :
  match arb_run cfg_race (pair_init cfg_race) [LDeliverCS; LDeliverSC; LDeliverCS; LTimeoutC] with
  | Some s => match q_sc s with [] => false | _ => true end && terminal_state (p_st (e_c (core s)))
  | None => false
  end = true.
Proof. vm_compute. reflexivity. Qed.

Definition arb_table_sizes : N * N :=
  (fold_left N.max (map (fun c => N.of_nat (length (members (arb_table c)))) all_cfgs) 0%N,
   fold_left N.add (map (fun c => N.of_nat (length (members (arb_table c)))) all_cfgs) 0%N).
