(* HubWindowProofs.v — C10 (b), the part of the property that survives the finding
   client_connection_completed_after_unregister: if the user never unregisters / cancels a
   SKI while a dial to it is in flight (window_free), no client-role connection is ever
   created towards a SKI the user unregistered, over unbounded label lists. *)
From Ship Require Import Base HubModel HubModelProofs.
From ShipGen Require Import StateTable HubTable.

(* a client-role connection is created only by a dial in flight that returns *)
Lemma ccreate_step C h l k :
  In k (client_creates_of (snd (hstep C h l))) ->
  exists c, l = LDialOk k c /\ N.eqb (s_dialing (get h k)) 0 = false.
Proof.
  destruct l; cbn [hstep].
  - destruct (negb (h_started h)); cbn [snd].
    + rewrite (proj1 (proj2 (proj2 (quiet_reannounce C _)))). intros [].
    + destruct (s_reg (get h k0)); cbn [snd]; intros [].
  - cbn [snd]. destruct (s_reg (get h k0)); intros [].
  - cbn [snd]. destruct (s_reg (get h k0)); intros [].
  - cbn [snd]. destruct (s_reg (get h k0)); intros [].
  - intros [].
  - cbn [snd client_creates_of flat_map]. rewrite app_nil_l. fold (client_creates_of (closes_of C h)).
    rewrite (proj1 (proj2 (proj2 (quiet_closes C h)))). intros [].
  - intros [].
  - intros [].
  - intros [].
  - destruct (queued (get h k0)).
    + destruct (keep_this C _ k0 true) as [go o2] eqn:K.
      pose proof (quiet_keep C (upd h k0 (set_pst (get h k0) ConnectionStateReceivedPairingRequest)) k0 true) as Q.
      rewrite K in Q. cbn [snd] in Q. pose proof (quiet_regclose C _ Q) as (_ & _ & Q' & _). destruct Q as (_ & _ & Q & _).
      destruct go; cbn [snd]; rewrite !ccreates_app, ?Q', Q; cbn; intros [].
    + destruct (keep_this C h k0 true) as [go o2] eqn:K.
      pose proof (quiet_keep C h k0 true) as Q. rewrite K in Q. cbn [snd] in Q. pose proof (quiet_regclose C _ Q) as (_ & _ & Q' & _). destruct Q as (_ & _ & Q & _).
      destruct go; cbn [snd]; rewrite !ccreates_app, ?Q', Q; cbn; intros [].
  - intros [].
  - intros [].
  - cbn [snd]. destruct (negb completed && negb _); [intros []|].
    cbn [client_creates_of flat_map]. rewrite app_nil_l.
    match goal with |- In _ (flat_map ?f ?x) -> _ => change (flat_map f x) with (client_creates_of x) end.
    rewrite (proj1 (proj2 (proj2 (quiet_reannounce C _)))). intros [].
  - destruct (s_pend (get h k0)) as [n|]; [|intros []].
    repeat match goal with |- context [if ?b then _ else _] => destruct b end; cbn [snd]; try (intros []; fail).
    all: rewrite (proj1 (proj2 (proj2 (quiet_reannounce C _)))); intros [].
  - destruct (N.eqb (s_dialing (get h k0)) 0) eqn:D; [intros []|].
    destruct (keep_this C _ k0 false) as [go o2] eqn:K.
    pose proof (quiet_keep C (upd h k0 (set_dialing (get h k0) (N.pred (s_dialing (get h k0))))) k0 false) as Q.
    rewrite K in Q. cbn [snd] in Q. pose proof (quiet_regclose C _ Q) as (_ & _ & Q' & _). destruct Q as (_ & _ & Q & _).
    destruct go; cbn [snd]; rewrite !ccreates_app, ?Q', Q.
    + cbn. intros [<-|[]]. exists c. split; [reflexivity|exact D].
    + rewrite (proj1 (proj2 (proj2 (quiet_reannounce C _)))). intros [].
  - destruct (N.eqb (s_dialing (get h k0)) 0); [intros []|].
    cbn [snd]. rewrite (proj1 (proj2 (proj2 (quiet_reannounce C _)))). intros [].
Qed.

(* no dial in flight and none may start: none in flight afterwards *)
Lemma dialing_stays_zero C h l k :
  s_dialing (get h k) = 0 -> may_dial (get h k) = false ->
  s_dialing (get (fst (hstep C h l)) k) = 0.
Proof.
  intros Z M.
  destruct (label_ski l) as [k0|] eqn:LS.
  2:{ destruct (hstep_global_core C h l k LS) as (_ & _ & _ & _ & _ & E). congruence. }
  destruct (N.eqb_spec k k0) as [->|NE].
  2:{ rewrite (hstep_other C h l k0 k LS NE). exact Z. }
  destruct l; inversion LS; subst; cbn [hstep].
  - destruct (negb (h_started h)); [|destruct (s_reg (get h k0))]; cbn [fst]; rewrite get_upd_same; exact Z.
  - cbn [fst]. rewrite get_upd_same. exact Z.
  - cbn [fst]. rewrite get_upd_same. exact Z.
  - exact Z.
  - cbn [fst]. rewrite get_upd_same. exact Z.
  - destruct (queued (get h k0));
      [destruct (keep_this C _ k0 true) as [[|] o2]|destruct (keep_this C h k0 true) as [[|] o2]];
      cbn [fst]; rewrite ?get_upd_same; exact Z.
  - cbn [fst]. rewrite get_upd_same. exact Z.
  - cbn [fst]. rewrite get_upd_same.
    destruct (N.eqb st SmeHelloStateOk); exact Z.
  - cbn [fst]. rewrite get_upd_same.
    destruct (s_reg (get h k0)) as [r|]; [destruct (N.eqb r c), completed|]; exact Z.
  - destruct (s_pend (get h k0)); [|exact Z].
    destruct (c_gprep C && h_down h); [cbn [fst]; rewrite get_upd_same; exact Z|].
    destruct (negb (option_eqb N.eqb _ _)); [cbn [fst]; rewrite get_upd_same; exact Z|].
    rewrite M. cbn [negb fst]. rewrite get_upd_same. exact Z.
  - rewrite Z. exact Z.
  - rewrite Z. exact Z.
Qed.

Lemma gunreg_gstep g l k :
  g_unreg (gstep g l) k = true ->
  regrants l k = false /\ (g_unreg g k = true \/ l = LUnregister k \/ l = LCancel k).
Proof.
  destruct l; cbn [gstep regrants g_unreg]; unfold gset; try (intros H; split; [reflexivity|left; exact H]).
  - destruct (N.eqb_spec k k0); [discriminate|]. intros H. split; [|left; exact H].
    apply N.eqb_neq. congruence.
  - destruct (N.eqb_spec k k0) as [->|_]; intros H; (split; [reflexivity|]); [right; left; reflexivity|left; exact H].
  - destruct (N.eqb_spec k k0) as [->|_]; intros H; (split; [reflexivity|]); [right; right; reflexivity|left; exact H].
  - destruct (grant_state st) eqn:G; cbn [g_unreg].
    + destruct (N.eqb_spec k k0); [discriminate|]. intros H. split; [|left; exact H].
      assert (N.eqb k0 k = false) as -> by (apply N.eqb_neq; congruence). reflexivity.
    + intros H. split; [apply andb_false_r|left; exact H].
Qed.

Definition WInv (g : ghost) (h : hub) : Prop :=
  forall k, g_unreg g k = true -> may_dial (get h k) = false /\ s_dialing (get h k) = 0.

Lemma may_dial_after_no_grant C h l k :
  may_dial (get h k) = false -> regrants l k = false -> may_dial (get (fst (hstep C h l)) k) = false.
Proof.
  intros M R. destruct (may_dial (get (fst (hstep C h l)) k)) eqn:E; [|reflexivity].
  rewrite (grant_origin C h l k E M) in R. discriminate R.
Qed.

Theorem window_partial C : forall ls g h,
  WInv g h -> window_free C h ls = true -> run_window C g h ls = [].
Proof.
  induction ls as [|l r IH]; intros g h W F; [reflexivity|].
  cbn [run_window window_free] in *. apply andb_true_iff in F as [F1 F2].
  destruct (hstep C h l) as [h1 o] eqn:HS.
  assert (H1 : h1 = fst (hstep C h l)) by (rewrite HS; reflexivity).
  assert (O1 : o = snd (hstep C h l)) by (rewrite HS; reflexivity).
  cbn [fst] in F2.
  assert (MW : mon_window g o = []).
  { unfold mon_window, cond.
    destruct (forallb (fun k => negb (g_unreg g k)) (client_creates_of o)) eqn:E; [reflexivity|].
    exfalso. apply Bool.not_true_iff_false in E. apply E. apply forallb_forall. intros k Hk.
    destruct (g_unreg g k) eqn:U; [|reflexivity]. exfalso.
    rewrite O1 in Hk. apply ccreate_step in Hk as (c & _ & D).
    destruct (W k U) as [_ Z]. rewrite Z in D. discriminate D. }
  rewrite MW. cbn [app]. apply IH; [|exact F2].
  intros k U. apply gunreg_gstep in U as [R [U|[->| ->]]].
  - destruct (W k U) as [M Z]. subst h1. split.
    + apply may_dial_after_no_grant; assumption.
    + apply dialing_stays_zero; assumption.
  - apply N.eqb_eq in F1. subst h1. cbn [hstep fst]. rewrite get_upd_same. split; [reflexivity|exact F1].
  - apply N.eqb_eq in F1. subst h1. cbn [hstep fst]. rewrite get_upd_same. split; [reflexivity|exact F1].
Qed.

Lemma winv_init started : WInv ghost0 (hub0 started).
Proof. intros k U. discriminate U. Qed.

(* from a fresh hub: no client-role connection towards a SKI the user unregistered *)
Corollary window_partial_fresh C started ls :
  window_free C (hub0 started) ls = true -> run_window C ghost0 (hub0 started) ls = [].
Proof. apply window_partial, winv_init. Qed.

Lemma no_dial_after_unregister C h k ls :
  (forall l, In l ls -> regrants l k = false) ->
  let r := hrun C (fst (hstep C h (LUnregister k))) ls in
  ~ In k (dials_of (snd r)) /\ may_dial (get (fst r) k) = false.
Proof. intros G. apply no_grant_no_dial; [apply unregister_effect|exact G]. Qed.

Lemma no_dial_after_shutdown_table u lgt h ls :
  dials_of (snd (hrun (with_table u lgt) (fst (hstep (with_table u lgt) h LShutdown)) ls)) = [].
Proof. exact (no_dial_after_shutdown (with_table u lgt) eq_refl eq_refl h ls). Qed.

Lemma no_reannounce_after_shutdown_table u lgt h : h_down h = true -> reannounce (with_table u lgt) h = [].
Proof. exact (reannounce_down (with_table u lgt) h eq_refl). Qed.
