(* PairCheck.v — case checker of the pair stream: the model runs the label list the harness
   executed on two real connections; the C03 outcome monitor is evaluated on the
   implementation's own summaries.  Definitions only. *)
From Coq Require Import FMapPositive.
From Ship Require Import Base Closure Conn ConnEvents ConnMon ConnClosure Pair PairClosure PairPatient.

(* after the label run, if both sides are complete on an open connection, the harness lets
   each side write a burst of SPINE datagrams back to back and then delivers them all:
   what was written (payload ids) and what the peer's reader got, per direction *)
Record pair_case := mkPairCase { pc_cfg : pcfg; pc_labels : list label; pc_sums : list psum;
  pc_cs_sent : list N; pc_cs_got : list N; pc_sc_sent : list N; pc_sc_got : list N }.

Definition pstep_or_stay1 (cfg : pcfg) (p : pair) (l : label) : pair :=
  match pstep2 false cfg p l with Some q => q | None => p end.

(* the harness cannot let only one side's time.After goroutines run: its "deferred" step is
   a real wait during which the pending goroutines of BOTH sides fire (they are independent:
   each closes its own side); it is recorded as LDeferredC *)
Definition pstep_or_stay (cfg : pcfg) (p : pair) (l : label) : pair :=
  match l with
  | LDeferredC => pstep_or_stay1 cfg (pstep_or_stay1 cfg p LDeferredC) LDeferredS
  | _ => pstep_or_stay1 cfg p l
  end.

Fixpoint run_sums (cfg : pcfg) (p : pair) (ls : list label) : list psum :=
  match ls with
  | [] => []
  | l :: r => let p' := pstep_or_stay cfg p l in sum_of p' :: run_sums cfg p' r
  end.

Definition final_pair (cfg : pcfg) (ls : list label) : pair :=
  fold_left (pstep_or_stay cfg) ls (pair_init cfg).

(* was some approval given while the server was pending and had not yet seen the client's
   hello "ready", or while a further hello of the client (the answer to a prolongation request)
   was under way?  (the situation of the recorded finding) *)
Fixpoint early_approval (cfg : pcfg) (p : pair) (ls : list label) : bool :=
  match ls with
  | [] => false
  | l :: r =>
      (match l with LApprove => f_approves cfg && negb (u_done (core p)) && negb (approve_quiet p) | _ => false end)
      || early_approval cfg (pstep_or_stay cfg p l) r
  end.

(* was every timer expiry of the script one that does not count as "a handshake timer ran out"
   in the sense of C03's first sentence: a timely one (nothing else could happen and the user, if
   any, had acted) or a prolongation expiry of the pending server (patient mode)?  Racing
   expiries (PairArb.v) are not: after one of them only agreement is demanded, not success. *)
Fixpoint benign_expiries (cfg : pcfg) (p : pair) (ls : list label) : bool :=
  match ls with
  | [] => true
  | l :: r =>
      (negb (is_timeout l) || prolong_expiry cfg p l || negb (busy false cfg p))
      && benign_expiries cfg (pstep_or_stay cfg p l) r
  end.

Definition V_PAIR_APPROVED_EARLY_FAILED : N := 70.
Definition V_PAIR_SHOULD_COMPLETE : N := 71.
Definition V_PAIR_SHOULD_NOT_COMPLETE : N := 72.
Definition V_PAIR_DISAGREE : N := 73.
Definition V_PAIR_SETUP_TWICE : N := 74.
Definition V_PAIR_COMPLETE_WITHOUT_TRUST : N := 75.
Definition V_PAIR_SPINE_NOT_EXACTLY_ONCE_IN_ORDER : N := 76.
Definition V_PAIR_COMPLETED_AFTER_CANCEL : N := 77.
Definition V_PAIR_ERROR_STATE_TRANSPORT_OPEN : N := 78.
Definition V_PAIR_COMPLETED_WITH_WRONG_STORED_ID : N := 79.

(* did the user cancel while the server's hello phase was waiting (states 8 / 11)? *)
Fixpoint cancel_in_hello (cfg : pcfg) (p : pair) (ls : list label) : bool :=
  match ls with
  | [] => false
  | l :: r =>
      (match l with
       | LCancel => f_cancels cfg && negb (u_done (core p))
                    && (N.eqb (p_st (e_s (core p))) 8 || N.eqb (p_st (e_s (core p))) 11)
       | _ => false end)
      || cancel_in_hello cfg (pstep_or_stay cfg p l) r
  end.

Definition trust_in_labels (cfg : pcfg) (ls : list label) : bool :=
  f_paired cfg || f_auto cfg || (f_approves cfg && existsb (fun l => match l with LApprove => true | _ => false end) ls).

(* the monitor: safety on every summary, outcome on the last one if the run is over *)
Definition pair_monitor (c : pair_case) : codes :=
  let cfg := pc_cfg c in
  let safety :=
    flat_map (fun o =>
      (if (o_nsetc o <=? 1) && (o_nsets o <=? 1) then [] else [V_PAIR_SETUP_TWICE]) ++
      (if implb (o_compc o || o_comps o) (trust_in_labels cfg (pc_labels c)) then [] else [V_PAIR_COMPLETE_WITHOUT_TRUST]) ++
      (if (o_compc o || o_comps o) && cancel_in_hello cfg (pair_init cfg) (pc_labels c) then [V_PAIR_COMPLETED_AFTER_CANCEL] else []) ++
      (* a side that had stored another SHIP id than the peer's never completes (PairClosure.pair_safe) *)
      (if (o_compc o && match f_cid cfg with IdWrong => true | _ => false end)
          || (o_comps o && match f_sid cfg with IdWrong => true | _ => false end)
       then [V_PAIR_COMPLETED_WITH_WRONG_STORED_ID] else []) ++
      (* "a side that gives up closes the connection": the error state is never seen with the transport open *)
      (if (N.eqb (o_stc o) 39 && negb (o_closedc o)) || (N.eqb (o_sts o) 39 && negb (o_closeds o))
       then [V_PAIR_ERROR_STATE_TRANSPORT_OPEN] else []))
      (pc_sums c) in
  let over := match timely_next false cfg (final_pair cfg (pc_labels c)) with [] => true | _ => false end in
  (* the implementation's own last summary says both sides have ended with nothing under way:
     the run is over whatever the model thinks *)
  let benign := benign_expiries cfg (pair_init cfg) (pc_labels c) in
  let impl_ended (o : psum) :=
    sum_both_ended o && match o_qcs o, o_qsc o with [], [] => true | _, _ => false end in
  let outcome :=
    match rev (pc_sums c) with
    | [] => []
    | o :: _ =>
        if negb (over || impl_ended o) then [] else
        (if sum_both_complete_open o || sum_both_ended o then [] else [V_PAIR_DISAGREE]) ++
        (if negb benign || implb (must_succeed cfg) (sum_both_complete_open o) then []
         else if early_approval cfg (pair_init cfg) (pc_labels c) then [V_PAIR_APPROVED_EARLY_FAILED]
              else [V_PAIR_SHOULD_COMPLETE]) ++
        (if implb (must_fail cfg) (sum_both_ended o && negb (o_compc o) && negb (o_comps o)) then [] else [V_PAIR_SHOULD_NOT_COMPLETE])
    end in
  let spine :=
    if list_eqb N.eqb (pc_cs_sent c) (pc_cs_got c) && list_eqb N.eqb (pc_sc_sent c) (pc_sc_got c)
    then [] else [V_PAIR_SPINE_NOT_EXACTLY_ONCE_IN_ORDER] in
  nodup N.eq_dec (safety ++ outcome ++ spine).

Definition check_pair (c : pair_case) : codes :=
  (if list_eqb psum_eqb (run_sums (pc_cfg c) (pair_init (pc_cfg c)) (pc_labels c)) (pc_sums c) then [] else [1])
  ++ pair_monitor c.

(* the C06 projection of the pair stream: correspondence, and only the SPINE burst monitor *)
Definition check_pair_spine (c : pair_case) : codes :=
  filter (fun k => N.eqb k 1 || N.eqb k V_PAIR_SPINE_NOT_EXACTLY_ONCE_IN_ORDER) (check_pair c).
