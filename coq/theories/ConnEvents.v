(* ConnEvents.v — which control events can occur in which state (definitions only).
   * a received message is consulted by the decoder of the state it arrives in (skind);
   * the environment's answers are only looked at where the code asks for them;
   * environment assumptions (realisability): Run() is called once; the SPINE writer is
     handed out by SetupRemoteDevice, so SPINE writes only occur after it. *)
From Ship Require Import Base Conn.

Inductive skind := KInit | KHello | KProt | KPin | KAcc | KNone.

Definition skind_of (s : N) : skind :=
  match s with
  | 2 | 4 => KInit
  | 8 | 11 => KHello
  | 20 | 21 | 22 => KProt
  | 27 => KPin
  | 36 => KAcc
  | _ => KNone
  end.

Definition all_init : list initc := [InitBadType; InitBadSecond; InitOk].
Definition all_w : list wcls := [WNone; WLt1; WMid; WGe30].
Definition all_pro : list pro := [PNone; PTrue; PFalse].
Definition all_phase : list hphase := [HReady; HPending; HAborted; HOther].
Definition all_hello : list helloc :=
  HelloErr :: flat_map (fun p => flat_map (fun w => map (fun pr => Hello p w pr) all_pro) all_w) all_phase.
Definition all_prot : list protc :=
  ProtErr :: flat_map (fun t => flat_map (fun v => map (fun f => Prot t v f) [FNil; FEmpty; FUtf8; FOther])
                                         [true; false]) [PAnnounce; PSelect; POtherT].
Definition all_pin : list pinc := [PinErr; PinNone; PinOther].
Definition all_acc : list accc :=
  [AccReq; AccMethodsErr; AccNoId; AccId true true; AccId true false; AccId false true;
   AccId false false; AccNeither].

Definition msgs_of_kind (k : skind) : list msg :=
  match k with
  | KInit => map MInit all_init
  | KHello => map MHello all_hello
  | KProt => map MProt all_prot
  | KPin => map MPin all_pin
  | KAcc => map MAcc all_acc
  | KNone => [MGarbage]
  end.

Definition trust_rel (k : skind) : bool := match k with KInit => true | _ => false end.
Definition allow_rel (k : skind) : bool := match k with KInit | KHello => true | _ => false end.

Definition WF_MAX : nat := 6.
Definition all_wf : list (option nat) := [None; Some 0; Some 1; Some 2; Some 3; Some 4; Some 5]%nat.
Definition cap_wf (w : option nat) : option nat :=
  match w with Some n => if Nat.ltb n WF_MAX then Some n else None | None => None end.

(* the control events that can occur in control state c *)
Definition recv_evs (c : cs) : list cev :=
    [CRecv DgErr NoClose MGarbage; CRecv DgNoPayload NoClose MGarbage; CRecv DgOk NoClose MGarbage;
     CRecv NotDatagram ClAnnounce MGarbage; CRecv NotDatagram ClConfirm MGarbage;
     CRecv NotDatagram ClOther MGarbage]
    ++ map (CRecv NotDatagram NoClose) (msgs_of_kind (skind_of (st c))).

Definition base_evs (c : cs) : list cev :=
  (if ran c then [] else [CRun]) ++ recv_evs c ++
  [CTimeout; CConnErr; CWClosed; CApprove; CAbort; CClose true; CClose false; CDeferred; CNop]
  ++ (if reader c then [CSpineWrite] else []).

Definition bools_if (b : bool) : list bool := if b then [false; true] else [false].

Definition events_for (c : cs) : list cevx :=
  let k := skind_of (st c) in
  flat_map (fun e =>
    flat_map (fun p =>
      flat_map (fun a =>
        flat_map (fun al =>
          map (fun w => mkEv e p a al w) all_wf)
          (if allow_rel k then [true; false] else [true]))
        (bools_if (trust_rel k)))
      (bools_if (trust_rel k)))
    (base_evs c).
