(* Ski.v — model of util.NormalizeSKI on ASCII byte strings (definitions only).
   The stripped characters and the lower-casing flag are regenerated from
   /repo/util/helper.go on every run (gen/SkiTable.v). *)
From Ship Require Import Base.
From ShipGen Require Import SkiTable.

Definition is_upper (c : N) : bool := (65 <=? c) && (c <=? 90).
Definition lower (c : N) : N := if is_upper c then c + 32 else c.
Definition is_lowerl (c : N) : bool := (97 <=? c) && (c <=? 122).
(* flip the case of an ASCII letter, identity elsewhere *)
Definition flip (c : N) : N :=
  if is_upper c then c + 32 else if is_lowerl c then c - 32 else c.

Definition stripped (c : N) : bool := existsb (N.eqb c) stripped_chars.

Definition strip (l : bytes) : bytes := filter (fun c => negb (stripped c)) l.

Definition normalize (l : bytes) : bytes :=
  if lowercases then map lower (strip l) else strip l.

Definition same_ski (a b : bytes) : Prop := normalize a = normalize b.

(* the side condition on the regenerated table that the theorems need:
   no stripped character is an ASCII letter (so stripping and case mapping commute) *)
Definition table_ok : bool :=
  lowercases && forallb (fun c => negb (is_upper c) && negb (is_lowerl c)) stripped_chars.

(* correspondence + monitor case, written by the harness:
   s  : an ASCII string,  s' : a re-formatting of s (case flips, inserted stripped chars),
   o = impl(s), o' = impl(s'), oo = impl(o) *)
Record ski_case := { sk_s : bytes; sk_s' : bytes; sk_o : bytes; sk_o' : bytes; sk_oo : bytes }.

Definition check_ski_case (c : ski_case) : codes :=
  (if bytes_eqb (normalize (sk_s c)) (sk_o c) && bytes_eqb (normalize (sk_s' c)) (sk_o' c)
      && bytes_eqb (normalize (sk_o c)) (sk_oo c) then [] else [1]) ++
  (* monitors on the implementation's own outputs *)
  (if bytes_eqb (sk_oo c) (sk_o c) then [] else [10]) ++     (* idempotence *)
  (if bytes_eqb (sk_o' c) (sk_o c) then [] else [11]).       (* formatting invariance *)
