(* Eebus.v — model of ship/helper.go (C07), definitions only.

   JsonIntoEEBUSJson : JSON text -> EEBUS wire text   (tree rewrite + json.Marshal + bracket strip)
   JsonFromEEBUSJson : EEBUS wire text -> JSON text   (purely textual: ReplaceAll passes + NUL trim)

   A document is a tree whose scalars and member names are opaque literal byte strings
   (a string literal includes its quotes and escapes; a number literal is its digits), so
   "member order and number literals preserved" is equality of trees / of rendered bytes.
   encoding/json's parsing and string escaping are outside the model: the tree is what the
   decoder produced, with literals in the form json.Marshal writes them.

   The replacement pairs, the trim cutset and the strip literals are regenerated from
   /repo/ship/helper.go on every run (gen/EebusTable.v). *)
From Ship Require Import Base.
From ShipGen Require Import EebusTable.

(* ------------------------------------------------------------------ JSON trees *)
Inductive json :=
| JS (l : bytes)                      (* scalar: the literal bytes *)
| JA (vs : list json)                 (* array *)
| JO (ms : list (bytes * json)).      (* object: (name literal, value) in document order *)

(* ------------------------------------------------------------------ tokens
   Text is produced from tokens: one punctuation byte, or one literal. *)
Inductive tok := P (b : N) | L (l : bytes).

Definition LB := P 91.   (* [ *)
Definition RB := P 93.   (* ] *)
Definition LC := P 123.  (* { *)
Definition RC := P 125.  (* } *)
Definition CM := P 44.   (* , *)
Definition CL := P 58.   (* : *)

Definition tok_bytes (t : tok) : bytes := match t with P b => [b] | L l => l end.
Definition flat (ts : list tok) : bytes := flat_map tok_bytes ts.

(* x1 sep x2 sep ... xn *)
Fixpoint sepcat {A} (sep : list A) (xs : list (list A)) : list A :=
  match xs with
  | [] => []
  | x :: r => match r with [] => x | _ :: _ => x ++ sep ++ sepcat sep r end
  end.

(* Go's compact json.Marshal output of a tree, as tokens *)
Fixpoint rt (d : json) : list tok :=
  match d with
  | JS l => [L l]
  | JA vs => LB :: sepcat [CM] (map rt vs) ++ [RB]
  | JO ms => LC :: sepcat [CM] (map (fun m => let '(k, v) := m in L k :: CL :: rt v) ms) ++ [RC]
  end.

Definition render (d : json) : bytes := flat (rt d).

(* ------------------------------------------------------------------ JSON -> EEBUS
   process_eebus_json_hierarchie_level: every object becomes the array of its
   single-member objects; arrays are mapped; scalars are returned as they are. *)
Fixpoint to_eebus (d : json) : json :=
  match d with
  | JS l => JS l
  | JA vs => JA (map to_eebus vs)
  | JO ms => JA (map (fun m => let '(k, v) := m in JO [(k, to_eebus v)]) ms)
  end.

(* strings.TrimPrefix / strings.TrimSuffix *)
Fixpoint is_prefix {A} (eqb : A -> A -> bool) (p t : list A) : bool :=
  match p, t with
  | [], _ => true
  | x :: p', y :: t' => eqb x y && is_prefix eqb p' t'
  | _ :: _, [] => false
  end.

Definition trim_prefix (p t : bytes) : bytes :=
  if is_prefix N.eqb p t then skipn (length p) t else t.
Definition trim_suffix (s t : bytes) : bytes := rev (trim_prefix (rev s) (rev t)).

(* "we are lazy: fix the first item being put into an array" *)
Definition strip_outer (t : bytes) : bytes :=
  trim_suffix eebus_strip_close (trim_prefix eebus_strip_open t).

(* JsonIntoEEBUSJson on a decoded document: an error unless the top level is an object *)
Definition into_eebus (d : json) : option bytes :=
  match d with
  | JO _ => Some (strip_outer (render (to_eebus d)))
  | _ => None
  end.

(* the wire text of a document with a top-level object *)
Definition wire (d : json) : bytes := strip_outer (render (to_eebus d)).

(* ------------------------------------------------------------------ EEBUS -> JSON
   bytes.ReplaceAll old new: leftmost, non-overlapping, the output is not rescanned.
   [skip] counts the bytes of a match that are still to be dropped. *)
Fixpoint ra {A} (eqb : A -> A -> bool) (pat rep : list A) (skip : nat) (t : list A) : list A :=
  match t with
  | [] => []
  | c :: t' =>
      match skip with
      | S k => ra eqb pat rep k t'
      | O => if is_prefix eqb pat t then rep ++ ra eqb pat rep (length pat - 1) t'
             else c :: ra eqb pat rep 0 t'
      end
  end.

(* An empty [old] (Go then inserts [new] around every rune) is not modelled: table_ok
   requires the regenerated patterns to be non-empty. *)
Definition replace_all (pat rep t : bytes) : bytes :=
  match pat with [] => t | _ :: _ => ra N.eqb pat rep 0 t end.

Definition in_set (c : N) (s : bytes) : bool := existsb (N.eqb c) s.

Fixpoint drop_set (cut t : bytes) : bytes :=
  match t with
  | [] => []
  | c :: t' => if in_set c cut then drop_set cut t' else t
  end.
(* bytes.Trim(s, cutset): both ends *)
Definition trim_set (cut t : bytes) : bytes := rev (drop_set cut (rev (drop_set cut t))).

Definition passes (pairs : list (bytes * bytes)) (t : bytes) : bytes :=
  fold_left (fun acc pr => replace_all (fst pr) (snd pr) acc) pairs t.

(* the replacements applied to the whole text, string literals included: JsonFromEEBUSJson
   as it was before the fix (kept: the table says which variant the source has) *)
Definition from_eebus_global (t : bytes) : bytes := trim_set eebus_trim_cutset (passes eebus_pairs t).

(* The fixed JsonFromEEBUSJson: the text is cut at string literals; the passes are applied
   to each stretch between them, the literals (quotes included) are copied.
   mode 0: outside, [seg] = the current stretch, reversed;
   mode 1: inside a string literal;  mode 2: inside, right after a backslash.
   An unterminated literal runs to the end of the text. *)
Fixpoint scan (mode : N) (seg : bytes) (t : bytes) : bytes :=
  match t with
  | [] => match mode with 0 => passes eebus_pairs (rev seg) | _ => [] end
  | c :: t' =>
      match mode with
      | 0 => if c =? 34 then passes eebus_pairs (rev seg) ++ c :: scan 1 [] t'
             else scan 0 (c :: seg) t'
      | 1 => c :: (if c =? 92 then scan 2 [] t' else if c =? 34 then scan 0 [] t' else scan 1 [] t')
      | _ => c :: scan 1 [] t'
      end
  end.

Definition from_eebus_scanning (t : bytes) : bytes := trim_set eebus_trim_cutset (scan 0 [] t).

(* JsonFromEEBUSJson, byte for byte; eebus_scans_strings is regenerated from the source *)
Definition from_eebus (t : bytes) : bytes :=
  if eebus_scans_strings then from_eebus_scanning t else from_eebus_global t.

(* ------------------------------------------------------------------ side conditions *)
(* every byte that occurs in a search pattern *)
Definition pat_bytes : bytes := flat_map fst eebus_pairs.

Fixpoint occurs (pat t : bytes) : bool :=
  match t with
  | [] => false
  | _ :: t' => is_prefix N.eqb pat t || occurs pat t'
  end.

(* A literal the textual passes cannot see: it contains none of the search patterns and its
   first and last byte occur in no pattern.  Every JSON literal begins and ends with a
   quote, a digit, a letter or '-', so for JSON documents this says exactly: no string
   literal (value or member name) contains one of the patterns. *)
Definition lit_ok (l : bytes) : bool :=
  match l with
  | [] => false
  | c :: _ =>
      negb (in_set c pat_bytes) && negb (in_set (last l 0) pat_bytes)
      && forallb (fun pr => negb (occurs (fst pr) l)) eebus_pairs
  end.

Fixpoint lits_ok (d : json) : bool :=
  match d with
  | JS l => lit_ok l
  | JA vs => forallb lits_ok vs
  | JO ms => forallb (fun m => let '(k, v) := m in lit_ok k && lits_ok v) ms
  end.

Definition is_nil {A} (l : list A) : bool := match l with [] => true | _ => false end.

(* Lexical well-formedness of a literal, all the fixed conversion needs:
   a string literal is a quote, then bytes in which a quote only follows a backslash
   escape, then the closing quote; any other literal (number, true, false, null) is
   non-empty and contains no quote and no byte of a search pattern ([ ] { } ,). *)
Fixpoint str_tail_ok (esc : bool) (m : bytes) : bool :=
  match m with
  | [] => false
  | c :: m' =>
      if esc then str_tail_ok false m'
      else if c =? 92 then str_tail_ok true m'
      else if c =? 34 then is_nil m'
      else str_tail_ok false m'
  end.
Definition str_lit_ok (l : bytes) : bool :=
  match l with c :: m => (c =? 34) && str_tail_ok false m | [] => false end.
Definition atom_ok (l : bytes) : bool :=
  negb (is_nil l) && forallb (fun c => negb (c =? 34) && negb (in_set c pat_bytes)) l.
Definition lit_wf (l : bytes) : bool := str_lit_ok l || atom_ok l.

Fixpoint lits_wf (d : json) : bool :=
  match d with
  | JS l => lit_wf l
  | JA vs => forallb lits_wf vs
  | JO ms => forallb (fun m => let '(k, v) := m in str_lit_ok k && lits_wf v) ms
  end.

Fixpoint has_empty_array (d : json) : bool :=
  match d with
  | JS _ => false
  | JA vs => is_nil vs || existsb has_empty_array vs
  | JO ms => existsb (fun m => has_empty_array (snd m)) ms
  end.

(* what comes back: every empty array has become an empty object *)
Fixpoint norm (d : json) : json :=
  match d with
  | JS l => JS l
  | JA vs => match vs with [] => JO [] | _ :: _ => JA (map norm vs) end
  | JO ms => JO (map (fun m => let '(k, v) := m in (k, norm v)) ms)
  end.

Definition top_nonempty (d : json) : bool :=
  match d with JO (_ :: _) => true | _ => false end.
Definition top_object (d : json) : bool :=
  match d with JO _ => true | _ => false end.

(* the regenerated table is the one the proofs are about *)
Definition table_ok : bool :=
  negb eebus_unknown_ops
  && forallb (fun pr => negb (is_nil (fst pr))) eebus_pairs
  && bytes_eqb eebus_strip_open [91] && bytes_eqb eebus_strip_close [93].

(* ------------------------------------------------------------------ observers for (d) *)
(* member names in document order (pre-order), and scalar literals in document order *)
Fixpoint names_of (d : json) : list bytes :=
  match d with
  | JS _ => []
  | JA vs => flat_map names_of vs
  | JO ms => flat_map (fun m => let '(k, v) := m in k :: names_of v) ms
  end.
Fixpoint scalars_of (d : json) : list bytes :=
  match d with
  | JS l => [l]
  | JA vs => flat_map scalars_of vs
  | JO ms => flat_map (fun m => scalars_of (snd m)) ms
  end.

(* ------------------------------------------------------------------ tree equality *)
Fixpoint json_eqb (a b : json) : bool :=
  match a, b with
  | JS x, JS y => bytes_eqb x y
  | JA xs, JA ys =>
      (fix go (xs ys : list json) : bool :=
         match xs, ys with
         | [], [] => true
         | x :: xs', y :: ys' => json_eqb x y && go xs' ys'
         | _, _ => false
         end) xs ys
  | JO xs, JO ys =>
      (fix go (xs ys : list (bytes * json)) : bool :=
         match xs, ys with
         | [], [] => true
         | (k, x) :: xs', (k', y) :: ys' => bytes_eqb k k' && json_eqb x y && go xs' ys'
         | _, _ => false
         end) xs ys
  | _, _ => false
  end.

(* ------------------------------------------------------------------ monitors *)
(* (a) SHIP shape: [w] is [d] with every object, at every depth, turned into the array of
   its single-member objects in order, and nothing else changed *)
Fixpoint shape_ok (d w : json) : bool :=
  match d, w with
  | JS x, JS y => bytes_eqb x y
  | JA xs, JA ys =>
      (fix go (xs ys : list json) : bool :=
         match xs, ys with
         | [], [] => true
         | x :: xs', y :: ys' => shape_ok x y && go xs' ys'
         | _, _ => false
         end) xs ys
  | JO xs, JA ys =>
      (fix go (xs : list (bytes * json)) (ys : list json) : bool :=
         match xs, ys with
         | [], [] => true
         | (k, x) :: xs', JO [(k', y)] :: ys' => bytes_eqb k k' && shape_ok x y && go xs' ys'
         | _, _ => false
         end) xs ys
  | _, _ => false
  end.

(* (b) round trip: [back] is what came back for document [d]; semantic equality of compact
   documents with canonical literals is equality of the rendered bytes.  Failures are
   classified by their trigger:
     11  the only loss is: empty arrays came back as empty objects
     13  the document is the empty object (its wire text is empty)
     12  something else was lost and some literal contains a search pattern
     14  any other loss *)
Definition roundtrip_codes (d : json) (back : bytes) : codes :=
  if bytes_eqb back (render d) then []
  else if bytes_eqb back (render (norm d)) then [11]
  else if negb (top_nonempty d) then [13]
  else if negb (lits_ok d) then [12]
  else [14].

(* ------------------------------------------------------------------ the SHIP data envelope
   sendSpineData / transformSpineDataIntoShipJson (ship/connection.go): the SPINE payload is
   converted on its own, the envelope {"data":{"header":{"protocolId":..},"payload":
   <placeholder>}} is converted on its own, and the converted placeholder, in brackets, is
   replaced by the converted payload (strings.ReplaceAll); the message type byte goes in
   front.  The receiver drops that byte, applies JsonFromEEBUSJson to the whole text and
   takes the raw bytes of data.payload. *)
Definition quoted (s : bytes) : bytes := 34 :: s ++ [34].

Definition envelope (payload : json) : json :=
  JO [(quoted (hx "64617461"),                                   (* data *)
       JO [(quoted (hx "686561646572"),                          (* header *)
            JO [(quoted (hx "70726f746f636f6c4964"),             (* protocolId *)
                 JS (quoted ship_protocol_id))]);
           (quoted (hx "7061796c6f6164"), payload)])].           (* payload *)

(* the placeholder document {"place":"holder"} *)
Definition placeholder_doc : json :=
  JO [(quoted (hx "706c616365"), JS (quoted (hx "686f6c646572")))].

(* what WriteShipMessageWithPayload puts on the websocket for the SPINE payload d *)
Definition ship_message (d : json) : option bytes :=
  match d with
  | JO _ =>
      Some (ship_msg_type_data ::
            replace_all (91 :: ship_payload_placeholder ++ [93]) (wire d) (wire (envelope placeholder_doc)))
  | _ => None
  end.

(* the JSON text the receiver decodes *)
Definition received_text (msg : bytes) : bytes := from_eebus (tl msg).

(* the regenerated placeholder is the rendering of placeholder_doc *)
Definition envelope_ok : bool :=
  ship_envelope_consts_found && bytes_eqb (render placeholder_doc) ship_payload_placeholder.

(* end-to-end monitor: [payload] = the bytes handed to the SPINE reader, if any.
   Same classes as roundtrip_codes, plus 15: nothing was delivered for a non-empty document *)
Definition e2e_codes (d : json) (payload : option bytes) : codes :=
  match payload with
  | Some p => roundtrip_codes d p
  | None => if negb (top_nonempty d) then [13] else [15]
  end.

(* ------------------------------------------------------------------ cases from jsondrv *)
Inductive c07_case :=
(* JsonFromEEBUSJson on arbitrary bytes: input, implementation's output *)
| CBytes (inp out : bytes)
(* a document: the tree the driver rendered, whether JsonIntoEEBUSJson returned an error,
   its output, that output (re-wrapped in the stripped brackets) as a tree by the
   driver's tokenizer, JsonFromEEBUSJson of the output, and that as a tree *)
| CDoc (d : json) (err : bool) (w : bytes) (wtree : option json) (back : bytes) (btree : option json)
(* end to end through two real ShipConnections: the SPINE payload document, the websocket
   message the sender wrote (none if it wrote nothing), the payload bytes the receiver's
   SPINE reader got (none if nothing was delivered) *)
| CE2E (d : json) (msg : option bytes) (payload : option bytes).

Definition check_c07 (c : c07_case) : codes :=
  match c with
  | CBytes inp out => if bytes_eqb (from_eebus inp) out then [] else [1]
  | CDoc d err w wtree back btree =>
      match into_eebus d with
      | None => if err then [] else [1]
      | Some mw =>
          if err then [1] else
          (* correspondence: text, tree, and the way back *)
          (if bytes_eqb mw w && option_eqb json_eqb (Some (to_eebus d)) wtree
              && bytes_eqb (from_eebus w) back
              (* the driver's tokenizer and the model's renderer agree on what came back *)
              && Bool.eqb (bytes_eqb back (render d)) (option_eqb json_eqb (Some d) btree)
           then [] else [1])
          (* monitors on the implementation's own outputs *)
          ++ (match wtree with
              | Some wt => if shape_ok d wt then [] else [10]
              | None => [10]
              end)
          ++ roundtrip_codes d back
      end
  | CE2E d msg payload =>
      (* correspondence: the message on the wire, and the text the receiver decodes from it
         is the envelope around exactly the bytes that were delivered *)
      (if option_eqb bytes_eqb (ship_message d) msg
          && match msg, payload with
             | Some m, Some p => bytes_eqb (received_text m) (render (envelope (JS p)))
             | _, _ => true
             end
       then [] else [1])
      ++ e2e_codes d payload
  end.

(* ------------------------------------------------------------------ case transport
   Coq elaborates one long string literal much faster than thousands of short ones, so the
   driver ships a case as ONE byte string:  tag, then fields with a 3-byte length each.
   Trees travel in postfix code, decoded by a stack machine:
     1 len2 bytes   push the scalar with that literal
     2 n2           pop n values, push the array of them
     3 len2 bytes   pop a value, push the member (name, value)
     4 n2           pop n members, push the object of them
   A tree field that is empty means "no tree" (the text did not parse). *)
Inductive instr := IScalar (l : bytes) | IArray (n : N) | IName (l : bytes) | IObject (n : N).

Inductive lexst :=
| LOp                                   (* expecting an opcode *)
| LHi (op : N)                          (* expecting the high length byte *)
| LLo (op hi : N)                       (* expecting the low length byte *)
| LLit (op : N) (todo : N) (acc : bytes). (* inside a literal: bytes still to read *)

Definition mk_instr (op n : N) (lit : bytes) : option instr :=
  match op with
  | 1 => Some (IScalar lit) | 2 => Some (IArray n) | 3 => Some (IName lit) | 4 => Some (IObject n)
  | _ => None
  end.

Fixpoint lex (st : lexst) (t : bytes) : option (list instr) :=
  match t with
  | [] => match st with LOp => Some [] | _ => None end
  | c :: t' =>
      match st with
      | LOp => lex (LHi c) t'
      | LHi op => lex (LLo op c) t'
      | LLo op hi =>
          let n := 256 * hi + c in
          if (op =? 2) || (op =? 4) || (n =? 0) then
            match mk_instr op n [], lex LOp t' with
            | Some i, Some r => Some (i :: r)
            | _, _ => None
            end
          else lex (LLit op n []) t'
      | LLit op todo acc =>
          if todo =? 1 then
            match mk_instr op 0 (rev (c :: acc)), lex LOp t' with
            | Some i, Some r => Some (i :: r)
            | _, _ => None
            end
          else lex (LLit op (todo - 1) (c :: acc)) t'
      end
  end.

Inductive item := IV (v : json) | IM (k : bytes) (v : json).

(* pop n items off the stack (top first), returning them in document order *)
Fixpoint pop {A} (n : N) (st : list A) (acc : list A) : option (list A * list A) :=
  if n =? 0 then Some (acc, st) else
  match st with
  | [] => None
  | x :: st' => pop (n - 1) st' (x :: acc)
  end.

Fixpoint values_of (xs : list item) : option (list json) :=
  match xs with
  | [] => Some []
  | IV v :: r => option_map (cons v) (values_of r)
  | IM _ _ :: _ => None
  end.
Fixpoint members_of (xs : list item) : option (list (bytes * json)) :=
  match xs with
  | [] => Some []
  | IM k v :: r => option_map (cons (k, v)) (members_of r)
  | IV _ :: _ => None
  end.

Fixpoint run_instrs (is : list instr) (st : list item) : option (list item) :=
  match is with
  | [] => Some st
  | i :: r =>
      match i with
      | IScalar l => run_instrs r (IV (JS l) :: st)
      | IName k => match st with IV v :: st' => run_instrs r (IM k v :: st') | _ => None end
      | IArray n =>
          match pop n st [] with
          | Some (xs, st') =>
              match values_of xs with Some vs => run_instrs r (IV (JA vs) :: st') | None => None end
          | None => None
          end
      | IObject n =>
          match pop n st [] with
          | Some (xs, st') =>
              match members_of xs with Some ms => run_instrs r (IV (JO ms) :: st') | None => None end
          | None => None
          end
      end
  end.

(* Some None = "no tree";  None = the transport code is broken *)
Definition decode_tree (t : bytes) : option (option json) :=
  match t with
  | [] => Some None
  | _ :: _ =>
      match lex LOp t with
      | Some is => match run_instrs is [] with Some [IV v] => Some (Some v) | _ => None end
      | None => None
      end
  end.

Fixpoint split_at (n : N) (t acc : bytes) : option (bytes * bytes) :=
  match t with
  | [] => if n =? 0 then Some (rev acc, []) else None
  | c :: t' => if n =? 0 then Some (rev acc, t) else split_at (n - 1) t' (c :: acc)
  end.

Definition field (t : bytes) : option (bytes * bytes) :=
  match t with
  | a :: b :: c :: t' => split_at (65536 * a + 256 * b + c) t' []
  | _ => None
  end.

(* The texts travel only when they are not simply the compact rendering of the tree the
   driver's tokenizer made of them (the driver compares, bit 0 of [f] for the wire text,
   bit 1 for what came back): the same bytes are then rebuilt here from the tree. *)
Definition unwrap (t : bytes) : bytes := removelast (tl t).

Definition decode_case (t : bytes) : option c07_case :=
  match t with
  | 0 :: t1 =>
      match field t1 with
      | Some (inp, t2) =>
          match field t2 with Some (out, []) => Some (CBytes inp out) | _ => None end
      | None => None
      end
  | 1 :: e :: f :: t1 =>
      match field t1 with
      | Some (dc, t2) =>
      match field t2 with
      | Some (wc, t3) =>
      match field t3 with
      | Some (wtext, t4) =>
      match field t4 with
      | Some (bc, t5) =>
      match field t5 with
      | Some (btext, []) =>
          match decode_tree dc, decode_tree wc, decode_tree bc with
          | Some (Some d), Some wt, Some bt =>
              let w := if N.testbit f 0 then match wt with Some x => unwrap (render x) | None => [] end
                       else wtext in
              let back := if N.testbit f 1 then match bt with Some x => render x | None => [] end
                          else btext in
              Some (CDoc d (negb (e =? 0)) w wt back bt)
          | _, _, _ => None
          end
      | _ => None end
      | None => None end
      | None => None end
      | None => None end
      | None => None end
  | 2 :: f :: t1 =>
      (* CE2E: bit 0 of f = a message was written, bit 1 = a payload was delivered *)
      match field t1 with
      | Some (dc, t2) =>
      match field t2 with
      | Some (msg, t3) =>
      match field t3 with
      | Some (payload, []) =>
          match decode_tree dc with
          | Some (Some d) =>
              Some (CE2E d (if N.testbit f 0 then Some msg else None)
                           (if N.testbit f 1 then Some payload else None))
          | _ => None
          end
      | _ => None end
      | None => None end
      | None => None end
  | _ => None
  end.

(* printable ASCII stands for itself, "~hh" for the byte with hex code hh *)
Fixpoint rx (s : string) : bytes :=
  match s with
  | String a r =>
      if (N_of_ascii a =? 126) then
        match r with
        | String x (String y r') =>
            match hexval x, hexval y with
            | Some h, Some l => (16 * h + l) :: rx r'
            | _, _ => []
            end
        | _ => []
        end
      else N_of_ascii a :: rx r
  | EmptyString => []
  end.
Arguments rx s%string_scope.

(* what bin/check evaluates: a case that does not decode is a broken driver, code 1 *)
Definition check_c07_enc (t : bytes) : codes :=
  match decode_case t with
  | Some c => check_c07 c
  | None => [1]
  end.
