(* WsCheckProofs.v — the trace monitor of C12 (WsCheck.wire_codes), which bin/check evaluates
   on what the peer received, is implied by the theorem about the model
   (C12_wire_is_prefix_of_accepted): if the frames on the wire are a prefix of SOME
   acceptance order of the calls that returned nil, and that order extends the observable
   real-time order of the calls, the monitor reports nothing.  So a report of the monitor on
   the real code means that no such acceptance order exists: the real run is outside the model. *)
From Coq Require Import List Bool Arith NArith PArith Lia.
From Ship Require Import Base Ws WsCheck.
Import ListNotations.
Local Open Scope N_scope.

Lemma pos_of_ge x l i p : pos_of x l i = Some p -> i <= p.
Proof.
  revert i. induction l as [|y r IH]; intros i H; simpl in H; [discriminate|].
  destruct (N.eqb x y); [inversion H; lia|]. apply IH in H. lia.
Qed.

Lemma pos_of_lt x l i p : pos_of x l i = Some p -> p < i + N.of_nat (length l).
Proof.
  revert i. induction l as [|y r IH]; intros i H; simpl in H; [discriminate|].
  destruct (N.eqb x y).
  - inversion H; subst. simpl length. lia.
  - apply IH in H. simpl length. lia.
Qed.

Lemma pos_of_app_some x l r i p : pos_of x l i = Some p -> pos_of x (l ++ r) i = Some p.
Proof.
  revert i. induction l as [|y l' IH]; intros i H; simpl in *; [discriminate|].
  destruct (N.eqb x y); [exact H|]. apply IH, H.
Qed.

Lemma pos_of_app_none x l r i : pos_of x l i = None -> pos_of x (l ++ r) i = pos_of x r (i + N.of_nat (length l)).
Proof.
  revert i. induction l as [|y l' IH]; intros i H; simpl in *.
  - f_equal. lia.
  - destruct (N.eqb x y); [discriminate|]. rewrite IH by exact H. f_equal. lia.
Qed.

Lemma pos_of_in x l i p : pos_of x l i = Some p -> In x l.
Proof.
  revert i. induction l as [|y r IH]; intros i H; simpl in H; [discriminate|].
  destruct (N.eqb x y) eqn:E; [apply N.eqb_eq in E; subst; left; reflexivity|]. right. eapply IH, H.
Qed.

Lemma has_dup_nodup l : NoDup l -> has_dup l = false.
Proof.
  induction 1 as [|x l Hn Hd IH]; simpl; [reflexivity|].
  rewrite IH, orb_false_r.
  destruct (existsb (N.eqb x) l) eqn:E; [|reflexivity].
  apply existsb_exists in E as [y [Hy E]]. apply N.eqb_eq in E. subst. contradiction.
Qed.

Lemma nodup_app_l {A} (a b : list A) : NoDup (a ++ b) -> NoDup a.
Proof.
  induction a as [|x a IH]; intros H; [constructor|].
  simpl in H. inversion H; subst. constructor.
  - intros I. apply H2. apply in_or_app. left. exact I.
  - apply IH. assumption.
Qed.

Definition call_id (w : wcall) : N := wid (wc_g w) (wc_i w).
Definition ok_calls (c : ws_case) : list wcall := filter (fun w => N.eqb (wc_res w) 0) (c_calls c).
Definition wire_ids (c : ws_case) : list N := map (fun p => wid (fst p) (snd p)) (c_wire c).

Theorem wire_monitor_sound (c : ws_case) (acc : list N) :
  c_foreign c = 0 ->
  NoDup acc ->
  (forall x, In x acc -> In x (map call_id (ok_calls c))) ->      (* accepted: calls that returned nil *)
  (forall a b, In a (ok_calls c) -> In b (ok_calls c) -> wc_end a < wc_start b ->
     exists pa pb, pos_of (call_id a) acc 0 = Some pa /\ pos_of (call_id b) acc 0 = Some pb /\ pa < pb) ->
                                                                  (* acceptance order extends real-time order *)
  (exists lost_tail, acc = wire_ids c ++ lost_tail) ->            (* what the model guarantees *)
  wire_codes c = [].
Proof.
  intros Hf Hnd Hin Hrt [rest Hacc].
  unfold wire_codes. fold (ok_calls c). fold (wire_ids c).
  assert (NoDup (wire_ids c)) as Hw by (rewrite Hacc in Hnd; apply nodup_app_l in Hnd; exact Hnd).
  rewrite (has_dup_nodup _ Hw). simpl app.
  (* 14 *)
  rewrite Hf. simpl orb.
  replace (existsb (fun x => negb (existsb (N.eqb x) (map (fun w => wid (wc_g w) (wc_i w)) (ok_calls c)))) (wire_ids c)) with false.
  2:{ symmetry. destruct (existsb _ (wire_ids c)) eqn:E; [|reflexivity]. exfalso.
      apply existsb_exists in E as [x [Hx E]]. apply negb_true_iff in E.
      assert (In x acc) as Ha by (rewrite Hacc; apply in_or_app; left; exact Hx).
      specialize (Hin x Ha). unfold call_id in Hin.
      assert (existsb (N.eqb x) (map (fun w => wid (wc_g w) (wc_i w)) (ok_calls c)) = true) as T.
      { apply existsb_exists. exists x. split; [exact Hin|apply N.eqb_refl]. }
      congruence. }
  simpl app.
  set (okp := map (fun w => (w, pos_of (wid (wc_g w) (wc_i w)) (wire_ids c) 0)) (ok_calls c)).
  assert (forall a, In a okp -> In (fst a) (ok_calls c) /\ snd a = pos_of (call_id (fst a)) (wire_ids c) 0) as Hokp.
  { intros a Ha. unfold okp in Ha. apply in_map_iff in Ha as [w [E Hw']]. subst a. simpl. auto. }
  (* 15 *)
  replace (existsb (fun a => existsb (fun b => (wc_end (fst a) <? wc_start (fst b)) &&
             match snd a, snd b with Some pa, Some pb => pb <? pa | _, _ => false end) okp) okp) with false.
  2:{ symmetry. destruct (existsb _ okp) eqn:E; [|reflexivity]. exfalso.
      apply existsb_exists in E as [a [Ha E]]. apply existsb_exists in E as [b [Hb E]].
      apply andb_true_iff in E as [Elt E]. apply N.ltb_lt in Elt.
      destruct (Hokp a Ha) as [Ia Pa]. destruct (Hokp b Hb) as [Ib Pb].
      destruct (snd a) as [pa|] eqn:Sa; [|discriminate]. destruct (snd b) as [pb|] eqn:Sb; [|discriminate].
      apply N.ltb_lt in E.
      destruct (Hrt (fst a) (fst b) Ia Ib Elt) as (qa & qb & Qa & Qb & Q).
      rewrite Hacc in Qa, Qb.
      rewrite (pos_of_app_some _ _ rest _ _ (eq_sym Pa)) in Qa.
      rewrite (pos_of_app_some _ _ rest _ _ (eq_sym Pb)) in Qb.
      inversion Qa; inversion Qb; subst. lia. }
  simpl app.
  (* 16 *)
  replace (existsb (fun a => existsb (fun b => (wc_end (fst a) <? wc_start (fst b)) &&
             match snd a, snd b with None, Some _ => true | _, _ => false end) okp) okp) with false.
  2:{ symmetry. destruct (existsb _ okp) eqn:E; [|reflexivity]. exfalso.
      apply existsb_exists in E as [a [Ha E]]. apply existsb_exists in E as [b [Hb E]].
      apply andb_true_iff in E as [Elt E]. apply N.ltb_lt in Elt.
      destruct (Hokp a Ha) as [Ia Pa]. destruct (Hokp b Hb) as [Ib Pb].
      destruct (snd a) as [pa|] eqn:Sa; [destruct (snd b); discriminate|].
      destruct (snd b) as [pb|] eqn:Sb; [|discriminate].
      destruct (Hrt (fst a) (fst b) Ia Ib Elt) as (qa & qb & Qa & Qb & Q).
      rewrite Hacc in Qa, Qb.
      rewrite (pos_of_app_none _ _ rest _ (eq_sym Pa)) in Qa.
      rewrite (pos_of_app_some _ _ rest _ _ (eq_sym Pb)) in Qb.
      inversion Qb; subst qb.
      apply pos_of_ge in Qa. pose proof (pos_of_lt _ _ _ _ (eq_sym Pb)) as L. lia. }
  reflexivity.
Qed.
