(* HubOps.v — model of the hub's SKI-taking entry points (hub/hub.go, hub/hub_pairing.go)
   over fake connections, as driven by harness/cmd/hubunit.  Definitions only.
   Which entry points normalise their argument before using it as a lookup key is
   regenerated from the Go source on every run (gen/SkiTable.v: norm_first). *)
From Ship Require Import Base Ski.
From ShipGen Require Import SkiTable StateTable.

(* ---- association lists keyed by byte strings ---- *)
Fixpoint alookup {A} (k : bytes) (l : list (bytes * A)) : option A :=
  match l with
  | [] => None
  | (k', v) :: r => if bytes_eqb k k' then Some v else alookup k r
  end.
Fixpoint aremove {A} (k : bytes) (l : list (bytes * A)) : list (bytes * A) :=
  match l with
  | [] => []
  | (k', v) :: r => if bytes_eqb k k' then aremove k r else (k', v) :: aremove k r
  end.
Definition aset {A} (k : bytes) (v : A) (l : list (bytes * A)) : list (bytes * A) :=
  (k, v) :: aremove k l.

(* ---- state ---- *)
Record svc := { trusted : bool; pstate : N; perr : bool }.
Definition svc0 : svc := {| trusted := false; pstate := 0; perr := false |}.

(* a fake connection: identity, SHIP state it reports, whether it reports an error *)
Record fconn := { cid : N; cstate : N; cerr : bool }.

Record hub := {
  started : bool;
  svcs : list (bytes * svc);       (* key: normalised SKI *)
  conns : list (bytes * fconn);    (* registry, key: the connection's RemoteSKI() *)
  counters : list (bytes * N)      (* connection attempt counters *)
}.

Definition get_svc (h : hub) (k : bytes) : svc :=
  match alookup k (svcs h) with Some s => s | None => svc0 end.
Definition set_svc (h : hub) (k : bytes) (s : svc) : hub :=
  {| started := started h; svcs := aset k s (svcs h); conns := conns h; counters := counters h |}.
Definition del_counter (h : hub) (k : bytes) : hub :=
  {| started := started h; svcs := svcs h; conns := conns h; counters := aremove k (counters h) |}.

Definition n_trusted (h : hub) : nat :=
  length (filter (fun kv => trusted (snd kv)) (svcs h)).

(* ---- operations and observations ---- *)
Inductive op :=
| OpDetail (s : bytes) | OpRegister (s : bytes) | OpUnregister (s : bytes)
| OpDisconnect (s : bytes) (reason : bytes) | OpCancel (s : bytes) | OpService (s : bytes).

Inductive obs :=
| OApprove (c : N) | OAbort (c : N)
| OClose (c : N) (safe : bool) (code : N) (reason : bytes)
| OPairUpd (ski : bytes) (st : N)
| OMdnsRequest | OMdnsAnnounce
| ODetail (st : N) (err : bool)
| OSvc (ski : bytes) (tr : bool)
(* snapshot of the canonical SKI's record after the operation *)
| OSnap (tr : bool) (st : N) (has_counter : bool) (has_conn : bool) (nrec : N) (npaired : N).

(* entry point numbering used by the regenerated table *)
Definition fn_of (o : op) : N :=
  match o with
  | OpDetail _ => 0 | OpRegister _ => 1 | OpUnregister _ => 2
  | OpDisconnect _ _ => 3 | OpCancel _ => 4 | OpService _ => 5
  end.
Definition arg_of (o : op) : bytes :=
  match o with
  | OpDetail s | OpRegister s | OpUnregister s | OpDisconnect s _ | OpCancel s | OpService s => s
  end.

Section WithTable.
(* nf f = the entry point f normalises its SKI argument before any other use *)
Variable nf : N -> bool.

Definition key (f : N) (raw : bytes) : bytes := if nf f then normalize raw else raw.

Definition auto_reannounce (h : hub) : list obs :=
  if Nat.ltb (length (conns h)) (n_trusted h) then [OMdnsAnnounce; OMdnsRequest] else [].

(* ServiceForSKI always normalises (it is where records are created) *)
Definition touch (h : hub) (raw : bytes) : hub :=
  let k := normalize raw in
  match alookup k (svcs h) with Some _ => h | None => set_svc h k svc0 end.

Definition step (h : hub) (o : op) : hub * list obs :=
  match o with
  | OpService raw =>
      let h1 := touch h raw in
      (h1, [OSvc (normalize raw) (trusted (get_svc h1 (normalize raw)))])
  | OpDetail raw =>
      let h1 := touch h raw in
      match alookup (key 0 raw) (conns h1) with
      | Some c => (h1, [ODetail (pair_state_of (cstate c)) (cerr c)])
      | None => let s := get_svc h1 (normalize raw) in (h1, [ODetail (pstate s) (perr s)])
      end
  | OpRegister raw =>
      let k := key 1 raw in
      let kn := normalize k in
      if negb (started h) then
        let h1 := touch h k in
        let s := get_svc h1 kn in
        let h2 := set_svc h1 kn {| trusted := true; pstate := pstate s; perr := perr s |} in
        (h2, auto_reannounce h2)
      else
        let c := alookup k (conns h) in
        let h1 := touch h k in
        let s := get_svc h1 kn in
        let h2 := set_svc h1 kn {| trusted := true; pstate := pstate s; perr := perr s |} in
        match c with
        | Some c => (h2, [OApprove (cid c)])
        | None =>
            let h3 := set_svc h2 kn {| trusted := true; pstate := 1; perr := perr s |} in
            (h3, [OPairUpd k 1; OMdnsRequest])
        end
  | OpUnregister raw =>
      let k := key 2 raw in
      let kn := normalize k in
      let h1 := touch h k in
      let s := get_svc h1 kn in
      let h2 := set_svc h1 kn {| trusted := false; pstate := 0; perr := perr s |} in
      let h3 := del_counter h2 k in
      (h3, OPairUpd k 0 ::
           match alookup k (conns h3) with
           | Some c => [OClose (cid c) true 4500 (hx "5573657220636c6f7365")]
           | None => []
           end)
  | OpDisconnect raw reason =>
      let k := key 3 raw in
      (h, match alookup k (conns h) with
          | Some c => [OClose (cid c) true 0 reason]
          | None => []
          end)
  | OpCancel raw =>
      let k := key 4 raw in
      let kn := normalize k in
      let h1 := del_counter h k in
      let o1 := match alookup k (conns h1) with Some c => [OAbort (cid c)] | None => [] end in
      let h2 := touch h1 k in
      let s := get_svc h2 kn in
      let h3 := set_svc h2 kn {| trusted := false; pstate := 0; perr := perr s |} in
      (h3, o1 ++ [OPairUpd k 0])
  end.

Definition snap (h : hub) (canon : bytes) : obs :=
  let s := get_svc h canon in
  OSnap (trusted s) (pstate s)
        (match alookup canon (counters h) with Some _ => true | None => false end)
        (match alookup canon (conns h) with Some _ => true | None => false end)
        (* the whole registry: number of service records and of paired ones *)
        (N.of_nat (length (svcs h))) (N.of_nat (n_trusted h)).

(* what the harness observes for one operation: its callbacks and calls on the fake
   connection, then the snapshot of the canonical record *)
Definition run_op (h : hub) (canon : bytes) (o : op) : list obs :=
  let '(h', l) := step h o in l ++ [snap h' canon].

End WithTable.

(* ---- equality on observations (for the case checker) ---- *)
Definition obs_eqb (a b : obs) : bool :=
  match a, b with
  | OApprove x, OApprove y => N.eqb x y
  | OAbort x, OAbort y => N.eqb x y
  | OClose c s k r, OClose c' s' k' r' =>
      N.eqb c c' && Bool.eqb s s' && N.eqb k k' && bytes_eqb r r'
  | OPairUpd k s, OPairUpd k' s' => bytes_eqb k k' && N.eqb s s'
  | OMdnsRequest, OMdnsRequest => true
  | OMdnsAnnounce, OMdnsAnnounce => true
  | ODetail s e, ODetail s' e' => N.eqb s s' && Bool.eqb e e'
  | OSvc k t, OSvc k' t' => bytes_eqb k k' && Bool.eqb t t'
  | OSnap a b c d e f, OSnap a' b' c' d' e' f' =>
      Bool.eqb a a' && N.eqb b b' && Bool.eqb c c' && Bool.eqb d d' && N.eqb e e' && N.eqb f f'
  | _, _ => false
  end.

(* ---- harness scenario: a hub with one service record for the canonical SKI ---- *)
Record scen := {
  sc_started : bool; sc_trusted : bool; sc_pstate : N;
  sc_conn : option (N * bool);      (* SHIP state and error flag of the registered fake *)
  sc_counter : bool;
  sc_others : nat;                  (* further trusted services without connection *)
  sc_fresh : bool                   (* the hub has no record for the SKI yet: the operation's own lookup creates it *)
}.

Fixpoint other_svcs (n : nat) : list (bytes * svc) :=
  match n with
  | O => []
  | S m => ([N.of_nat n + 48], {| trusted := true; pstate := 0; perr := false |}) :: other_svcs m
  end.

Definition hub_of (canon : bytes) (s : scen) : hub :=
  {| started := sc_started s;
     svcs := (if sc_fresh s then []
              else [(canon, {| trusted := sc_trusted s; pstate := sc_pstate s; perr := false |})])
             ++ other_svcs (sc_others s);
     conns := if sc_fresh s then [] else
              match sc_conn s with
              | Some (st, e) => [(canon, {| cid := 1; cstate := st; cerr := e |})]
              | None => [] end;
     counters := if sc_fresh s then [] else if sc_counter s then [(canon, 0)] else [] |}.

Inductive opk := KDetail | KRegister | KUnregister | KDisconnect | KCancel | KService.
Definition mk_op (k : opk) (s : bytes) : op :=
  match k with
  | KDetail => OpDetail s | KRegister => OpRegister s | KUnregister => OpUnregister s
  | KDisconnect => OpDisconnect s (hx "62796521") | KCancel => OpCancel s | KService => OpService s
  end.

(* one metamorphic case: the same scenario run twice on the real hub, once with the
   canonical SKI and once with a re-formatted spelling *)
Record hub_case := {
  hc_scen : scen; hc_op : opk; hc_canon : bytes; hc_variant : bytes;
  hc_obs_canon : list obs; hc_obs_variant : list obs }.

Definition check_hub_case (c : hub_case) : codes :=
  let h := hub_of (hc_canon c) (hc_scen c) in
  let m1 := run_op norm_first h (hc_canon c) (mk_op (hc_op c) (hc_canon c)) in
  let m2 := run_op norm_first h (hc_canon c) (mk_op (hc_op c) (hc_variant c)) in
  (if list_eqb obs_eqb m1 (hc_obs_canon c) && list_eqb obs_eqb m2 (hc_obs_variant c)
   then [] else [1]) ++
  (* monitor on the implementation's traces: same effect for both spellings *)
  (if list_eqb obs_eqb (hc_obs_canon c) (hc_obs_variant c) then [] else [12]).

(* the C15 case stream: NormalizeSKI byte-exact cases and hub metamorphic pairs *)
Inductive c15_case := CSki (c : ski_case) | CHub (c : hub_case).
Definition check_c15 (c : c15_case) : codes :=
  match c with CSki c => check_ski_case c | CHub c => check_hub_case c end.
