(* TimerProofs.v — proofs about the handshake timer model (Timer.v), property C14. *)
From Ship Require Import Base Timer.
From ShipGen Require Import TimerTable.
Local Open Scope nat_scope.

(* ---- pointwise list update ---- *)
Definition pw {A} (l : list A) (c : nat) (f : A -> A) : list A :=
  match nth_error l c with Some x => upd l c (f x) | None => l end.

Lemma upd_length A (l : list A) i x : length (upd l i x) = length l.
Proof. revert i; induction l as [|y l IH]; intros [|i]; simpl; auto. Qed.

Lemma nth_upd A (l : list A) c x g :
  nth_error (upd l c x) g = if Nat.eqb g c then option_map (fun _ => x) (nth_error l g) else nth_error l g.
Proof.
  revert c g; induction l as [|y l IH]; intros c g.
  - destruct c, g; simpl; try reflexivity; destruct (Nat.eqb g c); reflexivity.
  - destruct c, g; simpl; auto.
Qed.

Lemma pw_length A (l : list A) c f : length (pw l c f) = length l.
Proof. unfold pw. destruct (nth_error l c); [apply upd_length|reflexivity]. Qed.

Lemma nth_pw A (l : list A) c f g :
  nth_error (pw l c f) g = if Nat.eqb g c then option_map f (nth_error l g) else nth_error l g.
Proof.
  unfold pw. destruct (nth_error l c) as [x|] eqn:E.
  - rewrite nth_upd. destruct (Nat.eqb g c) eqn:G; [|reflexivity].
    apply Nat.eqb_eq in G. subst g. rewrite E. reflexivity.
  - destruct (Nat.eqb g c) eqn:G; [|reflexivity].
    apply Nat.eqb_eq in G. subst g. rewrite E. reflexivity.
Qed.

Lemma upd_as_pw A (l : list A) c k (f : A -> A) : nth_error l c = Some k -> upd l c (f k) = pw l c f.
Proof. intros H. unfold pw. rewrite H. reflexivity. Qed.

Lemma set_pc_pw l g p : set_pc l g p = pw l g (fun r => {| g_pc := p; g_closed := g_closed r |}).
Proof. reflexivity. Qed.
Lemma close_gen_pw l g : close_gen l g = pw l g (fun r => {| g_pc := g_pc r; g_closed := true |}).
Proof. reflexivity. Qed.
Lemma mod_g_pw l g f : mod_g l g f = pw l g f.
Proof. reflexivity. Qed.

Lemma nth_app_old A (l : list A) x g y : nth_error l g = Some y -> nth_error (l ++ [x]) g = Some y.
Proof. intros H. rewrite nth_error_app1; [exact H|]. apply nth_error_Some. congruence. Qed.

Lemma nth_app_cases A (l : list A) x g y :
  nth_error (l ++ [x]) g = Some y -> nth_error l g = Some y \/ (g = length l /\ y = x).
Proof.
  intros H. destruct (Nat.lt_ge_cases g (length l)) as [L|L].
  - rewrite nth_error_app1 in H by exact L. left; exact H.
  - rewrite nth_error_app2 in H by exact L. right.
    destruct (g - length l) as [|d] eqn:D.
    + simpl in H. inversion H. split; [lia|reflexivity].
    + simpl in H. destruct d; discriminate.
Qed.

Lemma opt_nat_eqb_eq a b : opt_nat_eqb a b = true <-> a = b.
Proof.
  destruct a as [x|], b as [y|]; simpl; split; intros H; try congruence; try discriminate.
  - apply Nat.eqb_eq in H. congruence.
  - inversion H. apply Nat.eqb_refl.
Qed.

Lemma pc_eqb_eq a b : pc_eqb a b = true <-> a = b.
Proof. destruct a, b; simpl; split; intros H; try reflexivity; try discriminate. Qed.

(* ---- the simulation invariant between a PerArm state and the monitor state after the
   same schedule ---- *)
Definition pc_fired (p : pc) : bool := match p with Delivering | Fired => true | _ => false end.
Definition pc_delivered (p : pc) : bool := match p with Fired => true | _ => false end.

Definition flags_ok (gl : list gor) (ml : list gmon) : Prop :=
  forall g r k, nth_error gl g = Some r -> nth_error ml g = Some k ->
    k_fired k = pc_fired (g_pc r) /\ k_delivered k = pc_delivered (g_pc r).

Record Inv (s : tstate) (ms : mstate) : Prop := {
  inv_len : length (gs s) = length (m_g ms);
  inv_live : m_live ms = if running s then cur s else None;
  inv_cur : forall g, cur s = Some g -> g < length (gs s);
  inv_flags : flags_ok (gs s) (m_g ms);
  inv_dead : forall g k, running s = true -> cur s = Some g -> nth_error (m_g ms) g = Some k -> k_dead k = None
}.

Lemma Inv_init : Inv t_init m_init.
Proof.
  constructor; simpl; auto.
  - intros g H; discriminate.
  - intros g r k H; destruct g; discriminate.
  - intros g k H; discriminate.
Qed.

(* updating both sides pointwise at the same index keeps the flags related *)
Lemma flags_pw gl ml c fr fk :
  flags_ok gl ml ->
  (forall r k, nth_error gl c = Some r -> nth_error ml c = Some k ->
     k_fired (fk k) = pc_fired (g_pc (fr r)) /\ k_delivered (fk k) = pc_delivered (g_pc (fr r))) ->
  flags_ok (pw gl c fr) (pw ml c fk).
Proof.
  intros F H g r k Hr Hk. rewrite nth_pw in Hr, Hk.
  destruct (Nat.eqb g c) eqn:G.
  - apply Nat.eqb_eq in G. subst g.
    destruct (nth_error gl c) as [r0|] eqn:Er; [|discriminate].
    destruct (nth_error ml c) as [k0|] eqn:Ek; [|discriminate].
    simpl in Hr, Hk. inversion Hr; inversion Hk; subst. apply H; reflexivity.
  - apply (F g); assumption.
Qed.

Lemma flags_pw_l gl ml c fr :
  flags_ok gl ml -> (forall r, g_pc (fr r) = g_pc r) -> flags_ok (pw gl c fr) ml.
Proof.
  intros F H g r k Hr Hk. rewrite nth_pw in Hr.
  destruct (Nat.eqb g c) eqn:G.
  - destruct (nth_error gl g) as [r0|] eqn:Er; [|discriminate].
    simpl in Hr. inversion Hr; subst. rewrite H. apply (F g); assumption.
  - apply (F g); assumption.
Qed.

Lemma flags_pw_r gl ml c fk :
  flags_ok gl ml -> (forall k, k_fired (fk k) = k_fired k /\ k_delivered (fk k) = k_delivered k) ->
  flags_ok gl (pw ml c fk).
Proof.
  intros F H g r k Hr Hk. rewrite nth_pw in Hk.
  destruct (Nat.eqb g c) eqn:G.
  - destruct (nth_error ml g) as [k0|] eqn:Ek; [|discriminate].
    simpl in Hk. inversion Hk; subst. destruct (H k0) as [H1 H2]. rewrite H1, H2.
    apply (F g); [assumption|exact Ek].
  - apply (F g); assumption.
Qed.

Lemma flags_app gl ml : flags_ok gl ml -> length gl = length ml ->
  flags_ok (gl ++ [{| g_pc := Spawned; g_closed := false |}]) (ml ++ [k_fresh]).
Proof.
  intros F L g r k Hr Hk.
  apply nth_app_cases in Hr. apply nth_app_cases in Hk.
  destruct Hr as [Hr|[Hg Hr]], Hk as [Hk|[Hg' Hk]].
  - apply (F g); assumption.
  - assert (g < length gl) by (apply nth_error_Some; congruence). lia.
  - assert (g < length ml) by (apply nth_error_Some; congruence). lia.
  - subst. simpl. split; reflexivity.
Qed.

Lemma mark_dead_flags strict stop k :
  k_fired (mark_dead strict stop k) = k_fired k /\ k_delivered (mark_dead strict stop k) = k_delivered k.
Proof.
  unfold mark_dead. destruct (k_dead k); [split; reflexivity|].
  destruct (strict || negb (k_exp k)); split; reflexivity.
Qed.

Lemma kill_live_length strict stop ms : length (kill_live strict stop ms) = length (m_g ms).
Proof. unfold kill_live. destruct (m_live ms); [apply pw_length|reflexivity]. Qed.

Lemma kill_live_flags strict stop ms gl : flags_ok gl (m_g ms) -> flags_ok gl (kill_live strict stop ms).
Proof.
  intros F. unfold kill_live. destruct (m_live ms); [|exact F].
  rewrite mod_g_pw. apply flags_pw_r; [exact F|]. intros k. apply mark_dead_flags.
Qed.

Lemma nth_same_len A B (l : list A) (m : list B) g x :
  length l = length m -> nth_error l g = Some x -> exists y, nth_error m g = Some y.
Proof.
  intros L H. assert (g < length m) as Hlt by (rewrite <- L; apply nth_error_Some; congruence).
  destruct (nth_error m g) as [y|] eqn:E; [eauto|]. apply nth_error_None in E. lia.
Qed.

Lemma dead_pw ml c f g k :
  (forall k0, k_dead (f k0) = k_dead k0) -> nth_error (pw ml c f) g = Some k ->
  exists k0, nth_error ml g = Some k0 /\ k_dead k = k_dead k0.
Proof.
  intros H Hk. rewrite nth_pw in Hk. destruct (Nat.eqb g c).
  - destruct (nth_error ml g) as [k0|]; [|discriminate]. simpl in Hk. inversion Hk. eauto.
  - eauto.
Qed.

(* stopHandshakeTimer (PerArm), against the monitor's bookkeeping of a stop/replace *)
Lemma perarm_stop_inv strict b s ms to s1 :
  Inv s ms -> do_stop PerArm s to = Some s1 ->
  running s1 = false /\ cur s1 = cur s /\ length (gs s1) = length (gs s) /\
  flags_ok (gs s1) (kill_live strict b ms).
Proof.
  intros I H. unfold do_stop in H. destruct (running s) eqn:R; simpl in H.
  - destruct to; [discriminate|]. inversion H; subst s1; clear H. simpl.
    split; [reflexivity|]. split; [reflexivity|]. split.
    + destruct (cur s); [apply pw_length|reflexivity].
    + apply kill_live_flags. destruct (cur s); [|apply (inv_flags _ _ I)].
      rewrite close_gen_pw. apply flags_pw_l; [apply (inv_flags _ _ I)|reflexivity].
  - destruct to; [discriminate|]. inversion H; subst s1; clear H.
    split; [exact R|]. split; [reflexivity|]. split; [reflexivity|].
    apply kill_live_flags. apply (inv_flags _ _ I).
Qed.

(* one step of the PerArm model keeps the invariant and raises no monitor code *)
Lemma perarm_step strict s ms l s' :
  Inv s ms -> tstep PerArm s l = Some s' ->
  snd (mstep strict ms l) = [] /\ Inv s' (fst (mstep strict ms l)).
Proof.
  intros I H. destruct l as [ty d to|to|g|g|g|g]; simpl in H.
  - (* arm *)
    unfold do_arm in H. destruct (do_stop PerArm s to) as [s1|] eqn:S; [|discriminate].
    inversion H; subst s'; clear H.
    destruct (perarm_stop_inv strict false s ms to s1 I S) as (R1 & C1 & L1 & F1).
    simpl. split; [reflexivity|].
    assert (length (gs s1) = length (kill_live strict false ms)) as LL
      by (rewrite kill_live_length, L1; apply (inv_len _ _ I)).
    constructor; simpl.
    + rewrite !app_length, LL. reflexivity.
    + rewrite L1, (inv_len _ _ I). reflexivity.
    + intros g Hg. inversion Hg. rewrite app_length. simpl. lia.
    + apply flags_app; assumption.
    + intros g k _ Hg Hk. inversion Hg; subst g.
      apply nth_app_cases in Hk. destruct Hk as [Hk|[_ Hk]].
      * assert (length (gs s1) < length (kill_live strict false ms))
          by (apply nth_error_Some; congruence). lia.
      * subst k. reflexivity.
  - (* stop *)
    destruct (perarm_stop_inv strict true s ms to s' I H) as (R1 & C1 & L1 & F1).
    simpl. split; [reflexivity|].
    constructor; simpl.
    + rewrite kill_live_length, L1. apply (inv_len _ _ I).
    + rewrite R1. reflexivity.
    + intros g Hg. rewrite C1 in Hg. rewrite L1. apply (inv_cur _ _ I). exact Hg.
    + exact F1.
    + intros g k Hr. congruence.
  - (* goroutine advance *)
    destruct (nth_error (gs s) g) as [r|] eqn:Er; [|discriminate].
    destruct (nth_same_len _ _ _ _ g r (inv_len _ _ I) Er) as [k0 Ek].
    assert (exists p, pc_fired p = false /\ pc_delivered p = false /\ pc_fired (g_pc r) = false /\
                      s' = with_gs s (set_pc (gs s) g p)) as (p & P1 & P2 & P3 & Hs').
    { destruct (g_pc r) eqn:Epc; try discriminate.
      - inversion H. exists AtSelect. auto.
      - destruct (g_closed r); [|discriminate]. inversion H. exists Stopped. auto.
      - destruct (current_running s g); [discriminate|]. inversion H. exists Dropped. auto. }
    subst s'. simpl. split; [reflexivity|].
    pose proof (inv_flags _ _ I g r k0 Er Ek) as [Ff Fd].
    constructor; simpl.
    + rewrite set_pc_pw, mod_g_pw, !pw_length. apply (inv_len _ _ I).
    + apply (inv_live _ _ I).
    + intros g' Hg'. rewrite set_pc_pw, pw_length. apply (inv_cur _ _ I). exact Hg'.
    + rewrite set_pc_pw, mod_g_pw. apply flags_pw; [apply (inv_flags _ _ I)|].
      intros r' k' Hr' Hk'. rewrite Er in Hr'. rewrite Ek in Hk'. inversion Hr'; inversion Hk'; subst.
      simpl. rewrite P1, P2. split; [congruence|].
      rewrite Fd. destruct (g_pc r'); simpl in *; try reflexivity; discriminate.
    + intros g' k' Hr Hc Hk'. rewrite mod_g_pw in Hk'.
      apply dead_pw in Hk'; [|reflexivity]. destruct Hk' as (k1 & Hk1 & Hd). rewrite Hd.
      apply (inv_dead _ _ I g' k1 Hr Hc Hk1).
  - (* expire *)
    destruct (nth_error (gs s) g) as [r|] eqn:Er; [|discriminate].
    destruct (pc_eqb (g_pc r) AtSelect) eqn:Epc; [|discriminate].
    apply pc_eqb_eq in Epc. inversion H; subst s'; clear H.
    destruct (nth_same_len _ _ _ _ g r (inv_len _ _ I) Er) as [k0 Ek].
    simpl. split; [reflexivity|].
    pose proof (inv_flags _ _ I g r k0 Er Ek) as [Ff Fd].
    constructor; simpl.
    + rewrite set_pc_pw, mod_g_pw, !pw_length. apply (inv_len _ _ I).
    + apply (inv_live _ _ I).
    + intros g' Hg'. rewrite set_pc_pw, pw_length. apply (inv_cur _ _ I). exact Hg'.
    + rewrite set_pc_pw, mod_g_pw. apply flags_pw; [apply (inv_flags _ _ I)|].
      intros r' k' Hr' Hk'. rewrite Er in Hr'. rewrite Ek in Hk'. inversion Hr'; inversion Hk'; subst.
      simpl. rewrite Ff, Fd, Epc. split; reflexivity.
    + intros g' k' Hr Hc Hk'. rewrite mod_g_pw in Hk'.
      apply dead_pw in Hk'; [|reflexivity]. destruct Hk' as (k1 & Hk1 & Hd). rewrite Hd.
      apply (inv_dead _ _ I g' k1 Hr Hc Hk1).
  - (* fire: the generation check passed *)
    destruct (nth_error (gs s) g) as [r|] eqn:Er; [|discriminate].
    destruct (pc_eqb (g_pc r) Expired) eqn:Epc; [|discriminate].
    destruct (current_running s g) eqn:CR; [|discriminate].
    apply pc_eqb_eq in Epc. simpl in H. inversion H; subst s'; clear H.
    unfold current_running in CR. apply andb_true_iff in CR as [R C]. apply opt_nat_eqb_eq in C.
    destruct (nth_same_len _ _ _ _ g r (inv_len _ _ I) Er) as [k0 Ek].
    pose proof (inv_flags _ _ I g r k0 Er Ek) as [Ff Fd].
    pose proof (inv_dead _ _ I g k0 R C Ek) as Hd.
    rewrite Epc in Ff, Fd. simpl in Ff, Fd.
    simpl. rewrite Ek. simpl. split; [rewrite Ff, Hd; reflexivity|].
    constructor; simpl.
    + rewrite set_pc_pw, upd_length, pw_length. apply (inv_len _ _ I).
    + rewrite (inv_live _ _ I), R, C. simpl. rewrite Nat.eqb_refl. reflexivity.
    + intros g' Hg'. rewrite set_pc_pw, pw_length. apply (inv_cur _ _ I). exact Hg'.
    + rewrite set_pc_pw.
      rewrite (upd_as_pw _ (m_g ms) g k0
                 (fun k => {| k_dead := k_dead k; k_adv := k_adv k; k_exp := k_exp k;
                              k_fired := true; k_delivered := k_delivered k |}) Ek).
      apply flags_pw; [apply (inv_flags _ _ I)|].
      intros r' k' Hr' Hk'. rewrite Ek in Hk'. inversion Hk'; subst. simpl. rewrite Fd. split; reflexivity.
    + intros g' k' Hr. discriminate.
  - (* deliver *)
    destruct (nth_error (gs s) g) as [r|] eqn:Er; [|discriminate].
    destruct (pc_eqb (g_pc r) Delivering) eqn:Epc; [|discriminate].
    apply pc_eqb_eq in Epc. inversion H; subst s'; clear H.
    destruct (nth_same_len _ _ _ _ g r (inv_len _ _ I) Er) as [k0 Ek].
    pose proof (inv_flags _ _ I g r k0 Er Ek) as [Ff Fd].
    rewrite Epc in Ff, Fd. simpl in Ff, Fd.
    simpl. rewrite Ek. simpl. split; [rewrite Ff, Fd; reflexivity|].
    constructor; simpl.
    + rewrite set_pc_pw, upd_length, pw_length. apply (inv_len _ _ I).
    + apply (inv_live _ _ I).
    + intros g' Hg'. rewrite set_pc_pw, pw_length. apply (inv_cur _ _ I). exact Hg'.
    + rewrite set_pc_pw.
      rewrite (upd_as_pw _ (m_g ms) g k0
                 (fun k => {| k_dead := k_dead k; k_adv := k_adv k; k_exp := k_exp k;
                              k_fired := k_fired k; k_delivered := true |}) Ek).
      apply flags_pw; [apply (inv_flags _ _ I)|].
      intros r' k' Hr' Hk'. rewrite Ek in Hk'. inversion Hk'; subst. simpl. rewrite Ff. split; reflexivity.
    + intros g' k' Hr Hc Hk'.
      rewrite (upd_as_pw _ (m_g ms) g k0
                 (fun k => {| k_dead := k_dead k; k_adv := k_adv k; k_exp := k_exp k;
                              k_fired := k_fired k; k_delivered := true |}) Ek) in Hk'.
      apply dead_pw in Hk'; [|reflexivity]. destruct Hk' as (k1 & Hk1 & Hd). rewrite Hd.
      apply (inv_dead _ _ I g' k1 Hr Hc Hk1).
Qed.

Lemma perarm_run strict l : forall s ms s',
  Inv s ms -> exec PerArm s l = Some s' ->
  snd (mrun strict ms l) = [] /\ Inv s' (fst (mrun strict ms l)).
Proof.
  induction l as [|a l IH]; intros s ms s' I H; simpl in H.
  - inversion H; subst. simpl. split; [reflexivity|exact I].
  - destruct (tstep PerArm s a) as [s1|] eqn:T; [|discriminate].
    destruct (perarm_step strict s ms a s1 I T) as [C1 I1].
    simpl. destruct (mstep strict ms a) as [ms1 c1] eqn:M. simpl in C1, I1.
    destruct (IH s1 ms1 s' I1 H) as [C2 I2].
    destruct (mrun strict ms1 l) as [ms2 c2] eqn:M2. simpl in *. subst. split; [reflexivity|exact I2].
Qed.

(* MAIN: every schedule the PerArm model can execute satisfies the monitor, in both
   readings of "before its expiry" *)
Lemma perarm_safe strict sched s : exec PerArm t_init sched = Some s -> mon strict sched = [].
Proof. intros H. unfold mon. apply (perarm_run strict sched t_init m_init s Inv_init H). Qed.

Lemma src_is_per_arm : src_mech = Some PerArm.
Proof. reflexivity. Qed.

Lemma src_safe m : src_mech = Some m ->
  forall sched s, exec m t_init sched = Some s -> mon true sched = [] /\ mon false sched = [].
Proof.
  intros Hm. rewrite src_is_per_arm in Hm. inversion Hm; subst m.
  intros sched s H. split; eapply perarm_safe; exact H.
Qed.

(* ---- the Shared mechanism (the pinned tree) violates the property ---- *)
Definition lost_stop_witness : list label :=
  [LArm 0 60000 None; LStop None; LAdv 0; LExpire 0; LFire 0; LDeliver 0].

Lemma shared_refuted :
  exists sched s, exec Shared t_init sched = Some s /\ mon false sched = [c_stop_early_fired].
Proof.
  exists lost_stop_witness. eexists. split; vm_compute; reflexivity.
Qed.

(* ... and the very same schedule is not a run of the PerArm mechanism *)
Lemma witness_not_per_arm : exec PerArm t_init lost_stop_witness = None.
Proof. vm_compute. reflexivity. Qed.

(* ---- non-vacuity: a schedule of the PerArm model with a lost-stop attempt, a stale
   goroutine that expires and is dropped by the generation check, a replaced timer and a
   current timer that fires ---- *)
Definition example_sched : list label :=
  [LArm 0 60000 None; LStop None;            (* generation 0 armed and stopped at once *)
   LArm 0 10000 None; LAdv 1;                (* generation 1 armed, waiting *)
   LAdv 0; LExpire 0;                        (* the stopped generation 0 reaches its select late and expires *)
   LArm 2 5000 None;                         (* generation 2 replaces 1 *)
   LAdv 0;                                   (* 0 fails the generation check: dropped *)
   LAdv 1;                                   (* 1 leaves through its closed stop channel *)
   LAdv 2; LExpire 2; LFire 2; LDeliver 2].  (* the current timer fires *)

Lemma example_runs :
  exists s, exec PerArm t_init example_sched = Some s /\ running s = false /\
            map g_pc (gs s) = [Dropped; Stopped; Fired].
Proof. eexists. split; [vm_compute; reflexivity|]. split; reflexivity. Qed.

(* ==== refinement: a schedule that satisfies the (strict) monitor projects onto a run of
   the ideal timer (armed flag; timeout enabled only when armed) ==== *)
Record MI (ms : mstate) (i : ideal) : Prop := {
  mi_n : i_n i = length (m_g ms);
  mi_armed : i_armed i = m_live ms;
  (* a generation neither killed nor fired is the live one *)
  mi_live : forall g k, nth_error (m_g ms) g = Some k -> k_dead k = None -> k_fired k = false ->
                        m_live ms = Some g
}.

Lemma MI_init : MI m_init ideal_init.
Proof. constructor; simpl; auto. intros g k H. destruct g; discriminate. Qed.

Lemma mark_dead_strict b k : k_dead (mark_dead true b k) <> None.
Proof.
  unfold mark_dead. destruct (k_dead k) eqn:E; [congruence|]. simpl. discriminate.
Qed.

(* after a strict kill nobody in the old list is both un-killed and un-fired *)
Lemma kill_live_none b ms i g k :
  MI ms i -> nth_error (kill_live true b ms) g = Some k -> k_dead k = None -> k_fired k = false -> False.
Proof.
  intros M Hk Hd Hf. unfold kill_live in Hk. destruct (m_live ms) as [g0|] eqn:L.
  - rewrite mod_g_pw, nth_pw in Hk. destruct (Nat.eqb g g0) eqn:G.
    + destruct (nth_error (m_g ms) g) as [k0|]; [|discriminate]. simpl in Hk. inversion Hk; subst k.
      apply (mark_dead_strict b k0). exact Hd.
    + pose proof (mi_live _ _ M g k Hk Hd Hf) as H. rewrite L in H. inversion H; subst.
      rewrite Nat.eqb_refl in G. discriminate.
  - pose proof (mi_live _ _ M g k Hk Hd Hf) as H. rewrite L in H. discriminate.
Qed.

Lemma live_pw ml c f g k :
  (forall k0, k_dead (f k0) = k_dead k0 /\ k_fired (f k0) = k_fired k0) ->
  nth_error (pw ml c f) g = Some k ->
  exists k0, nth_error ml g = Some k0 /\ k_dead k = k_dead k0 /\ k_fired k = k_fired k0.
Proof.
  intros H Hk. rewrite nth_pw in Hk. destruct (Nat.eqb g c).
  - destruct (nth_error ml g) as [k0|]; [|discriminate]. simpl in Hk. inversion Hk.
    destruct (H k0). eauto.
  - eauto.
Qed.

Lemma mon_step_projects ms i a :
  MI ms i -> snd (mstep true ms a) = [] ->
  exists i', iexec i (proj a) = Some i' /\ MI (fst (mstep true ms a)) i'.
Proof.
  intros M C. destruct a as [ty d to|to|g|g|g|g]; simpl in *.
  - (* arm *)
    eexists; split; [reflexivity|]. constructor; simpl.
    + rewrite app_length, kill_live_length, (mi_n _ _ M). simpl. lia.
    + rewrite (mi_n _ _ M). reflexivity.
    + intros g k Hk Hd Hf. apply nth_app_cases in Hk. destruct Hk as [Hk|[Hg _]].
      * exfalso. eapply kill_live_none; eauto.
      * rewrite Hg, kill_live_length. reflexivity.
  - (* stop *)
    eexists; split; [reflexivity|]. constructor; simpl.
    + rewrite kill_live_length. apply (mi_n _ _ M).
    + reflexivity.
    + intros g k Hk Hd Hf. exfalso. eapply kill_live_none; eauto.
  - (* advance *)
    exists i. split; [reflexivity|]. constructor; simpl.
    + rewrite mod_g_pw, pw_length. apply (mi_n _ _ M).
    + apply (mi_armed _ _ M).
    + intros g' k Hk Hd Hf. rewrite mod_g_pw in Hk.
      apply live_pw in Hk; [|intros; split; reflexivity]. destruct Hk as (k0 & Hk0 & E1 & E2).
      apply (mi_live _ _ M g' k0 Hk0); congruence.
  - (* expire *)
    exists i. split; [reflexivity|]. constructor; simpl.
    + rewrite mod_g_pw, pw_length. apply (mi_n _ _ M).
    + apply (mi_armed _ _ M).
    + intros g' k Hk Hd Hf. rewrite mod_g_pw in Hk.
      apply live_pw in Hk; [|intros; split; reflexivity]. destruct Hk as (k0 & Hk0 & E1 & E2).
      apply (mi_live _ _ M g' k0 Hk0); congruence.
  - (* fire *)
    destruct (nth_error (m_g ms) g) as [k|] eqn:Ek; simpl in C; [|discriminate].
    destruct (k_fired k) eqn:Ef; [discriminate|].
    destruct (k_dead k) as [kl|] eqn:Ed; [destruct kl; discriminate|].
    pose proof (mi_live _ _ M g k Ek Ed Ef) as L.
    rewrite (mi_armed _ _ M), L. simpl. rewrite Nat.eqb_refl.
    eexists; split; [reflexivity|]. constructor; simpl.
    + rewrite upd_length. apply (mi_n _ _ M).
    + reflexivity.
    + intros g' k' Hk' Hd Hf. exfalso. rewrite nth_upd in Hk'. destruct (Nat.eqb g' g) eqn:G.
      * rewrite (proj1 (Nat.eqb_eq _ _) G), Ek in Hk'. simpl in Hk'. inversion Hk'; subst k'. discriminate.
      * pose proof (mi_live _ _ M g' k' Hk' Hd Hf) as L'. rewrite L in L'. inversion L'; subst.
        rewrite Nat.eqb_refl in G. discriminate.
  - (* deliver *)
    destruct (nth_error (m_g ms) g) as [k|] eqn:Ek; simpl in C; [|discriminate].
    exists i. split; [reflexivity|]. constructor; simpl.
    + rewrite upd_length. apply (mi_n _ _ M).
    + apply (mi_armed _ _ M).
    + intros g' k' Hk' Hd Hf. rewrite nth_upd in Hk'. destruct (Nat.eqb g' g) eqn:G.
      * apply Nat.eqb_eq in G. subst g'. rewrite Ek in Hk'. simpl in Hk'. inversion Hk'; subst k'.
        simpl in Hd, Hf. apply (mi_live _ _ M g k Ek Hd Hf).
      * apply (mi_live _ _ M g' k' Hk' Hd Hf).
Qed.

Lemma iexec_app i l1 l2 : iexec i (l1 ++ l2) = match iexec i l1 with Some i' => iexec i' l2 | None => None end.
Proof.
  revert i; induction l1 as [|a l1 IH]; intros i; simpl; [reflexivity|].
  destruct (istep i a); [apply IH|reflexivity].
Qed.

Lemma mon_run_projects l : forall ms i,
  MI ms i -> snd (mrun true ms l) = [] ->
  exists i', iexec i (proj_all l) = Some i' /\ MI (fst (mrun true ms l)) i'.
Proof.
  induction l as [|a l IH]; intros ms i M C; simpl in *.
  - exists i. split; [reflexivity|exact M].
  - destruct (mstep true ms a) as [ms1 c1] eqn:S.
    destruct (mrun true ms1 l) as [ms2 c2] eqn:R. simpl in C.
    apply app_eq_nil in C as [C1 C2]. subst.
    destruct (mon_step_projects ms i a M) as (i1 & E1 & M1); [rewrite S; reflexivity|].
    rewrite S in M1. simpl in M1.
    destruct (IH ms1 i1 M1) as (i2 & E2 & M2); [rewrite R; reflexivity|].
    rewrite R in M2. simpl in M2.
    exists i2. split; [|exact M2]. rewrite iexec_app, E1. exact E2.
Qed.

(* generic: whatever produces schedules satisfying the monitor refines the ideal timer *)
Lemma mon_ok_projects sched :
  mon true sched = [] ->
  exists i, iexec ideal_init (proj_all sched) = Some i /\
            i_armed i = m_live (fst (mrun true m_init sched)).
Proof.
  intros C. destruct (mon_run_projects sched m_init ideal_init MI_init C) as (i & E & M).
  exists i. split; [exact E|apply (mi_armed _ _ M)].
Qed.

(* the source's timer: every run projects onto an ideal-timer run, and the ideal timer is
   armed exactly when the running flag is set (with the generation owning the channel) *)
Lemma src_refines_ideal m : src_mech = Some m ->
  forall sched s, exec m t_init sched = Some s ->
  exists i, iexec ideal_init (proj_all sched) = Some i /\
            i_armed i = (if running s then cur s else None) /\ i_n i = length (gs s).
Proof.
  intros Hm. rewrite src_is_per_arm in Hm. inversion Hm; subst m. intros sched s H.
  destruct (perarm_run true sched t_init m_init s Inv_init H) as [C I].
  destruct (mon_run_projects sched m_init ideal_init MI_init C) as (i & E & M).
  exists i. split; [exact E|]. split.
  - rewrite (mi_armed _ _ M). apply (inv_live _ _ I).
  - rewrite (mi_n _ _ M). symmetry. apply (inv_len _ _ I).
Qed.

(* ==== at most one timeout per generation, delivered only after it was committed:
   consequences of the monitor, for any schedule ==== *)
Definition is_fire (g : nat) (l : label) : bool := match l with LFire g' => Nat.eqb g g' | _ => false end.
Definition is_deliver (g : nat) (l : label) : bool := match l with LDeliver g' => Nat.eqb g g' | _ => false end.
Definition count (f : label -> bool) (l : list label) : nat := length (filter f l).

Definition fired_of (l : list gmon) (g : nat) : bool :=
  match nth_error l g with Some k => k_fired k | None => false end.
Definition delivered_of (l : list gmon) (g : nat) : bool :=
  match nth_error l g with Some k => k_delivered k | None => false end.

Lemma fd_pw l c f g :
  (forall k, k_fired (f k) = k_fired k /\ k_delivered (f k) = k_delivered k) ->
  fired_of (pw l c f) g = fired_of l g /\ delivered_of (pw l c f) g = delivered_of l g.
Proof.
  intros H. unfold fired_of, delivered_of. rewrite nth_pw. destruct (Nat.eqb g c); [|split; reflexivity].
  destruct (nth_error l g) as [k|]; simpl; [apply H|split; reflexivity].
Qed.

Lemma fd_app l g :
  fired_of (l ++ [k_fresh]) g = fired_of l g /\ delivered_of (l ++ [k_fresh]) g = delivered_of l g.
Proof.
  unfold fired_of, delivered_of. destruct (nth_error (l ++ [k_fresh]) g) as [k|] eqn:E.
  - apply nth_app_cases in E. destruct E as [E|[Hg E]].
    + rewrite E. split; reflexivity.
    + subst. assert (nth_error l (length l) = None) as N by (apply nth_error_None; lia).
      rewrite N. split; reflexivity.
  - assert (nth_error l g = None) as N.
    { apply nth_error_None. apply nth_error_None in E. rewrite app_length in E. simpl in E. lia. }
    rewrite N. split; reflexivity.
Qed.

Lemma fd_kill b stop ms g :
  fired_of (kill_live b stop ms) g = fired_of (m_g ms) g /\
  delivered_of (kill_live b stop ms) g = delivered_of (m_g ms) g.
Proof.
  unfold kill_live. destruct (m_live ms); [|split; reflexivity].
  rewrite mod_g_pw. apply fd_pw. intros k. apply mark_dead_flags.
Qed.

Lemma mstep_counts b ms a g :
  snd (mstep b ms a) = [] ->
  fired_of (m_g (fst (mstep b ms a))) g = fired_of (m_g ms) g || is_fire g a /\
  delivered_of (m_g (fst (mstep b ms a))) g = delivered_of (m_g ms) g || is_deliver g a /\
  (is_fire g a = true -> fired_of (m_g ms) g = false) /\
  (is_deliver g a = true -> delivered_of (m_g ms) g = false /\ fired_of (m_g ms) g = true).
Proof.
  intros C. destruct a as [ty d to|to|g'|g'|g'|g']; simpl in *.
  - destruct (fd_app (kill_live b false ms) g) as [A1 A2]. destruct (fd_kill b false ms g) as [K1 K2].
    rewrite A1, A2, K1, K2, !orb_false_r. repeat split; intros; discriminate.
  - destruct (fd_kill b true ms g) as [K1 K2].
    rewrite K1, K2, !orb_false_r. repeat split; intros; discriminate.
  - rewrite mod_g_pw. destruct (fd_pw (m_g ms) g'
        (fun k => {| k_dead := k_dead k; k_adv := true; k_exp := k_exp k; k_fired := k_fired k;
                     k_delivered := k_delivered k |}) g) as [P1 P2]; [intros; split; reflexivity|].
    rewrite P1, P2, !orb_false_r. repeat split; intros; discriminate.
  - rewrite mod_g_pw. destruct (fd_pw (m_g ms) g'
        (fun k => {| k_dead := k_dead k; k_adv := k_adv k; k_exp := true; k_fired := k_fired k;
                     k_delivered := k_delivered k |}) g) as [P1 P2]; [intros; split; reflexivity|].
    rewrite P1, P2, !orb_false_r. repeat split; intros; discriminate.
  - destruct (nth_error (m_g ms) g') as [k|] eqn:Ek; simpl in *; [|discriminate].
    destruct (k_fired k) eqn:Ef; [discriminate|].
    unfold fired_of, delivered_of. rewrite nth_upd. destruct (Nat.eqb g g') eqn:G.
    + apply Nat.eqb_eq in G. subst g'. rewrite Ek. simpl. rewrite Ef, orb_false_r.
      repeat split; auto; intros; discriminate.
    + rewrite !orb_false_r. repeat split; intros; discriminate.
  - destruct (nth_error (m_g ms) g') as [k|] eqn:Ek; simpl in *; [|discriminate].
    destruct (k_fired k) eqn:Ef; simpl in C; [|discriminate].
    destruct (k_delivered k) eqn:Ed; [discriminate|].
    unfold fired_of, delivered_of. rewrite nth_upd. destruct (Nat.eqb g g') eqn:G.
    + apply Nat.eqb_eq in G. subst g'. rewrite Ek. simpl. rewrite Ef, Ed, orb_false_r.
      repeat split; auto; intros; discriminate.
    + rewrite !orb_false_r. repeat split; intros; discriminate.
Qed.

Lemma mrun_counts b l : forall ms g,
  snd (mrun b ms l) = [] ->
  (count (is_fire g) l + (if fired_of (m_g ms) g then 1 else 0) <= 1) /\
  (count (is_deliver g) l + (if delivered_of (m_g ms) g then 1 else 0) <= 1) /\
  (forall pre post, l = pre ++ LDeliver g :: post ->
     fired_of (m_g ms) g = true \/ In (LFire g) pre).
Proof.
  induction l as [|a l IH]; intros ms g C.
  - unfold count; simpl. repeat split.
    + destruct (fired_of (m_g ms) g); lia.
    + destruct (delivered_of (m_g ms) g); lia.
    + intros pre post H. destruct pre; discriminate.
  - simpl in C. destruct (mstep b ms a) as [ms1 c1] eqn:S.
    destruct (mrun b ms1 l) as [ms2 c2] eqn:R. simpl in C. apply app_eq_nil in C as [C1 C2]. subst.
    destruct (mstep_counts b ms a g) as (F & D & NF & ND); [rewrite S; reflexivity|].
    rewrite S in F, D. simpl in F, D.
    destruct (IH ms1 g) as (I1 & I2 & I3); [rewrite R; reflexivity|].
    rewrite F in I1. rewrite D in I2. unfold count in *. simpl.
    repeat split.
    + destruct (is_fire g a) eqn:A; simpl.
      * rewrite (NF eq_refl) in *. simpl in I1. lia.
      * rewrite orb_false_r in I1. exact I1.
    + destruct (is_deliver g a) eqn:A; simpl.
      * destruct (ND eq_refl) as [N1 _]. rewrite N1 in *. simpl in I2. lia.
      * rewrite orb_false_r in I2. exact I2.
    + intros pre post H. destruct pre as [|x pre]; simpl in H; inversion H; subst.
      * left. assert (is_deliver g (LDeliver g) = true) as A by (simpl; apply Nat.eqb_refl).
        apply (ND A).
      * destruct (I3 pre post eq_refl) as [H1|H1]; [|right; right; exact H1].
        rewrite F in H1. apply orb_true_iff in H1 as [H1|H1]; [left; exact H1|].
        right. left. destruct x; simpl in H1; try discriminate.
        apply Nat.eqb_eq in H1. subst. reflexivity.
Qed.

(* any schedule accepted by the monitor: per generation at most one commit, at most one
   delivery, and a delivery only after the commit *)
Lemma mon_at_most_once b sched g :
  mon b sched = [] ->
  count (is_fire g) sched <= 1 /\ count (is_deliver g) sched <= 1 /\
  (forall pre post, sched = pre ++ LDeliver g :: post -> In (LFire g) pre).
Proof.
  intros C. destruct (mrun_counts b sched m_init g C) as (A & B & D).
  assert (fired_of (m_g m_init) g = false) as F0 by (unfold fired_of; destruct g; reflexivity).
  assert (delivered_of (m_g m_init) g = false) as D0 by (unfold delivered_of; destruct g; reflexivity).
  rewrite F0 in A. rewrite D0 in B. repeat split; try lia.
  intros pre post H. destruct (D pre post H) as [X|X]; [congruence|exact X].
Qed.

Lemma src_at_most_once m : src_mech = Some m ->
  forall sched s g, exec m t_init sched = Some s ->
  count (is_fire g) sched <= 1 /\ count (is_deliver g) sched <= 1 /\
  (forall pre post, sched = pre ++ LDeliver g :: post -> In (LFire g) pre).
Proof.
  intros Hm sched s g H. apply (mon_at_most_once true). apply (src_safe m Hm sched s H).
Qed.

Lemma exec_app m l1 : forall s l2 s',
  exec m s (l1 ++ l2) = Some s' -> exists s1, exec m s l1 = Some s1 /\ exec m s1 l2 = Some s'.
Proof.
  induction l1 as [|a l1 IH]; intros s l2 s' H; simpl in *.
  - exists s. split; [reflexivity|exact H].
  - destruct (tstep m s a) as [s0|]; [|discriminate]. apply IH. exact H.
Qed.

(* readable form of the main theorem: at the moment a timeout is committed by generation g,
   the ideal timer — which sees nothing but the arm / stop calls and the earlier timeouts —
   is armed, and armed with g: g is the timer armed most recently, and it has been neither
   stopped nor replaced nor has it fired since *)
Lemma src_fire_only_when_armed m : src_mech = Some m ->
  forall pre g post s, exec m t_init (pre ++ LFire g :: post) = Some s ->
  exists i, iexec ideal_init (proj_all pre) = Some i /\ i_armed i = Some g.
Proof.
  intros Hm pre g post s H.
  destruct (exec_app m pre t_init (LFire g :: post) s H) as (s1 & H1 & H2).
  destruct (src_refines_ideal m Hm pre s1 H1) as (i & E & A & _).
  exists i. split; [exact E|]. rewrite A.
  rewrite src_is_per_arm in Hm. inversion Hm; subst m.
  simpl in H2. destruct (nth_error (gs s1) g) as [r|]; [|discriminate].
  destruct (pc_eqb (g_pc r) Expired); [|discriminate].
  destruct (current_running s1 g) eqn:CR; [|discriminate].
  unfold current_running in CR. apply andb_true_iff in CR as [R C]. apply opt_nat_eqb_eq in C.
  rewrite R. exact C.
Qed.

(* ==== progress: a running timer, left alone, delivers its timeout ==== *)
Definition pc_waiting (p : pc) : bool :=
  match p with Spawned | AtSelect | Expired => true | _ => false end.

(* model-only invariant of PerArm: the running flag implies a current generation whose
   goroutine is still on its way to the generation check, with its channel open *)
Record Good (s : tstate) : Prop := {
  good_cur : forall g, cur s = Some g -> g < length (gs s);
  good_run : running s = true ->
             exists g r, cur s = Some g /\ nth_error (gs s) g = Some r /\
                         pc_waiting (g_pc r) = true /\ g_closed r = false
}.

Lemma Good_init : Good t_init.
Proof. constructor; simpl; intros; discriminate. Qed.

Lemma good_set_pc s c p :
  Good s ->
  (running s = true -> cur s = Some c -> pc_waiting p = true) ->
  Good (with_gs s (set_pc (gs s) c p)).
Proof.
  intros G H. constructor; simpl.
  - intros g Hg. rewrite set_pc_pw, pw_length. apply (good_cur _ G). exact Hg.
  - intros R. destruct (good_run _ G R) as (g & r & C & N & W & Cl).
    exists g. rewrite set_pc_pw, nth_pw. destruct (Nat.eqb g c) eqn:E.
    + apply Nat.eqb_eq in E. subst c. rewrite N. simpl. eexists. repeat split; eauto.
    + eexists. repeat split; eauto.
Qed.

Lemma perarm_good_step s l s' : Good s -> tstep PerArm s l = Some s' -> Good s'.
Proof.
  intros G H. destruct l as [ty d to|to|g|g|g|g]; simpl in H.
  - unfold do_arm in H. destruct (do_stop PerArm s to) as [s1|] eqn:S; [|discriminate].
    inversion H; subst s'; clear H. constructor; simpl.
    + intros g Hg. inversion Hg. rewrite app_length. simpl. lia.
    + intros _. exists (length (gs s1)). eexists. split; [reflexivity|].
      split; [rewrite nth_error_app2 by lia; rewrite Nat.sub_diag; reflexivity|]. split; reflexivity.
  - unfold do_stop in H. destruct (running s) eqn:R; simpl in H.
    + destruct to; [discriminate|]. inversion H; subst s'; clear H. constructor; simpl.
      * intros g Hg. destruct (cur s) eqn:C; [|discriminate].
        rewrite close_gen_pw, pw_length. apply (good_cur _ G). congruence.
      * intros; discriminate.
    + destruct to; [discriminate|]. inversion H; subst s'. exact G.
  - destruct (nth_error (gs s) g) as [r|] eqn:Er; [|discriminate].
    destruct (g_pc r) eqn:Epc; try discriminate.
    + inversion H; subst s'. apply good_set_pc; [exact G|reflexivity].
    + destruct (g_closed r) eqn:Cl; [|discriminate]. inversion H; subst s'.
      apply good_set_pc; [exact G|]. intros R C.
      destruct (good_run _ G R) as (g0 & r0 & C0 & N0 & W0 & Cl0).
      rewrite C in C0. inversion C0; subst g0. rewrite Er in N0. inversion N0; subst r0. congruence.
    + destruct (current_running s g) eqn:CR; [discriminate|]. inversion H; subst s'.
      apply good_set_pc; [exact G|]. intros R C.
      unfold current_running in CR. rewrite R, C in CR. simpl in CR. rewrite Nat.eqb_refl in CR. discriminate.
  - destruct (nth_error (gs s) g) as [r|] eqn:Er; [|discriminate].
    destruct (pc_eqb (g_pc r) AtSelect); [|discriminate]. inversion H; subst s'.
    apply good_set_pc; [exact G|reflexivity].
  - destruct (nth_error (gs s) g) as [r|] eqn:Er; [|discriminate].
    destruct (pc_eqb (g_pc r) Expired && current_running s g); [|discriminate].
    inversion H; subst s'. constructor; simpl.
    + intros g' Hg'. rewrite set_pc_pw, pw_length. apply (good_cur _ G). exact Hg'.
    + intros; discriminate.
  - destruct (nth_error (gs s) g) as [r|] eqn:Er; [|discriminate].
    destruct (pc_eqb (g_pc r) Delivering) eqn:Epc; [|discriminate]. apply pc_eqb_eq in Epc.
    inversion H; subst s'. apply good_set_pc; [exact G|]. intros R C.
    destruct (good_run _ G R) as (g0 & r0 & C0 & N0 & W0 & Cl0).
    rewrite C in C0. inversion C0; subst g0. rewrite Er in N0. inversion N0; subst r0.
    rewrite Epc in W0. discriminate.
Qed.

Lemma perarm_good l : forall s s', Good s -> exec PerArm s l = Some s' -> Good s'.
Proof.
  induction l as [|a l IH]; intros s s' G H; simpl in H.
  - inversion H; subst; exact G.
  - destruct (tstep PerArm s a) as [s1|] eqn:T; [|discriminate].
    apply (IH s1 s'); [eapply perarm_good_step; eauto|exact H].
Qed.

Lemma nth_set_pc_same l g p r :
  nth_error l g = Some r -> nth_error (set_pc l g p) g = Some {| g_pc := p; g_closed := g_closed r |}.
Proof. intros H. rewrite set_pc_pw, nth_pw, Nat.eqb_refl, H. reflexivity. Qed.

Definition pc_at (s : tstate) (g : nat) : option pc := option_map g_pc (nth_error (gs s) g).

Lemma finish_delivering s g r :
  nth_error (gs s) g = Some r -> g_pc r = Delivering ->
  exists s', exec PerArm s [LDeliver g] = Some s' /\ pc_at s' g = Some Fired /\ running s' = running s.
Proof.
  intros N P. simpl. rewrite N, P. simpl. eexists. split; [reflexivity|]. split; [|reflexivity].
  unfold pc_at. simpl. rewrite (nth_set_pc_same _ _ _ _ N). reflexivity.
Qed.

Lemma finish_expired s g r :
  nth_error (gs s) g = Some r -> g_pc r = Expired -> current_running s g = true ->
  exists s', exec PerArm s [LFire g; LDeliver g] = Some s' /\ pc_at s' g = Some Fired /\ running s' = false.
Proof.
  intros N P CR. cbn [exec tstep]. rewrite N, P, CR. cbn [pc_eqb andb].
  set (s1 := {| running := false; ttype := ttype s; cur := cur s; gs := set_pc (gs s) g Delivering |}).
  destruct (finish_delivering s1 g {| g_pc := Delivering; g_closed := g_closed r |}) as (s' & E & Q & R).
  - apply nth_set_pc_same. exact N.
  - reflexivity.
  - exists s'. split; [exact E|]. split; [exact Q|exact R].
Qed.

Lemma finish_at_select s g r :
  nth_error (gs s) g = Some r -> g_pc r = AtSelect -> current_running s g = true ->
  exists s', exec PerArm s [LExpire g; LFire g; LDeliver g] = Some s' /\ pc_at s' g = Some Fired /\ running s' = false.
Proof.
  intros N P CR. cbn [exec tstep]. rewrite N, P. cbn [pc_eqb].
  apply (finish_expired (with_gs s (set_pc (gs s) g Expired)) g {| g_pc := Expired; g_closed := g_closed r |}).
  - apply nth_set_pc_same. exact N.
  - reflexivity.
  - exact CR.
Qed.

Lemma finish_spawned s g r :
  nth_error (gs s) g = Some r -> g_pc r = Spawned -> current_running s g = true ->
  exists s', exec PerArm s [LAdv g; LExpire g; LFire g; LDeliver g] = Some s' /\ pc_at s' g = Some Fired /\ running s' = false.
Proof.
  intros N P CR. cbn [exec tstep]. rewrite N, P.
  apply (finish_at_select (with_gs s (set_pc (gs s) g AtSelect)) g {| g_pc := AtSelect; g_closed := g_closed r |}).
  - apply nth_set_pc_same. exact N.
  - reflexivity.
  - exact CR.
Qed.

(* whenever the running flag is set, the current generation's goroutine can — by its own
   steps and the passing of time alone — commit and deliver the timeout *)
Lemma perarm_armed_can_fire sched s :
  exec PerArm t_init sched = Some s -> running s = true ->
  exists g p s', cur s = Some g /\ pc_at s g = Some p /\
                 exec PerArm s (finish g p) = Some s' /\ In (LDeliver g) (finish g p) /\
                 pc_at s' g = Some Fired /\ running s' = false.
Proof.
  intros H R. pose proof (perarm_good sched t_init s Good_init H) as G.
  destruct (good_run _ G R) as (g & r & C & N & W & Cl).
  assert (current_running s g = true) as CR.
  { unfold current_running. rewrite R, C. simpl. apply Nat.eqb_refl. }
  exists g, (g_pc r).
  destruct (g_pc r) eqn:P; try discriminate; cbn [finish].
  - destruct (finish_spawned s g r N P CR) as (s' & E & Q & R').
    exists s'. split; [exact C|]. split; [unfold pc_at; rewrite N; simpl; rewrite P; reflexivity|].
    split; [exact E|]. split; [simpl; tauto|]. split; assumption.
  - destruct (finish_at_select s g r N P CR) as (s' & E & Q & R').
    exists s'. split; [exact C|]. split; [unfold pc_at; rewrite N; simpl; rewrite P; reflexivity|].
    split; [exact E|]. split; [simpl; tauto|]. split; assumption.
  - destruct (finish_expired s g r N P CR) as (s' & E & Q & R').
    exists s'. split; [exact C|]. split; [unfold pc_at; rewrite N; simpl; rewrite P; reflexivity|].
    split; [exact E|]. split; [simpl; tauto|]. split; assumption.
Qed.

Lemma src_armed_can_fire m : src_mech = Some m ->
  forall sched s, exec m t_init sched = Some s -> running s = true ->
  exists g p s', cur s = Some g /\ pc_at s g = Some p /\
                 exec m s (finish g p) = Some s' /\ In (LDeliver g) (finish g p) /\
                 pc_at s' g = Some Fired /\ running s' = false.
Proof.
  intros Hm. rewrite src_is_per_arm in Hm. inversion Hm; subst m. exact perarm_armed_can_fire.
Qed.

(* ==== the Shared mechanism outside the refuted region ====
   If no arm/stop happens while some goroutine has not yet reached its select (the lost-stop
   window) or is between its time.After arm and its flag update (expiry racing the call),
   the Shared mechanism satisfies the monitor too. *)
Definition pc_done (p : pc) : bool :=
  match p with Stopped | Delivering | Fired | Dropped => true | _ => false end.

(* model-only part of the invariant *)
Record SX (s : tstate) : Prop := {
  sx_open : forall g r, nth_error (gs s) g = Some r -> g_closed r = false;
  sx_others : forall g r, nth_error (gs s) g = Some r -> current_running s g = false -> pc_done (g_pc r) = true;
  sx_run : running s = true ->
           exists g r, cur s = Some g /\ nth_error (gs s) g = Some r /\ pc_waiting (g_pc r) = true
}.

Lemma SX_init : SX t_init.
Proof. constructor; simpl; intros; try discriminate; destruct g; discriminate. Qed.

Lemma current_running_cur s g : current_running s g = true -> running s = true /\ cur s = Some g.
Proof.
  unfold current_running. intros H. apply andb_true_iff in H as [R C].
  apply opt_nat_eqb_eq in C. auto.
Qed.

Lemma current_running_intro s g : running s = true -> cur s = Some g -> current_running s g = true.
Proof. intros R C. unfold current_running. rewrite R, C. simpl. apply Nat.eqb_refl. Qed.

(* an internal move of goroutine c that keeps flag and channel *)
Lemma sx_set_pc s c p r :
  SX s -> nth_error (gs s) c = Some r ->
  (current_running s c = true -> pc_waiting p = true) ->
  (current_running s c = false -> pc_done p = true) ->
  SX (with_gs s (set_pc (gs s) c p)).
Proof.
  intros X N HW HD. constructor; simpl.
  - intros g r' Hr'. rewrite set_pc_pw, nth_pw in Hr'. destruct (Nat.eqb g c) eqn:E.
    + apply Nat.eqb_eq in E. subst g. rewrite N in Hr'. simpl in Hr'. inversion Hr'. simpl.
      apply (sx_open _ X c r N).
    + apply (sx_open _ X g r' Hr').
  - intros g r' Hr' CR.
    assert (current_running s g = false) as CR' by exact CR.
    rewrite set_pc_pw, nth_pw in Hr'. destruct (Nat.eqb g c) eqn:E.
    + apply Nat.eqb_eq in E. subst g. rewrite N in Hr'. simpl in Hr'. inversion Hr'. simpl.
      apply HD. exact CR'.
    + apply (sx_others _ X g r' Hr' CR').
  - intros R. destruct (sx_run _ X R) as (g & r0 & C & N0 & W).
    exists g. rewrite set_pc_pw, nth_pw. destruct (Nat.eqb g c) eqn:E.
    + apply Nat.eqb_eq in E. subst c. rewrite N. simpl. eexists. split; [exact C|]. split; [reflexivity|].
      simpl. apply HW. apply current_running_intro; assumption.
    + eexists. eauto.
Qed.

(* the current goroutine c leaves (token taken, or timeout committed): flag cleared *)
Lemma sx_clear s c p r :
  SX s -> nth_error (gs s) c = Some r -> current_running s c = true -> pc_done p = true ->
  SX {| running := false; ttype := ttype s; cur := cur s; gs := set_pc (gs s) c p |}.
Proof.
  intros X N CR D. destruct (current_running_cur _ _ CR) as [R C]. constructor; simpl.
  - intros g r' Hr'. rewrite set_pc_pw, nth_pw in Hr'. destruct (Nat.eqb g c) eqn:E.
    + apply Nat.eqb_eq in E. subst g. rewrite N in Hr'. simpl in Hr'. inversion Hr'. simpl.
      apply (sx_open _ X c r N).
    + apply (sx_open _ X g r' Hr').
  - intros g r' Hr' _. rewrite set_pc_pw, nth_pw in Hr'. destruct (Nat.eqb g c) eqn:E.
    + apply Nat.eqb_eq in E. subst g. rewrite N in Hr'. simpl in Hr'. inversion Hr'. simpl. exact D.
    + apply (sx_others _ X g r' Hr'). unfold current_running. rewrite R, C. simpl.
      rewrite Nat.eqb_sym. exact E.
  - intros; discriminate.
Qed.

Lemma at_select_exists l g r : nth_error l g = Some r -> g_pc r = AtSelect -> any_at_select l = true.
Proof.
  intros N P. unfold any_at_select. apply existsb_exists. exists r. split.
  - eapply nth_error_In; eauto.
  - rewrite P. reflexivity.
Qed.

Lemma calm_nth s g r : calm s = true -> nth_error (gs s) g = Some r ->
  g_pc r <> Spawned /\ g_pc r <> Expired.
Proof.
  intros C N. unfold calm in C. rewrite forallb_forall in C.
  specialize (C r (nth_error_In _ _ N)). apply negb_true_iff in C. apply orb_false_iff in C as [C1 C2].
  split; intros E; rewrite E in *; discriminate.
Qed.

Lemma flags_pw_l' gl ml c fr :
  flags_ok gl ml ->
  (forall r, nth_error gl c = Some r ->
     pc_fired (g_pc (fr r)) = pc_fired (g_pc r) /\ pc_delivered (g_pc (fr r)) = pc_delivered (g_pc r)) ->
  flags_ok (pw gl c fr) ml.
Proof.
  intros F H g r k Hr Hk. rewrite nth_pw in Hr.
  destruct (Nat.eqb g c) eqn:G.
  - apply Nat.eqb_eq in G. subst g.
    destruct (nth_error gl c) as [r0|] eqn:Er; [|discriminate].
    simpl in Hr. inversion Hr; subst. destruct (H r0 eq_refl) as [H1 H2]. rewrite H1, H2.
    apply (F c); assumption.
  - apply (F g); assumption.
Qed.

(* stopHandshakeTimer (Shared) in a calm state *)
Lemma shared_stop_inv strict b s ms to s1 :
  Inv s ms -> SX s -> calm s = true -> do_stop Shared s to = Some s1 ->
  running s1 = false /\ cur s1 = cur s /\ length (gs s1) = length (gs s) /\
  flags_ok (gs s1) (kill_live strict b ms) /\ SX s1.
Proof.
  intros I X Cm H. unfold do_stop in H. destruct (running s) eqn:R; simpl in H.
  - destruct (sx_run _ X R) as (g0 & r0 & C0 & N0 & W0).
    destruct (calm_nth s g0 r0 Cm N0) as [NS NE].
    assert (g_pc r0 = AtSelect) as P0 by (destruct (g_pc r0); try discriminate; congruence).
    destruct to as [g|].
    + destruct (nth_error (gs s) g) as [r|] eqn:N; [|discriminate].
      destruct (pc_eqb (g_pc r) AtSelect) eqn:P; [|discriminate]. apply pc_eqb_eq in P.
      inversion H; subst s1; clear H. simpl.
      assert (current_running s g = true) as CR.
      { destruct (current_running s g) eqn:CR; [reflexivity|].
        pose proof (sx_others _ X g r N CR) as D. rewrite P in D. discriminate. }
      split; [reflexivity|]. split; [reflexivity|]. split; [rewrite set_pc_pw; apply pw_length|]. split.
      * apply kill_live_flags. rewrite set_pc_pw. apply flags_pw_l'; [apply (inv_flags _ _ I)|].
        intros r' Hr'. rewrite N in Hr'. inversion Hr'; subst r'. simpl. rewrite P. split; reflexivity.
      * apply (sx_clear s g Stopped r X N CR). reflexivity.
    + rewrite (at_select_exists _ g0 r0 N0 P0) in H. discriminate.
  - destruct to; [discriminate|]. inversion H; subst s1; clear H.
    split; [exact R|]. split; [reflexivity|]. split; [reflexivity|]. split; [|exact X].
    apply kill_live_flags. apply (inv_flags _ _ I).
Qed.

(* what a completed stop leaves behind, for the monitor's stop ... *)
Lemma stop_post_inv strict s ms s1 :
  Inv s ms -> running s1 = false -> cur s1 = cur s -> length (gs s1) = length (gs s) ->
  flags_ok (gs s1) (kill_live strict true ms) ->
  Inv s1 {| m_live := None; m_g := kill_live strict true ms |}.
Proof.
  intros I R1 C1 L1 F1. constructor; simpl.
  - rewrite kill_live_length, L1. apply (inv_len _ _ I).
  - rewrite R1. reflexivity.
  - intros g Hg. rewrite C1 in Hg. rewrite L1. apply (inv_cur _ _ I). exact Hg.
  - exact F1.
  - intros g k Hr. congruence.
Qed.

(* ... and for the monitor's arm *)
Lemma arm_post_inv strict s ms s1 ty :
  Inv s ms -> running s1 = false -> cur s1 = cur s -> length (gs s1) = length (gs s) ->
  flags_ok (gs s1) (kill_live strict false ms) ->
  Inv {| running := true; ttype := ty; cur := Some (length (gs s1));
         gs := gs s1 ++ [{| g_pc := Spawned; g_closed := false |}] |}
      {| m_live := Some (length (m_g ms)); m_g := kill_live strict false ms ++ [k_fresh] |}.
Proof.
  intros I R1 C1 L1 F1.
  assert (length (gs s1) = length (kill_live strict false ms)) as LL
    by (rewrite kill_live_length, L1; apply (inv_len _ _ I)).
  constructor; simpl.
  - rewrite !app_length, LL. reflexivity.
  - rewrite L1, (inv_len _ _ I). reflexivity.
  - intros g Hg. inversion Hg. rewrite app_length. simpl. lia.
  - apply flags_app; assumption.
  - intros g k _ Hg Hk. inversion Hg; subst g.
    apply nth_app_cases in Hk. destruct Hk as [Hk|[_ Hk]].
    + assert (length (gs s1) < length (kill_live strict false ms))
        by (apply nth_error_Some; congruence). lia.
    + subst k. reflexivity.
Qed.

Lemma sx_after_arm s1 ty :
  SX s1 -> running s1 = false ->
  SX {| running := true; ttype := ty; cur := Some (length (gs s1));
        gs := gs s1 ++ [{| g_pc := Spawned; g_closed := false |}] |}.
Proof.
  intros X R1. constructor; simpl.
  - intros g r Hr. apply nth_app_cases in Hr. destruct Hr as [Hr|[_ Hr]].
    + apply (sx_open _ X g r Hr).
    + subst r. reflexivity.
  - intros g r Hr CR. apply nth_app_cases in Hr. destruct Hr as [Hr|[Hg Hr]].
    + apply (sx_others _ X g r Hr). unfold current_running. rewrite R1. reflexivity.
    + subst g. unfold current_running in CR. simpl in CR. rewrite Nat.eqb_refl in CR. discriminate.
  - intros _. exists (length (gs s1)). eexists. split; [reflexivity|].
    split; [rewrite nth_error_app2 by lia; rewrite Nat.sub_diag; reflexivity|reflexivity].
Qed.

(* goroutine steps of Shared are steps of PerArm once the invariant is known *)
Lemma shared_internal_is_perarm s l s' :
  SX s -> is_op l = false -> tstep Shared s l = Some s' -> tstep PerArm s l = Some s'.
Proof.
  intros X O H. destruct l as [ty d to|to|g|g|g|g]; simpl in *; try discriminate; try exact H.
  - destruct (nth_error (gs s) g) as [r|]; [|discriminate].
    destruct (g_pc r); try discriminate; exact H.
  - destruct (nth_error (gs s) g) as [r|] eqn:N; [|discriminate].
    destruct (pc_eqb (g_pc r) Expired) eqn:P; [|discriminate]. simpl in H. apply pc_eqb_eq in P.
    destruct (current_running s g) eqn:CR; [exact H|].
    pose proof (sx_others _ X g r N CR) as D. rewrite P in D. discriminate.
Qed.

Lemma shared_internal_sx s l s' :
  SX s -> is_op l = false -> tstep Shared s l = Some s' -> SX s'.
Proof.
  intros X O H. destruct l as [ty d to|to|g|g|g|g]; simpl in *; try discriminate.
  - (* advance *)
    destruct (nth_error (gs s) g) as [r|] eqn:N; [|discriminate].
    destruct (g_pc r) eqn:P; try discriminate.
    + inversion H; subst s'. apply (sx_set_pc s g AtSelect r X N); [reflexivity|].
      intros CR. pose proof (sx_others _ X g r N CR) as D. rewrite P in D. discriminate.
    + rewrite (sx_open _ X g r N) in H. discriminate.
  - (* expire *)
    destruct (nth_error (gs s) g) as [r|] eqn:N; [|discriminate].
    destruct (pc_eqb (g_pc r) AtSelect) eqn:P; [|discriminate]. apply pc_eqb_eq in P.
    inversion H; subst s'. apply (sx_set_pc s g Expired r X N); [reflexivity|].
    intros CR. pose proof (sx_others _ X g r N CR) as D. rewrite P in D. discriminate.
  - (* fire *)
    destruct (nth_error (gs s) g) as [r|] eqn:N; [|discriminate].
    destruct (pc_eqb (g_pc r) Expired) eqn:P; [|discriminate]. apply pc_eqb_eq in P. simpl in H.
    inversion H; subst s'. apply (sx_clear s g Delivering r X N); [|reflexivity].
    destruct (current_running s g) eqn:CR; [reflexivity|].
    pose proof (sx_others _ X g r N CR) as D. rewrite P in D. discriminate.
  - (* deliver *)
    destruct (nth_error (gs s) g) as [r|] eqn:N; [|discriminate].
    destruct (pc_eqb (g_pc r) Delivering) eqn:P; [|discriminate]. apply pc_eqb_eq in P.
    inversion H; subst s'. apply (sx_set_pc s g Fired r X N); [|reflexivity].
    intros CR. destruct (current_running_cur _ _ CR) as [R C].
    destruct (sx_run _ X R) as (g0 & r0 & C0 & N0 & W0).
    rewrite C in C0. inversion C0; subst g0. rewrite N in N0. inversion N0; subst r0.
    rewrite P in W0. discriminate.
Qed.

Lemma shared_step strict s ms l s' :
  Inv s ms -> SX s -> (is_op l = true -> calm s = true) -> tstep Shared s l = Some s' ->
  snd (mstep strict ms l) = [] /\ Inv s' (fst (mstep strict ms l)) /\ SX s'.
Proof.
  intros I X Cm H. destruct (is_op l) eqn:O.
  - specialize (Cm eq_refl). destruct l as [ty d to|to|g|g|g|g]; try discriminate; simpl in H.
    + unfold do_arm in H. destruct (do_stop Shared s to) as [s1|] eqn:S; [|discriminate].
      inversion H; subst s'; clear H.
      destruct (shared_stop_inv strict false s ms to s1 I X Cm S) as (R1 & C1 & L1 & F1 & X1).
      simpl. split; [reflexivity|]. split.
      * apply (arm_post_inv strict s ms s1 ty); assumption.
      * apply sx_after_arm; assumption.
    + destruct (shared_stop_inv strict true s ms to s' I X Cm H) as (R1 & C1 & L1 & F1 & X1).
      simpl. split; [reflexivity|]. split; [|exact X1].
      apply (stop_post_inv strict s ms s'); assumption.
  - pose proof (shared_internal_is_perarm s l s' X O H) as HP.
    destruct (perarm_step strict s ms l s' I HP) as [C I'].
    split; [exact C|]. split; [exact I'|]. eapply shared_internal_sx; eauto.
Qed.

Lemma shared_run strict l : forall s ms s',
  Inv s ms -> SX s -> ops_calm Shared s l = true -> exec Shared s l = Some s' ->
  snd (mrun strict ms l) = [].
Proof.
  induction l as [|a l IH]; intros s ms s' I X Cm H; simpl in *; [reflexivity|].
  destruct (tstep Shared s a) as [s1|] eqn:T; [|discriminate].
  apply andb_true_iff in Cm as [Ca Cl].
  destruct (shared_step strict s ms a s1 I X) as (C1 & I1 & X1); [|exact T|].
  { intros O. rewrite O in Ca. exact Ca. }
  destruct (mstep strict ms a) as [ms1 c1] eqn:M. simpl in C1, I1.
  pose proof (IH s1 ms1 s' I1 X1 Cl H) as C2.
  destruct (mrun strict ms1 l) as [ms2 c2]. simpl in *. subst. reflexivity.
Qed.

(* PARTIAL: outside the refuted region the Shared mechanism satisfies the property *)
Lemma shared_partial strict sched s :
  exec Shared t_init sched = Some s -> ops_calm Shared t_init sched = true -> mon strict sched = [].
Proof.
  intros H C. unfold mon. apply (shared_run strict sched t_init m_init s Inv_init SX_init C H).
Qed.

(* the hypothesis is satisfiable by a non-trivial Shared run, and the refuting schedule
   violates it *)
Definition shared_calm_example : list label :=
  [LArm 0 60000 None; LAdv 0; LStop (Some 0); LArm 0 10000 None; LAdv 1; LArm 2 5000 (Some 1);
   LAdv 2; LExpire 2; LFire 2; LDeliver 2; LStop None].

Lemma shared_calm_example_ok :
  (exists s, exec Shared t_init shared_calm_example = Some s) /\
  ops_calm Shared t_init shared_calm_example = true /\
  ops_calm Shared t_init lost_stop_witness = false.
Proof. split; [eexists; vm_compute; reflexivity|]. split; vm_compute; reflexivity. Qed.

(* ==== the property's last sentence: once stopped (handshake approved, hello phase left,
   connection closed ...) no timeout is committed until a timer is armed again ==== *)
Definition is_arm (l : label) : bool := match l with LArm _ _ _ => true | _ => false end.

Lemma iexec_stays_disarmed l : forall i i',
  iexec i (proj_all l) = Some i' -> i_armed i = None -> forallb (fun a => negb (is_arm a)) l = true ->
  i_armed i' = None.
Proof.
  induction l as [|a l IH]; intros i i' H A NA; simpl in *.
  - inversion H; subst; exact A.
  - apply andb_true_iff in NA as [Na Nl].
    destruct a as [ty d to|to|g|g|g|g]; simpl in Na; try discriminate.
    + (* stop *) simpl in H. apply (IH {| i_n := i_n i; i_armed := None |} i' H eq_refl Nl).
    + (* advance *) simpl in H. apply (IH i i' H A Nl).
    + (* expire *) simpl in H. apply (IH i i' H A Nl).
    + (* fire: not enabled while disarmed *) simpl in H. rewrite A in H. simpl in H. discriminate.
    + (* deliver *) simpl in H. apply (IH i i' H A Nl).
Qed.

Lemma proj_all_app a b : proj_all (a ++ b) = proj_all a ++ proj_all b.
Proof. unfold proj_all. apply flat_map_app. Qed.

Lemma src_no_timeout_after_stop m : src_mech = Some m ->
  forall pre to post s g,
    exec m t_init (pre ++ LStop to :: post) = Some s ->
    forallb (fun a => negb (is_arm a)) post = true ->
    ~ In (LFire g) post.
Proof.
  intros Hm pre to post s g H NA Hin.
  apply in_split in Hin as (p1 & p2 & E). subst post.
  replace (pre ++ LStop to :: p1 ++ LFire g :: p2) with ((pre ++ LStop to :: p1) ++ LFire g :: p2) in H
    by (rewrite <- app_assoc; reflexivity).
  destruct (src_fire_only_when_armed m Hm _ g p2 s H) as (i & E & A).
  rewrite proj_all_app in E. rewrite iexec_app in E.
  destruct (iexec ideal_init (proj_all pre)) as [i0|] eqn:E0; [|discriminate].
  change (proj_all (LStop to :: p1)) with (IStop :: proj_all p1) in E. simpl in E.
  rewrite forallb_app in NA. apply andb_true_iff in NA as [NA1 _].
  pose proof (iexec_stays_disarmed p1 _ i E eq_refl NA1) as A'. congruence.
Qed.
