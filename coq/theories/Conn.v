(* Conn.v — executable model of one SHIP connection (ship/connection.go, handshake.go,
   hs_init.go, hs_hello.go, hs_prot.go, hs_pin.go, hs_access.go).  Definitions only.

   The model is split in two layers so that control properties can be decided by a
   kernel-checked closure (ConnClosure.v) for ALL event sequences and message contents:

   * the CONTROL layer `cstep : cs -> cevx -> cs` works on finite data only.  A received
     message is represented by exactly the facts the handlers look at (its class for the
     one decoder that consults it, the datagram test, the close test); waiting values are
     represented by their threshold class, SHIP ids by "matches the stored one".
   * the DATA layer (payload ids, SHIP id strings, waiting values, close codes) rides on
     top: `step` computes the control event from the concrete event and the current state
     (`abs_ev`), runs `cstep`, and fills the data into the emitted observations.

   The arm/stop behaviour of setState is regenerated from the Go source (gen/ConnTable). *)
From Ship Require Import Base.
From ShipGen Require Import ConnTable.
From RecordUpdate Require Import RecordUpdate.
Import RecordSetNotations.

(* ------------------------------------------------------------------ message classes *)
Inductive role := Client | Server.

Inductive wcls := WNone | WLt1 | WMid | WGe30.     (* waiting: absent, <1 s, [1 s,30 s), >=30 s *)
Inductive pro := PNone | PTrue | PFalse.           (* prolongationRequest: absent, true, false *)
Inductive hphase := HReady | HPending | HAborted | HOther.
Inductive helloc := HelloErr | Hello (p : hphase) (w : wcls) (pr : pro).
Inductive ptype := PAnnounce | PSelect | POtherT.
(* format list: nil slice / non-nil but empty / exactly ["JSON-UTF8"] / anything else *)
Inductive fmts := FNil | FEmpty | FUtf8 | FOther.
Inductive protc := ProtErr | Prot (t : ptype) (ver_ok : bool) (f : fmts).
Inductive pinc := PinErr | PinNone | PinOther.
(* access phase: request marker / methods marker with undecodable body / without id /
   with id (equal to the stored one or nothing stored; id is the empty string) / neither *)
Inductive accc := AccReq | AccMethodsErr | AccNoId | AccId (matches : bool) (empty : bool) | AccNeither.
Inductive initc := InitBadType | InitBadSecond | InitOk.

(* what the one decoder that looks at a received message sees; MNil is the nil message
   of Run(), timeouts and re-dispatches *)
Inductive msg := MNil | MInit (i : initc) | MHello (h : helloc) | MProt (p : protc)
               | MPin (p : pinc) | MAcc (a : accc) | MGarbage.

Inductive dgc := NotDatagram | DgErr | DgNoPayload | DgOk.       (* bytes.Contains "datagram" + decode *)
Inductive clc := NoClose | ClAnnounce | ClConfirm | ClOther.     (* len>2 and connectionClose.phase *)

Inductive cev :=
| CRun                                   (* Run() *)
| CRecv (dg : dgc) (cl : clc) (m : msg)  (* HandleIncomingWebsocketMessage *)
| CTimeout                               (* the armed handshake timer expires *)
| CConnErr                               (* ReportConnectionError *)
| CWClosed                               (* the transport's closed flag gets set, not yet reported *)
| CApprove | CAbort                      (* Approve/AbortPendingHandshake *)
| CClose (safe : bool)                   (* CloseConnection(safe, code, reason) *)
| CSpineWrite                            (* WriteShipMessageWithPayload *)
| CDeferred                              (* the pending time.After goroutines have run *)
| CNop.                                  (* an event the environment cannot produce in this state *)

(* an event with the environment's answers during it: is the SKI paired, is auto-accept on,
   may we keep waiting for trust, and after how many further data-writer calls (closed
   queries and writes) the transport turns closed (None = stays as it is) *)
Record cevx := mkEv { ev : cev; e_paired : bool; e_auto : bool; e_allow : bool; e_wf : option nat }.

(* ------------------------------------------------------------------ observations *)
Inductive smsg := SInit | SHelloReady | SHelloPending | SHelloProlong | SHelloAborted
                | SProtAnnounce | SProtSelect | SProtErr (n : N) | SPin | SAccReq | SAcc
                | SData | SCloseAnnounce | SCloseConfirm
                | SUnknown.     (* a frame ship-go never writes; only arises when reading implementation traces *)

(* close code / reason of CloseDataConnection: 4001 with or without reason text, 4452 with
   reason, or whatever the caller of CloseConnection passed *)
Inductive ccode := K4001 (reason : bool) | K4452 | KUser.

Inductive cobs :=
| BEv (e : cevx)                    (* input marker, written by the harness *)
| BReport (s : N) (e : bool)        (* HandleShipHandshakeStateUpdate(state, error != nil) *)
| BWrite (m : smsg) (ok : bool)     (* WriteMessageToWebsocketConnection and its result *)
| BPairedQ (a : bool) | BAutoQ (a : bool) | BAllowQ (a : bool)   (* info-provider queries and their answers *)
| BSetup | BShipId | BDeliver | BFlush (* SetupRemoteDevice, ReportServiceShipID, payload to reader, buffered payloads to reader *)
| BBuffer                           (* payload appended to the SPINE buffer (not externally visible) *)
| BCloseData (k : ccode)            (* CloseDataConnection(code, reason) *)
| BClosedCb (completed : bool)      (* HandleConnectionClosed *)
| BPanic | BHang | BFuel
(* hook snapshot after the event: state, error flag, timer armed, timer type, reader set *)
| BSnap (s : N) (e : bool) (armed : bool) (tty : N) (rd : bool).

(* ------------------------------------------------------------------ control state *)
Record cs := mkCs {
  c_role : role;
  st : N;              (* smeState *)
  err : bool;          (* smeError != nil *)
  armed : bool;        (* handshakeTimerRunning *)
  tty : N;             (* handshakeTimerType (persists after expiry) *)
  reader : bool;       (* dataReader != nil *)
  once : bool;         (* shutdownOnce done *)
  wclosed : bool;      (* IsDataConnectionClosed() *)
  wleft : option nat;  (* data-writer calls left before the transport turns closed *)
  d500 : bool;         (* pending: CloseDataConnection + HandleConnectionClosed after 500 ms *)
  d1000 : bool;        (* pending: CloseConnection(false,4452) after 1 s *)
  idknown : bool;      (* remoteShipID != "" *)
  dead : bool;         (* panicked or deadlocked *)
  ran : bool;          (* Run() was called (ghost, for realisability of events) *)
  out : list cobs      (* observations of the current event, newest first *)
}.
#[export] Instance etaCs : Settable _ :=
  settable! mkCs <c_role; st; err; armed; tty; reader; once; wclosed; wleft; d500; d1000; idknown; dead; ran; out>.

Definition init_cs (r : role) (idk : bool) : cs :=
  mkCs r 0 false false 0 false false false None false false idk false false [].

Definition emit (o : cobs) (c : cs) : cs := c <| out := o :: out c |>.

(* ------------------------------------------------------------------ primitives *)
Definition stop (c : cs) : cs := c <| armed := false |>.
Definition arm (t : N) (c : cs) : cs := c <| armed := true |> <| tty := t |>.

(* setState(s, err) *)
Definition set_state (s : N) (e : bool) (c : cs) : cs :=
  let old := st c in
  let c := c <| st := s |> in
  let c := match timer_action s with
           | 1 => arm (timer_action_type s) c
           | 2 => stop c
           | _ => c
           end in
  if N.eqb old s then c <| err := false |>
  else emit (BReport s e) (c <| err := e |>).

(* one call on the data writer (closed query or write): does it see a closed transport? *)
Definition wtick (c : cs) : cs * bool :=
  if wclosed c then (c, true)
  else match wleft c with
       | Some O => (c <| wclosed := true |> <| wleft := None |>, true)
       | Some (S k) => (c <| wleft := Some k |>, false)
       | None => (c, false)
       end.

(* WriteMessageToWebsocketConnection: fails iff the transport is closed *)
Definition raw_write (m : smsg) (c : cs) : cs * bool :=
  let '(c, closed) := wtick c in
  (emit (BWrite m (negb closed)) c, negb closed).

Definition close_data (k : ccode) (c : cs) : cs :=
  emit (BCloseData k) c <| wclosed := true |> <| wleft := None |>.

(* CloseConnection(safe, ..): the body of shutdownOnce.Do.  `send` is sendShipModel, passed
   in because the two are mutually recursive in the code (that recursion is the deadlock) *)
Definition is_handshake_end (s : N) : bool :=
  N.eqb s 38 || N.eqb s 15 || N.eqb s 16 || N.eqb s 17.

Definition close_conn (safe : bool) (k : ccode) (c : cs) : cs :=
  if dead c then c else
  if once c then c else
  let c := stop c in
  let he := is_handshake_end (st c) in
  if safe && N.eqb (st c) 38 then
    (* the announce is only written if the transport is still open; otherwise close at once *)
    let '(c, closed) := wtick c in
    if closed then
      let c := close_data k c in
      emit (BClosedCb he) c <| once := true |>
    else
      let '(c, _) := raw_write SCloseAnnounce c in
      c <| once := true |> <| d500 := true |>
  else
    let c := close_data k c in
    emit (BClosedCb he) c <| once := true |>.

(* sendShipModel: closed query (closed -> CloseConnection(false,0,"") and fail), then write *)
Definition send (m : smsg) (c : cs) : cs * bool :=
  let '(c, closed) := wtick c in
  if closed then (close_conn false (K4001 false) c, false)
  else raw_write m c.

(* endHandshakeWithError *)
Definition end_err (c : cs) : cs :=
  let c := stop c in
  let c := set_state 39 true c in
  let c := close_conn true (K4001 true) c in
  emit (BReport 39 true) c.

(* abortProtocolHandshake *)
Definition abort_prot (n : N) (c : cs) : cs :=
  let c := stop c in
  let '(c, _) := send (SProtErr n) c in
  let c := set_state 39 true c in
  close_conn false (K4001 false) c.

Definition dec_init (m : msg) : initc :=
  match m with MInit i => i | MNil => InitOk | _ => InitBadType end.
Definition dec_hello (m : msg) : helloc := match m with MHello h => h | _ => HelloErr end.
Definition dec_prot (m : msg) : protc := match m with MProt p => p | _ => ProtErr end.
Definition dec_pin (m : msg) : pinc := match m with MPin p => p | _ => PinErr end.
Definition dec_acc (m : msg) : accc := match m with MAcc a => a | _ => AccNeither end.

Definition allow_q (e : cevx) (c : cs) : cs * bool := (emit (BAllowQ (e_allow e)) c, e_allow e).

(* ------------------------------------------------------------------ handleState *)
Fixpoint handle (fuel : nat) (e : cevx) (timeout : bool) (m : msg) (c : cs) : cs :=
  match fuel with
  | O => emit BFuel c <| dead := true |>          (* unreachable: see ConnClosure *)
  | S f =>
  if dead c then c else
  let sah := fun (s : N) (c : cs) => handle f e false MNil (set_state s false c) in
  match st c with
  | 39 => c
  | 0 =>
      match c_role c with
      | Client =>
          let c := set_state 1 false c in
          let '(c, ok) := raw_write SInit c in
          if ok then arm 0 (set_state 2 false c) else end_err c
      | Server => arm 0 (set_state 4 false c)
      end
  | 2 =>
      if timeout then end_err c else
      let c := set_state 3 false c in
      match dec_init m with
      | InitOk => sah 6 c
      | _ => end_err c
      end
  | 4 =>
      if timeout then end_err c else
      let c := set_state 5 false c in
      match dec_init m with
      | InitOk =>
          let '(c, ok) := raw_write SInit c in
          if ok then sah 6 c else end_err c
      | _ => end_err c
      end
  | 6 =>
      let c := emit (BPairedQ (e_paired e)) c in
      let trusted :=
        if e_paired e then (c, true)
        else let c := emit (BAutoQ (e_auto e)) c in
             if e_auto e then (c, true)
             else (c, match c_role c with Client => true | Server => false end) in
      let '(c, t) := trusted in
      let c := if t then set_state 7 false c else set_state 10 false c in
      handle f e timeout m c
  | 7 =>
      let '(c, ok) := send SHelloReady c in
      if ok then set_state 8 false c else sah 14 c
  | 8 =>
      if timeout then sah 14 c else
      match dec_hello m with
      | HelloErr => sah 14 c
      | Hello HReady _ _ => handle f e false MNil (set_state 13 false c)
      | Hello HPending _ PTrue =>
          let '(c, al) := allow_q e c in
          let c := if al then arm 0 (stop c) else c in
          let '(c, ok) := send SHelloReady c in
          if ok then c else end_err c
      | Hello HPending _ _ => c
      | Hello HAborted _ _ => sah 16 c
      | Hello HOther _ _ => sah 14 c
      end
  | 10 =>
      let '(c, ok) := send SHelloPending c in
      if negb ok then end_err c else
      let c := set_state 11 false c in
      let '(c, al) := allow_q e c in
      if al then c else sah 14 c
  | 11 =>
      if timeout then
        let '(c, al) := allow_q e c in
        if al then
          let '(c, ok) := send SHelloProlong c in
          if ok then arm 2 (stop c) else end_err c
        else
          if negb (N.eqb (tty c) 1) then sah 14 c else
          let '(c, ok) := send SHelloProlong c in
          if ok then arm 2 (stop c) else end_err c
      else
      match dec_hello m with
      | HelloErr => sah 14 c
      | Hello HReady WNone _ => sah 14 c
      | Hello HReady WGe30 _ => arm 1 (stop (stop c))
      | Hello HReady WLt1 _ => handle f e false MNil (sah 14 (stop c))
      | Hello HReady WMid _ => handle f e false MNil (stop c)
      | Hello HPending WNone PTrue =>
          let '(c, ok) := send SHelloPending c in
          if ok then c else end_err c
      | Hello HPending WNone _ => handle f e false MNil (sah 14 c)
      | Hello HPending WGe30 PNone => arm 1 (stop (stop c))
      | Hello HPending WLt1 PNone => sah 14 (stop c)
      | Hello HPending WMid PNone => stop c
      | Hello HPending _ _ => handle f e false MNil (sah 14 c)
      | Hello HAborted _ _ => sah 16 c
      | Hello HOther _ _ => sah 14 c
      end
  | 13 =>
      match c_role c with
      | Server =>
          let c := set_state 18 false c in
          let c := arm 0 (stop c) in
          set_state 20 false c
      | Client =>
          let c := set_state 19 false c in
          let c := set_state 19 false c in
          let '(c, ok) := send SProtAnnounce c in
          if ok then set_state 22 false c else end_err c
      end
  | 14 =>
      let c := stop c in
      let '(c, ok) := send SHelloAborted c in
      if ok then sah 15 c else end_err c
  | 15 | 16 => c <| d1000 := true |>
  | 20 =>
      match dec_prot m with
      | Prot PAnnounce _ _ =>
          let c := stop c in
          let '(c, ok) := send SProtSelect c in
          if negb ok then end_err c else
          let c := arm 0 (stop c) in
          set_state 21 false c
      | _ => end_err c
      end
  | 21 =>
      match dec_prot m with
      | ProtErr => abort_prot 2 c
      | Prot PSelect _ _ => sah 25 (stop c)
      | Prot _ _ _ => abort_prot 3 c
      end
  | 22 =>
      let c := stop c in
      match dec_prot m with
      | ProtErr => abort_prot 2 c
      | Prot PSelect true FUtf8 =>
          let c := stop c in
          let '(c, ok) := send SProtSelect c in
          if ok then sah 24 c else end_err c
      | Prot _ _ _ => abort_prot 3 c
      end
  | 24 | 25 => sah 26 c
  | 26 =>
      let c := set_state 26 false c in
      let '(c, ok) := send SPin c in
      if ok then set_state 27 false c else end_err c
  | 27 =>
      match dec_pin m with
      | PinNone => sah 31 c
      | _ => end_err c
      end
  | 31 =>
      let '(c, ok) := send SAccReq c in
      if ok then set_state 36 false (arm 0 (stop c)) else end_err c
  | 36 =>
      let approve := fun (c : cs) =>
        let c := set_state 37 false c in
        let c := emit BSetup c <| reader := true |> in
        let c := stop c in
        let c := set_state 38 false c in
        emit BFlush c in
      match dec_acc m with
      | AccReq =>
          let '(c, ok) := send SAcc c in
          if ok then c else end_err c
      | AccId mt em =>
          if idknown c then (if mt then approve c else end_err c)
          else approve (emit BShipId c)
      | _ => end_err c
      end
  | _ => c
  end
  end.

Definition FUEL : nat := 12.

(* ------------------------------------------------------------------ events *)
Definition snap (c : cs) : cobs := BSnap (st c) (err c) (armed c) (tty c) (reader c).

Definition ev_id_empty (e : cev) : bool :=
  match e with CRecv _ _ (MAcc (AccId _ em)) => em | _ => false end.

Definition cstep_body (e : cevx) (c : cs) : cs :=
  match ev e with
  | CRun => let c := c <| ran := true |> in if once c then c else handle FUEL e false MNil c
  | CNop => c
  | CRecv dg cl m =>
      match dg with
      | DgErr | DgNoPayload => c
      | DgOk => if reader c then emit BDeliver c else emit BBuffer c
      | NotDatagram =>
          if once c then c else
          match cl with
          | ClAnnounce =>
              let '(c, _) := send SCloseConfirm c in
              close_conn false (K4001 true) c
          | ClConfirm => close_conn false (K4001 true) c
          | ClOther => c
          | NoClose => handle FUEL e false m c
          end
      end
  | CTimeout => if armed c then handle FUEL e true MNil (c <| armed := false |>) else c
  | CConnErr =>
      let c := c <| wclosed := true |> in      (* the websocket layer sets its closed flag before it reports *)
      if N.eqb (st c) 8 then close_conn false (K4001 false) (set_state 17 false c)
      else if N.eqb (st c) 16 then close_conn false (K4001 false) c
      else if N.eqb (st c) 14 || N.eqb (st c) 15 then close_conn false K4452 c
      else
        let c := set_state 39 true c in
        let c := close_conn false (K4001 false) c in
        emit (BReport 39 true) c
  | CWClosed => c <| wclosed := true |>
  | CApprove =>
      if N.eqb (st c) 11 && negb (once c) then
        let c := stop c in
        let c := handle FUEL e false MNil (set_state 7 false c) in
        if N.eqb (st c) 8 then handle FUEL e false MNil (set_state 13 false c) else c
      else c
  | CAbort =>
      if (N.eqb (st c) 11 || N.eqb (st c) 8) && negb (once c) then
        handle FUEL e false MNil (set_state 14 false (stop c))
      else c
  | CClose safe => close_conn safe KUser c
  | CSpineWrite =>
      let '(c, closed) := wtick c in
      if closed then close_conn false (K4001 false) c
      else fst (raw_write SData c)
  | CDeferred =>
      let c := if d500 c then
                 let c := c <| d500 := false |> in
                 emit (BClosedCb true) (close_data (K4001 true) c)
               else c in
      if d1000 c then close_conn false K4452 (c <| d1000 := false |>) else c
  end.

(* one event: returns the new state (with an empty output buffer) and the observations in
   order, followed by the hook snapshot *)
Definition cstep (c : cs) (e : cevx) : cs * list cobs :=
  if dead c then (c, []) else
  let c1 := cstep_body e (c <| wleft := e_wf e |> <| out := [] |>) in
  let c2 := c1 <| wleft := None |> in
  (* remoteShipID := presented id, exactly when it is reported *)
  let c2 := if existsb (fun o => match o with BShipId => true | _ => false end) (out c2)
            then c2 <| idknown := negb (ev_id_empty (ev e)) |> else c2 in
  (c2 <| out := [] |>, rev (out c2) ++ (if dead c2 then [] else [snap c2])).

Fixpoint crun (c : cs) (es : list cevx) : cs * list cobs :=
  match es with
  | [] => (c, [])
  | e :: r =>
      let '(c1, o1) := cstep c e in
      let '(c2, o2) := crun c1 r in
      (c2, BEv e :: o1 ++ o2)
  end.
