(* RegRace.v — C11 where causes coincide on different goroutines.

   (a) registration against the end of the same connection.  One connection c, the registry
   entry of its SKI, and the actions the hub runs for it: the registration of ServeHTTP /
   connectFoundService (registerCheckedConnection: "already closed? then don't, else store") and
   the report of the end (HandleConnectionClosed: the transport is closed by then, the entry is
   removed if it is c).  With the check and the store in ONE critical section (ARegAtomic) every
   sequence of registrations and end reports that contains an end report leaves c unregistered;
   with the check and the store as two steps (ACheck, AStore) the schedule check - end - store
   leaves the ended connection registered for ever.  Which of the two the code is, is read off
   the source on every run (gen/HubTable.hub_register_atomic).

   (b) several closers at once: CloseConnection runs its body inside sync.Once.Do
   (gen/ConnTable.close_body_once); the stream counts the HandleConnectionClosed reports of
   connections closed by several goroutines released together.  Definitions and the case
   checkers; the theorems are proved below and stated in props/C11*.v. *)
From Ship Require Import Base.

Inductive ract := ARegAtomic | ACheck | AStore | AEnd.

Record rst := mkR { r_closed : bool;   (* the transport is closed / the end has been reported *)
                    r_reg : bool;      (* c is the registry entry of its SKI *)
                    r_passed : bool }. (* a non-atomic registration has seen "not closed" *)

Definition r0 : rst := mkR false false false.

Definition rstep (s : rst) (a : ract) : rst :=
  match a with
  | ARegAtomic => if r_closed s then s else mkR (r_closed s) true (r_passed s)
  | ACheck => mkR (r_closed s) (r_reg s) (negb (r_closed s))
  | AStore => if r_passed s then mkR (r_closed s) true false else s
  | AEnd => mkR true false (r_passed s)
  end.

Definition rrun (l : list ract) : rst := fold_left rstep l r0.

Definition atomic_only (l : list ract) : bool :=
  forallb (fun a => match a with ARegAtomic | AEnd => true | _ => false end) l.
Definition has_end (l : list ract) : bool :=
  existsb (fun a => match a with AEnd => true | _ => false end) l.

(* invariant of the atomic program: a closed connection is not registered *)
Definition rinv (s : rst) : Prop := r_closed s = true -> r_reg s = false.

Lemma rstep_inv s a : (match a with ARegAtomic | AEnd => true | _ => false end) = true ->
  rinv s -> rinv (rstep s a).
Proof.
  unfold rinv. destruct a; intros Ha H; try discriminate Ha; cbn [rstep].
  - destruct (r_closed s) eqn:C.
    + intros _. apply H. reflexivity.
    + cbn. intros K. discriminate K.
  - cbn. intros _. reflexivity.
Qed.

Lemma rstep_closed_stays s a : r_closed s = true -> r_closed (rstep s a) = true.
Proof.
  destruct a; cbn [rstep]; intros H.
  - rewrite H. exact H.
  - exact H.
  - destruct (r_passed s); exact H.
  - reflexivity.
Qed.

Lemma rrun_from_inv l : forall s, atomic_only l = true -> rinv s -> rinv (fold_left rstep l s).
Proof.
  induction l as [|a l IH]; intros s Ha H; [exact H|].
  cbn [atomic_only forallb] in Ha. apply andb_true_iff in Ha as [Ha1 Ha2].
  cbn [fold_left]. apply IH; [exact Ha2|]. apply rstep_inv; assumption.
Qed.

Lemma rrun_closed_stays l : forall s, r_closed s = true -> r_closed (fold_left rstep l s) = true.
Proof.
  induction l as [|a l IH]; intros s H; [exact H|]. cbn [fold_left]. apply IH. apply rstep_closed_stays. exact H.
Qed.

Lemma rrun_end_closed l : forall s, has_end l = true -> r_closed (fold_left rstep l s) = true.
Proof.
  induction l as [|a l IH]; intros s H; [discriminate H|].
  cbn [has_end existsb] in H. cbn [fold_left].
  destruct a; cbn [orb] in H; try (apply IH; exact H).
  apply rrun_closed_stays. reflexivity.
Qed.

(* every sequence of atomic registrations and end reports, in any order and number, that
   contains an end report leaves the connection unregistered *)
Theorem atomic_registration_forgets l :
  atomic_only l = true -> has_end l = true -> r_reg (rrun l) = false.
Proof.
  intros Ha He. unfold rrun.
  apply (rrun_from_inv l r0 Ha); [intros K; discriminate K|].
  apply rrun_end_closed. exact He.
Qed.

(* the two-step registration does not: check, end, store *)
Theorem split_registration_refuted :
  r_reg (rrun [ACheck; AEnd; AStore]) = true /\ r_closed (rrun [ACheck; AEnd; AStore]) = true.
Proof. split; reflexivity. Qed.

(* ---- case streams ---- *)
(* (a) one registration against one end report of the same connection, on a real hub.Hub:
   order 0 = the end is reported while the registration is inside its closed-check,
   1 = reported before the registration, 2 = after it *)
Record rr_case := mkRegRace { rr_order : N; rr_incoming : bool; rr_registered : bool; rr_ndisc : N }.

Definition rr_schedule (order : N) : list ract :=
  match order with
  | 1 => [AEnd; ARegAtomic]
  | _ => [ARegAtomic; AEnd]     (* the atomic registration runs first or is waited for *)
  end.

Definition V_ENDED_STAYS_REGISTERED : N := 153.

Definition check_regrace (c : rr_case) : codes :=
  (if Bool.eqb (r_reg (rrun (rr_schedule (rr_order c)))) (rr_registered c) then [] else [1]) ++
  (if rr_registered c then [V_ENDED_STAYS_REGISTERED] else []).

(* (b) [cr_closers] goroutines released together close one connection each way the library
   offers; per connection the number of HandleConnectionClosed reports the hub side got *)
Record cr_case := mkCloseRace { cr_closers : N; cr_reports : list N }.

Definition V_RACE_END_TWICE : N := 150.
Definition V_RACE_END_NEVER : N := 152.

Definition check_closerace (c : cr_case) : codes :=
  (if existsb (fun n => 2 <=? n) (cr_reports c) then [V_RACE_END_TWICE] else []) ++
  (if existsb (N.eqb 0) (cr_reports c) then [V_RACE_END_NEVER] else []).

(* ---- C09, the hub's part: Hub.ReportServiceShipID and Hub.SetupRemoteDevice hand the call to
   the application before they return, so that the order of the connection's calls (proved on the
   connection model: the id report precedes the setup) is the order the application sees.
   Log codes: 1 RemoteSKIConnected, 2 ServiceShipIDUpdate with that SKI and id,
   3 SetupRemoteDevice, 4 another ServiceShipIDUpdate, 0 anything else. *)
Record hid_case := mkHubId { hi_log : list N }.

Fixpoint before_in (a b : N) (l : list N) : bool :=   (* the first b is preceded by an a *)
  match l with
  | [] => true
  | x :: r => if N.eqb x b then false else if N.eqb x a then true else before_in a b r
  end.

Definition V_HUB_ID_AFTER_SETUP : N := 141.
Definition V_HUB_ID_NOT_ONCE : N := 142.

Definition check_hubid (c : hid_case) : codes :=
  (if list_eqb N.eqb (hi_log c) [1; 2; 3] then [] else [1]) ++
  (if before_in 2 3 (hi_log c) then [] else [V_HUB_ID_AFTER_SETUP]) ++
  (if Nat.eqb (length (filter (fun x => N.eqb x 2 || N.eqb x 4) (hi_log c))) 1 then [] else [V_HUB_ID_NOT_ONCE]).

(* ---- C06 over the real transport: two ShipConnections on real websocket connections, bursts of
   SPINE datagrams in both directions against a slow reading application.  On a connection that
   stays open the reader's list equals the writer's; otherwise it is a prefix of it. *)
Record e2e_case := mkE2E { ee_open : bool; ee_ab_sent : list N; ee_ab_got : list N;
                           ee_ba_sent : list N; ee_ba_got : list N }.

Fixpoint is_prefix (p l : list N) : bool :=
  match p, l with
  | [], _ => true
  | x :: p', y :: l' => N.eqb x y && is_prefix p' l'
  | _ :: _, [] => false
  end.

Definition V_E2E_NOT_EXACTLY_ONCE_IN_ORDER : N := 178.

Definition check_e2e (c : e2e_case) : codes :=
  let ok sent got := if ee_open c then list_eqb N.eqb sent got else is_prefix got sent in
  if ok (ee_ab_sent c) (ee_ab_got c) && ok (ee_ba_sent c) (ee_ba_got c) then []
  else [V_E2E_NOT_EXACTLY_ONCE_IN_ORDER].
