(* ConnMon.v — the property monitors of C01, C04, C08, C09, C11 (connection level) and the
   control part of C06, as one automaton over the control observations of a connection.
   The same automaton is (a) run in product with the control model inside the certified
   closure (ConnClosure.v): no reachable product state has a violation — and (b) evaluated
   on the implementation's own observations by the case checker.  Definitions only. *)
From Ship Require Import Base Conn.
From RecordUpdate Require Import RecordUpdate.
Import RecordSetNotations.

(* ---- the SHIP 1.0.1 state graph (13.4.3 - 13.4.6), every edge the diagrams draw ---- *)
Definition edge_ok (r : role) (a b : N) : bool :=
  if N.eqb b 39 then true else                          (* any state -> error *)
  match a with
  | 0 => match r with Client => N.eqb b 1 | Server => N.eqb b 4 end
  | 1 => N.eqb b 2 | 2 => N.eqb b 3 | 3 => N.eqb b 6
  | 4 => N.eqb b 5 | 5 => N.eqb b 6
  | 6 => N.eqb b 7 || N.eqb b 10
  | 7 => N.eqb b 8 || N.eqb b 14 || N.eqb b 16
  | 8 => N.eqb b 13 || N.eqb b 14 || N.eqb b 16 || N.eqb b 17
  | 10 => N.eqb b 11 || N.eqb b 14 || N.eqb b 16
  | 11 => N.eqb b 7 || N.eqb b 14 || N.eqb b 16
  | 13 => match r with Client => N.eqb b 19 | Server => N.eqb b 18 end
  | 14 => N.eqb b 15
  | 18 => N.eqb b 20 | 20 => N.eqb b 21 | 21 => N.eqb b 25
  | 19 => N.eqb b 22 | 22 => N.eqb b 24
  | 24 | 25 => N.eqb b 26
  | 26 => N.eqb b 27 | 27 => N.eqb b 31 | 31 => N.eqb b 36
  | 36 => N.eqb b 37 | 37 => N.eqb b 38
  | _ => false
  end.

(* terminal outcomes: error, aborted locally (abort sent / done), aborted remotely, rejected *)
Definition terminal_state (s : N) : bool :=
  N.eqb s 39 || N.eqb s 14 || N.eqb s 15 || N.eqb s 16 || N.eqb s 17.

(* states after the hello phase: reaching one means the handshake was trusted locally *)
Definition post_hello (s : N) : bool :=
  N.eqb s 13 || ((18 <=? s) && (s <=? 38)).

(* frames that belong to a closing exchange *)
Definition closing_frame (last : N) (m : smsg) : bool :=
  match m with
  | SCloseAnnounce | SCloseConfirm => true
  | SHelloAborted => N.eqb last 14
  | _ => false
  end.

Record ms := mkMs {
  m_role : role;
  m_granted : bool;        (* trust was given: client role, paired/auto answered true, approved while pending *)
  m_last : N;              (* last reported state (0 before any report) *)
  m_term : bool;           (* a terminal state was reported, or the end of the connection was reported *)
  m_closed : bool;         (* CloseDataConnection was called *)
  m_ncb : N;               (* HandleConnectionClosed calls: 0, 1, 2 = more *)
  m_setup : bool;          (* SetupRemoteDevice was called *)
  m_idknown0 : bool;       (* a SHIP id was stored for this SKI when the connection was created *)
  m_shipid : bool;         (* ReportServiceShipID was called *)
  m_idbad : bool;          (* the peer presented a wrong / missing / undecodable id while one was stored *)
  m_st0 : N;               (* state when the current event started *)
  m_idknown : bool;        (* a SHIP id is stored now *)
  m_isdef : bool;          (* the current event is CDeferred *)
  m_lost : bool;           (* a transport error was reported to the connection *)
  m_cancelled : bool;      (* the user cancelled while the hello phase was waiting (pending or ready listen) *)
  m_complete : bool;       (* SME_STATE_COMPLETE has been reported *)
  m_idok : bool;           (* the peer has presented exactly the stored SHIP id in the access-methods phase *)
  m_viol : N               (* violations so far: bit c is set iff code c was flagged *)
}.
#[export] Instance etaMs : Settable _ :=
  settable! mkMs <m_role; m_granted; m_last; m_term; m_closed; m_ncb; m_setup; m_idknown0; m_shipid; m_idbad; m_st0; m_idknown; m_isdef; m_lost; m_cancelled; m_complete; m_idok; m_viol>.

Definition init_ms (r : role) (idk : bool) : ms :=
  mkMs r (match r with Client => true | Server => false end) 0 false false 0 false idk false false 0 idk false false false false false 0.

Definition flag (code : N) (ok : bool) (m : ms) : ms :=
  if ok then m else m <| m_viol := N.lor (m_viol m) (N.shiftl 1 code) |>.

Definition sat2 (n : N) : N := if 2 <=? n then 2 else n.

(* violation codes *)
Definition V_PROGRESS_UNTRUSTED : N := 10.   Definition V_SETUP_UNTRUSTED : N := 11.
Definition V_DELIVER_UNTRUSTED : N := 12.
Definition V_PROGRESS_AFTER_CANCEL : N := 13.
Definition V_BAD_EDGE : N := 20.             Definition V_PROGRESS_AFTER_TERMINAL : N := 21.
Definition V_TIMER_AFTER_TERMINAL : N := 22. Definition V_SENT_AFTER_TERMINAL : N := 23.
Definition V_NOT_CLOSED_AFTER_TERMINAL : N := 24.
Definition V_PANIC : N := 30.                Definition V_HANG : N := 31.
Definition V_SETUP_WRONG_ID : N := 40.       Definition V_ID_NOT_REPORTED : N := 41.
Definition V_ID_REPORTED_AGAIN : N := 42.    Definition V_SETUP_TWICE : N := 43.
Definition V_END_TWICE : N := 50.            Definition V_END_MISSING : N := 51.
Definition V_END_NEVER_REPORTED : N := 52.
Definition V_DELIVER_BEFORE_SETUP : N := 60.
Definition V_DELIVER_BEFORE_COMPLETE : N := 62.
Definition V_SETUP_ID_NOT_PRESENTED : N := 44.
Definition V_TIMER_IN_TIMERLESS_STATE : N := 80.

(* the states in which a connection waits with a handshake timer of its own phase *)
Definition timer_state (s : N) : bool :=
  N.eqb s 2 || N.eqb s 4 || N.eqb s 8 || N.eqb s 11 || N.eqb s 20 || N.eqb s 21 || N.eqb s 22 || N.eqb s 36.

Definition acc_of (e : cev) : option accc :=
  match e with CRecv NotDatagram NoClose (MAcc a) => Some a | _ => None end.

(* the monitor's reading of an input marker: only the kind of event matters *)
Definition mev (m : ms) (e : cev) : ms :=
      let m := m <| m_isdef := match e with CDeferred => true | _ => false end |> <| m_st0 := m_last m |> in
      let m := match e with CConnErr => m <| m_lost := true |> | _ => m end in
      (* C01: a cancel while the hello phase is waiting withdraws the trust *)
      let m := match e with
               | CAbort => if (N.eqb (m_last m) 8 || N.eqb (m_last m) 11) && negb (m_term m)
                           then m <| m_cancelled := true |> else m
               | _ => m
               end in
      (* C01: approval while the request is pending is a grant *)
      let m := match e with
               | CApprove => if N.eqb (m_st0 m) 11 then m <| m_granted := true |> else m
               | _ => m
               end in
      (* C09: a wrong, missing or undecodable id while one is stored *)
      match acc_of (e) with
      | Some (AccId false _) =>
          if m_idknown m && N.eqb (m_st0 m) 36 then m <| m_idbad := true |> else m
      | Some AccNoId | Some AccMethodsErr =>
          (* no usable id in the reply: an error whether or not an id is stored *)
          if N.eqb (m_st0 m) 36 then m <| m_idbad := true |> else m
      | Some (AccId true _) =>
          if N.eqb (m_st0 m) 36 then m <| m_idok := true |> else m
      | _ => m
      end.

Definition mstep (m : ms) (o : cobs) : ms :=
  match o with
  | BEv e => mev m (ev e)
  | BPairedQ a | BAutoQ a => if a then m <| m_granted := true |> else m
  | BAllowQ _ => m
  | BReport s _ =>
      let m := flag V_PROGRESS_UNTRUSTED (negb (post_hello s) || m_granted m) m in
      let m := flag V_PROGRESS_AFTER_CANCEL (negb (post_hello s) || negb (m_cancelled m)) m in
      let m := if N.eqb s (m_last m) then m
               else
                 let m := flag V_BAD_EDGE (edge_ok (m_role m) (m_last m) s || m_term m) m in
                 (* after a terminal outcome only terminal states may follow (abort -> abort done,
                    anything -> error); every other state is progress *)
                 flag V_PROGRESS_AFTER_TERMINAL (negb (m_term m) || terminal_state s) m in
      m <| m_last := s |> <| m_term := m_term m || terminal_state s |> <| m_complete := m_complete m || N.eqb s 38 |>
  | BWrite f ok =>
      if ok then flag V_SENT_AFTER_TERMINAL (negb (m_term m) || closing_frame (m_last m) f) m else m
  | BSetup =>
      let m := flag V_SETUP_UNTRUSTED (m_granted m && negb (m_cancelled m)) m in
      let m := flag V_SETUP_TWICE (negb (m_setup m)) m in
      let m := flag V_SETUP_WRONG_ID (negb (m_idbad m)) m in
      let m := flag V_ID_NOT_REPORTED (m_idknown0 m || m_shipid m) m in
      (* C09: with a stored id the device is set up only after the peer has presented exactly it *)
      let m := flag V_SETUP_ID_NOT_PRESENTED (negb (m_idknown0 m) || m_idok m) m in
      m <| m_setup := true |>
  | BShipId =>
      let m := flag V_ID_REPORTED_AGAIN (negb (m_shipid m) && negb (m_idknown0 m) && negb (m_setup m)) m in
      m <| m_shipid := true |> <| m_idknown := true |>
  | BDeliver =>
      let m := flag V_DELIVER_UNTRUSTED (m_granted m) m in
      let m := flag V_DELIVER_BEFORE_SETUP (m_setup m) m in
      (* C06: only after SME_STATE_COMPLETE has been reported *)
      flag V_DELIVER_BEFORE_COMPLETE (m_complete m) m
  | BFlush | BBuffer => m
  | BCloseData _ => m <| m_closed := true |>
  | BClosedCb _ =>
      let m := flag V_END_TWICE (N.eqb (m_ncb m) 0) m in
      m <| m_ncb := sat2 (m_ncb m + 1) |> <| m_term := true |>
  | BPanic => flag V_PANIC false m
  | BFuel => flag V_HANG false m
  | BHang =>
      (* the harness gave up waiting: if that was the wait for the goroutines after a terminal
         outcome, the connection was not closed (C04) *)
      let m := flag V_HANG false m in
      flag V_NOT_CLOSED_AFTER_TERMINAL (negb (m_isdef m && m_term m) || m_closed m) m
  | BSnap s _ armed _ _ =>
      (* at rest *)
      let m := flag V_TIMER_AFTER_TERMINAL (negb (m_term m) || negb armed) m in
      (* C14, last sentence: a phase that has been left in time leaves no timer behind *)
      let m := flag V_TIMER_IN_TIMERLESS_STATE (negb armed || timer_state s) m in
      let m := flag V_END_MISSING (negb (m_closed m) || negb (N.eqb (m_ncb m) 0)) m in
      if m_isdef m then
        let m := flag V_NOT_CLOSED_AFTER_TERMINAL (negb (m_term m) || m_closed m) m in
        (* once the goroutines have run, a lost or ended connection has been reported *)
        flag V_END_NEVER_REPORTED (negb (m_lost m || m_term m) || negb (N.eqb (m_ncb m) 0)) m
      else m
  end.

Definition mon_run (m : ms) (tr : list cobs) : ms := fold_left mstep tr m.

(* violations of one property only: code ranges 10-19 C01, 20-29 C04, 30-39 C08, 40-49 C09,
   50-59 C11, 60-69 C06 *)
Definition all_codes : list N :=
  [10;11;12;13;20;21;22;23;24;30;31;40;41;42;43;44;50;51;52;60;62;80].
Definition viol_codes (m : ms) : list N := filter (fun c => N.testbit (m_viol m) c) all_codes.
Definition viol_in (lo hi : N) (m : ms) : list N :=
  filter (fun c => (lo <=? c) && (c <=? hi)) (viol_codes m).
