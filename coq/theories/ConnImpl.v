(* ConnImpl.v — the case checkers of ConnCheck.v (the very functions bin/check evaluates on
   the implementation's observations) return no code on the model's own observations: for
   every role, ids and event list, a case whose observations are the model's is accepted.
   This ties the theorems about the model's control trace (ConnLift) to the function that
   judges implementation traces: it reads the trace back (states from the snapshots, the
   stored SHIP id from the id reports) and evaluates the same monitor. *)
From Coq Require Import FMapPositive.
From Ship Require Import Base Closure Conn ConnEvents ConnData ConnMon ConnClosure ConnLift ConnCor ConnCheck ConnC06.
From RecordUpdate Require Import RecordUpdate.

(* ---- observations that the monitor cannot tell apart ---- *)
Definition meq (a b : cobs) : Prop := forall m, mstep m a = mstep m b.

Lemma mon_run_meq tr1 tr2 : Forall2 meq tr1 tr2 -> forall m, mon_run m tr1 = mon_run m tr2.
Proof.
  induction 1 as [|a b tr1 tr2 Hab _ IH]; intros m; [reflexivity|].
  cbn [mon_run fold_left]. rewrite Hab. apply IH.
Qed.

Lemma Forall2_meq_refl l : Forall2 meq l l.
Proof. induction l; constructor; [intros m; reflexivity|assumption]. Qed.

Lemma Forall2_app_meq a b c d : Forall2 meq a b -> Forall2 meq c d -> Forall2 meq (a ++ c) (b ++ d).
Proof. induction 1 as [|x y l1 l2 Hxy Hl IH]; intros H2; [exact H2|]. cbn. constructor; auto. Qed.

(* the monitor does not look at payload deliveries of a clean run, nor at buffer events *)
Definition erasable (o : cobs) : bool :=
  match o with BDeliver | BFlush | BBuffer => true | _ => false end.
Definition erase (l : list cobs) : list cobs := filter (fun o => negb (erasable o)) l.

Lemma erase_app a b : erase (a ++ b) = erase a ++ erase b.
Proof. unfold erase. apply filter_app. Qed.

Lemma flag_ok_id code m : flag code true m = m.
Proof. reflexivity. Qed.

Lemma mon_run_erase tr : forall m,
  m_viol (mon_run m tr) = 0 -> mon_run m (erase tr) = mon_run m tr.
Proof.
  induction tr as [|o tr IH]; intros m Hz; [reflexivity|].
  cbn [mon_run fold_left] in Hz.
  destruct (erasable o) eqn:Er.
  - (* erased: the step is the identity on a clean run *)
    assert (E : erase (o :: tr) = erase tr) by (unfold erase; cbn [filter]; rewrite Er; reflexivity).
    rewrite E. cbn [mon_run fold_left].
    assert (Hs : mstep m o = m).
    { destruct o; try discriminate; try reflexivity.
      (* BDeliver: three flags, each of them raised would contradict the clean run *)
      assert (D : mstep m BDeliver =
                  flag V_DELIVER_BEFORE_COMPLETE (m_complete m)
                    (flag V_DELIVER_BEFORE_SETUP (m_setup m) (flag V_DELIVER_UNTRUSTED (m_granted m) m))).
      { cbn [mstep]. cbv zeta. destruct (m_granted m); cbn; destruct (m_setup m); cbn; reflexivity. }
      assert (Bad : forall c, N.testbit (m_viol (mstep m BDeliver)) c = true -> False).
      { intros c B. pose proof (mon_run_mono tr _ _ B) as K. unfold mon_run in K.
        rewrite (zero_no_bit _ _ Hz) in K. discriminate. }
      destruct (m_granted m) eqn:G.
      - destruct (m_setup m) eqn:S.
        + destruct (m_complete m) eqn:Cm.
          * rewrite D. reflexivity.
          * exfalso. apply (Bad V_DELIVER_BEFORE_COMPLETE). rewrite D, flag_bit. cbn. apply orb_true_r.
        + exfalso. apply (Bad V_DELIVER_BEFORE_SETUP). rewrite D. apply flag_mono. rewrite flag_bit. cbn. apply orb_true_r.
      - exfalso. apply (Bad V_DELIVER_UNTRUSTED). rewrite D. apply flag_mono. apply flag_mono. rewrite flag_bit. cbn. apply orb_true_r. }
    rewrite Hs. apply IH. rewrite <- Hs. exact Hz.
  - assert (E : erase (o :: tr) = o :: erase tr) by (unfold erase; cbn [filter]; rewrite Er; reflexivity).
    rewrite E. cbn [mon_run fold_left]. apply IH. exact Hz.
Qed.

(* ---- reading one event's concrete observations back ---- *)
Lemma smsg_of_frame_of d e m : smsg_of (frame_of d e m) = m.
Proof. destruct m; reflexivity. Qed.

Lemma flat_map_forget_deliveries l : flat_map forget (map ODeliver l) = [].
Proof. induction l; [reflexivity|exact IHl]. Qed.

Lemma forget_conc1 d e o :
  (forall x, o <> BEv x) ->
  Forall2 meq (flat_map forget (snd (conc1 d e o))) (erase [o]).
Proof.
  intros NE. destruct o; cbn [conc1 snd flat_map forget app erase filter erasable negb];
    try (apply Forall2_meq_refl).
  - exfalso. eapply NE. reflexivity.
  - rewrite smsg_of_frame_of. apply Forall2_meq_refl.
  - rewrite flat_map_forget_deliveries. constructor.
  - constructor; [intros m; reflexivity|constructor].
Qed.

Definition no_ev (l : list cobs) : Prop := forall o, In o l -> forall x, o <> BEv x.

Lemma forget_conc l : forall d e,
  no_ev l -> Forall2 meq (flat_map forget (snd (conc d e l))) (erase l).
Proof.
  induction l as [|o l IH]; intros d e NE; [constructor|].
  cbn [conc]. destruct (conc1 d e o) as [d1 os] eqn:E1.
  destruct (conc d1 e l) as [d2 os2] eqn:E2. cbn [snd].
  rewrite flat_map_app.
  replace (erase (o :: l)) with (erase [o] ++ erase l) by (rewrite <- erase_app; reflexivity).
  apply Forall2_app_meq.
  - pose proof (forget_conc1 d e o (NE o (or_introl eq_refl))) as H. rewrite E1 in H. exact H.
  - pose proof (IH d1 e (fun o' Hin => NE o' (or_intror Hin))) as H. rewrite E2 in H. exact H.
Qed.

(* the control observations of a step contain no input marker and end with the snapshot *)
Lemma cstep_obs_shape c e :
  dead (fst (cstep c e)) = false -> dead c = false ->
  exists l1, snd (cstep c e) = l1 ++ [snap (fst (cstep c e))].
Proof.
  intros Hd Hc. unfold cstep in *. rewrite Hc in *. cbv zeta in *.
  destruct (existsb _ _); cbn [fst snd] in *;
    match goal with
    | |- context [if dead ?X then _ else _] =>
        assert (D : dead X = false) by exact Hd; rewrite D; exists (rev (out X)); reflexivity
    end.
Qed.

(* ---- the monitor only looks at part of an input marker ---- *)
Definition mclass (e : cev) : cev := match e with CRun | CSpineWrite | CNop => CNop | x => x end.

Definition trio (e : cev) : bool := match e with CRun | CSpineWrite | CNop => true | _ => false end.

Lemma mclass_cases a b : mclass a = mclass b -> a = b \/ (trio a = true /\ trio b = true).
Proof.
  intros H. destruct (trio a) eqn:Ta, (trio b) eqn:Tb.
  - right. split; reflexivity.
  - left. destruct a; try discriminate Ta; destruct b; try discriminate Tb; discriminate H.
  - left. destruct b; try discriminate Tb; destruct a; try discriminate Ta; discriminate H.
  - left. destruct a; try discriminate Ta; destruct b; try discriminate Tb; exact H.
Qed.

Lemma bev_same_ev e1 e2 m : ev e1 = ev e2 -> mstep m (BEv e1) = mstep m (BEv e2).
Proof. intros H. cbn [mstep]. rewrite H. reflexivity. Qed.

Lemma mev_trio e m : trio e = true -> mev m e = mev m CNop.
Proof. intros H. destruct e; try discriminate H; reflexivity. Qed.

Lemma bev_trio e m : trio (ev e) = true ->
  mstep m (BEv e) = mstep m (BEv (mkEv CNop false false true None)).
Proof. intros H. cbn [mstep ev]. apply mev_trio. exact H. Qed.

Lemma bev_meq e1 e2 : mclass (ev e1) = mclass (ev e2) -> meq (BEv e1) (BEv e2).
Proof.
  intros H m. destruct (mclass_cases _ _ H) as [E|[T1 T2]].
  - apply bev_same_ev. exact E.
  - rewrite (bev_trio e1 m T1), (bev_trio e2 m T2). reflexivity.
Qed.

Lemma abs_ev_class r t c stored e :
  t_st t = st c -> t_stored t = stored ->
  mclass (ev (abs_ev (pseudo_cs r t) (t_stored t) e)) = mclass (ev (abs_ev c stored e)).
Proof.
  intros Hs Hd. unfold abs_ev, pseudo_cs. cbn [ev st ran reader]. rewrite Hs, Hd.
  destruct (x_ev e) as [|v| | | | | |sf cd rs|p|]; try reflexivity.
  - destruct (ran c); reflexivity.
  - destruct (reader c); reflexivity.
Qed.

(* ---- the tracker follows the model ---- *)
Definition tstep (e : eventx) (t : track) (o : obs) : track :=
  match o with
  | OSnap s _ _ _ _ _ => ConnCheck.mkT s (t_stored t)
  | OShipId _ => ConnCheck.mkT (t_st t) (ev_presented (x_ev e))
  | _ => t
  end.

Lemma track_obs_fold t e os : track_obs t e os = fold_left (tstep e) os t.
Proof. reflexivity. Qed.

Lemma track_deliveries e l : forall t, fold_left (tstep e) (map ODeliver l) t = t.
Proof. induction l; intros t; [reflexivity|apply IHl]. Qed.

Lemma track_stored_conc e l : forall d t,
  t_stored t = d_stored d ->
  t_stored (fold_left (tstep e) (snd (conc d (x_ev e) l)) t) = d_stored (fst (conc d (x_ev e) l)).
Proof.
  induction l as [|o l IH]; intros d t H; [exact H|].
  cbn [conc]. destruct (conc1 d (x_ev e) o) as [d1 os] eqn:E1.
  destruct (conc d1 (x_ev e) l) as [d2 os2] eqn:E2. cbn [snd fst].
  rewrite fold_left_app.
  specialize (IH d1 (fold_left (tstep e) os t)). rewrite E2 in IH. cbn [snd fst] in IH.
  apply IH. clear IH E2.
  destruct o; cbn [conc1] in E1; inversion E1; subst; cbn [fold_left tstep t_stored d_stored];
    try exact H; try reflexivity.
  rewrite track_deliveries. exact H.
Qed.

Lemma conc_app e l1 l2 : forall d,
  conc d e (l1 ++ l2) =
  let '(d1, o1) := conc d e l1 in let '(d2, o2) := conc d1 e l2 in (d2, o1 ++ o2).
Proof.
  induction l1 as [|o l1 IH]; intros d.
  - cbn. destruct (conc d e l2); reflexivity.
  - cbn [app conc]. destruct (conc1 d e o) as [d1 os]. rewrite IH.
    destruct (conc d1 e l1) as [d2 os2]. destruct (conc d2 e l2) as [d3 os3].
    rewrite app_assoc. reflexivity.
Qed.

Lemma track_st_conc e l1 s er a ty rd : forall d t,
  t_st (fold_left (tstep e) (snd (conc d (x_ev e) (l1 ++ [BSnap s er a ty rd]))) t) = s.
Proof.
  intros d t. rewrite conc_app.
  destruct (conc d (x_ev e) l1) as [d1 o1]. cbn [conc conc1]. cbn [snd].
  rewrite fold_left_app. reflexivity.
Qed.

(* ---- the implementation-side reading of the model's own run ---- *)
Lemma impl_trace_meq r idk es : forall c d m t,
  normal c -> dead c = false ->
  reach pnext (pinit r idk) (mkPs (of_cs c) m) ->
  t_st t = st c -> t_stored t = d_stored d ->
  Forall2 meq (abs_trace r t es (run (c, d) es)) (erase (atrace (c, d) es)).
Proof.
  induction es as [|e es IH]; intros c d m t N Dc R Hst Hsto; [constructor|].
  cbn [run step atrace].
  destruct (cstep c (abs_ev c (d_stored d) e)) as [c' l] eqn:E.
  destruct (conc d (x_ev e) l) as [d' os] eqn:Ec.
  cbn [abs_trace].
  (* facts about this step *)
  pose proof (reach_shape r idk _ R) as Sh. unfold p_shape in Sh. cbn [ps_c] in Sh.
  rewrite (to_of_cs c N) in Sh. apply andb_true_iff in Sh as [_ Sh].
  rewrite forallb_forall in Sh. specialize (Sh _ (abs_ev_in c (d_stored d) e)).
  apply andb_true_iff in Sh as [Sh _]. unfold shape_ok in Sh. rewrite E in Sh.
  apply andb_true_iff in Sh as [Sh _]. apply andb_true_iff in Sh as [Sh1 Sh2].
  apply negb_true_iff in Sh1. apply negb_true_iff in Sh2. apply orb_false_iff in Sh2 as [_ Sh2].
  assert (NE : no_ev l).
  { intros o Hin x Heq. subst o. unfold has in Sh2.
    assert (existsb is_ev l = true) as K by (apply existsb_exists; exists (BEv x); split; [exact Hin|reflexivity]).
    rewrite K in Sh2. discriminate. }
  assert (N' : normal c').
  { pose proof (cstep_normal c (abs_ev c (d_stored d) e) N) as H. rewrite E in H. exact H. }
  assert (R' : reach pnext (pinit r idk)
                 (mkPs (of_cs c') (mon_run m (BEv (abs_ev c (d_stored d) e) :: l)))).
  { eapply reach_step; [exact R|]. unfold pnext. cbn [ps_c]. rewrite (to_of_cs c N).
    apply in_map_iff. exists (abs_ev c (d_stored d) e). split; [|apply abs_ev_in].
    unfold pstep. cbn [ps_c ps_m]. rewrite (to_of_cs c N), E. reflexivity. }
  (* the trace of this event *)
  replace (erase (BEv (abs_ev c (d_stored d) e) :: l ++ atrace (c', d') es))
    with (BEv (abs_ev c (d_stored d) e) :: erase l ++ erase (atrace (c', d') es))
    by (unfold erase at 3; cbn [filter erasable negb]; rewrite <- erase_app; reflexivity).
  constructor.
  - apply bev_meq. apply abs_ev_class; [exact Hst|exact Hsto].
  - apply Forall2_app_meq.
    + pose proof (forget_conc l d (x_ev e) NE) as H. rewrite Ec in H. exact H.
    + (* the tracker after this event *)
      pose proof (cstep_obs_shape c (abs_ev c (d_stored d) e)) as Shp. rewrite E in Shp.
      cbn [fst snd] in Shp. destruct (Shp Sh1 Dc) as [l1 Hl].
      apply (IH c' d' _ (track_obs t e os) N' Sh1 R').
      * rewrite track_obs_fold.
        assert (os = snd (conc d (x_ev e) l)) as -> by (rewrite Ec; reflexivity).
        rewrite Hl. unfold snap. apply track_st_conc.
      * rewrite track_obs_fold.
        pose proof (track_stored_conc e l d t Hsto) as H. rewrite Ec in H. exact H.
Qed.

Lemma obs_eqb_refl o : obs_eqb o o = true.
Proof.
  destruct o; cbn; rewrite ?N.eqb_refl, ?eqb_reflx, ?bytes_eqb_refl; try reflexivity.
  destruct f; cbn; rewrite ?N.eqb_refl, ?eqb_reflx, ?bytes_eqb_refl; try reflexivity.
  - destruct p, pr; cbn; destruct w; cbn; rewrite ?N.eqb_refl; reflexivity.
  - destruct t; reflexivity.
Qed.

Lemma first_diff_refl l : forall i, first_diff i l l = None.
Proof.
  induction l as [|x l IH]; intros i; [reflexivity|]. cbn [first_diff].
  assert (list_eqb obs_eqb x x = true) as ->.
  { induction x as [|o x IHx]; [reflexivity|]. cbn. rewrite obs_eqb_refl, IHx. reflexivity. }
  apply IH.
Qed.

(* the case whose observations are the model's own *)
Definition model_case (r : role) (stored local : bytes) (es : list eventx) : conn_case :=
  mkConnCase r stored local es (run (init_state r stored local) es).

Lemma model_case_corr r stored local es : corr_ok (model_case r stored local es) = true.
Proof.
  unfold corr_ok, model_case, model_obs. cbn [cc_obs cc_role cc_stored cc_local cc_events].
  rewrite firstn_all, first_diff_refl. reflexivity.
Qed.

Theorem model_case_monitor_clean r stored local es :
  m_viol (mon_impl (model_case r stored local es)) = 0.
Proof.
  unfold mon_impl, model_case. cbn [cc_obs cc_role cc_stored cc_local cc_events].
  unfold init_state.
  pose proof (conn_monitors_hold r stored local es) as Hz. unfold init_state in Hz.
  rewrite (mon_run_meq _ _ (impl_trace_meq r (negb (is_nil stored)) es
             (init_cs r (negb (is_nil stored))) (mkD stored local [])
             (init_ms r (negb (is_nil stored))) (ConnCheck.mkT 0 stored)
             (init_normal _ _) eq_refl (reach_init _ _ _) eq_refl eq_refl)).
  rewrite (mon_run_erase _ _ Hz). exact Hz.
Qed.

(* THE THEOREM: every per-property checker accepts the model's own observations *)
Theorem checkers_accept_model r stored local es :
  let c := model_case r stored local es in
  check_C01 c = [] /\ check_C04 c = [] /\ check_C06 c = [] /\ check_C08 c = []
  /\ check_C09 c = [] /\ check_C11 c = [] /\ check_C14conn c = [] /\ check_C10conn c = [].
Proof.
  intros c.
  assert (K : forall lo hi, check_conn lo hi c = []).
  { intros lo hi. unfold check_conn. subst c. rewrite model_case_corr.
    unfold viol_in. rewrite (viol_codes_nil _ (model_case_monitor_clean r stored local es)). reflexivity. }
  assert (D : c06_data false [] [] (cc_events c) (cc_obs c) = []).
  { subst c. unfold model_case. cbn [cc_events cc_obs]. apply c06_model_ok. }
  unfold check_C01, check_C04, check_C06, check_C08, check_C09, check_C11, check_C14conn, check_C10conn.
  rewrite D, !K. repeat split; reflexivity.
Qed.
