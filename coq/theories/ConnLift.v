(* ConnLift.v — from the certified closure of the control model to every run of the
   concrete connection model (all event lists, all message contents, all ids/payloads). *)
From Coq Require Import FMapPositive.
From Ship Require Import Base Closure Conn ConnEvents ConnData ConnMon ConnClosure.
From RecordUpdate Require Import RecordUpdate.

(* the control-level trace of a concrete run: for every event its control abstraction,
   then the control observations it caused *)
Fixpoint atrace (s : state) (es : list eventx) : list cobs :=
  match es with
  | [] => []
  | e :: r =>
      let '(c, d) := s in
      let ce := abs_ev c (d_stored d) e in
      let '(c', l) := cstep c ce in
      let '(d', _) := conc d (x_ev e) l in
      BEv ce :: l ++ atrace (c', d') r
  end.

Definition normal (c : cs) : Prop := out c = [] /\ wleft c = None.

Lemma to_of_cs c : normal c -> to_cs (of_cs c) = c.
Proof. intros [H1 H2]. destruct c; simpl in *. subst. reflexivity. Qed.

Lemma cstep_normal c e : normal c -> normal (fst (cstep c e)).
Proof.
  intros N. unfold cstep. destruct (dead c); [exact N|].
  match goal with |- normal (fst (?a, _)) => change (normal a) end.
  match goal with |- context [if ?b then _ else _] => destruct b end; split; reflexivity.
Qed.

Lemma init_normal r idk : normal (init_cs r idk).
Proof. split; reflexivity. Qed.

(* ---- every control abstraction of a concrete event is one of the enumerated events ---- *)
Ltac in_list :=
  solve [simpl; repeat match goal with |- _ \/ _ => first [left; reflexivity | right] end;
         try reflexivity].

Lemma comp_in k stored v : In (comp_for k stored v) (msgs_of_kind k).
Proof.
  destruct k; unfold comp_for, msgs_of_kind.
  - destruct (v_init v); in_list.
  - destruct (v_hello v) as [[[p w] pr]|]; [|in_list].
    destruct p, (wcls_of w), pr; in_list.
  - destruct (v_prot v) as [|t vo f]; [in_list|]. destruct t, vo, f; in_list.
  - destruct (v_pin v); in_list.
  - destruct (v_acc v); try in_list.
    destruct (is_nil stored || bytes_eqb stored id), (is_nil id); in_list.
  - in_list.
Qed.

Lemma cap_wf_in w : In (cap_wf w) all_wf.
Proof.
  destruct w as [n|]; [|in_list].
  do 6 (destruct n as [|n]; [in_list|]). in_list.
Qed.

Lemma base_in c stored e :
  In (ev (abs_ev c stored e)) (base_evs c).
Proof.
  unfold abs_ev, base_evs. cbn [ev].
  destruct (x_ev e) as [|v| | | | | |sf cd rs|p|].
  - destruct (ran c); [do 2 (apply in_or_app; right); apply in_or_app; left; in_list
                      | apply in_or_app; left; in_list].
  - apply in_or_app; right. unfold recv_evs.
    apply in_or_app; left.
    destruct (v_dg v).
    + destruct (v_cl v).
      * apply in_or_app; right. apply in_map. apply comp_in.
      * apply in_or_app; left. in_list.
      * apply in_or_app; left. in_list.
      * apply in_or_app; left. in_list.
    + apply in_or_app; left. in_list.
    + apply in_or_app; left. in_list.
    + apply in_or_app; left. in_list.
  - do 2 (apply in_or_app; right); apply in_or_app; left; in_list.
  - do 2 (apply in_or_app; right); apply in_or_app; left; in_list.
  - do 2 (apply in_or_app; right); apply in_or_app; left; in_list.
  - do 2 (apply in_or_app; right); apply in_or_app; left; in_list.
  - do 2 (apply in_or_app; right); apply in_or_app; left; in_list.
  - do 2 (apply in_or_app; right); apply in_or_app; left; destruct sf; in_list.
  - destruct (reader c).
    + do 3 (apply in_or_app; right). in_list.
    + do 2 (apply in_or_app; right); apply in_or_app; left; in_list.
  - do 2 (apply in_or_app; right); apply in_or_app; left; in_list.
Qed.

Lemma abs_ev_in c stored e : In (abs_ev c stored e) (events_for c).
Proof.
  pose proof (base_in c stored e) as Hb.
  unfold events_for. apply in_flat_map.
  exists (ev (abs_ev c stored e)). split; [exact Hb|].
  apply in_flat_map. exists (e_paired (abs_ev c stored e)). split.
  { unfold abs_ev; cbn [e_paired]. destruct (trust_rel (skind_of (st c))), (x_paired e); in_list. }
  apply in_flat_map. exists (e_auto (abs_ev c stored e)). split.
  { unfold abs_ev; cbn [e_auto]. destruct (trust_rel (skind_of (st c))), (x_auto e); in_list. }
  apply in_flat_map. exists (e_allow (abs_ev c stored e)). split.
  { unfold abs_ev; cbn [e_allow]. destruct (allow_rel (skind_of (st c))), (x_allow e); in_list. }
  apply in_map_iff. exists (e_wf (abs_ev c stored e)). split.
  { destruct (abs_ev c stored e); reflexivity. }
  unfold abs_ev; cbn [e_wf]. apply cap_wf_in.
Qed.

(* ---- the product run follows the concrete run ---- *)
Lemma mon_run_app m a b : mon_run (mon_run m a) b = mon_run m (a ++ b).
Proof. unfold mon_run. rewrite fold_left_app. reflexivity. Qed.

Lemma run_reach r idk es : forall c d m,
  normal c ->
  reach pnext (pinit r idk) (mkPs (of_cs c) m) ->
  exists c', reach pnext (pinit r idk) (mkPs (of_cs c') (mon_run m (atrace (c, d) es))).
Proof.
  induction es as [|e es IH]; intros c d m N R.
  - exists c. exact R.
  - cbn [atrace].
    destruct (cstep c (abs_ev c (d_stored d) e)) as [c' l] eqn:E.
    destruct (conc d (x_ev e) l) as [d' os] eqn:Ec.
    assert (N' : normal c').
    { pose proof (cstep_normal c (abs_ev c (d_stored d) e) N) as H. rewrite E in H. exact H. }
    assert (R' : reach pnext (pinit r idk)
                   (mkPs (of_cs c') (mon_run m (BEv (abs_ev c (d_stored d) e) :: l)))).
    { eapply reach_step; [exact R|]. unfold pnext. cbn [ps_c].
      rewrite (to_of_cs c N).
      apply in_map_iff. exists (abs_ev c (d_stored d) e). split; [|apply abs_ev_in].
      unfold pstep. cbn [ps_c ps_m]. rewrite (to_of_cs c N), E. reflexivity. }
    destruct (IH c' d' _ N' R') as [c'' R''].
    exists c''. rewrite mon_run_app in R''.
    replace (BEv (abs_ev c (d_stored d) e) :: l ++ atrace (c', d') es)
      with ((BEv (abs_ev c (d_stored d) e) :: l) ++ atrace (c', d') es) by reflexivity.
    exact R''.
Qed.

(* THE THEOREM: on every run of the connection model — any role, any stored / local SHIP
   id, any finite list of events with any message contents and environment answers — the
   monitors of C01, C04, C08, C09, C11 and C06 (control part) flag nothing. *)
Theorem conn_monitors_hold r stored local es :
  m_viol (mon_run (init_ms r (negb (is_nil stored))) (atrace (init_state r stored local) es)) = 0.
Proof.
  unfold init_state.
  destruct (run_reach r (negb (is_nil stored)) es (init_cs r (negb (is_nil stored)))
              (mkD stored local []) (init_ms r (negb (is_nil stored)))
              (init_normal _ _)) as [c' R].
  { apply reach_init. }
  apply reach_ok in R. unfold p_ok in R. cbn [ps_m] in R. apply N.eqb_eq in R. exact R.
Qed.

(* ---- the control state after a concrete run is a reachable control state ---- *)
Fixpoint final_state (s : state) (es : list eventx) : state :=
  match es with
  | [] => s
  | e :: r => final_state (fst (step s e)) r
  end.

Lemma run_reach_final r idk es : forall c d m,
  normal c ->
  reach pnext (pinit r idk) (mkPs (of_cs c) m) ->
  normal (fst (final_state (c, d) es)) /\
  reach pnext (pinit r idk)
        (mkPs (of_cs (fst (final_state (c, d) es))) (mon_run m (atrace (c, d) es))).
Proof.
  induction es as [|e es IH]; intros c d m N R.
  - split; [exact N|exact R].
  - cbn [atrace final_state step].
    destruct (cstep c (abs_ev c (d_stored d) e)) as [c' l] eqn:E.
    destruct (conc d (x_ev e) l) as [d' os] eqn:Ec. cbn [fst].
    assert (N' : normal c').
    { pose proof (cstep_normal c (abs_ev c (d_stored d) e) N) as H. rewrite E in H. exact H. }
    assert (R' : reach pnext (pinit r idk)
                   (mkPs (of_cs c') (mon_run m (BEv (abs_ev c (d_stored d) e) :: l)))).
    { eapply reach_step; [exact R|]. unfold pnext. cbn [ps_c].
      rewrite (to_of_cs c N).
      apply in_map_iff. exists (abs_ev c (d_stored d) e). split; [|apply abs_ev_in].
      unfold pstep. cbn [ps_c ps_m]. rewrite (to_of_cs c N), E. reflexivity. }
    destruct (IH c' d' _ N' R') as [N'' R''].
    split; [exact N''|]. rewrite mon_run_app in R''.
    replace (BEv (abs_ev c (d_stored d) e) :: l ++ atrace (c', d') es)
      with ((BEv (abs_ev c (d_stored d) e) :: l) ++ atrace (c', d') es) by reflexivity.
    exact R''.
Qed.

(* C03, arbitrary mode, single endpoint: after ANY event list (timers expiring at any
   point, any delays) a side that has given up has closed its transport or has the
   goroutine pending that will; and a transport error reported in any reachable state
   leaves the side in a terminal state, transport closed, no timer armed *)
Theorem gave_up_side_closes r stored local es :
  let c := fst (final_state (init_state r stored local) es) in
  terminal_state (st c) = true -> wclosed c || d500 c || d1000 c = true.
Proof.
  intros c T. unfold init_state in c.
  destruct (run_reach_final r (negb (is_nil stored)) es (init_cs r (negb (is_nil stored)))
              (mkD stored local []) (init_ms r (negb (is_nil stored))) (init_normal _ _)
              (reach_init _ _ _)) as [_ R].
  apply reach_shape in R. unfold p_shape in R. cbn [ps_c] in R.
  apply andb_true_iff in R as [R _]. apply andb_true_iff in R as [_ R].
  unfold gave_up_closes in R. cbn [p_st p_wclosed p_d500 p_d1000 of_cs] in R.
  fold c in R. rewrite T in R. exact R.
Qed.

Theorem transport_error_ends_side r stored local es e :
  x_ev e = EConnErr ->
  let s := final_state (init_state r stored local) es in
  let c' := fst (fst (step s e)) in
  terminal_state (st c') = true /\ wclosed c' = true /\ armed c' = false.
Proof.
  intros He s c'. unfold init_state in s.
  destruct (run_reach_final r (negb (is_nil stored)) es (init_cs r (negb (is_nil stored)))
              (mkD stored local []) (init_ms r (negb (is_nil stored))) (init_normal _ _)
              (reach_init _ _ _)) as [N R].
  fold s in N, R.
  apply reach_shape in R. unfold p_shape in R. cbn [ps_c] in R.
  rewrite (to_of_cs _ N) in R. apply andb_true_iff in R as [_ R].
  rewrite forallb_forall in R.
  destruct s as [c d] eqn:Es. cbn [fst] in R, N.
  specialize (R _ (abs_ev_in c (d_stored d) e)). apply andb_true_iff in R as [_ R].
  unfold connerr_ends in R.
  assert (Hev : ev (abs_ev c (d_stored d) e) = CConnErr).
  { unfold abs_ev. cbn [ev]. rewrite He. reflexivity. }
  rewrite Hev in R.
  subst c'. cbn [step].
  destruct (cstep c (abs_ev c (d_stored d) e)) as [c2 l] eqn:E.
  destruct (conc d (x_ev e) l) as [d2 os]. cbn [fst] in *.
  apply andb_true_iff in R as [R R3]. apply andb_true_iff in R as [R1 R2].
  apply negb_true_iff in R3. auto.
Qed.
