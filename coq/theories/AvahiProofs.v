(* AvahiProofs.v — C19: certified closure + ranking for the Avahi model of the tree under
   test (switches from coq/gen/AvahiTable.v), witnesses for the pinned tree and for each
   repair left out. *)
From Coq Require Import List Bool NArith PArith Arith Lia FMapPositive.
From Ship Require Import Base Closure Avahi.
Import ListNotations.
Close Scope N_scope.

(* ---------- verified equality ---------- *)
Lemma list_eqb_loop_eq : forall a b, list_eqb loop_beq a b = true -> a = b.
Proof.
  induction a as [|x a IH]; intros [|y b] H; simpl in H; try discriminate; [reflexivity|].
  apply andb_true_iff in H as [H1 H2].
  apply internal_loop_dec_bl in H1. apply IH in H2. subst. reflexivity.
Qed.

Lemma state_eqb_eq : forall a b, state_eqb a b = true -> a = b.
Proof.
  intros [ca la] [cb lb] H. unfold state_eqb in H. simpl in H.
  apply andb_true_iff in H as [H1 H2].
  apply internal_core_dec_bl in H1. apply list_eqb_loop_eq in H2. subst. reflexivity.
Qed.

(* ---------- labelled runs are runs of `next` ---------- *)
Lemma hd_error_In {A} (l : list A) x : hd_error l = Some x -> In x l.
Proof. destruct l; simpl; intros H; [discriminate|]. inversion H. left. reflexivity. Qed.

Lemma nth_error_In' {A} (l : list A) n x : nth_error l n = Some x -> In x l.
Proof. apply nth_error_In. Qed.

Lemma t_loops_from_In cf s : forall ls i j l x,
  nth_error ls j = Some l -> In x (t_loop1 cf s (i + j) l) -> In x (t_loops_from cf s i ls).
Proof.
  induction ls as [|l0 ls IH]; intros i j l x Hn Hx.
  - destruct j; discriminate.
  - simpl. apply in_or_app. destruct j as [|j].
    + simpl in Hn. inversion Hn. subst. rewrite Nat.add_0_r in Hx. left. exact Hx.
    + right. simpl in Hn. apply (IH (S i) j l x Hn).
      replace (S i + j) with (i + S j) by lia. exact Hx.
Qed.

Lemma lstep_next cf K s a s' : lstep cf K s a = Some s' -> In s' (next cf K s).
Proof.
  unfold lstep, next, internal, external. destruct (ok s) eqn:Hok; [|discriminate].
  intros H. apply in_or_app.
  destruct a.
  - right. apply hd_error_In in H. apply in_or_app. left. exact H.
  - right. apply hd_error_In in H. apply in_or_app. right. apply in_or_app. left. exact H.
  - right. apply hd_error_In in H. do 2 (apply in_or_app; right). apply in_or_app. left. exact H.
  - right. apply hd_error_In in H. do 3 (apply in_or_app; right). apply in_or_app. left. exact H.
  - right. apply hd_error_In in H. do 4 (apply in_or_app; right). apply in_or_app. left. exact H.
  - right. apply hd_error_In in H. do 5 (apply in_or_app; right). exact H.
  - left. apply hd_error_In in H. apply in_or_app. left. exact H.
  - left. apply hd_error_In in H. apply in_or_app. right. apply in_or_app. left. exact H.
  - left. do 2 (apply in_or_app; right). apply in_or_app. left.
    destruct (nth_error (loops s) i) as [l|] eqn:Hn; [|discriminate].
    unfold t_loops. apply (t_loops_from_In cf s (loops s) 0 i l s' Hn). simpl.
    destruct (t_loop1 cf s i l) as [|x [|y r]] eqn:Hr.
    + unfold pick_mode in H. destruct (start_modes (co s)) as [|[] [|? ?]]; destruct m; simpl in H; discriminate.
    + inversion H. left. reflexivity.
    + unfold pick_mode in H.
      destruct (start_modes (co s)) as [|[] [|? ?]]; destruct m; try discriminate;
        apply nth_error_In in H; exact H.
  - left. apply hd_error_In in H. do 3 (apply in_or_app; right). exact H.
Qed.

Lemma run_reach cf K : forall l s s', run cf K s l = Some s' ->
  forall i, reach (next cf K) i s -> reach (next cf K) i s'.
Proof.
  induction l as [|a l IH]; intros s s' H i R; simpl in H.
  - inversion H. subst. exact R.
  - destruct (lstep cf K s a) as [s1|] eqn:E; [|discriminate].
    apply (IH s1 s' H). eapply reach_step; [exact R|]. apply lstep_next in E. exact E.
Qed.

Lemma witness_reach cf K l s : run cf K init l = Some s -> reach (next cf K) init s.
Proof. intros H. apply (run_reach cf K l init s H). constructor. Qed.

(* ---------- the tree under test: closure table (the inductive invariant) ---------- *)
Definition tnext := next tree_cfg model_K.
Definition tquiet := quiet tree_cfg model_K.

Definition tbl : table state :=
  Eval vm_compute in fst (explore state_eqb state_hash tnext 300 init).

Lemma tbl_init : mem state_eqb state_hash init tbl = true.
Proof. vm_compute. reflexivity. Qed.

Lemma tbl_closed : closed_check state_eqb state_hash tnext tbl = true.
Proof. vm_compute. reflexivity. Qed.

Lemma tbl_rank : rank_check tquiet rank tbl = true.
Proof. vm_compute. reflexivity. Qed.

Lemma tbl_safe : forallb safe (members tbl) = true.
Proof. vm_compute. reflexivity. Qed.

Lemma tbl_progress : forallb (progress tree_cfg model_K) (members tbl) = true.
Proof. vm_compute. reflexivity. Qed.

Lemma tbl_loops : forallb loops_le1 (members tbl) = true.
Proof. vm_compute. reflexivity. Qed.

Lemma tbl_final : forallb (fun s => match tquiet s with [] => good_final s | _ => true end) (members tbl) = true.
Proof. vm_compute. reflexivity. Qed.

Lemma quiet_sub : forall s s', In s' (tquiet s) -> In s' (tnext s).
Proof.
  intros s s' H. unfold tquiet, quiet in H. unfold tnext, next.
  destruct (up (co s)); [|destruct H]. apply in_or_app. left. exact H.
Qed.

(* ---------- theorems ---------- *)
Lemma c19_safe : forall s, reach tnext init s -> safe s = true.
Proof. exact (invariant_by_closure state state_eqb state_eqb_eq state_hash tnext init tbl safe tbl_init tbl_closed tbl_safe). Qed.

Lemma c19_progress : forall s, reach tnext init s -> progress tree_cfg model_K s = true.
Proof. exact (invariant_by_closure state state_eqb state_eqb_eq state_hash tnext init tbl _ tbl_init tbl_closed tbl_progress). Qed.

Lemma c19_loops : forall s, reach tnext init s -> loops_le1 s = true.
Proof. exact (invariant_by_closure state state_eqb state_eqb_eq state_hash tnext init tbl _ tbl_init tbl_closed tbl_loops). Qed.

Lemma c19_terminates : forall s, reach tnext init s -> Acc (fun b a => In b (tquiet a)) s.
Proof. exact (quiet_terminates state state_eqb state_eqb_eq state_hash tnext tquiet rank init tbl tbl_init tbl_closed tbl_rank quiet_sub). Qed.

Lemma c19_converges : forall s, reach tnext init s ->
  (exists s', quiet_run tquiet s s') /\ (forall s', quiet_run tquiet s s' -> good_final s' = true).
Proof. exact (quiet_run_ends_good state state_eqb state_eqb_eq state_hash tnext tquiet rank init tbl good_final tbl_init tbl_closed tbl_rank quiet_sub tbl_final). Qed.

(* what good_final says, spelled out *)
Lemma good_final_spelled s : good_final s = true -> up (co s) = true ->
  settled s = true /\ mon (ghost_of s) (obs_of s) = [].
Proof.
  unfold good_final. intros H U. rewrite U in H. simpl in H.
  apply andb_true_iff in H as [H1 H2]. split; [exact H1|].
  destruct (mon (ghost_of s) (obs_of s)); [reflexivity|discriminate].
Qed.

Lemma mon_silent_spelled g o : mon g o = [] ->
  o_panic o = false /\ o_hang o = false /\
  (gh_manual g = true -> o_brow o = 0%N /\ o_latest o = 0%N /\ o_stale o = 0%N) /\
  (gh_manual g = false ->
     o_brow o = 1%N /\ o_report o = true /\ o_stale o = 0%N /\
     (gh_want g = true -> o_latest o = 1%N) /\ (gh_want g = false -> o_latest o = 0%N)).
Proof.
  destruct o as [b l st r p h]. destruct g as [gm gw g1 g2 g3]. unfold mon. simpl.
  destruct p; [intros H; discriminate H|]. destruct h; [intros H; discriminate H|]. simpl.
  destruct gm.
  - destruct b as [|b]; destruct l as [|l]; destruct st as [|st]; simpl; intros H; try discriminate H.
    repeat split; intros; try discriminate; reflexivity.
  - destruct gw.
    + destruct b as [|[b|b|]]; destruct l as [|[l|l|]]; destruct st as [|st]; destruct r; simpl;
        intros H; try discriminate H; try (destruct g1; discriminate H); try (destruct g1; destruct g2; discriminate H).
      all: repeat split; intros; try discriminate; reflexivity.
    + destruct b as [|[b|b|]]; destruct l as [|l]; destruct st as [|st]; destruct r; simpl;
        intros H; try discriminate H; try (destruct g1; discriminate H).
      all: repeat split; intros; try discriminate; reflexivity.
Qed.

Lemma c19_loops_le : forall s, reach tnext init s -> length (loops s) <= 1.
Proof. intros s R. apply PeanoNat.Nat.leb_le. exact (c19_loops s R). Qed.

Lemma c19_converges_spelled : forall s, reach tnext init s ->
  (exists s', quiet_run tquiet s s') /\
  (forall s', quiet_run tquiet s s' -> up (co s') = true ->
     settled s' = true /\ mon (ghost_of s') (obs_of s') = []).
Proof.
  intros s R. destruct (c19_converges s R) as [E A]. split; [exact E|].
  intros s' Q U. apply good_final_spelled; [exact (A s' Q)|exact U].
Qed.

(* ---------- the bound on loops in flight restricts nothing ---------- *)
Lemma next_any_K cf K s : 2 <= K -> length (loops s) <= 1 -> next cf K s = next cf 2 s.
Proof.
  intros HK HL. unfold next, internal. destruct (ok s); [|reflexivity].
  f_equal. f_equal. unfold t_callback.
  destruct (pend (co s)) as [|p]; [reflexivity|].
  destruct (mux_free s); [|reflexivity].
  destruct ((cb_manual cf && manual (co s)) || (cb_autorec cf && negb (autorec (co s))) || (single_loop cf && reconn (co s))); [reflexivity|].
  assert (Nat.ltb (length (loops s)) K = true) as E1 by (apply Nat.ltb_lt; lia).
  assert (Nat.ltb (length (loops s)) 2 = true) as E2 by (apply Nat.ltb_lt; lia).
  rewrite E1, E2. reflexivity.
Qed.

Lemma c19_any_K : forall K, 2 <= K -> forall s,
  reach (next tree_cfg K) init s ->
  reach tnext init s /\ next tree_cfg K s = tnext s.
Proof.
  intros K HK s R. induction R as [|s s' R [IH E] Hs].
  - split; [constructor|]. apply next_any_K; [exact HK|]. simpl. lia.
  - assert (reach tnext init s') as R'.
    { eapply reach_step; [exact IH|]. rewrite <- E. exact Hs. }
    split; [exact R'|]. apply next_any_K; [exact HK|]. apply c19_loops_le. exact R'.
Qed.

(* ---------- the pinned tree and each repair left out: witnesses ---------- *)
Definition L := TLoop 0 SOk.
Definition w_stale := [ApiAnnounce; EDown; TCallback; ApiAnnounce; EUp; L; L; L; L].
Definition w_resurrect := [ApiAnnounce; EDown; TCallback; ApiUnannounce; EUp; L; L; L; L].
Definition w_shutdown := [ApiAnnounce; EDown; TCallback; L; ApiShutdown; TApi; TApi; TApi; EUp; L; L; L].
Definition w_leak := [ApiAnnounce; ApiAnnounce].
Definition w_multi := [EDown; TCallback; L; L; TLoop 0 SFailApi; TCallback; EUp; L; L; L; L; L; L; L; L].
Definition v_stale := [ApiAnnounce; EDown; TCallback; ApiAnnounce; EUp; L; L; L].
Definition v_multi := [EDown; TCallback; L; L; TLoop 0 SFailApi; TCallback; EUp; L; L; L; L; L; L].

Definition without_reread := {| reread := false; recheck := true; free_prev := true; single_loop := true; cb_manual := true; cb_autorec := true |}.
Definition without_recheck := {| reread := true; recheck := false; free_prev := true; single_loop := true; cb_manual := true; cb_autorec := true |}.
Definition without_free_prev := {| reread := true; recheck := true; free_prev := false; single_loop := true; cb_manual := true; cb_autorec := true |}.
Definition without_single_loop := {| reread := true; recheck := true; free_prev := true; single_loop := false; cb_manual := true; cb_autorec := true |}.

Ltac witness sched :=
  match goal with
  | |- exists s, reach (next ?cf ?K) init s /\ _ =>
      let r := eval vm_compute in (run cf K init sched) in
      match r with
      | Some ?s => exists s; split; [apply (witness_reach cf K sched); vm_compute; reflexivity | vm_compute; repeat split; reflexivity]
      end
  end.

Lemma pinned_stale : exists s, reach (next cfg_pinned 2) init s /\
  (violates_final s = true /\ g_want (co s) = true /\ o_stale (obs_of s) = 1%N /\ o_latest (obs_of s) = 0%N).
Proof. witness w_stale. Qed.

Lemma pinned_resurrect : exists s, reach (next cfg_pinned 2) init s /\
  (violates_final s = true /\ g_want (co s) = false /\ g_manual (co s) = false /\ o_latest (obs_of s) = 1%N).
Proof. witness w_resurrect. Qed.

Lemma pinned_shutdown : exists s, reach (next cfg_pinned 2) init s /\
  (api (co s) = ADone /\ safe s = false /\ o_brow (obs_of s) = 1%N /\ o_latest (obs_of s) = 1%N).
Proof. witness w_shutdown. Qed.

Lemma pinned_leak : exists s, reach (next cfg_pinned 2) init s /\
  (violates_final s = true /\ o_latest (obs_of s) = 1%N /\ o_stale (obs_of s) = 1%N).
Proof. witness w_leak. Qed.

Lemma pinned_multi : exists s, reach (next cfg_pinned 2) init s /\
  (violates_final s = true /\ g_manual (co s) = false /\ o_brow (obs_of s) = 2%N).
Proof. witness w_multi. Qed.

Lemma need_reread : exists s, reach (next without_reread 2) init s /\ violates_final s = true.
Proof. witness v_stale. Qed.
Lemma need_recheck : exists s, reach (next without_recheck 2) init s /\ safe s = false.
Proof. witness w_shutdown. Qed.
Lemma need_free_prev : exists s, reach (next without_free_prev 2) init s /\ violates_final s = true.
Proof. witness w_leak. Qed.
Lemma need_single_loop : exists s, reach (next without_single_loop 2) init s /\ violates_final s = true.
Proof. witness v_multi. Qed.

(* ---------- the hypotheses are satisfiable by non-trivial states ---------- *)
(* a reconnect loop in flight while the daemon is down and newer data is stored *)
Example reachable_mid_outage : exists s, reach (next cfg_fixed 2) init s /\
  (up (co s) = false /\ length (loops s) = 1 /\ data (co s) = OLatest /\ pend (co s) = 1).
Proof. witness [ApiAnnounce; EDown; TCallback; L; L; TLoop 0 SFailApi; ApiAnnounce]. Qed.

(* ... and the repaired code, driven through the schedules that break the pinned tree,
   ends with one browser and the latest announcement / with nothing after Shutdown *)
Example fixed_after_outage : exists s, reach (next cfg_fixed 2) init s /\
  (good_final s = true /\ up (co s) = true /\ g_want (co s) = true /\ o_latest (obs_of s) = 1%N /\ o_brow (obs_of s) = 1%N).
Proof. witness v_stale. Qed.

Example fixed_after_shutdown : exists s, reach (next cfg_fixed 2) init s /\
  (good_final s = true /\ up (co s) = true /\ api (co s) = ADone /\ o_brow (obs_of s) = 0%N).
Proof. witness [ApiAnnounce; EDown; TCallback; L; ApiShutdown; TApi; TApi; TApi; EUp; L; L]. Qed.
