(* ConnCor.v — readable corollaries of ConnLift.conn_monitors_hold, and sanity examples
   showing that the monitors do flag bad traces (the theorems are not vacuous). *)
From Ship Require Import Base Closure Conn ConnEvents ConnData ConnMon ConnClosure ConnLift.
From RecordUpdate Require Import RecordUpdate.
Import RecordSetNotations.

Definition model_trace (r : role) (stored local : bytes) (es : list eventx) : list cobs :=
  atrace (init_state r stored local) es.
Definition model_mon (r : role) (stored local : bytes) (es : list eventx) : ms :=
  mon_run (init_ms r (negb (is_nil stored))) (model_trace r stored local es).

Lemma viol_codes_nil m : m_viol m = 0 -> viol_codes m = [].
Proof. intros H. unfold viol_codes. rewrite H. reflexivity. Qed.

Lemma no_violation r stored local es lo hi : viol_in lo hi (model_mon r stored local es) = [].
Proof.
  unfold viol_in, model_mon, model_trace.
  rewrite (viol_codes_nil _ (conn_monitors_hold r stored local es)). reflexivity.
Qed.

(* ---- a flagged violation is never forgotten ---- *)
Lemma flag_bit code ok m c :
  N.testbit (m_viol (flag code ok m)) c = N.testbit (m_viol m) c || (negb ok && N.eqb c code).
Proof.
  unfold flag. destruct ok; [cbn [negb andb]; rewrite orb_false_r; reflexivity|].
  change (m_viol (set m_viol (fun _ => N.lor (m_viol m) (N.shiftl 1 code)) m))
    with (N.lor (m_viol m) (N.shiftl 1 code)).
  rewrite N.lor_spec. f_equal.
  rewrite N.shiftl_1_l. cbn [negb andb]. rewrite N.pow2_bits_eqb. apply N.eqb_sym.
Qed.

Lemma flag_mono code ok m c :
  N.testbit (m_viol m) c = true -> N.testbit (m_viol (flag code ok m)) c = true.
Proof. intros H. rewrite flag_bit, H. reflexivity. Qed.

Ltac mono_tac :=
  repeat first
    [ assumption
    | apply flag_mono
    | match goal with
      | |- context [if ?b then _ else _] => destruct b
      | |- context [match ?x with _ => _ end] => destruct x
      end ].

Lemma mstep_mono m o c :
  N.testbit (m_viol m) c = true -> N.testbit (m_viol (mstep m o)) c = true.
Proof.
  intros H. destruct o; cbn [mstep]; try unfold mev; try exact H; mono_tac.
Qed.

Lemma mon_run_mono tr : forall m c,
  N.testbit (m_viol m) c = true -> N.testbit (m_viol (mon_run m tr)) c = true.
Proof.
  induction tr as [|o tr IH]; intros m c H; [exact H|].
  cbn [mon_run fold_left]. apply IH. apply mstep_mono. exact H.
Qed.

Lemma zero_no_bit n c : n = 0 -> N.testbit n c = false.
Proof. intros ->. apply N.bits_0. Qed.

(* if an observation that is flagged unconditionally occurs anywhere, the run is not clean *)
Lemma flagged_obs_excluded o code tr m :
  (forall m', N.testbit (m_viol (mstep m' o)) code = true) ->
  In o tr -> m_viol (mon_run m tr) <> 0.
Proof.
  intros Hf Hin Hz. apply in_split in Hin as [a [b ->]].
  unfold mon_run in Hz. rewrite fold_left_app in Hz. cbn [fold_left] in Hz.
  pose proof (mon_run_mono b (mstep (fold_left mstep a m) o) code (Hf _)) as Hb.
  unfold mon_run in Hb. rewrite (zero_no_bit _ code Hz) in Hb. discriminate.
Qed.

(* C08, explicitly: no run of the model ever panics, deadlocks or runs out of fuel *)
Lemma no_panic r stored local es : ~ In BPanic (model_trace r stored local es).
Proof.
  intros H. apply (flagged_obs_excluded BPanic V_PANIC _ (init_ms r (negb (is_nil stored)))) in H.
  - apply H. apply conn_monitors_hold.
  - intros m'. cbn [mstep]. rewrite flag_bit. cbn. apply orb_true_r.
Qed.

Lemma no_hang r stored local es :
  ~ In BHang (model_trace r stored local es) /\ ~ In BFuel (model_trace r stored local es).
Proof.
  split; intros H.
  - apply (flagged_obs_excluded BHang V_HANG _ (init_ms r (negb (is_nil stored)))) in H.
    + apply H. apply conn_monitors_hold.
    + intros m'. cbn [mstep]. cbv zeta. rewrite flag_bit. apply orb_true_iff. left.
      rewrite flag_bit. cbn. apply orb_true_r.
  - apply (flagged_obs_excluded BFuel V_HANG _ (init_ms r (negb (is_nil stored)))) in H.
    + apply H. apply conn_monitors_hold.
    + intros m'. cbn [mstep]. rewrite flag_bit. cbn. apply orb_true_r.
Qed.

(* ---- the monitors are not trivially accepting ---- *)
Example mon_flags_untrusted_setup :
  viol_codes (mon_run (init_ms Server false) [BShipId; BSetup]) = [11].
Proof. vm_compute. reflexivity. Qed.
Example mon_flags_untrusted_progress :
  viol_codes (mon_run (init_ms Server false)
     [BReport 4 false; BReport 5 false; BReport 6 false; BPairedQ false; BAutoQ false;
      BReport 10 false; BReport 11 false; BReport 7 false; BReport 8 false; BReport 13 false]) = [10].
Proof. vm_compute. reflexivity. Qed.
Example mon_accepts_approved_progress :
  viol_codes (mon_run (init_ms Server false)
     [BReport 4 false; BReport 5 false; BReport 6 false; BPairedQ false; BAutoQ false;
      BReport 10 false; BReport 11 false; BEv (mkEv CApprove false false true None);
      BReport 7 false; BReport 8 false; BReport 13 false]) = [].
Proof. vm_compute. reflexivity. Qed.
Example mon_flags_skipped_phase :
  viol_codes (mon_run (init_ms Client false)
     [BReport 1 false; BReport 2 false; BReport 3 false; BReport 6 false; BReport 7 false;
      BReport 8 false; BReport 13 false; BReport 19 false; BReport 22 false; BReport 24 false;
      BReport 36 false]) = [20].
Proof. vm_compute. reflexivity. Qed.
Example mon_flags_progress_after_error :
  viol_codes (mon_run (init_ms Server false) [BReport 4 false; BReport 39 true; BReport 5 false]) = [21].
Proof. vm_compute. reflexivity. Qed.
Example mon_flags_armed_timer_after_error :
  viol_codes (mon_run (init_ms Server false)
     [BReport 4 false; BReport 39 true; BCloseData KUser; BClosedCb false; BSnap 39 true true 0 false]) = [22; 80].
Proof. vm_compute. reflexivity. Qed.
Example mon_flags_double_end :
  viol_codes (mon_run (init_ms Server false) [BCloseData KUser; BClosedCb true; BClosedCb true]) = [50].
Proof. vm_compute. reflexivity. Qed.
Example mon_flags_missing_end :
  viol_codes (mon_run (init_ms Server false) [BCloseData KUser; BSnap 4 false false 0 false]) = [51].
Proof. vm_compute. reflexivity. Qed.
Example mon_flags_wrong_ship_id :
  viol_codes (mon_run (init_ms Client true)
     [BReport 1 false; BReport 2 false; BReport 3 false; BReport 6 false; BReport 7 false;
      BReport 8 false; BReport 13 false; BReport 19 false; BReport 22 false; BReport 24 false;
      BReport 26 false; BReport 27 false; BReport 31 false; BReport 36 false;
      BEv (mkEv (CRecv NotDatagram NoClose (MAcc (AccId false false))) false false true None);
      BReport 37 false; BSetup]) = [40; 44].
Proof. vm_compute. reflexivity. Qed.

(* a run of the model that completes the handshake exists: the hypotheses of the
   theorems are met by non-trivial runs *)
Definition v0 : view := mkView NotDatagram 0 NoClose InitOk None ProtErr PinErr VAccNeither.
Definition mk (e : event) : eventx := mkX e false false true None.
Definition happy_server : list eventx :=
  [mk ERun; mk (ERecv v0);
   mk EApprove;
   mk (ERecv (mkView NotDatagram 0 NoClose InitBadType None (Prot PAnnounce true FUtf8) PinErr VAccNeither));
   mk (ERecv (mkView NotDatagram 0 NoClose InitBadType None (Prot PSelect true FUtf8) PinErr VAccNeither));
   mk (ERecv (mkView NotDatagram 0 NoClose InitBadType None ProtErr PinNone VAccNeither));
   mk (ERecv (mkView NotDatagram 0 NoClose InitBadType None ProtErr PinErr VAccReq));
   mk (ERecv (mkView NotDatagram 0 NoClose InitBadType None ProtErr PinErr (VAccId [65])));
   mk (ERecv (mkView DgOk 7 NoClose InitBadType None ProtErr PinErr VAccNeither))].
Example happy_server_completes :
  let tr := model_trace Server [] [76] happy_server in
  In BSetup tr /\ In (BReport 38 false) tr /\ In BDeliver tr /\ In BShipId tr.
Proof. vm_compute. repeat split; tauto. Qed.
