(* NotifyProofs.v — lemmas for C18 (model: Notify.v).  Hand induction over unbounded event
   lists: any number of reports, user operations, pending deliveries. *)
From Ship Require Import Base Notify.
From ShipGen Require Import StateTable.

(* ------------------------------------------------------------------ lists *)
Lemma nondec_app a b :
  nondec (a ++ b) = true <->
  nondec a = true /\ nondec b = true /\ (forall x y, In x a -> In y b -> (x <= y)%nat).
Proof.
  induction a as [|x a IH]; cbn [app nondec].
  - split.
    + intros H. split; [reflexivity|]. split; [exact H|]. intros x y Hx. destruct Hx.
    + intros (_ & H & _). exact H.
  - rewrite !andb_true_iff, forallb_app, andb_true_iff, IH, !forallb_forall.
    split.
    + intros ((Ha & Hb) & Hna & Hnb & Hab).
      split; [split; [exact Ha|exact Hna]|]. split; [exact Hnb|].
      intros u v [<-|Hu] Hv; [apply Nat.leb_le, Hb, Hv | apply Hab; auto].
    + intros ((Ha & Hna) & Hnb & Hab).
      split; [split; [exact Ha|]|split; [exact Hna|split; [exact Hnb|]]].
      * intros v Hv. apply Nat.leb_le, Hab; [left; reflexivity|exact Hv].
      * intros u v Hu Hv. apply Hab; [right|]; auto.
Qed.

Lemma nondec_bump l v :
  nondec (l ++ [v]) = true -> nondec (l ++ [S v; S v]) = true.
Proof.
  rewrite !nondec_app. intros (Hl & _ & Hle). split; [exact Hl|]. split.
  - cbn. rewrite Nat.leb_refl. reflexivity.
  - intros x y Hx Hy. specialize (Hle x v Hx (or_introl eq_refl)).
    destruct Hy as [<-|[<-|[]]]; lia.
Qed.

(* ------------------------------------------------------------------ (b) in order *)
Definition timeline (h : hub) : list nat :=
  versions h ++ map (shown_ver h) (pending h) ++ [ver h].

Lemma shown_ver_detach h h' l :
  map (shown_ver h') (map (detach h) l) = map (shown_ver h) l.
Proof.
  rewrite map_map. apply map_ext. intros p. reflexivity.
Qed.

Lemma step_timeline h e :
  is_fifo_ev e = true ->
  (forall s, sync_state h e = Some s -> pending h = []) ->
  nondec (timeline h) = true -> nondec (timeline (step h e)) = true.
Proof.
  intros Hf Hs Hn.
  assert (Hsync : forall s, sync_state h e = Some s -> nondec (timeline (write_sync s h)) = true).
  { intros s Hss. specialize (Hs s Hss).
    unfold timeline, versions, write_sync, add_note in *. cbn [log pending ver stored rev map fst snd].
    rewrite Hs in *. cbn [map app] in *. rewrite map_app. cbn [map n_ver].
    rewrite <- app_assoc. cbn [app]. apply nondec_bump. exact Hn. }
  destruct e as [s er| | | | | | |i|]; cbn [step].
  - (* report *)
    unfold report. destruct (differs (stored h) (report_state s er) er) eqn:Hd.
    + unfold timeline, versions in *. cbn [log pending ver stored].
      rewrite map_app, shown_ver_detach. cbn [map].
      unfold shown_ver at 2. cbn [shown ver snd].
      rewrite <- app_assoc. cbn [app]. rewrite app_assoc. apply nondec_bump.
      rewrite <- app_assoc. exact Hn.
    + exact Hn.
  - exact Hn.
  - exact Hn.
  - destruct (sync_state h ERegister) eqn:E; [apply Hsync; first [exact E|reflexivity]|exact Hn].
  - destruct (sync_state h EUnregister) eqn:E; [apply Hsync; first [exact E|reflexivity]|exact Hn].
  - destruct (sync_state h ECancel) eqn:E; [apply Hsync; first [exact E|reflexivity]|exact Hn].
  - destruct (sync_state h EInbound) eqn:E; [apply Hsync; first [exact E|reflexivity]|exact Hn].
  - (* deliver *)
    destruct i as [|i]; [|discriminate Hf].
    unfold deliver. destruct (pending h) as [|p r] eqn:Hp; cbn [nth_error].
    + exact Hn.
    + unfold timeline, versions, add_note in *. cbn [log pending ver stored rev map remove_nth n_ver].
      rewrite Hp in Hn. cbn [map] in Hn.
      rewrite map_app. cbn [map n_ver]. rewrite <- app_assoc. exact Hn.
  - exact Hn.
Qed.

Lemma run_timeline es : forall h,
  in_order h es = true -> nondec (timeline h) = true -> nondec (timeline (run h es)) = true.
Proof.
  induction es as [|e r IH]; intros h Hio Hn; cbn [run fold_left].
  - exact Hn.
  - cbn [in_order] in Hio. apply andb_true_iff in Hio as [Hio Hr].
    apply andb_true_iff in Hio as [Hf Hs].
    apply IH; [exact Hr|]. apply step_timeline; auto.
    intros s E. rewrite E in Hs. destruct (pending h); [reflexivity|discriminate].
Qed.

Lemma in_order_no_older_after_newer st es :
  in_order (init st) es = true -> mon_order (run (init st) es) = true.
Proof.
  intros H. pose proof (run_timeline es (init st) H eq_refl) as Hn.
  unfold timeline in Hn. apply nondec_app in Hn as (Hv & _). exact Hv.
Qed.

(* ------------------------------------------------------------------ (a) FIFO *)
Definition inv_a (h : hub) : Prop :=
  last (pending h) None = None /\
  (pending h = [] -> last_is (log h) (fst (stored h)) = true).

Lemma step_inv_a h e : is_fifo_ev e = true -> inv_a h -> inv_a (step h e).
Proof.
  intros Hf [Hl He].
  assert (Hsync : forall s, inv_a (write_sync s h)).
  { intros s. split; cbn [write_sync add_note pending log stored fst]; [exact Hl|].
    intros _. cbn [last_is n_st fst]. apply N.eqb_refl. }
  destruct e as [s er| | | | | | |i|]; cbn [step].
  - unfold report. destruct (differs (stored h) (report_state s er) er).
    + split; cbn [pending].
      * apply last_last.
      * intros E. symmetry in E. apply app_cons_not_nil in E. destruct E.
    + split; [exact Hl|exact He].
  - split; [exact Hl|exact He].
  - split; [exact Hl|exact He].
  - destruct (sync_state h ERegister); [apply Hsync|split; assumption].
  - destruct (sync_state h EUnregister); [apply Hsync|split; assumption].
  - destruct (sync_state h ECancel); [apply Hsync|split; assumption].
  - destruct (sync_state h EInbound); [apply Hsync|split; assumption].
  - destruct i as [|i]; [|discriminate Hf].
    unfold deliver. destruct (pending h) as [|p r] eqn:Hp; cbn [nth_error].
    + split; [rewrite Hp; reflexivity|intros _; apply He; reflexivity].
    + unfold add_note. split; cbn [pending log stored remove_nth].
      * destruct r as [|q r]; [reflexivity|exact Hl].
      * intros ->. cbn [last] in Hl. subst p. cbn [shown fst snd last_is n_st].
        apply N.eqb_refl.
  - split; assumption.
Qed.

Lemma run_inv_a es : forall h, fifo es = true -> inv_a h -> inv_a (run h es).
Proof.
  induction es as [|e r IH]; intros h Hf Hi; cbn [run fold_left]; [exact Hi|].
  cbn [fifo forallb] in Hf. apply andb_true_iff in Hf as [Hf Hr].
  apply IH; [exact Hr|]. apply step_inv_a; assumption.
Qed.

(* after a report of the connection the stored state is the table's image of the
   connection's live state, until a user operation writes the detail *)
Definition inv_f (h : hub) : Prop :=
  fresh h = true -> fst (stored h) = pair_state_of (fst (live h)).

Lemma error_state_maps_to_error : pair_state_of SmeStateError = ConnectionStateError.
Proof. reflexivity. Qed.

Lemma report_state_wf s er :
  wf_ev (EReport s er) = true -> report_state s er = pair_state_of s.
Proof.
  unfold wf_ev, report_state. destruct (forces_error er); [|reflexivity].
  intros H. apply N.eqb_eq in H. subst s. symmetry. exact error_state_maps_to_error.
Qed.

Lemma step_inv_f h e : wf_ev e = true -> inv_f h -> inv_f (step h e).
Proof.
  intros Hw Hi.
  assert (Hsync : forall s, inv_f (write_sync s h)).
  { intros s. unfold inv_f, write_sync, add_note. cbn [fresh]. discriminate. }
  destruct e as [s er| | | | | | |i|]; cbn [step]; try exact Hi.
  - unfold report. destruct (differs (stored h) (report_state s er) er) eqn:Hd;
      unfold inv_f; cbn [fresh stored live fst]; intros _.
    + apply report_state_wf, Hw.
    + unfold differs in Hd. apply orb_false_iff in Hd as [Hd _].
      apply negb_false_iff, N.eqb_eq in Hd. rewrite Hd. apply report_state_wf, Hw.
  - destruct (sync_state h ERegister); [apply Hsync|exact Hi].
  - destruct (sync_state h EUnregister); [apply Hsync|exact Hi].
  - destruct (sync_state h ECancel); [apply Hsync|exact Hi].
  - destruct (sync_state h EInbound); [apply Hsync|exact Hi].
  - unfold deliver. destruct (nth_error (pending h) i); [|exact Hi]. exact Hi.
Qed.

Lemma run_inv_f es : forall h, wf_reports es = true -> inv_f h -> inv_f (run h es).
Proof.
  induction es as [|e r IH]; intros h Hw Hi; cbn [run fold_left]; [exact Hi|].
  cbn [wf_reports forallb] in Hw. apply andb_true_iff in Hw as [Hw Hr].
  apply IH; [exact Hr|]. apply step_inv_f; assumption.
Qed.

Lemma fifo_last_is_current st es :
  fifo es = true -> wf_reports es = true ->
  settled (run (init st) es) = true -> mon_last (run (init st) es) = true.
Proof.
  intros Hf Hw Hs.
  assert (Ha : inv_a (init st)) by (split; [reflexivity|intros _; reflexivity]).
  assert (Hfr : inv_f (init st)) by (intros H; discriminate H).
  pose proof (run_inv_a es _ Hf Ha) as [_ Hlast].
  pose proof (run_inv_f es _ Hw Hfr) as Hfresh.
  set (h := run (init st) es) in *.
  unfold settled in Hs. destruct (pending h) eqn:Hp; [|discriminate].
  specialize (Hlast eq_refl). unfold mon_last, answer.
  destruct (conn h); cbn [negb orb] in Hs; cbn [fst].
  - rewrite <- (Hfresh Hs). exact Hlast.
  - exact Hlast.
Qed.

(* the stored detail always holds the pairing state the report computes, dedup or not *)
Lemma report_stores_mapped_state s er h :
  fst (stored (step h (EReport s er))) = report_state s er /\
  (forces_error er = false -> fst (stored (step h (EReport s er))) = pair_state_of s) /\
  (forces_error er = true -> fst (stored (step h (EReport s er))) = ConnectionStateError).
Proof.
  assert (H : fst (stored (step h (EReport s er))) = report_state s er).
  { cbn [step]. unfold report.
    destruct (differs (stored h) (report_state s er) er) eqn:Hd; cbn [stored fst]; [reflexivity|].
    unfold differs in Hd. apply orb_false_iff in Hd as [Hd _].
    apply negb_false_iff, N.eqb_eq in Hd. exact Hd. }
  split; [exact H|]. unfold report_state in H.
  split; intros E; rewrite E in H; exact H.
Qed.

Lemma answer_with_connection h :
  conn h = true -> fst (answer h) = pair_state_of (fst (live h)).
Proof. intros H. unfold answer. rewrite H. reflexivity. Qed.

(* ------------------------------------------------------------------ mapping: terminal states *)
Ltac split_pos p := try (destruct p as [p|p|]).
Ltac all_states s :=
  destruct s as [|p];
  [|split_pos p; split_pos p; split_pos p; split_pos p; split_pos p; split_pos p; split_pos p].

Lemma terminal_states s :
  (pair_state_of s = ConnectionStateCompleted <-> s = SmeStateComplete) /\
  (pair_state_of s = ConnectionStateError <-> s = SmeStateError) /\
  (pair_state_of s = ConnectionStateRemoteDeniedTrust <->
     s = SmeHelloStateRemoteAbortDone \/ s = SmeHelloStateRejected) /\
  (pair_state_of s = ConnectionStateNone <-> s = SmeHelloStateAbort \/ s = SmeHelloStateAbortDone) /\
  (pair_state_of s = ConnectionStateReceivedPairingRequest <-> s = SmeHelloStatePendingListen).
Proof.
  all_states s; vm_compute;
    (repeat split; try (intros H; discriminate H); try (intros [H|H]; discriminate H);
     try (intros _; reflexivity); try (intros _; left; reflexivity); try (intros _; right; reflexivity)).
Qed.

Lemma expected_terminal_sound s er x :
  wf_ev (EReport s er) = true -> expected_terminal s er = Some x -> report_state s er = x.
Proof.
  intros Hw. rewrite (report_state_wf _ _ Hw).
  unfold expected_terminal, wf_ev in *. destruct (forces_error er).
  - apply N.eqb_eq in Hw. subst s. intros H. injection H as <-. reflexivity.
  - clear Hw. all_states s; vm_compute; intros H; try discriminate H; injection H as <-; reflexivity.
Qed.

(* ------------------------------------------------------------------ refutations *)
(* (b): pending request reported (11), the user cancels: the connection's abort report
   (14) and the synchronous None notification come first, the delayed notification of the
   replaced object arrives afterwards and shows ReceivedPairingRequest.  FIFO order. *)
Definition wit_overtake : list ev :=
  [EConnReg; EReport 11 0; EReport 14 0; ECancel; EDeliver 0; EDeliver 0; EConnClosed; EAsk].

Lemma overtake_refutes :
  fifo wit_overtake = true /\ wf_reports wit_overtake = true /\
  settled (run (init true) wit_overtake) = true /\
  mon_order (run (init true) wit_overtake) = false /\
  overtaken (rev (log (run (init true) wit_overtake))) = true /\
  inverted (rev (log (run (init true) wit_overtake))) = false /\
  map n_st (rev (log (run (init true) wit_overtake))) = [0; 3; 0] /\
  mon_last (run (init true) wit_overtake) = true.
Proof. vm_compute. repeat split; reflexivity. Qed.

(* (a): hello ok (13, Trusted) and protocol handshake (19, InProgress) reported within
   microseconds, the two sleeps expire together and the later goroutine runs first: the
   application ends with Trusted while the hub answers InProgress.  No user operation. *)
Definition wit_inverted : list ev :=
  [EConnReg; EReport 8 0; EReport 13 0; EReport 19 0; EDeliver 0; EDeliver 1; EDeliver 0; EAsk].

Lemma inverted_refutes :
  wf_reports wit_inverted = true /\
  settled (run (init true) wit_inverted) = true /\
  mon_last (run (init true) wit_inverted) = false /\
  mon_order (run (init true) wit_inverted) = false /\
  inverted (rev (log (run (init true) wit_inverted))) = true /\
  overtaken (rev (log (run (init true) wit_inverted))) = false /\
  map n_st (rev (log (run (init true) wit_inverted))) = [4; 4; 5] /\
  fst (answer (run (init true) wit_inverted)) = 4.
Proof. vm_compute. repeat split; reflexivity. Qed.

(* the hypothesis on reports is needed: an error value reported with a state other than
   SmeStateError is notified as Error while PairingDetailForSki maps the live state
   without looking at the error (the SHIP connection never does this) *)
Definition wit_illformed : list ev := [EConnReg; EReport 11 2; EDeliver 0; EAsk].
Lemma illformed_report_refutes :
  in_order (init true) wit_illformed = true /\ settled (run (init true) wit_illformed) = true /\
  mon_last (run (init true) wit_illformed) = false.
Proof. vm_compute. repeat split; reflexivity. Qed.

(* the hypothesis "the registered connection has reported after the last user operation"
   is needed, and its negation is a stable point of the real system: pairing completed,
   everything delivered in order, then CancelPairingWithSKI — the connection ignores the
   abort request (not pending), stays registered and silent; the application was told
   None, the hub answers Completed *)
Definition wit_cancel_ignored : list ev :=
  [ERegister; EConnReg; EReport 1 0; EDeliver 0; EReport 38 0; EDeliver 0; ECancel; EAsk].
Lemma cancel_ignored_refutes :
  in_order (init true) wit_cancel_ignored = true /\ wf_reports wit_cancel_ignored = true /\
  pending (run (init true) wit_cancel_ignored) = [] /\
  cancel_ignored (run (init true) wit_cancel_ignored) wit_cancel_ignored = true /\
  map n_st (rev (log (run (init true) wit_cancel_ignored))) = [1; 2; 7; 0] /\
  fst (answer (run (init true) wit_cancel_ignored)) = ConnectionStateCompleted /\
  mon_last (run (init true) wit_cancel_ignored) = false.
Proof. vm_compute. repeat split; reflexivity. Qed.

(* the hypotheses are satisfiable by a real history: register (Queued, synchronous), dial,
   handshake to completion, every notification delivered in order; 7 notifications *)
Definition ex_success : list ev :=
  [ERegister; EConnReg; EReport 1 0; EDeliver 0; EReport 2 0; EReport 3 0; EReport 6 0; EDeliver 0;
   EReport 7 0; EReport 8 0; EReport 13 0; EDeliver 0; EReport 19 0; EDeliver 0; EReport 22 0; EReport 24 0;
   EReport 26 0; EDeliver 0; EReport 27 0; EReport 31 0; EReport 36 0; EDeliver 0; EReport 37 0; EReport 38 0;
   EDeliver 0; EAsk].
Lemma ex_success_ok :
  in_order (init true) ex_success = true /\ fifo ex_success = true /\ wf_reports ex_success = true /\
  settled (run (init true) ex_success) = true /\
  map n_st (rev (log (run (init true) ex_success))) = [1; 2; 4; 5; 4; 6; 4; 7] /\
  answer (run (init true) ex_success) = (ConnectionStateCompleted, 0).
Proof. vm_compute. repeat split; reflexivity. Qed.

Lemma in_order_fifo es : forall h, in_order h es = true -> fifo es = true.
Proof.
  induction es as [|e r IH]; intros h H; [reflexivity|].
  cbn [in_order] in H. apply andb_true_iff in H as [H Hr]. apply andb_true_iff in H as [Hf _].
  cbn [fifo forallb]. rewrite Hf. exact (IH _ Hr).
Qed.
