(* ConnExplicit.v — explicit, monitor-free readings of some clauses, derived from
   ConnLift.conn_monitors_hold: what the monitor's cleanliness means for the trace itself. *)
From Ship Require Import Base Closure Conn ConnEvents ConnData ConnMon ConnClosure ConnLift ConnCor.
From RecordUpdate Require Import RecordUpdate.
Import RecordSetNotations.

(* ---- C11: HandleConnectionClosed is reported at most once ---- *)
Definition is_cb (o : cobs) : bool := match o with BClosedCb _ => true | _ => false end.
Definition count_cb (tr : list cobs) : nat := length (filter is_cb tr).

Lemma flag_ncb c b m : m_ncb (flag c b m) = m_ncb m.
Proof. destruct b; reflexivity. Qed.

Ltac ncb_tac :=
  repeat first
    [ reflexivity
    | rewrite flag_ncb
    | progress (cbn -[flag N.add N.eqb])
    | match goal with |- context [if ?b then _ else _] => destruct b end
    | match goal with |- context [match ?b with _ => _ end] => destruct b end ].

Lemma mev_ncb m e : m_ncb (mev m e) = m_ncb m.
Proof.
  unfold mev. destruct e; cbn -[N.eqb]; ncb_tac.
Qed.

Lemma mstep_ncb m o : is_cb o = false -> m_ncb (mstep m o) = m_ncb m.
Proof.
  intros H. destruct o; try discriminate H; cbn [mstep]; try apply mev_ncb; ncb_tac.
Qed.

Lemma clean_cb_count tr : forall m,
  m_ncb m <= 1 -> m_viol (mon_run m tr) = 0 -> (N.to_nat (m_ncb m) + count_cb tr <= 1)%nat.
Proof.
  induction tr as [|o tr IH]; intros m Hn Hz.
  - unfold count_cb. cbn. lia.
  - cbn [mon_run fold_left] in Hz.
    destruct (is_cb o) eqn:C.
    + destruct o; try discriminate C.
      destruct (N.eqb (m_ncb m) 0) eqn:E0.
      * apply N.eqb_eq in E0.
        assert (Hn' : m_ncb (mstep m (BClosedCb completed)) = 1).
        { cbn -[flag N.add N.eqb]. rewrite flag_ncb, E0. reflexivity. }
        specialize (IH (mstep m (BClosedCb completed))).
        rewrite Hn' in IH. specialize (IH ltac:(lia) Hz).
        unfold count_cb in *. cbn [filter is_cb length]. rewrite E0. cbn in *. lia.
      * exfalso.
        assert (B : N.testbit (m_viol (mstep m (BClosedCb completed))) V_END_TWICE = true).
        { cbn [mstep]. rewrite E0.
          change (N.testbit (m_viol (flag V_END_TWICE false m)) V_END_TWICE = true).
          rewrite flag_bit. cbn. apply orb_true_r. }
        pose proof (mon_run_mono tr _ _ B) as K. unfold mon_run in K.
        rewrite (zero_no_bit _ _ Hz) in K. discriminate.
    + specialize (IH (mstep m o)). rewrite (mstep_ncb m o C) in IH.
      specialize (IH Hn Hz). unfold count_cb in *. cbn [filter]. rewrite C. exact IH.
Qed.

(* on every run of the model the end of the connection is reported at most once *)
Theorem closed_reported_at_most_once r stored local es :
  (count_cb (model_trace r stored local es) <= 1)%nat.
Proof.
  pose proof (clean_cb_count (model_trace r stored local es) (init_ms r (negb (is_nil stored)))) as H.
  cbn [m_ncb init_ms] in H. specialize (H ltac:(lia) (conn_monitors_hold r stored local es)).
  cbn in H. exact H.
Qed.
