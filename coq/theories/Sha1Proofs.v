(* Sha1Proofs.v — the executable SHA-1 of Sha1.v satisfies what the C02 theorems assume of
   [sha1] (20 output bytes), and reproduces the FIPS 180 test vectors. *)
From Ship Require Import Base Cert Sha1.

Lemma word_bytes_spec w : length (word_bytes w) = 4%nat /\ forallb is_byte (word_bytes w) = true.
Proof.
  split; [reflexivity|]. unfold word_bytes. cbn [forallb]. unfold is_byte.
  rewrite !andb_true_iff. repeat split; try (apply N.ltb_lt; apply N.mod_lt; lia).
Qed.

Lemma digest_spec s : length (digest s) = 20%nat /\ forallb is_byte (digest s) = true.
Proof.
  destruct s as [[[[h0 h1] h2] h3] h4]. unfold digest. split.
  - rewrite !app_length. repeat rewrite (proj1 (word_bytes_spec _)). reflexivity.
  - rewrite !forallb_app. repeat rewrite (proj2 (word_bytes_spec _)). reflexivity.
Qed.

Lemma sha1_impl_spec : sha1_spec sha1_impl.
Proof. intros x. unfold sha1_impl. apply digest_spec. Qed.

(* FIPS 180-4 / RFC 3174 test vectors *)
Lemma sha1_empty : sha1_impl [] = hx "da39a3ee5e6b4b0d3255bfef95601890afd80709".
Proof. vm_compute. reflexivity. Qed.
Lemma sha1_abc : sha1_impl (hx "616263") = hx "a9993e364706816aba3e25717850c26c9cd0d89d".
Proof. vm_compute. reflexivity. Qed.
(* "abcdbcdecdefdefgefghfghighijhijkijkljklmklmnlmnomnopnopq": 56 bytes, two blocks *)
Lemma sha1_two_blocks :
  sha1_impl (hx "6162636462636465636465666465666765666768666768696768696a68696a6b696a6b6c6a6b6c6d6b6c6d6e6c6d6e6f6d6e6f706e6f7071")
  = hx "84983e441c3bd26ebaae4aa1f95129e5e54670f1".
Proof. vm_compute. reflexivity. Qed.

(* the per-case digest table check_c02 builds is just a memo of sha1_impl *)
Lemma sha1_of_digest_table l x : sha1_of_table (digest_table l) x = sha1_impl x.
Proof.
  induction l as [|dc l IH]; cbn [digest_table map sha1_of_table]; [reflexivity|].
  destruct (bytes_eqb (pubkey (fst dc)) x) eqn:E; [|exact IH].
  apply bytes_eqb_eq in E. rewrite E. reflexivity.
Qed.
