(* MdnsMapProofs.v — lemmas about the entries map of MdnsMap.v (statements in props/C17.v). *)
From Coq Require Import ZArith Permutation.
From Ship Require Import Base Txt TxtProofs MdnsMap.
From ShipGen Require Import MdnsTable.

(* ================================================================== the association list *)
Lemma bytes_eqb_sym a b : bytes_eqb a b = bytes_eqb b a.
Proof.
  destruct (bytes_eqb a b) eqn:E.
  - apply bytes_eqb_eq in E. subst. symmetry. apply bytes_eqb_refl.
  - destruct (bytes_eqb b a) eqn:E'; [|reflexivity]. apply bytes_eqb_eq in E'. subst.
    rewrite bytes_eqb_refl in E. discriminate.
Qed.

Lemma mlookup_mset k v m k' :
  mlookup k' (mset k v m) = if bytes_eqb k' k then Some v else mlookup k' m.
Proof. reflexivity. Qed.

Lemma mlookup_mremove_same k m : mlookup k (mremove k m) = None.
Proof.
  induction m as [|[k' v] m IH]; simpl; [reflexivity|].
  destruct (bytes_eqb k k') eqn:E; simpl; [exact IH|]. rewrite E. exact IH.
Qed.

Lemma mlookup_mremove_other k k' m : bytes_eqb k' k = false -> mlookup k' (mremove k m) = mlookup k' m.
Proof.
  intros H. induction m as [|[k2 v] m IH]; simpl; [reflexivity|].
  destruct (bytes_eqb k k2) eqn:E; simpl.
  - apply bytes_eqb_eq in E. subst k2. rewrite H. exact IH.
  - rewrite IH. reflexivity.
Qed.

(* ================================================================== merging addresses *)
Lemma madd_app acc x y : madd acc (x ++ y) = madd (madd acc x) y.
Proof. unfold madd. apply fold_left_app. Qed.

Lemma madd_cons acc a r :
  madd acc (a :: r) = madd (if existsb (addr_eqb a) acc then acc else acc ++ [a]) r.
Proof. reflexivity. Qed.

Lemma madd_length_ge l : forall acc, (length acc <= length (madd acc l))%nat.
Proof.
  induction l as [|a r IH]; intros acc; [simpl; lia|].
  rewrite madd_cons. destruct (existsb (addr_eqb a) acc); [apply IH|].
  specialize (IH (acc ++ [a])). rewrite app_length in IH. simpl in IH. lia.
Qed.

(* nothing added = unchanged *)
Lemma madd_same l : forall acc, length (madd acc l) = length acc -> madd acc l = acc.
Proof.
  induction l as [|a r IH]; intros acc H; [reflexivity|].
  rewrite madd_cons in *. destruct (existsb (addr_eqb a) acc); [apply IH, H|].
  pose proof (madd_length_ge r (acc ++ [a])) as G. rewrite app_length in G. simpl in G. lia.
Qed.

Lemma madd_dedup x y : madd (dedup x) y = dedup (x ++ y).
Proof. unfold dedup. symmetry. apply madd_app. Qed.

Lemma madd_fresh l : forall acc,
  forallb (fun b => negb (existsb (addr_eqb b) acc)) l = true -> dupfreeb l = true -> madd acc l = acc ++ l.
Proof.
  induction l as [|a r IH]; intros acc HF HD; [symmetry; apply app_nil_r|].
  cbn [forallb] in HF. apply andb_true_iff in HF as [Ha HF].
  cbn [dupfreeb] in HD. apply andb_true_iff in HD as [Hn HD].
  apply negb_true_iff in Ha, Hn. rewrite madd_cons, Ha.
  rewrite IH; [rewrite <- app_assoc; reflexivity| |exact HD].
  apply forallb_forall. intros b Hb. rewrite forallb_forall in HF. specialize (HF b Hb).
  apply negb_true_iff in HF. apply negb_true_iff.
  rewrite existsb_app, HF. cbn [existsb orb]. rewrite orb_false_r.
  destruct (addr_eqb b a) eqn:E; [|reflexivity].
  assert (existsb (addr_eqb a) r = true); [|congruence].
  apply existsb_exists. exists b. split; [exact Hb|]. unfold addr_eqb in *. rewrite bytes_eqb_sym. exact E.
Qed.

Lemma dedup_dupfree l : dupfreeb l = true -> dedup l = l.
Proof.
  intros H. unfold dedup. rewrite madd_fresh; [reflexivity| |exact H].
  apply forallb_forall. intros; reflexivity.
Qed.

(* ================================================================== histories *)
Lemma live_snoc l p : live (l ++ [p]) = if v_remove (snd p) then [] else live l ++ [p].
Proof. unfold live. rewrite fold_left_app. reflexivity. Qed.

Lemma live_in l x : In x (live l) -> In x l.
Proof.
  induction l as [|p l IH] using rev_ind; [intros H; exact H|].
  rewrite live_snoc. destruct (v_remove (snd p)); [intros []|].
  intros H. apply in_app_or in H as [H|H]; apply in_or_app; [left; apply IH, H|right; exact H].
Qed.

Lemma impl_addrs_snoc dn first rest p :
  impl_addrs dn first (rest ++ [p]) = madd (impl_addrs dn first rest) (auaddrs p).
Proof. unfold impl_addrs. rewrite fold_left_app. reflexivity. Qed.

Lemma final_snoc dn own h ev : final dn own (h ++ [ev]) = fst (mstep dn own (final dn own h) ev).
Proof. unfold final, mrun. rewrite fold_left_app. reflexivity. Qed.

(* the code accepts exactly the records the property calls valid (Txt.validation_agrees) *)
Lemma spec_entry_agrees own ev : spec_entry own ev = ev_entry own ev.
Proof.
  unfold spec_entry, ev_entry. rewrite <- validation_agrees.
  destruct (entry_of_txt own (v_txt ev)); reflexivity.
Qed.

Lemma annotate_snoc own h ev : annotate own (h ++ [ev]) = annotate own h ++ [(ev_entry own ev, ev)].
Proof. unfold annotate. rewrite map_app. cbn [map]. rewrite spec_entry_agrees. reflexivity. Qed.

Lemma filter_snoc {A} (f : A -> bool) l x : filter f (l ++ [x]) = filter f l ++ (if f x then [x] else []).
Proof. rewrite filter_app. reflexivity. Qed.

Lemma live_filter_some ski ah first rest :
  live (filter (is_ski ski) ah) = first :: rest -> exists e, fst first = Some e /\ e_ski e = ski.
Proof.
  intros H. assert (HI : In first (live (filter (is_ski ski) ah))) by (rewrite H; left; reflexivity).
  apply live_in in HI. apply filter_In in HI as [_ HI]. unfold is_ski in HI.
  destruct (fst first) as [e|]; [|discriminate]. exists e. split; [reflexivity|apply bytes_eqb_eq, HI].
Qed.

(* ================================================================== (a) refinement *)
(* the entries map after any history is, service by service, what the specification of the
   code as it is says *)
Lemma refinement_faithful dn own h : forall ski, mlookup ski (final dn own h) = spec_faithful dn own h ski.
Proof.
  induction h as [|ev h IH] using rev_ind; intros ski; [reflexivity|].
  rewrite final_snoc. unfold spec_faithful. rewrite annotate_snoc, filter_snoc.
  set (m := final dn own h) in *.
  unfold mstep. unfold is_ski at 2. cbn [fst snd].
  destruct (ev_entry own ev) as [e|] eqn:EE.
  2:{ cbn [fst]. rewrite app_nil_r. apply IH. }
  destruct (bytes_eqb (e_ski e) ski) eqn:EK.
  - (* the event concerns this service *)
    apply bytes_eqb_eq in EK. subst ski.
    rewrite live_snoc. cbn [snd].
    specialize (IH (e_ski e)). unfold spec_faithful in IH.
    destruct (mlookup (e_ski e) m) as [old|] eqn:EL; destruct (v_remove ev) eqn:ER; cbn [fst].
    + apply mlookup_mremove_same.
    + destruct (live (filter (is_ski (e_ski e)) (annotate own h))) as [|first rest] eqn:ELV; [discriminate IH|].
      cbn [app]. rewrite impl_addrs_snoc. unfold auaddrs at 1. cbn [snd].
      unfold entry_with in *. destruct (fst first) as [e0|]; [|discriminate IH].
      inversion IH as [Hold]. clear IH. subst old. cbn [f_addrs f_e f_name f_host f_port].
      destruct (length (madd (impl_addrs dn first rest) (uaddrs ev)) =? length (impl_addrs dn first rest))%nat eqn:EN; cbn [fst].
      * apply Nat.eqb_eq in EN. rewrite (madd_same _ _ EN). rewrite EL. reflexivity.
      * rewrite mlookup_mset, bytes_eqb_refl. reflexivity.
    + rewrite EL. reflexivity.
    + destruct (live (filter (is_ski (e_ski e)) (annotate own h))) as [|first rest] eqn:ELV.
      * cbn [app]. rewrite mlookup_mset, bytes_eqb_refl. unfold entry_with, impl_addrs. cbn [fst snd fold_left].
        reflexivity.
      * exfalso. destruct (live_filter_some _ _ _ _ ELV) as [e0 [H0 _]].
        unfold entry_with in IH. rewrite H0 in IH. discriminate IH.
  - (* it concerns another one: this service's binding is untouched *)
    rewrite app_nil_r. specialize (IH ski). unfold spec_faithful in IH. rewrite <- IH. clear IH.
    assert (EK' : bytes_eqb ski (e_ski e) = false) by (rewrite bytes_eqb_sym; exact EK).
    destruct (mlookup (e_ski e) m) as [old|]; destruct (v_remove ev); cbn [fst]; try reflexivity.
    + apply mlookup_mremove_other, EK'.
    + destruct (length (madd (f_addrs old) (uaddrs ev)) =? length (f_addrs old))%nat; cbn [fst]; [reflexivity|].
      rewrite mlookup_mset, EK'. reflexivity.
    + rewrite mlookup_mset, EK'. reflexivity.
Qed.

Lemma impl_addrs_dedup dn first rest :
  first_addrs dn (snd first) = dedup (auaddrs first) ->
  impl_addrs dn first rest = dedup (flat_map auaddrs (first :: rest)).
Proof.
  intros H. unfold impl_addrs. rewrite H. cbn [flat_map].
  generalize (auaddrs first) as x. induction rest as [|p r IH]; intros x; cbn [fold_left flat_map].
  - rewrite app_nil_r. reflexivity.
  - rewrite madd_dedup, IH, app_assoc. reflexivity.
Qed.

(* the full statement: the map is [spec] of the history, if new entries are de-duplicated or
   no event carries the same usable address twice *)
Lemma refinement dn own h :
  dn = true \/ Forall (fun ev => dupfreeb (uaddrs ev) = true) h ->
  forall ski, mlookup ski (final dn own h) = spec own h ski.
Proof.
  intros HD ski. rewrite refinement_faithful. unfold spec_faithful, spec, spec_ann.
  destruct (live (filter (is_ski ski) (annotate own h))) as [|first rest] eqn:ELV; [reflexivity|].
  f_equal. apply impl_addrs_dedup. unfold first_addrs, auaddrs.
  destruct HD as [->|HF]; [reflexivity|].
  destruct dn; [reflexivity|]. symmetry. apply dedup_dupfree.
  assert (HI : In first (live (filter (is_ski ski) (annotate own h)))) by (rewrite ELV; left; reflexivity).
  apply live_in in HI. apply filter_In in HI as [HI _]. unfold annotate in HI.
  apply in_map_iff in HI as [ev [<- Hev]]. cbn [snd]. rewrite Forall_forall in HF. apply HF, Hev.
Qed.

(* a valid record and an address, for the witnesses *)
Definition w_rec (k : nat) : elements := nth k std_recs [].
Definition w_addr : addr := nth 2 std_atab no_addr.
Definition w_ev (k : nat) (i : Z) (addrs : list addr) (rm : bool) : mev :=
  {| v_txt := w_rec k; v_name := [110]; v_host := [104]; v_addrs := addrs; v_port := i; v_remove := rm |}.

(* without de-duplication of a new entry: one add that carries the same address twice *)
Lemma first_add_keeps_duplicates :
  exists own h ski, mlookup ski (final false own h) <> spec own h ski.
Proof.
  exists [111], [w_ev 0 1 [w_addr; w_addr] false], (bs "s1"). vm_compute. discriminate.
Qed.

(* ================================================================== (b) reports *)
Lemma reports_snoc dn own h ev : forall m,
  reports dn own m (h ++ [ev]) =
  reports dn own m h ++ (if snd (mstep dn own (mrun dn own m h) ev) then [fst (mstep dn own (mrun dn own m h) ev)] else []).
Proof.
  induction h as [|x h IH]; intros m; cbn [app reports].
  - rewrite app_nil_r. reflexivity.
  - rewrite IH, app_assoc. reflexivity.
Qed.

Lemma mstep_unchanged dn own m ev : snd (mstep dn own m ev) = false -> fst (mstep dn own m ev) = m.
Proof.
  unfold mstep. destruct (ev_entry own ev); [|reflexivity].
  destruct (mlookup (e_ski m0) m); destruct (v_remove ev); cbn [fst snd]; try reflexivity; try discriminate.
  destruct (length (madd (f_addrs f) (uaddrs ev)) =? length (f_addrs f))%nat; cbn [fst snd]; [reflexivity|discriminate].
Qed.

(* delivered in spawn order, the last report is the final map (and if there never was a
   report the map is still empty) *)
Lemma last_report_in_order dn own h :
  match last (map Some (reports dn own [] h)) None with
  | Some s => s = final dn own h
  | None => final dn own h = []
  end.
Proof.
  induction h as [|ev h IH] using rev_ind; [reflexivity|].
  rewrite reports_snoc, final_snoc. fold (final dn own h).
  destruct (snd (mstep dn own (final dn own h) ev)) eqn:EU.
  - rewrite map_app. cbn [map]. rewrite last_last. reflexivity.
  - rewrite app_nil_r, (mstep_unchanged _ _ _ _ EU). exact IH.
Qed.

(* in any order: every report is the map as it was after some prefix of the history *)
Lemma report_is_prefix_state dn own h r :
  In r (reports dn own [] h) -> exists h1 h2, h = h1 ++ h2 /\ r = final dn own h1.
Proof.
  induction h as [|ev h IH] using rev_ind; [intros []|].
  rewrite reports_snoc. fold (final dn own h). intros H. apply in_app_or in H as [H|H].
  - destruct (IH H) as [h1 [h2 [-> ->]]]. exists h1, (h2 ++ [ev]). rewrite app_assoc. split; reflexivity.
  - destruct (snd (mstep dn own (final dn own h) ev)); [|contradiction].
    destruct H as [<-|[]]. exists (h ++ [ev]), []. rewrite app_nil_r, final_snoc. split; reflexivity.
Qed.

Lemma any_order_report_is_prefix_state dn own h p r :
  Permutation p (reports dn own [] h) -> In r p -> exists h1 h2, h = h1 ++ h2 /\ r = final dn own h1.
Proof. intros HP HI. apply (report_is_prefix_state dn own h r). eapply Permutation_in; eassumption. Qed.

(* delivered by independent goroutines, the order is not the spawn order: two services
   appear one after the other, the report of the second change overtakes the first, and the
   last report the application sees shows one service while two are visible *)
Lemma last_report_inverted dn :
  exists own h p, Permutation p (reports dn own [] h) /\ last p [] <> final dn own h.
Proof.
  exists [111], [w_ev 0 1 [w_addr] false; w_ev 1 2 [w_addr] false].
  eexists. split.
  - replace (reports dn [111] [] [w_ev 0 1 [w_addr] false; w_ev 1 2 [w_addr] false])
      with [final dn [111] [w_ev 0 1 [w_addr] false]; final dn [111] [w_ev 0 1 [w_addr] false; w_ev 1 2 [w_addr] false]]
      by (destruct dn; vm_compute; reflexivity).
    apply perm_swap.
  - destruct dn; vm_compute; discriminate.
Qed.

(* the hypotheses of [refinement] are satisfiable by a history that exercises merge, remove
   and re-add, and on it the map has the expected shape *)
Lemma refinement_example :
  let h := [w_ev 0 1 [w_addr] false; w_ev 0 2 [nth 0 std_atab no_addr; nth 3 std_atab no_addr] false;
            w_ev 1 3 [w_addr] false; w_ev 0 4 [] true; w_ev 0 5 [nth 4 std_atab no_addr] false] in
  Forall (fun ev => dupfreeb (uaddrs ev) = true) h
  /\ option_map (fun f => (f_port f, map a_text (f_addrs f))) (spec [111] h (bs "s1")) = Some (5%Z, [bs "2001:db8::1"])
  /\ option_map (fun f => (f_port f, map a_text (f_addrs f))) (spec [111] h (bs "s2")) = Some (3%Z, [bs "10.0.0.2"]).
Proof. cbv zeta. split; [repeat constructor|split; vm_compute; reflexivity]. Qed.

(* ================================================================== what the source does now *)
(* needs the repaired behaviour: stops compiling if a new entry's address list is stored
   without de-duplication again *)
Lemma now_dedup : dedup_new_entry = true.
Proof. reflexivity. Qed.

Lemma refinement_now own h ski : mlookup ski (final dedup_new_entry own h) = spec own h ski.
Proof. apply refinement. left. exact now_dedup. Qed.
