(* HubConv.v — C05: two paired hubs that see each other converge to one connection.
   Definitions only (model, monitors, case checker); proofs are in HubConvProofs.v.

   Part (a): the double-connection rule of hub.keepThisConnection as a pure function over
   SKI byte strings (Go's string comparison = lexicographic order on bytes).

   Part (b): an interleaving model of TWO hubs A and B (hub/hub_connections.go,
   hub_shipconnection.go, hub_mdns.go, hub.go).  Per hub: peer visible, attempt counter
   (none/0/1/2), attempt-running flag, up to two pending delayed dials (each with the counter
   value it was created with), up to two pending mDNS report goroutines.  Up to three
   connection objects, each with its initiator and, per side, a life cycle
   (arrived = TLS and websocket upgrade done, keepThisConnection not yet called | handshaking |
   complete | closing | closed) and a registration status (registerConnection still to come |
   registered | not registered).  keepThisConnection, registerConnection and
   HandleConnectionClosed are separate atomic steps, as they are separate critical sections
   of muxCon in the code.  The SHIP handshake of a connection is abstracted to
   handshaking -> complete per side (C03: two endpoints with trust on both sides complete).

   cfg: which hub has the larger SKI; whether registration re-checks (the repaired code) or
   overwrites unconditionally (the pinned code); whether a hub's check..register sequence is
   atomic (the hypothesis of the partial theorem); whether a dropped stale dial attempt looks
   at the known mDNS entries again. *)
From Coq Require Import FMapPositive.
From Ship Require Import Base Closure.

(* ------------------------------------------------------------------------------------ *)
(* (a) the double-connection rule                                                        *)
(* ------------------------------------------------------------------------------------ *)

(* Go: s < t on strings = lexicographic on bytes, a proper prefix is smaller *)
Fixpoint blt (a b : bytes) : bool :=
  match a, b with
  | [], [] => false
  | [], _ :: _ => true
  | _ :: _, [] => false
  | x :: a', y :: b' => if N.ltb x y then true else if N.eqb x y then blt a' b' else false
  end.
Definition bgt (a b : bytes) : bool := blt b a.

(* keepThisConnection with a registered connection present: keep the NEW connection? *)
Definition keep_new (incoming : bool) (local remote : bytes) : bool :=
  if incoming then bgt remote local else bgt local remote.

(* keepThisConnection: no registered connection -> true *)
Definition keep_this (existing incoming : bool) (local remote : bytes) : bool :=
  if existing then keep_new incoming local remote else true.

(* Two hubs with SKIs x and y and two simultaneous connections: cx initiated by x, cy by y.
   At hub x, cx is outgoing and cy incoming; at hub y the other way round.  `first` is the
   connection a hub registered first; the other one arrives second.  Result: does the hub
   end up with cx? *)
Definition hub_x_keeps_cx (x y : bytes) (cx_first : bool) : bool :=
  if cx_first then negb (keep_new true x y)      (* cy arrives second, incoming at x *)
  else keep_new false x y.                       (* cx arrives second, outgoing at x *)
Definition hub_y_keeps_cx (x y : bytes) (cx_first : bool) : bool :=
  if cx_first then negb (keep_new false y x)     (* cy arrives second, outgoing at y *)
  else keep_new true y x.                        (* cx arrives second, incoming at y *)

(* ------------------------------------------------------------------------------------ *)
(* (b) the two-hub interleaving model.  HA is the hub with the LARGER SKI.               *)
(* ------------------------------------------------------------------------------------ *)

Inductive hid := HA | HB.
(* a side of a connection object: arrived (TLS + websocket upgrade done, keepThisConnection
   not yet called) | live (ShipConnection created and Run: handshaking or complete; by C03
   two trusting endpoints complete) | closing (CloseConnection requested or transport lost,
   HandleConnectionClosed not yet run) | closed *)
Inductive life := LArr | LLive | LClg | LClosed.
Inductive rgs := RPend | RYes | RNo.         (* registerConnection still to come | registered | not *)
Inductive ctr := KN | K0 | K1 | K2.          (* attempt counter / pending snapshot; KN = none *)

Record conn := mkConn {
  c_used : bool; c_ini : hid;
  c_la : life; c_ra : rgs;                   (* the side at hub A *)
  c_lb : life; c_rb : rgs }.                 (* the side at hub B *)

Record hubst := mkHub {
  h_vis : bool;                              (* the peer's mDNS entry is known *)
  h_ctr : ctr; h_run : bool;                 (* connectionAttemptCounter / ...Running *)
  h_p1 : ctr; h_p2 : ctr;                    (* pending delayed dials: counter snapshots *)
  h_rep : bool }.                            (* a ReportMdnsEntries goroutine not yet run *)

Record st := mkSt { s_a : hubst; s_b : hubst; s_c1 : conn; s_c2 : conn; s_c3 : conn }.

Record cfg := mkCfg {
  fixed : bool;       (* registration re-checks: closed -> not registered; another one
                         registered -> the double-connection rule decides, loser is closed *)
  atomic : bool;      (* keepThisConnection .. Run .. registerConnection of a hub is one step *)
  refire : bool }.    (* a dial attempt dropped because its counter is stale calls
                         checkAutoReannounce *)

Scheme Equality for hid.
Scheme Equality for life.
Scheme Equality for rgs.
Scheme Equality for ctr.
Scheme Equality for conn.
Scheme Equality for hubst.
Scheme Equality for st.

Definition other (h : hid) : hid := match h with HA => HB | HB => HA end.
Definition larger : hid := HA.

Definition no_conn : conn := mkConn false HA LClosed RNo LClosed RNo.
Definition hub0 : hubst := mkHub false KN false KN KN false.
Definition init : st := mkSt hub0 hub0 no_conn no_conn no_conn.

(* ---- accessors ---- *)
Definition gl (h : hid) (c : conn) : life := match h with HA => c_la c | HB => c_lb c end.
Definition gr (h : hid) (c : conn) : rgs := match h with HA => c_ra c | HB => c_rb c end.
Definition set_side (h : hid) (c : conn) (l : life) (r : rgs) : conn :=
  match h with
  | HA => mkConn (c_used c) (c_ini c) l r (c_lb c) (c_rb c)
  | HB => mkConn (c_used c) (c_ini c) (c_la c) (c_ra c) l r
  end.
Definition hub (h : hid) (s : st) : hubst := match h with HA => s_a s | HB => s_b s end.
Definition set_hub (h : hid) (s : st) (x : hubst) : st :=
  match h with
  | HA => mkSt x (s_b s) (s_c1 s) (s_c2 s) (s_c3 s)
  | HB => mkSt (s_a s) x (s_c1 s) (s_c2 s) (s_c3 s)
  end.
Definition conns (s : st) : list conn := [s_c1 s; s_c2 s; s_c3 s].

Definition life_n (l : life) : N := match l with LArr => 0 | LLive => 1 | LClg => 2 | LClosed => 3 end.
Definition rgs_n (r : rgs) : N := match r with RPend => 0 | RYes => 1 | RNo => 2 end.
Definition ctr_n (k : ctr) : N := match k with KN => 0 | K0 => 1 | K1 => 2 | K2 => 3 end.
Definition b_n (b : bool) : N := if b then 1 else 0.
(* lexicographic in (used, initiator, life A, reg A, life B, reg B) *)
Definition conn_key (c : conn) : N :=
  ((((b_n (c_used c) * 2 + (match c_ini c with HA => 0 | HB => 1 end)) * 4 + life_n (c_la c)) * 3
    + rgs_n (c_ra c)) * 4 + life_n (c_lb c)) * 3 + rgs_n (c_rb c).
Definition hub_key (x : hubst) : N :=
  b_n (h_vis x) + 2 * (ctr_n (h_ctr x) + 4 * (b_n (h_run x) + 2 * (ctr_n (h_p1 x) + 4 * (ctr_n (h_p2 x) + 4 * b_n (h_rep x))))).
Definition st_hash (s : st) : positive :=
  N.succ_pos (hub_key (s_a s) + 512 * (hub_key (s_b s) + 512 *
             (conn_key (s_c1 s) + 1024 * (conn_key (s_c2 s) + 1024 * conn_key (s_c3 s))))).

(* ---- canonical form: dead objects are forgotten, slots sorted, pendings sorted ---- *)
Definition dead (c : conn) : bool :=
  match c_la c, c_ra c, c_lb c, c_rb c with
  | LClosed, RNo, LClosed, RNo => true
  | _, _, _, _ => false
  end.
Definition tidy (c : conn) : conn := if c_used c then (if dead c then no_conn else c) else no_conn.
Definition sort2 (x y : conn) : conn * conn := if conn_key y <? conn_key x then (y, x) else (x, y).
Definition sort3 (x y z : conn) : conn * conn * conn :=
  let '(x, y) := sort2 x y in
  let '(y, z) := sort2 y z in
  let '(x, y) := sort2 x y in (x, y, z).
Definition norm_hub (x : hubst) : hubst :=
  let '(p, q) := if ctr_n (h_p1 x) <? ctr_n (h_p2 x) then (h_p2 x, h_p1 x) else (h_p1 x, h_p2 x) in
  mkHub (h_vis x) (h_ctr x) (h_run x) p q (h_rep x).
Definition norm (s : st) : st :=
  let '(x, y, z) := sort3 (tidy (s_c1 s)) (tidy (s_c2 s)) (tidy (s_c3 s)) in
  mkSt (norm_hub (s_a s)) (norm_hub (s_b s)) x y z.

Definition nth_conn (i : N) (s : st) : conn :=
  match i with 0 => s_c1 s | 1 => s_c2 s | _ => s_c3 s end.
Definition set_conn (i : N) (s : st) (c : conn) : st :=
  match i with
  | 0 => mkSt (s_a s) (s_b s) c (s_c2 s) (s_c3 s)
  | 1 => mkSt (s_a s) (s_b s) (s_c1 s) c (s_c3 s)
  | _ => mkSt (s_a s) (s_b s) (s_c1 s) (s_c2 s) c
  end.
Definition map_conns (f : N -> conn -> conn) (s : st) : st :=
  mkSt (s_a s) (s_b s) (f 0 (s_c1 s)) (f 1 (s_c2 s)) (f 2 (s_c3 s)).

(* ---- the registry of hub h, derived: the connection whose h-side is registered ---- *)
Definition is_reg (h : hid) (c : conn) : bool :=
  c_used c && match gr h c with RYes => true | _ => false end.
Definition connected (h : hid) (s : st) : bool := existsb (is_reg h) (conns s).
Definition n_reg (h : hid) (s : st) : nat := length (filter (is_reg h) (conns s)).

Definition inc_ctr (k : ctr) : ctr := match k with KN => K0 | K0 => K1 | K1 => K2 | K2 => K2 end.
Definition is_kn (k : ctr) : bool := match k with KN => true | _ => false end.

Definition add_rep (h : hid) (s : st) : st :=
  let x := hub h s in
  set_hub h s (mkHub (h_vis x) (h_ctr x) (h_run x) (h_p1 x) (h_p2 x) true).
(* checkAutoReannounce: one paired peer; more paired services than connections = not
   connected -> RequestMdnsEntries -> a report goroutine *)
Definition reannounce (h : hid) (s : st) : st := if connected h s then s else add_rep h s.

(* go c.CloseConnection(false,0,"") : the side will run its close path *)
Definition closing_of (l : life) : life := match l with LLive => LClg | x => x end.
Definition start_close (h : hid) (c : conn) : conn := set_side h c (closing_of (gl h c)) (gr h c).

(* ---- steps ---- *)
Inductive label :=
| TReport (h : hid)
| TFire (h : hid) (second : bool) | TFireBoth
| TCheck (h : hid) (i : N) | TRegister (h : hid) (i : N)
| TClose (h : hid) (i : N) (completed : bool)
(* environment *)
| EVisible (h : hid) | EFireFail (h : hid) (second : bool)
| EDisconnect (h : hid) | ECut (i : N) | ERestart (h : hid).

Definition free_slot (s : st) : option N :=
  if negb (c_used (s_c1 s)) then Some 0 else if negb (c_used (s_c2 s)) then Some 1
  else if negb (c_used (s_c3 s)) then Some 2 else None.

(* the registration decision for connection i at hub h *)
Definition do_register (c : cfg) (h : hid) (i : N) (s : st) : st :=
  let k := nth_conn i s in
  if fixed c then
    match gl h k with
    | LClosed => set_conn i s (set_side h k LClosed RNo)
    | _ =>
        if existsb (fun j => negb (N.eqb j i) && is_reg h (nth_conn j s)) [0; 1; 2] then
          if hid_beq (c_ini k) larger then
            (* keep the new one: it replaces the registered one, which is closed *)
            map_conns (fun j x => if N.eqb j i then set_side h x (gl h x) RYes
                                  else if is_reg h x then start_close h (set_side h x (gl h x) RNo) else x) s
          else set_conn i s (start_close h (set_side h k (gl h k) RNo))
        else set_conn i s (set_side h k (gl h k) RYes)
    end
  else
    (* h.connections[ski] = connection *)
    map_conns (fun j x => if N.eqb j i then set_side h x (gl h x) RYes
                          else if is_reg h x then set_side h x (gl h x) RNo else x) s.

(* prepareConnectionInitation of one pending dial; ok = the dial succeeds *)
Definition fire (c : cfg) (h : hid) (second ok : bool) (s : st) : option st :=
  let x := hub h s in
  let p := if second then h_p2 x else h_p1 x in
  if is_kn p then None else
  let x' := if second then mkHub (h_vis x) (h_ctr x) false (h_p1 x) KN (h_rep x)
            else mkHub (h_vis x) (h_ctr x) false (h_p2 x) KN (h_rep x) in
  let s1 := set_hub h s x' in
  if negb (ctr_beq (h_ctr x) p) then Some (if refire c then reannounce h s1 else s1)
  else if connected h s1 then Some s1
  else if ok then
    match free_slot s1 with
    | Some i => Some (set_conn i s1 (mkConn true h LArr RNo LArr RNo))
    | None => None                                   (* bound: three objects in flight *)
    end
  else Some (reannounce h s1).

Definition step (c : cfg) (s : st) (l : label) : option st :=
  match l with
  | TReport h =>
      (* ReportMdnsEntries -> coordinateConnectionInitations *)
      let x := hub h s in
      if h_rep x then
        if negb (h_vis x) || connected h s || h_run x
        then Some (set_hub h s (mkHub (h_vis x) (h_ctr x) (h_run x) (h_p1 x) (h_p2 x) false))
        else if negb (is_kn (h_p2 x)) then None      (* bound: two pending dials per hub *)
        else let k := inc_ctr (h_ctr x) in
             Some (set_hub h s (mkHub (h_vis x) k true (h_p1 x) k false))
      else None
  | TFire h second => fire c h second true s
  | TFireBoth =>
      match fire c HA false true s with
      | Some s1 => fire c HB false true s1
      | None => None
      end
  | EFireFail h second => fire c h second false s
  | TCheck h i =>
      (* keepThisConnection; on success NewConnectionHandler and Run *)
      let k := nth_conn i s in
      if c_used k && life_beq (gl h k) LArr then
        let pass := set_conn i s (set_side h k LLive RPend) in
        if connected h s then
          if hid_beq (c_ini k) larger then
            (* keep the new one; the registered one is closed asynchronously *)
            let s1 := map_conns (fun j x => if is_reg h x then start_close h x else x) pass in
            Some (if atomic c then do_register c h i s1 else s1)
          else
            (* conn.Close / websocket close; an outgoing attempt failed: checkAutoReannounce *)
            Some (reannounce h (set_conn i s (set_side h k LClosed RNo)))
        else Some (if atomic c then do_register c h i pass else pass)
      else None
  | TRegister h i =>
      let k := nth_conn i s in
      if c_used k && rgs_beq (gr h k) RPend && negb (life_beq (gl h k) LArr)
      then Some (do_register c h i s) else None
  | TClose h i completed =>
      (* the side's close path: its own CloseConnection, or it notices that the peer closed;
         CloseDataConnection, then HandleConnectionClosed(c, completed) - the handshake may or
         may not have been complete at that moment: both are possible *)
      let k := nth_conn i s in
      let l := gl h k in
      let own := life_beq l LClg in
      let seen := life_beq l LLive && life_beq (gl (other h) k) LClosed in
      if c_used k && (own || seen) then
        let had_reg := connected h s in
        let r' := match gr h k with RYes => RNo | r => r end in     (* only the identical object *)
        let s1 := set_conn i s (set_side h k LClosed r') in
        let x := hub h s1 in
        let s2 := if had_reg && completed
                  then set_hub h s1 (mkHub (h_vis x) KN (h_run x) (h_p1 x) (h_p2 x) (h_rep x)) else s1 in
        Some (reannounce h s2)
      else None
  | EVisible h =>
      let x := hub h s in
      if h_vis x then None
      else Some (add_rep h (set_hub h s (mkHub true (h_ctr x) (h_run x) (h_p1 x) (h_p2 x) (h_rep x))))
  | EDisconnect h =>
      if connected h s
      then Some (map_conns (fun j x => if is_reg h x then start_close h x else x) s) else None
  | ECut i =>
      let k := nth_conn i s in
      if c_used k && life_beq (c_la k) LLive && life_beq (c_lb k) LLive
      then Some (set_conn i s (start_close HA (start_close HB k))) else None
  | ERestart h =>
      (* the process of hub h is replaced: nothing of it survives; the peer's sides of the
         connections lose their transport; both hubs get a fresh mDNS report *)
      let x := hub h s in
      if h_vis x then
        let s1 := map_conns (fun j k => if c_used k
                    then start_close (other h) (set_side h k LClosed RNo) else k) s in
        let s2 := map_conns (fun j k => if c_used k && life_beq (gl (other h) k) LArr
                    then set_side (other h) k LClosed RNo else k) s1 in
        Some (add_rep (other h) (set_hub h s2 (mkHub true KN false KN KN true)))
      else None
  end.

Definition hids : list hid := [HA; HB].
Definition own_labels : list label :=
  flat_map (fun h => TReport h ::
              flat_map (fun i => [TCheck h i; TRegister h i; TClose h i false; TClose h i true]) [0; 1; 2]) hids.
Definition timer_labels : list label :=
  [TFire HA false; TFire HA true; TFire HB false; TFire HB true; TFireBoth].
(* disturbances that may hit at any moment / only a system whose own steps have settled *)
Definition env_any : list label :=
  flat_map (fun h => [EVisible h; EFireFail h false; EFireFail h true; ERestart h]) hids.
Definition env_settled : list label := [EDisconnect HA; EDisconnect HB; ECut 0; ECut 1; ECut 2].

Definition succs (c : cfg) (s : st) (ls : list label) : list st :=
  flat_map (fun l => match step c s l with Some s' => [norm s'] | None => [] end) ls.

(* quiet: the system's own steps; dial timers expire only when nothing else can happen
   (one of them, or the first one of both hubs at the same moment) *)
Definition quiet (c : cfg) (s : st) : list st :=
  match succs c s own_labels with
  | [] => succs c s timer_labels
  | l => l
  end.
(* all steps: additionally the environment's disturbances, in any number and order *)
Definition next (c : cfg) (s : st) : list st :=
  quiet c s ++ succs c s env_any
  ++ match succs c s own_labels with [] => succs c s env_settled | _ => [] end.

(* ---- monitors ---- *)
Definition side_ok (h : hid) (k : conn) : bool :=
  life_beq (gl h k) LLive && rgs_beq (gr h k) RYes.
Definition hub_idle (x : hubst) : bool := is_kn (h_p1 x) && is_kn (h_p2 x) && negb (h_rep x).
Definition n_used (s : st) : nat := length (filter c_used (conns s)).

(* the converged state: exactly one connection object, live and registered on both sides
   (the same object), nothing else alive, nothing pending *)
Definition converged (s : st) : bool :=
  Nat.eqb (n_used s) 1
  && forallb (fun k => negb (c_used k) || (side_ok HA k && side_ok HB k)) (conns s)
  && hub_idle (s_a s) && hub_idle (s_b s).

(* (c) registry: at most one registered connection per hub *)
Definition reg_inv (s : st) : bool := Nat.leb (n_reg HA s) 1 && Nat.leb (n_reg HB s) 1.

(* both hubs see each other: the premise of the property *)
Definition both_visible (s : st) : bool := h_vis (s_a s) && h_vis (s_b s).

Definition final_ok (c : cfg) (s : st) : bool :=
  match quiet c s with
  | [] => implb (both_visible s) (converged s)
  | _ => true
  end.
Definition state_ok (c : cfg) (s : st) : bool := reg_inv s && final_ok c s.

(* ---- classification of a quiescent observation (used on the implementation's own
        observations and on the model's terminal states) ---- *)
Record qobs := mkQ {
  q_tcp : N;                 (* live TCP connections between the hubs (through the proxies) *)
  q_reg_a : bool; q_reg_b : bool;       (* a registry entry for the peer *)
  q_same : bool;             (* both registered connections are the two ends of one TCP connection *)
  q_dead_a : bool; q_dead_b : bool;     (* the registered connection is a closed one *)
  q_cpl_a : bool; q_cpl_b : bool;       (* the registered connection is complete *)
  q_live_a : N; q_live_b : N;           (* connections set up and not yet reported closed *)
  q_echo_ab : bool; q_echo_ba : bool }. (* a SPINE payload sent through the registered
                                           connection arrived at the peer's application *)

Definition qobs_good (q : qobs) : bool :=
  N.eqb (q_tcp q) 1 && q_reg_a q && q_reg_b q && q_same q && negb (q_dead_a q) && negb (q_dead_b q)
  && q_cpl_a q && q_cpl_b q
  && N.eqb (q_live_a q) 1 && N.eqb (q_live_b q) 1 && q_echo_ab q && q_echo_ba q.

(* failure classes, by trigger *)
Definition qobs_codes (simultaneous : bool) (q : qobs) : codes :=
  if qobs_good q then [] else
  if q_dead_a q || q_dead_b q || (N.eqb (q_tcp q) 0 && (q_reg_a q || q_reg_b q)) then [12]  (* a closed connection is registered *)
  else if N.eqb (q_tcp q) 0 then [11]                                           (* zero connections *)
  else if (2 <=? q_tcp q) && ((2 <=? q_live_a q) || (2 <=? q_live_b q)) then
    (if simultaneous then [10] else [13])                                       (* two completed connections *)
  else if (2 <=? q_tcp q) then [14]                                             (* unregistered extra connection *)
  else if q_reg_a q && q_reg_b q && negb (q_same q) then [15]                   (* different objects kept *)
  else if negb (q_reg_a q && q_reg_b q) then [16]                               (* live connection not registered on a side *)
  else if negb (q_cpl_a q && q_cpl_b q) then [17]                               (* not complete *)
  else [18].                                                                    (* payload not delivered *)

(* the model's view of a state as such an observation *)
Definition live_side (h : hid) (k : conn) : bool :=
  c_used k && match gl h k with LLive | LClg => true | _ => false end.
Definition cpl_side (h : hid) (k : conn) : bool := live_side h k.
Definition nb (l : list bool) : N := N.of_nat (length (filter (fun b => b) l)).
Definition obs_of (s : st) : qobs :=
  let cs := conns s in
  let both k := live_side HA k && live_side HB k in
  let ra := filter (is_reg HA) cs in
  let rb := filter (is_reg HB) cs in
  let ok := existsb (fun k => is_reg HA k && is_reg HB k && both k && side_ok HA k && side_ok HB k) cs in
  mkQ (nb (map both cs))
      (connected HA s) (connected HB s)
      (existsb (fun k => is_reg HA k && is_reg HB k) cs)
      (existsb (fun k => is_reg HA k && negb (live_side HA k)) cs)
      (existsb (fun k => is_reg HB k && negb (live_side HB k)) cs)
      (existsb (fun k => is_reg HA k && cpl_side HA k) cs)
      (existsb (fun k => is_reg HB k && cpl_side HB k) cs)
      (nb (map (cpl_side HA) cs)) (nb (map (cpl_side HB) cs))
      ok ok.

(* ---- schedules (for the witnesses) ---- *)
Fixpoint run (c : cfg) (s : st) (ls : list label) : option st :=
  match ls with
  | [] => Some s
  | l :: r =>
      match step c s l with
      | Some s' => if existsb (st_beq (norm s')) (next c s) then run c (norm s') r else None
      | None => None
      end
  end.

(* the configurations *)
Definition cfg_pinned : cfg := mkCfg false false false.     (* the code before the repairs *)
Definition cfg_atomic : cfg := mkCfg false true false.      (* ... with check..register atomic per hub *)
Definition cfg_norefire : cfg := mkCfg true false false.    (* registration repaired only *)
Definition cfg_repaired : cfg := mkCfg true false true.     (* the current code *)

(* ------------------------------------------------------------------------------------ *)
(* case stream: unit cases of rule (a), registry cases of (c), system scenarios of (b)   *)
(* ------------------------------------------------------------------------------------ *)
Inductive c05_case :=
(* hub with SKI `local`, a registered connection or not, VerifKeepThisConnection(incoming, remote) = got *)
| CKeep (existing incoming : bool) (local remote : bytes) (got : bool)
(* registry: register c1, then (second) register c2 for the same SKI; HandleConnectionClosed
   of connection `closed` (1 or 2); observed: number of entries, which one is left (0 = none) *)
| CReg (second : bool) (closed : N) (n_entries : N) (remaining : N)
(* two real hubs at quiescence; simultaneous = both hubs were made visible at the same moment *)
| CSys (simultaneous : bool) (q : qobs).

Definition reg_model (second : bool) (closed : N) : N * N :=
  let registered := if second then 2 else 1 in
  if N.eqb closed registered then (0, 0) else (1, registered).

Definition check_c05 (c : c05_case) : codes :=
  match c with
  | CKeep e i l r got =>
      (if Bool.eqb (keep_this e i l r) got then [] else [1])
      (* monitor on the implementation's own answers: with a registered connection the new one
         is kept iff it was initiated by the larger SKI *)
      ++ (if e && negb (bytes_eqb l r) && negb (Bool.eqb got (if i then bgt r l else bgt l r)) then [20] else [])
  | CReg second closed n remaining =>
      let '(mn, ml) := reg_model second closed in
      (if N.eqb mn n && N.eqb ml remaining then [] else [1])
      ++ (if 2 <=? n then [21] else [])
      ++ (if negb (N.eqb closed (if second then 2 else 1)) && negb (N.eqb remaining (if second then 2 else 1)) then [22] else [])
  | CSys sim q => qobs_codes sim q
  end.
