(* Cert.v — C02, peer identity.  Model of cert.SkiFromCertificate, cert.CreateCertificate
   (what it puts into the certificate), and of the decision sequences that lead to a SHIP
   connection object: the TLS server configuration + Hub.verifyPeerCertificate +
   Hub.ServeHTTP (inbound) and Hub.connectFoundService after the dial (outbound).
   Definitions only.

   Every constant and every switch the decisions depend on comes from gen/CertTable.v,
   regenerated from the Go AST on every run; [code_config] packs them.  The functions are
   written over an arbitrary [config], so that the theorems can say exactly which settings
   the property needs ([config_ok]) and what goes wrong without them.

   Modelled, not verified: X.509 parsing (a certificate is the pair of its SubjectKeyId
   extension and its subjectPublicKey bits), the TLS handshake (the peer proves possession
   of the key of the FIRST certificate it sends; a version below the configured minimum
   fails the handshake), gorilla's upgrade (sub-protocol selection as in
   Upgrader.selectSubprotocol).  SHA-1 is a Section variable. *)
From Ship Require Import Base Ski Sha1.
From ShipGen Require Import CertTable.

(* a parsed certificate, as far as the code looks at it: the SubjectKeyId extension
   (None = absent; Go: nil slice) and the subjectPublicKey BIT STRING contents *)
Record cert := { ski_ext : option bytes; pubkey : bytes }.

(* ---- Go's fmt "%0x" on a byte slice: two lower-case hex digits per byte ---- *)
Definition hexdigit (n : N) : N := if n <? 10 then 48 + n else 87 + n.
Fixpoint hex (l : bytes) : bytes :=
  match l with
  | [] => []
  | b :: r => hexdigit (b / 16) :: hexdigit (b mod 16) :: hex r
  end.

Definition is_byte (b : N) : bool := b <? 256.
Definition is_lower_hex (c : N) : bool :=
  ((48 <=? c) && (c <=? 57)) || ((97 <=? c) && (c <=? 102)).

(* what is assumed of SHA-1: 20 output bytes *)
Definition sha1_spec (sha1 : bytes -> bytes) : Prop :=
  forall x, length (sha1 x) = 20%nat /\ forallb is_byte (sha1 x) = true.

Definition tls12 : N := 771.
Definition ship_proto : bytes := [115; 104; 105; 112].   (* "ship" *)

(* ---- configuration = the regenerated constants ---- *)
Record config := {
  cf_min_version : N;            (* tls.Config.MinVersion *)
  cf_client_auth : N;            (* tls.Config.ClientAuth *)
  cf_suites_tls12_only : bool;   (* every configured cipher suite exists from TLS 1.2 on only *)
  cf_verify_peer : bool;         (* VerifyPeerCertificate = h.verifyPeerCertificate *)
  cf_server_protos : list bytes; (* upgrader.Subprotocols *)
  cf_required_proto : bytes;     (* conn.Subprotocol() != … refuses *)
  cf_sub_check : bool;           (* ServeHTTP has that check *)
  cf_ski_len : N;                (* len(subjectKeyId) != … refuses *)
  cf_checks_key : bool;          (* SkiFromCertificate compares with sha1 of the key *)
  cf_out_compares : bool         (* connectFoundService refuses presented <> dialled *)
}.

Definition has_step (s : N) (l : list N) : bool := existsb (N.eqb s) l.
Definition is_nil {A} (l : list A) : bool := match l with [] => true | _ => false end.
Definition is_some {A} (o : option A) : bool := match o with Some _ => true | None => false end.

Definition code_config : config := {|
  cf_min_version := tls_min_version;
  cf_client_auth := tls_client_auth;
  cf_suites_tls12_only := tls_cipher_suites_known && negb (is_nil tls_cipher_suites)
                          && forallb (N.eqb 1) tls_cipher_suites_tls12_only;
  cf_verify_peer := tls_verify_peer_set && verify_peer_uses_ski_from_cert;
  cf_server_protos := ws_server_subprotocols;
  cf_required_proto := ws_required_subprotocol;
  cf_sub_check := has_step 1 inbound_steps;
  cf_ski_len := ski_len;
  cf_checks_key := ski_checks_key;
  cf_out_compares := has_step 4 outbound_steps
|}.

(* the rest of the code's structure the model hard-wires; checked on the regenerated
   table: the translator understood everything, no ClientCAs / MaxVersion /
   GetConfigForClient, both functions run "present check, SkiFromCertificate on the first
   certificate, [compare], keepThisConnection, NewConnectionHandler, Run, register" in this
   order with nothing written to the socket before, "%0x" formatting *)
Definition drop_optional (l : list N) : list N :=
  filter (fun s => negb ((s =? 1) || (s =? 4))) l.
Definition structure_ok : bool :=
  tls_config_known && negb tls_client_cas_set && negb tls_max_version_set && negb tls_get_config_set
  && ws_subprotocols_known && ski_len_known && ski_formats_lower_hex
  && list_eqb N.eqb (drop_optional inbound_steps) [2; 3; 5; 6; 7; 8]
  && list_eqb N.eqb (drop_optional outbound_steps) [2; 3; 5; 6; 7; 8]
  && list_eqb N.eqb (filter (fun s => negb (s =? 4)) inbound_steps) inbound_steps
  && (if has_step 1 inbound_steps then list_eqb N.eqb (firstn 1 inbound_steps) [1] else true)
  && (if has_step 4 outbound_steps then list_eqb N.eqb (firstn 3 outbound_steps) [2; 3; 4] else true)
  && negb (has_step 1 outbound_steps).

(* the settings the property needs *)
Definition config_ok (cf : config) : bool :=
  (tls12 <=? cf_min_version cf)
  && cf_sub_check cf && bytes_eqb (cf_required_proto cf) ship_proto
  && (cf_ski_len cf =? 20)
  && cf_checks_key cf
  && cf_out_compares cf.

(* ---- results ---- *)
Inductive stage := STls | SWs.           (* refused by the TLS handshake / after the upgrade *)
Inductive decision := Refuse (s : stage) | Accept (ski : bytes).
(* outbound: frames = SHIP frames the hub wrote before it closed the connection *)
Inductive odecision := ORefuse (frames_sent_before_refusal : N) | OAccept.

Section WithSha1.
Variable sha1 : bytes -> bytes.

Section WithConfig.
Variable cf : config.

(* cert.SkiFromCertificate: None = error *)
Definition ski_from_cert (c : cert) : option bytes :=
  match ski_ext c with
  | None => None                                   (* len(nil) = 0 *)
  | Some s =>
      if negb (N.of_nat (length s) =? cf_ski_len cf) then None
      else if cf_checks_key cf && negb (bytes_eqb s (sha1 (pubkey c))) then None
      else Some (hex s)
  end.

(* Hub.verifyPeerCertificate: some certificate of the chain yields a SKI *)
Definition verify_peer (certs : list cert) : bool :=
  existsb (fun c => is_some (ski_from_cert c)) certs.

(* crypto/tls server side, as configured: None = handshake fails, Some cs = the
   PeerCertificates of the connection state handed to the HTTP handler.
   ver = highest version the client offers (it also offers a suite usable with it). *)
Definition tls_server (ver : N) (certs : list cert) : option (list cert) :=
  if ver <? cf_min_version cf then None
  else if (ver <? tls12) && cf_suites_tls12_only cf then None   (* no cipher suite in common below TLS 1.2 *)
  else if cf_client_auth cf =? 0 then Some []      (* no certificate requested *)
  else if ((cf_client_auth cf =? 2) || (cf_client_auth cf =? 4)) && is_nil certs then None
  else if (3 <=? cf_client_auth cf) && negb (is_nil certs) then None   (* no ClientCAs: nothing verifies *)
  else if cf_verify_peer cf && negb (verify_peer certs) then None
  else Some certs.

(* gorilla Upgrader.selectSubprotocol; [] = "" = none selected *)
Definition select_subprotocol (server offered : list bytes) : bytes :=
  match filter (fun sp => existsb (bytes_eqb sp) offered) server with
  | sp :: _ => sp
  | [] => []
  end.

(* Hub.ServeHTTP after the upgrade, no connection to that SKI existing *)
Definition serve_http (offered : list bytes) (certs : list cert) : decision :=
  if cf_sub_check cf && negb (bytes_eqb (select_subprotocol (cf_server_protos cf) offered) (cf_required_proto cf))
  then Refuse SWs
  else match certs with
       | [] => Refuse SWs
       | c :: _ =>
           match ski_from_cert c with
           | None => Refuse SWs
           | Some k => Accept (normalize k)        (* api.NewServiceDetails normalises *)
           end
       end.

Definition accept_inbound (ver : N) (offered : list bytes) (certs : list cert) : decision :=
  match tls_server ver certs with
  | None => Refuse STls
  | Some cs => serve_http offered cs
  end.

(* Hub.connectFoundService after a successful dial; dialled = remoteService.SKI().
   Nothing is written to the socket before the SHIP connection object runs
   (structure_ok), hence the constant 0. *)
Definition accept_outbound (dialled : bytes) (certs : list cert) : odecision :=
  match certs with
  | [] => ORefuse 0
  | c :: _ =>
      match ski_ext c with
      | None => ORefuse 0
      | Some s =>
          match ski_from_cert c with
          | None => ORefuse 0
          | Some _ =>
              if cf_out_compares cf && negb (bytes_eqb (hex s) dialled) then ORefuse 0
              else OAccept
          end
      end
  end.

End WithConfig.

(* cert.CreateCertificate: a fresh key, SubjectKeyId = sha1 of its public key bytes *)
Definition gen_cert (pub : bytes) : cert := {| ski_ext := Some (sha1 pub); pubkey := pub |}.

(* ---- the property's monitor, on one observed decision ----
   (stated on what was observed: input, result; used by the theorems on the model's
   result and by check_c02 on the implementation's) *)
Definition first_ski (certs : list cert) : option bytes :=
  match certs with c :: _ => ski_ext c | [] => None end.
Definition first_key_hash (certs : list cert) : option bytes :=
  match certs with c :: _ => Some (sha1 (pubkey c)) | [] => None end.
Definition first_is_generated (certs : list cert) : bool :=
  match certs with
  | c :: _ => option_eqb bytes_eqb (ski_ext c) (Some (sha1 (pubkey c)))
  | [] => false
  end.

(* inbound failure codes, by trigger *)
Definition mon_inbound (ver : N) (offered : list bytes) (certs : list cert) (d : decision) : codes :=
  match d with
  | Accept k =>
      (if tls12 <=? ver then [] else [10]) ++                                   (* accepted_below_tls12 *)
      (if existsb (bytes_eqb ship_proto) offered then [] else [11]) ++           (* accepted_without_subprotocol *)
      match certs with
      | [] => [12]                                                               (* accepted_without_certificate *)
      | c :: _ =>
          match ski_ext c with
          | None => [13]                                                         (* accepted_without_ski *)
          | Some s =>
              if negb (N.of_nat (length s) =? 20) then [13]
              else if negb (bytes_eqb k (hex s)) then [14]                       (* attributed_ski_differs_from_certificate *)
              else if negb (bytes_eqb s (sha1 (pubkey c))) then [15]             (* accepted_foreign_ski *)
              else []
          end
      end
  | Refuse _ =>
      if (tls12 <=? ver) && existsb (bytes_eqb ship_proto) offered
         && (Nat.eqb (length certs) 1) && first_is_generated certs
      then [16] else []                                                          (* generator_cert_refused *)
  end.

(* outbound failure codes *)
Definition mon_outbound (dialled : bytes) (certs : list cert) (d : odecision) : codes :=
  match d with
  | OAccept =>
      match certs with
      | [] => [20]                                                               (* ship_bytes_sent_without_certificate *)
      | c :: _ =>
          match ski_ext c with
          | None => [20]
          | Some s =>
              if negb (bytes_eqb (hex s) dialled) then [21]                      (* ship_bytes_sent_to_wrong_ski *)
              else if negb (bytes_eqb s (sha1 (pubkey c))) then [22]             (* ship_bytes_sent_to_foreign_ski *)
              else []
          end
      end
  | ORefuse n =>
      (if n =? 0 then [] else
         match first_ski certs with
         | Some s => if bytes_eqb (hex s) dialled then [23] else [21]            (* 23 refused_after_sending *)
         | None => [20]
         end) ++
      (if Nat.eqb (length certs) 1 && first_is_generated certs
          && option_eqb bytes_eqb (option_map hex (first_ski certs)) (Some dialled)
       then [24] else [])                                                        (* generator_cert_refused_outbound *)
  end.

End WithSha1.

(* ================= cases written by harness/cmd/certdrv ================= *)
(* SHA-1 for the cases: the executable Sha1.sha1_impl; every certificate of a case comes with
   the digest Go's crypto/sha1 computed for its key, and the two must agree (code 1) *)
Definition decision_eqb (a b : decision) : bool :=
  match a, b with
  | Refuse STls, Refuse STls => true
  | Refuse SWs, Refuse SWs => true
  | Accept x, Accept y => bytes_eqb x y
  | _, _ => false
  end.
Definition odecision_eqb (a b : odecision) : bool :=
  match a, b with
  | ORefuse x, ORefuse y => N.eqb x y
  | OAccept, OAccept => true
  | _, _ => false
  end.

(* a certificate together with the crypto/sha1 digest of its key *)
Definition dcert := (cert * bytes)%type.
(* digests computed once per case: key -> Sha1.sha1_impl key, looked up by the model and the monitor *)
Fixpoint sha1_of_table (t : list (bytes * bytes)) (x : bytes) : bytes :=
  match t with
  | [] => sha1_impl x
  | (k, d) :: r => if bytes_eqb k x then d else sha1_of_table r x
  end.
Definition digest_table (l : list dcert) : list (bytes * bytes) :=
  map (fun dc => (pubkey (fst dc), sha1_impl (pubkey (fst dc)))) l.
Definition digests_agree (l : list dcert) (t : list (bytes * bytes)) : codes :=
  if list_eqb bytes_eqb (map snd l) (map snd t) then [] else [1].

Inductive c02_case :=
(* cert.SkiFromCertificate on one certificate: observed result (None = error) *)
| CSki (c : dcert) (got : option bytes)
(* cert.CreateCertificate: the parsed certificate it produced and SkiFromCertificate on it *)
| CGen (c : dcert) (got : option bytes)
(* cert.CreateCertificate returned an error; valid = all four subject strings were valid UTF-8 *)
| CGenErr (valid : bool)
(* hex: fmt.Sprintf("%0x", b) *)
| CHex (b : bytes) (got : bytes)
(* a real TLS/websocket session against a real hub.Hub *)
| CIn (ver : N) (offered : list bytes) (certs : list dcert) (got : decision)
(* the hub dials a server of the driver *)
| COut (dialled : bytes) (certs : list dcert) (got : odecision).

Definition check_c02 (c : c02_case) : codes :=
  match c with
  | CSki dc got =>
      let tbl := digest_table [dc] in
      let sha := sha1_of_table tbl in
      let ct := fst dc in
      digests_agree [dc] tbl ++
      (if option_eqb bytes_eqb (ski_from_cert sha code_config ct) got then [] else [1]) ++
      match got, ski_ext ct with
      | Some k, Some s =>
          if negb (N.of_nat (length s) =? 20) then [13]
          else if negb (bytes_eqb k (hex s)) then [14]
          else if negb (bytes_eqb s (sha (pubkey ct))) then [15] else []
      | Some _, None => [13]
      | None, _ => if option_eqb bytes_eqb (ski_ext ct) (Some (sha (pubkey ct))) then [16] else []
      end
  | CGen dc got =>
      let tbl := digest_table [dc] in
      let sha := sha1_of_table tbl in
      let ct := fst dc in
      digests_agree [dc] tbl ++
      (* the generator's certificate is gen_cert of its key, and it is accepted *)
      (if option_eqb bytes_eqb (ski_ext ct) (ski_ext (gen_cert sha (pubkey ct)))
          && option_eqb bytes_eqb (ski_from_cert sha code_config (gen_cert sha (pubkey ct))) got then [] else [1]) ++
      match got with
      | Some k => if bytes_eqb k (hex (sha (pubkey ct))) && Nat.eqb (length k) 40 && forallb is_lower_hex k
                  then [] else [17]                                              (* generator_ski_not_40_lower_hex_of_key *)
      | None => [16]
      end
  | CGenErr valid => if valid then [19] else []                                 (* generator_failed_on_valid_subject *)
  | CHex b got =>
      (if bytes_eqb (hex b) got then [] else [1]) ++
      (if Nat.eqb (length got) (2 * length b) && forallb is_lower_hex got then [] else [18])   (* hex_format *)
  | CIn ver offered dcs got =>
      let tbl := digest_table dcs in
      let sha := sha1_of_table tbl in
      let certs := map fst dcs in
      digests_agree dcs tbl ++
      (if decision_eqb (accept_inbound sha code_config ver offered certs) got then [] else [1]) ++
      mon_inbound sha ver offered certs got
  | COut dialled dcs got =>
      let tbl := digest_table dcs in
      let sha := sha1_of_table tbl in
      let certs := map fst dcs in
      digests_agree dcs tbl ++
      (if odecision_eqb (accept_outbound sha code_config dialled certs) got then [] else [1]) ++
      mon_outbound sha dialled certs got
  end.
