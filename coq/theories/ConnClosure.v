(* ConnClosure.v — the certified closure of the connection's control model in product with
   the property monitors: every state reachable by ANY sequence of control events (any
   length) is in the table, and no state in the table carries a violation. *)
From Coq Require Import FMapPositive.
From Ship Require Import Base Closure Conn ConnEvents ConnMon.
From RecordUpdate Require Import RecordUpdate.
Import RecordSetNotations.

(* persistent part of the control state (between events the output buffer is empty and
   the write-fault countdown is reset) *)
Record pcs := mkP {
  p_role : role; p_st : N; p_err : bool; p_armed : bool; p_tty : N; p_reader : bool;
  p_once : bool; p_wclosed : bool; p_d500 : bool; p_d1000 : bool; p_idknown : bool;
  p_dead : bool; p_ran : bool }.

Definition to_cs (p : pcs) : cs :=
  mkCs (p_role p) (p_st p) (p_err p) (p_armed p) (p_tty p) (p_reader p) (p_once p) (p_wclosed p)
       None (p_d500 p) (p_d1000 p) (p_idknown p) (p_dead p) (p_ran p) [].
Definition of_cs (c : cs) : pcs :=
  mkP (c_role c) (st c) (err c) (armed c) (tty c) (reader c) (once c) (wclosed c)
      (d500 c) (d1000 c) (idknown c) (dead c) (ran c).

Record ps := mkPs { ps_c : pcs; ps_m : ms }.

Scheme Equality for ps.

Lemma ps_beq_eq a b : ps_beq a b = true -> a = b.
Proof. apply internal_ps_dec_bl. Qed.

(* ---- hash: mixed-radix encoding of the small fields ---- *)
Definition bN (b : bool) : N := if b then 1 else 0.
Definition hash_ps (s : ps) : positive :=
  let c := ps_c s in let m := ps_m s in
  let bits := [p_err c; p_armed c; p_reader c; p_once c; p_wclosed c; p_d500 c; p_d1000 c;
               p_idknown c; p_dead c; p_ran c;
               m_granted m; m_term m; m_closed m; m_setup m; m_shipid m; m_idbad m; m_idknown m;
               m_isdef m; m_lost m; m_cancelled m; m_complete m; m_idok m] in
  let b := fold_left (fun acc x => 2 * acc + bN x) bits 0 in
  N.succ_pos (p_st c + 64 * (p_tty c + 4 * (m_last m + 64 * (m_ncb m + 4 * (m_st0 m + 64 * (b + 4194304 * (m_viol m))))))).

(* ---- one control event on the product ---- *)
Definition pstep (s : ps) (e : cevx) : ps :=
  let '(c', l) := cstep (to_cs (ps_c s)) e in
  mkPs (of_cs c') (mon_run (ps_m s) (BEv e :: l)).

Definition pnext (s : ps) : list ps := map (pstep s) (events_for (to_cs (ps_c s))).

Definition pinit (r : role) (idk : bool) : ps := mkPs (of_cs (init_cs r idk)) (init_ms r idk).

(* the property of a product state: no violation flagged, and the model never ran out of
   fuel or consumed the whole write-fault countdown range *)
Definition p_ok (s : ps) : bool := N.eqb (m_viol (ps_m s)) 0.

(* shape of one step's observations, used by the data-level proof of C06: a well-formed
   SPINE frame is delivered (reader set) or buffered (not yet), nothing else is; the buffer
   is flushed exactly in the step that sets the reader; the reader is never unset; no crash *)
Definition has (f : cobs -> bool) (l : list cobs) : bool := existsb f l.
Definition is_deliver o := match o with BDeliver => true | _ => false end.
Definition is_buffer o := match o with BBuffer => true | _ => false end.
Definition is_flush o := match o with BFlush => true | _ => false end.
Definition is_setup o := match o with BSetup => true | _ => false end.
Definition is_crash o := match o with BPanic | BHang | BFuel => true | _ => false end.
Definition is_dgok (e : cev) : bool := match e with CRecv DgOk _ _ => true | _ => false end.
Definition is_ev o := match o with BEv _ => true | _ => false end.

Definition shape_ok (c : cs) (e : cevx) : bool :=
  let '(c', l) := cstep c e in
  negb (dead c') && negb (has is_crash l || has is_ev l) &&
  if is_dgok (ev e) then
    Bool.eqb (reader c') (reader c) &&
    match l with
    | [BDeliver; BSnap _ _ _ _ _] => reader c
    | [BBuffer; BSnap _ _ _ _ _] => negb (reader c)
    | _ => false
    end
  else
    negb (has is_deliver l) && negb (has is_buffer l)
    && Bool.eqb (has is_flush l) (reader c' && negb (reader c))
    && Bool.eqb (has is_setup l) (reader c' && negb (reader c))
    && implb (reader c) (reader c').

(* arbitrary-mode facts of C03 about a single endpoint: a side that has given up (terminal
   state) has closed its transport or will when its pending time.After goroutine runs; a
   transport error always leaves the side in a terminal state with the transport closed *)
Definition gave_up_closes (c : pcs) : bool :=
  implb (terminal_state (p_st c)) (p_wclosed c || p_d500 c || p_d1000 c).
Definition connerr_ends (c : cs) (e : cevx) : bool :=
  match ev e with
  | CConnErr => let c' := fst (cstep c e) in terminal_state (st c') && wclosed c' && negb (armed c')
  | _ => true
  end.

Definition p_shape (s : ps) : bool :=
  negb (p_dead (ps_c s)) && gave_up_closes (ps_c s)
  && forallb (fun e => shape_ok (to_cs (ps_c s)) e && connerr_ends (to_cs (ps_c s)) e)
             (events_for (to_cs (ps_c s))).

Definition table_of (r : role) (idk : bool) : table ps * bool :=
  explore ps_beq hash_ps pnext 400 (pinit r idk).

(* ---- the tables (computed once by the unverified search) and their kernel-checked
   certificates: initial state inside, closed under every control event, no violation ---- *)
Definition tSF := Eval vm_compute in fst (table_of Server false).
Definition tST := Eval vm_compute in fst (table_of Server true).
Definition tCF := Eval vm_compute in fst (table_of Client false).
Definition tCT := Eval vm_compute in fst (table_of Client true).

Definition table_for (r : role) (idk : bool) : table ps :=
  match r, idk with
  | Server, false => tSF | Server, true => tST | Client, false => tCF | Client, true => tCT
  end.

Definition cert_ok (r : role) (idk : bool) : bool :=
  let t := table_for r idk in
  mem ps_beq hash_ps (pinit r idk) t
  && closed_check ps_beq hash_ps pnext t
  && forallb p_ok (members t) && forallb p_shape (members t).

Lemma cert_SF : cert_ok Server false = true. Proof. vm_compute. reflexivity. Qed.
Lemma cert_ST : cert_ok Server true = true. Proof. vm_compute. reflexivity. Qed.
Lemma cert_CF : cert_ok Client false = true. Proof. vm_compute. reflexivity. Qed.
Lemma cert_CT : cert_ok Client true = true. Proof. vm_compute. reflexivity. Qed.

Lemma cert_all r idk : cert_ok r idk = true.
Proof. destruct r, idk; [apply cert_CT | apply cert_CF | apply cert_ST | apply cert_SF]. Qed.

(* every product state reachable by any number of control events is free of violations *)
Theorem reach_ok r idk s : reach pnext (pinit r idk) s -> p_ok s = true.
Proof.
  pose proof (cert_all r idk) as H. unfold cert_ok in H.
  apply andb_true_iff in H as [H _]. apply andb_true_iff in H as [H H3]. apply andb_true_iff in H as [H1 H2].
  apply (invariant_by_closure ps ps_beq ps_beq_eq hash_ps pnext (pinit r idk) (table_for r idk) p_ok H1 H2 H3).
Qed.

Theorem reach_shape r idk s : reach pnext (pinit r idk) s -> p_shape s = true.
Proof.
  pose proof (cert_all r idk) as H. unfold cert_ok in H.
  apply andb_true_iff in H as [H H4]. apply andb_true_iff in H as [H _]. apply andb_true_iff in H as [H1 H2].
  apply (invariant_by_closure ps ps_beq ps_beq_eq hash_ps pnext (pinit r idk) (table_for r idk) p_shape H1 H2 H4).
Qed.

(* the tables are not trivial *)
Definition table_sizes : list nat :=
  [length (members tSF); length (members tST); length (members tCF); length (members tCT)].
