(* MdnsMap.v — model of the map maintenance in MdnsManager.processMdnsEntry (mdns/mdns.go)
   over histories of resolver events, the abstract specification of the visible-services
   view, and the report deliveries (definitions only; proofs in MdnsMapProofs.v, statements
   in props/C17.v).  Validation and field extraction of a TXT record is Txt.entry_of_txt
   (C16); whether the address list of a NEW entry is de-duplicated is regenerated from the
   source (gen/MdnsTable.dedup_new_entry). *)
From Coq Require Import ZArith.
From Ship Require Import Base Txt.
From ShipGen Require Import MdnsTable.

(* an address as far as the code looks at it: To4() != nil, To4() == nil &&
   IsLinkLocalUnicast(), String() *)
Record addr := { a_v4 : bool; a_ll6 : bool; a_text : bytes }.
Definition usable (a : addr) : bool := negb (a_ll6 a).
Definition addr_eqb (a b : addr) : bool := bytes_eqb (a_text a) (a_text b).   (* item.String() == address.String() *)

(* one call of the resolver callback *)
Record mev := { v_txt : elements; v_name : bytes; v_host : bytes; v_addrs : list addr;
                v_port : Z; v_remove : bool }.

Record fentry := { f_e : mentry; f_name : bytes; f_host : bytes; f_port : Z; f_addrs : list addr }.

(* the entries map: association list, the first binding of a key is the live one *)
Definition mmap := list (bytes * fentry).
Fixpoint mlookup (k : bytes) (m : mmap) : option fentry :=
  match m with
  | [] => None
  | (k', v) :: r => if bytes_eqb k k' then Some v else mlookup k r
  end.
Definition mset (k : bytes) (v : fentry) (m : mmap) : mmap := (k, v) :: m.
Definition mremove (k : bytes) (m : mmap) : mmap := filter (fun kv => negb (bytes_eqb k (fst kv))) m.

(* "only add if it is not added yet", in order *)
Definition madd (acc new : list addr) : list addr :=
  fold_left (fun acc a => if existsb (addr_eqb a) acc then acc else acc ++ [a]) new acc.
Definition dedup (l : list addr) : list addr := madd [] l.

Definition uaddrs (ev : mev) : list addr := filter usable (v_addrs ev).
Definition ev_entry (own : bytes) (ev : mev) : option mentry := entry_of_txt own (v_txt ev).
Definition first_addrs (dn : bool) (ev : mev) : list addr := if dn then dedup (uaddrs ev) else uaddrs ev.

(* processMdnsEntry: new map, and whether a report goroutine is spawned *)
Definition mstep (dn : bool) (own : bytes) (m : mmap) (ev : mev) : mmap * bool :=
  match ev_entry own ev with
  | None => (m, false)
  | Some e =>
      let ski := e_ski e in
      match mlookup ski m with
      | Some old =>
          if v_remove ev then (mremove ski m, true)
          else let l := madd (f_addrs old) (uaddrs ev) in
               if (length l =? length (f_addrs old))%nat then (m, false)
               else (mset ski {| f_e := f_e old; f_name := f_name old; f_host := f_host old;
                                 f_port := f_port old; f_addrs := l |} m, true)
      | None =>
          if v_remove ev then (m, false)
          else (mset ski {| f_e := e; f_name := v_name ev; f_host := v_host ev; f_port := v_port ev;
                            f_addrs := first_addrs dn ev |} m, true)
      end
  end.

Definition mrun (dn : bool) (own : bytes) (m : mmap) (h : list mev) : mmap :=
  fold_left (fun m ev => fst (mstep dn own m ev)) h m.
Definition final (dn : bool) (own : bytes) (h : list mev) : mmap := mrun dn own [] h.

(* the snapshots handed to `go m.report.ReportMdnsEntries(entries, true)`, in spawn order *)
Fixpoint reports (dn : bool) (own : bytes) (m : mmap) (h : list mev) : list mmap :=
  match h with
  | [] => []
  | ev :: r => (if snd (mstep dn own m ev) then [fst (mstep dn own m ev)] else [])
               ++ reports dn own (fst (mstep dn own m ev)) r
  end.

(* ------------------------------------------------------------------ specification *)
(* every event with what its TXT record validates to (valid mandatory TXT: version, id, path,
   ski, boolean register; not the local SKI); computed once per history *)
Definition aev := (option mentry * mev)%type.
(* valid in the property's own words (Txt.txt_valid); the fields are those the code extracts *)
Definition spec_entry (own : bytes) (ev : mev) : option mentry :=
  if txt_valid own (v_txt ev) then ev_entry own ev else None.
Definition annotate (own : bytes) (h : list mev) : list aev := map (fun ev => (spec_entry own ev, ev)) h.

(* the events that concern service [ski] *)
Definition is_ski (ski : bytes) (p : aev) : bool :=
  match fst p with Some e => bytes_eqb (e_ski e) ski | None => false end.

(* the part of a service's events since its last remove *)
Definition live (l : list aev) : list aev :=
  fold_left (fun acc p => if v_remove (snd p) then [] else acc ++ [p]) l [].

Definition entry_with (first : aev) (addrs : list addr) : option fentry :=
  match fst first with
  | Some e => Some {| f_e := e; f_name := v_name (snd first); f_host := v_host (snd first);
                      f_port := v_port (snd first); f_addrs := addrs |}
  | None => None
  end.

Definition auaddrs (p : aev) : list addr := uaddrs (snd p).

(* visible iff added and not removed since; described by the add that made it visible;
   addresses: the duplicate-free union of the usable addresses reported since *)
Definition spec_ann (ah : list aev) (ski : bytes) : option fentry :=
  match live (filter (is_ski ski) ah) with
  | [] => None
  | first :: rest => entry_with first (dedup (flat_map auaddrs (first :: rest)))
  end.
Definition spec (own : bytes) (h : list mev) (ski : bytes) : option fentry := spec_ann (annotate own h) ski.

(* what the code computes: the first add's list as stored, later ones merged in *)
Definition impl_addrs (dn : bool) (first : aev) (rest : list aev) : list addr :=
  fold_left (fun acc p => madd acc (auaddrs p)) rest (first_addrs dn (snd first)).
Definition spec_faithful (dn : bool) (own : bytes) (h : list mev) (ski : bytes) : option fentry :=
  match live (filter (is_ski ski) (annotate own h)) with
  | [] => None
  | first :: rest => entry_with first (impl_addrs dn first rest)
  end.

Fixpoint dupfreeb (l : list addr) : bool :=
  match l with [] => true | a :: r => negb (existsb (addr_eqb a) r) && dupfreeb r end.

(* ------------------------------------------------------------------ comparison, monitors *)
Definition addrs_eqb (a b : list addr) : bool := list_eqb addr_eqb a b.
Definition fentry_eqb (a b : fentry) : bool :=
  entry_eqb (f_e a) (f_e b) && bytes_eqb (f_name a) (f_name b) && bytes_eqb (f_host a) (f_host b)
  && Z.eqb (f_port a) (f_port b) && addrs_eqb (f_addrs a) (f_addrs b).

(* the SKIs that matter for a history: those of its valid events *)
Definition skis_ann (ah : list aev) : list bytes :=
  flat_map (fun p => match fst p with Some e => [e_ski e] | None => [] end) ah.

(* an observed map (sorted, unique keys) says exactly what [f] says on the SKIs of the
   history, and has no other key *)
Definition map_matches (ah : list aev) (f : bytes -> option fentry) (obs : mmap) : bool :=
  forallb (fun k => option_eqb fentry_eqb (f k) (mlookup k obs)) (skis_ann ah)
  && forallb (fun kv => existsb (bytes_eqb (fst kv)) (skis_ann ah)) obs.

(* the copy a report carries (util.DeepCopy through JSON): strings as in Txt.report_copy *)
Definition fcopy (f : fentry) : fentry :=
  {| f_e := report_copy (f_e f); f_name := json_copy (f_name f); f_host := json_copy (f_host f);
     f_port := f_port f; f_addrs := f_addrs f |}.

Definition some_dup_add (ah : list aev) : bool :=
  existsb (fun p => is_some (fst p) && negb (v_remove (snd p)) && negb (dupfreeb (auaddrs p))) ah.

(* ------------------------------------------------------------------ cases from the driver *)
(* compact: TXT records and addresses are tables, events refer to them by index; event i is
   called with name "n<i>", host "h<i>", port 1000+i.  Observations after every event:
   the sorted SKIs of the stored map, the (port, address indices) of the entry under the
   event's SKI, and the same two for the reported snapshot if one arrived; at the end the
   full stored map and the full last report. *)
Record cev := { ce_rec : nat; ce_addrs : list nat; ce_remove : bool }.
Definition aobs := option (Z * list nat).     (* (port, address indices) of one entry, if stored *)
(* after one event: sorted SKIs of the stored map, the entry under the event's SKI before and
   after the call, and (sorted SKIs, that entry) of the snapshot reported for it, if any *)
Record eobs := { o_keys : list bytes; o_before : aobs; o_after : aobs; o_rep : option (list bytes * aobs) }.
Record c17_case := {
  h_own : bytes; h_recs : list elements; h_atab : list addr; h_evs : list cev;
  h_obs : list eobs;
  h_final : mmap; h_last : option mmap }.

(* the tables the driver uses in every case (harness/cmd/mdnsdrv/c17.go: atab17, recTable);
   a disagreement with the driver shows up as a correspondence failure *)
Definition bs (x : string) : bytes := map N_of_ascii (list_ascii_of_string x).
Definition std_atab : list addr :=
  [ {| a_v4 := true; a_ll6 := false; a_text := bs "192.168.1.10" |};
    {| a_v4 := true; a_ll6 := false; a_text := bs "192.168.1.10" |};
    {| a_v4 := true; a_ll6 := false; a_text := bs "10.0.0.2" |};
    {| a_v4 := false; a_ll6 := true; a_text := bs "fe80::1" |};
    {| a_v4 := false; a_ll6 := false; a_text := bs "2001:db8::1" |};
    {| a_v4 := false; a_ll6 := true; a_text := bs "fe80::2:3" |};
    {| a_v4 := true; a_ll6 := false; a_text := bs "169.254.1.5" |} ].
Definition rec_of (l : list (string * string)) : elements := map (fun p => (bs (fst p), bs (snd p))) l.
Definition std_recs : list elements := map rec_of
  [ [("brand","b1");("cat","1,2");("id","i1");("model","m");("path","/ship/");("register","true");("ski","s1");("txtvers","1");("type","t")];
    [("brand","b2");("cat","1,2");("id","i2");("model","m");("path","/ship/");("register","false");("ski","s2");("txtvers","1");("type","t")];
    [("brand","b3");("cat","1,2");("id","i3");("model","m");("path","/ship/");("register","true");("ski","s3");("txtvers","1");("type","t")];
    [("brand","b4");("cat","1,2");("id","i4");("model","m");("path","/ship/");("register","false");("ski","s4");("txtvers","1");("type","t")];
    [("id","other");("path","/x/");("register","true");("serial","9");("ski","s1");("txtvers","1")];
    [];
    [("id","i2");("path","/ship/");("register","true");("ski","s2");("txtvers","2")];
    [("id","i3");("path","/ship/");("register","maybe");("ski","s3");("txtvers","1")];
    [("id","i1");("path","/ship/");("register","true");("txtvers","1")];
    [("path","/ship/");("register","false");("ski","s4");("txtvers","1")];
    [("id","me");("path","/ship/");("register","true");("ski","own0");("txtvers","1")];
    [("id","i2");("register","true");("ski","s2");("txtvers","1")];
    [("id","i3");("path","/ship/");("register","true");("ski","s3")];
    [("id","i4");("path","/ship/");("ski","s4");("txtvers","1")] ]%string.

Definition name_of (i : N) : bytes := 110 :: dec i.
Definition host_of (i : N) : bytes := 104 :: dec i.
Definition no_addr : addr := {| a_v4 := false; a_ll6 := false; a_text := [63] |}.

Fixpoint decode (recs : list elements) (atab : list addr) (i : N) (l : list cev) : list mev :=
  match l with
  | [] => []
  | c :: r => {| v_txt := nth (ce_rec c) recs []; v_name := name_of i; v_host := host_of i;
                 v_addrs := map (fun k => nth k atab no_addr) (ce_addrs c);
                 v_port := 1000 + Z.of_N i; v_remove := ce_remove c |} :: decode recs atab (i + 1) r
  end.

(* index of the first table entry with the same text *)
Fixpoint aindex (atab : list addr) (k : nat) (a : addr) : nat :=
  match atab with
  | [] => k
  | x :: r => if addr_eqb x a then k else aindex r (S k) a
  end.

Definition aobs_of (atab : list addr) (m : mmap) (ski : option bytes) : aobs :=
  match ski with
  | Some s => match mlookup s m with
              | Some f => Some (f_port f, map (aindex atab 0) (f_addrs f))
              | None => None
              end
  | None => None
  end.

Definition aobs_eqb : aobs -> aobs -> bool :=
  option_eqb (fun x y => Z.eqb (fst x) (fst y) && list_eqb Nat.eqb (snd x) (snd y)).
Definition keys_eqb : list bytes -> list bytes -> bool := list_eqb bytes_eqb.
Definition eobs_eqb (a b : eobs) : bool :=
  keys_eqb (o_keys a) (o_keys b) && aobs_eqb (o_before a) (o_before b) && aobs_eqb (o_after a) (o_after b)
  && option_eqb (fun x y => keys_eqb (fst x) (fst y) && aobs_eqb (snd x) (snd y)) (o_rep a) (o_rep b).

(* sorted key list of a model map over the known SKIs: insertion into a sorted list *)
Fixpoint bytes_leb (a b : bytes) : bool :=
  match a, b with
  | [], _ => true
  | _ :: _, [] => false
  | x :: a', y :: b' => if x <? y then true else if y <? x then false else bytes_leb a' b'
  end.
Fixpoint insert_sorted (k : bytes) (l : list bytes) : list bytes :=
  match l with
  | [] => [k]
  | x :: r => if bytes_eqb k x then l else if bytes_leb k x then k :: l else x :: insert_sorted k r
  end.
Definition keys_of (m : mmap) : list bytes := fold_right insert_sorted [] (map fst m).

(* the raw key of the event (elements["ski"]) is what the driver looks the entry up under *)
Definition ev_key (own : bytes) (ev : mev) : option bytes := lookup rd_ski (v_txt ev).

(* the model's observation of every event, walking the history *)
Fixpoint walk (dn : bool) (own : bytes) (atab : list addr) (m : mmap) (h : list mev) : list eobs :=
  match h with
  | [] => []
  | ev :: r =>
      let m' := fst (mstep dn own m ev) in
      let a := aobs_of atab m' (ev_key own ev) in
      {| o_keys := keys_of m'; o_before := aobs_of atab m (ev_key own ev); o_after := a;
         o_rep := if snd (mstep dn own m ev) then Some (keys_of m', a) else None |}
      :: walk dn own atab m' r
  end.

Definition mmap_eqb (model obs : mmap) : bool :=
  forallb (fun kv => option_eqb fentry_eqb (mlookup (fst kv) model) (Some (snd kv))) obs
  && forallb (fun kv => is_some (mlookup (fst kv) obs)) model.

(* monitors on the implementation's own observations:
   10/11 the stored map at the end is not [spec] of the history (some add carries a
         duplicate usable address / anything else)
   12    some event's stored SKI set differs from the SKIs [spec] makes visible after that prefix
   13    a report does not show the stored state it was spawned for (or is missing / spurious:
         a report iff the stored observation changed)
   14    the last delivered report (deliveries serialised by the driver) is not the final map *)
Fixpoint prefixes {A} (l : list A) : list (list A) :=
  match l with [] => [] | x :: r => [x] :: map (cons x) (prefixes r) end.

Definition spec_keys (ah : list aev) : list bytes :=
  fold_right insert_sorted [] (filter (fun k => is_some (spec_ann ah k)) (skis_ann ah)).

(* report expected iff the stored state changed (SKI set, or the entry under the event's SKI) *)
Fixpoint reports_ok (prev : list bytes) (obs : list eobs) : bool :=
  match obs with
  | [] => true
  | o :: r =>
      let changed := negb (keys_eqb prev (o_keys o)) || negb (aobs_eqb (o_before o) (o_after o)) in
      match o_rep o with
      | Some rp => changed && keys_eqb (fst rp) (o_keys o) && aobs_eqb (snd rp) (o_after o)
      | None => negb changed
      end && reports_ok (o_keys o) r
  end.

Definition view (m : mmap) : mmap := map (fun kv => (fst kv, fcopy (snd kv))) m.

Definition mon_c17 (own : bytes) (h : list mev) (obs : list eobs) (fin : mmap) (last : option mmap) : codes :=
  let ah := annotate own h in
  (if map_matches ah (spec_ann ah) fin then []
   else if some_dup_add ah then [10] else [11]) ++
  (if list_eqb keys_eqb (map o_keys obs) (map spec_keys (prefixes ah)) then [] else [12]) ++
  (if reports_ok [] obs then [] else [13]) ++
  (match last with
   | Some r => if mmap_eqb (view fin) r && mmap_eqb r (view fin) then [] else [14]
   | None => if is_nil fin && forallb (fun o => negb (is_some (o_rep o))) obs then [] else [14]
   end).

Definition check_c17 (k : c17_case) : codes :=
  let dn := dedup_new_entry in
  let h := decode (h_recs k) (h_atab k) 0 (h_evs k) in
  let own := h_own k in
  let fin := final dn own h in
  let reps := reports dn own [] h in
  (if list_eqb eobs_eqb (walk dn own (h_atab k) [] h) (h_obs k)
      && mmap_eqb fin (h_final k)
      && option_eqb mmap_eqb (option_map view (last (map Some reps) None)) (h_last k)
   then [] else [1]) ++
  mon_c17 own h (h_obs k) (h_final k) (h_last k).
