(* EebusProofs.v — proofs about the EEBUS-JSON model (C07). *)
From Ship Require Import Base Eebus.
From ShipGen Require Import EebusTable.

(* ================================================================== 1. replace_all *)
Section Ra.
  Context {A : Type} (eqb : A -> A -> bool).
  Hypothesis eqb_sound : forall a b, eqb a b = true -> a = b.

  Lemma is_prefix_true_app (p t : list A) :
    is_prefix eqb p t = true -> exists t', t = p ++ t'.
  Proof.
    revert t; induction p as [|x p IH]; intros t H.
    - exists t. reflexivity.
    - destruct t as [|y t]; simpl in H; [discriminate|].
      apply andb_true_iff in H as [H1 H2]. apply eqb_sound in H1. subst y.
      destruct (IH _ H2) as [t' ->]. exists t'. reflexivity.
  Qed.

  Lemma ra_skip (pat rep x t : list A) :
    ra eqb pat rep (length x) (x ++ t) = ra eqb pat rep 0 t.
  Proof.
    induction x as [|c x IH]; simpl; [reflexivity|exact IH].
  Qed.

  Lemma ra_nomatch (pat rep : list A) c t :
    is_prefix eqb pat (c :: t) = false ->
    ra eqb pat rep 0 (c :: t) = c :: ra eqb pat rep 0 t.
  Proof. intros H. cbn [ra]. rewrite H. reflexivity. Qed.

  Lemma ra_match (pat rep : list A) t :
    pat <> [] -> is_prefix eqb pat t = true ->
    exists t', t = pat ++ t' /\ ra eqb pat rep 0 t = rep ++ ra eqb pat rep 0 t'.
  Proof.
    intros Hne H. destruct (is_prefix_true_app _ _ H) as [t' ->].
    exists t'. split; [reflexivity|].
    destruct pat as [|p0 pat']; [congruence|].
    cbn [app ra]. cbn [app] in H. rewrite H.
    cbn [length]. rewrite Nat.sub_succ, Nat.sub_0_r, ra_skip. reflexivity.
  Qed.
End Ra.

(* ================================================================== 2. literals are invisible *)
Lemma N_eqb_sound : forall a b, N.eqb a b = true -> a = b.
Proof. intros a b H. apply N.eqb_eq. exact H. Qed.

Lemma in_set_In c s : in_set c s = true <-> In c s.
Proof.
  unfold in_set. rewrite existsb_exists. split.
  - intros [x [Hin Hx]]. apply N.eqb_eq in Hx. subst x. exact Hin.
  - intros Hin. exists c. split; [exact Hin|apply N.eqb_refl].
Qed.

Lemma in_set_false_neq c s x : in_set c s = false -> In x s -> x <> c.
Proof.
  intros H Hin E. subst x. apply in_set_In in Hin. congruence.
Qed.

(* a pattern that matches at the head of l ++ rest either matches inside l, or swallows l *)
Lemma is_prefix_app_split (pat l rest : bytes) :
  is_prefix N.eqb pat (l ++ rest) = true ->
  is_prefix N.eqb pat l = true \/ incl l pat.
Proof.
  revert l; induction pat as [|p pat IH]; intros l H.
  - left. reflexivity.
  - destruct l as [|c l].
    + right. intros x [].
    + cbn [app is_prefix] in H |- *. apply andb_true_iff in H as [H1 H2].
      apply N.eqb_eq in H1. subst c. destruct (IH _ H2) as [Hl|Hr].
      * left. rewrite N.eqb_refl, Hl. reflexivity.
      * right. intros x [->|Hx]; [left; reflexivity|right; apply Hr, Hx].
  Qed.

Lemma last_in (l : bytes) d : l <> [] -> In (last l d) l.
Proof.
  induction l as [|c l IH]; [congruence|]. intros _.
  destruct l as [|c' l]; [left; reflexivity|].
  right. apply IH. discriminate.
Qed.

Lemma lit_pass (pat rep l rest : bytes) :
  pat <> [] -> occurs pat l = false -> in_set (last l 0) pat = false ->
  ra N.eqb pat rep 0 (l ++ rest) = l ++ ra N.eqb pat rep 0 rest.
Proof.
  intros Hne. induction l as [|c l IH]; intros Hocc Hlast; [reflexivity|].
  cbn [occurs] in Hocc. apply orb_false_iff in Hocc as [Hp Hocc].
  cbn [app]. rewrite ra_nomatch.
  - f_equal. destruct l as [|c' l]; [reflexivity|]. apply IH; [exact Hocc|exact Hlast].
  - destruct (is_prefix N.eqb pat (c :: l ++ rest)) eqn:E; [|reflexivity].
    change (c :: l ++ rest) with ((c :: l) ++ rest) in E.
    apply is_prefix_app_split in E as [E|E]; [congruence|].
    exfalso. assert (Hin : In (last (c :: l) 0) pat) by (apply E, last_in; discriminate).
    apply in_set_In in Hin. congruence.
Qed.

(* ================================================================== 3. bytes <-> tokens *)
Definition tok_eqb (a b : tok) : bool :=
  match a, b with P x, P y => N.eqb x y | _, _ => false end.

Lemma tok_eqb_sound a b : tok_eqb a b = true -> a = b.
Proof. destruct a, b; simpl; intros H; try discriminate. apply N.eqb_eq in H. congruence. Qed.

(* what one pass needs of a literal *)
Definition lit_ok1 (pat l : bytes) : bool :=
  match l with
  | [] => false
  | c :: _ => negb (in_set c pat) && negb (in_set (last l 0) pat) && negb (occurs pat l)
  end.

Definition toks_ok1 (pat : bytes) (ts : list tok) : bool :=
  forallb (fun t => match t with P _ => true | L l => lit_ok1 pat l end) ts.

Lemma flat_app a b : flat (a ++ b) = flat a ++ flat b.
Proof. unfold flat. apply flat_map_app. Qed.

Lemma flat_mapP l : flat (map P l) = l.
Proof. induction l as [|c l IH]; [reflexivity|]. cbn. f_equal. exact IH. Qed.

(* a pattern of punctuation that does not match on the tokens does not match on the bytes *)
Lemma align (pat q : bytes) (ts : list tok) :
  incl q pat -> toks_ok1 pat ts = true ->
  is_prefix tok_eqb (map P q) ts = false -> is_prefix N.eqb q (flat ts) = false.
Proof.
  revert ts; induction q as [|a q IH]; intros ts Hincl Hok H; [discriminate|].
  destruct ts as [|[b|l] ts]; [reflexivity| |].
  - cbn in H |- *. destruct (N.eqb a b); [|reflexivity]. cbn [andb] in *.
    apply IH; [intros x Hx; apply Hincl; right; exact Hx| |exact H].
    exact Hok.
  - cbn [toks_ok1 forallb] in Hok. apply andb_true_iff in Hok as [Hl _].
    destruct l as [|c l]; [discriminate|].
    cbn [lit_ok1] in Hl. apply andb_true_iff in Hl as [Hl _]. apply andb_true_iff in Hl as [Hl _].
    apply negb_true_iff in Hl.
    cbn. assert (a <> c) by (apply (in_set_false_neq c pat); [exact Hl|apply Hincl; left; reflexivity]).
    apply N.eqb_neq in H0. rewrite H0. reflexivity.
Qed.

Lemma bridge_n (pat rep : bytes) (n : nat) : pat <> [] ->
  forall ts, (length ts <= n)%nat -> toks_ok1 pat ts = true ->
  ra N.eqb pat rep 0 (flat ts) = flat (ra tok_eqb (map P pat) (map P rep) 0 ts).
Proof.
  intros Hne. induction n as [|n IH]; intros ts Hlen Hok.
  - destruct ts; [reflexivity|simpl in Hlen; lia].
  - destruct ts as [|t ts]; [reflexivity|].
    assert (Hok' : toks_ok1 pat ts = true).
    { cbn [toks_ok1 forallb] in Hok. apply andb_true_iff in Hok as [_ Hok]. exact Hok. }
    destruct t as [b|l].
    + destruct (is_prefix tok_eqb (map P pat) (P b :: ts)) eqn:E.
      * assert (Hne' : map P pat <> []) by (destruct pat; [congruence|discriminate]).
        destruct (ra_match tok_eqb tok_eqb_sound (map P pat) (map P rep) _ Hne' E) as [ts' [Ets Era]].
        rewrite Era, Ets, !flat_app, !flat_mapP.
        assert (Ep : is_prefix N.eqb pat (pat ++ flat ts') = true).
        { clear. induction pat as [|p pat IHp]; [reflexivity|]. cbn. rewrite N.eqb_refl. exact IHp. }
        destruct (ra_match N.eqb N_eqb_sound pat rep _ Hne Ep) as [t' [Et Erb]].
        apply app_inv_head in Et. subst t'. rewrite Erb. f_equal.
        apply IH.
        -- assert (Hl : length (P b :: ts) = length (map P pat ++ ts')) by (rewrite Ets; reflexivity).
           rewrite app_length, map_length in Hl. cbn [length] in Hlen, Hl.
           destruct pat; [congruence|]. cbn [length] in Hl. lia.
        -- unfold toks_ok1 in Hok |- *. rewrite Ets, forallb_app in Hok.
           apply andb_true_iff in Hok as [_ Hok]. exact Hok.
      * rewrite (ra_nomatch tok_eqb _ _ _ _ E).
        change (flat (P b :: ts)) with (b :: flat ts).
        change (flat (P b :: ?x)) with (b :: flat x).
        rewrite ra_nomatch.
        -- f_equal. apply IH; [cbn [length] in Hlen; lia|exact Hok'].
        -- change (b :: flat ts) with (flat (P b :: ts)).
           apply (align pat pat); [apply incl_refl|exact Hok|exact E].
    + assert (E : is_prefix tok_eqb (map P pat) (L l :: ts) = false).
      { destruct pat; [congruence|reflexivity]. }
      rewrite (ra_nomatch tok_eqb _ _ _ _ E).
      change (flat (L l :: ?x)) with (l ++ flat x).
      cbn [toks_ok1 forallb] in Hok. apply andb_true_iff in Hok as [Hl _].
      destruct l as [|c l]; [discriminate|]. cbn [lit_ok1] in Hl.
      apply andb_true_iff in Hl as [Hl H3]. apply andb_true_iff in Hl as [_ H2].
      apply negb_true_iff in H2. apply negb_true_iff in H3.
      rewrite lit_pass; [|exact Hne|exact H3|exact H2].
      f_equal. apply IH; [cbn [length] in Hlen; lia|exact Hok'].
Qed.

Lemma bridge (pat rep : bytes) ts : pat <> [] -> toks_ok1 pat ts = true ->
  replace_all pat rep (flat ts) = flat (ra tok_eqb (map P pat) (map P rep) 0 ts).
Proof.
  intros Hne Hok. unfold replace_all. destruct pat as [|p pat]; [congruence|].
  apply (bridge_n _ _ (length ts)); [exact Hne|lia|exact Hok].
Qed.

(* the passes only delete or insert punctuation: the literals stay the same *)
Lemma ra_toks_ok (q pat rep : bytes) k ts :
  toks_ok1 q ts = true -> toks_ok1 q (ra tok_eqb (map P pat) (map P rep) k ts) = true.
Proof.
  revert k; induction ts as [|t ts IH]; intros k Hok; [reflexivity|].
  cbn [toks_ok1 forallb] in Hok. apply andb_true_iff in Hok as [Ht Hok].
  cbn [ra]. destruct k as [|k]; [|apply IH, Hok].
  destruct (is_prefix tok_eqb (map P pat) (t :: ts)).
  - unfold toks_ok1. rewrite forallb_app. apply andb_true_iff. split; [|apply IH, Hok].
    clear. induction rep; [reflexivity|exact IHrep].
  - cbn [toks_ok1 forallb]. rewrite Ht. apply IH, Hok.
Qed.

(* ================================================================== 4. induction on trees *)
Section JsonInd.
  Variable Pj : json -> Prop.
  Hypothesis HS : forall l, Pj (JS l).
  Hypothesis HA : forall vs, Forall Pj vs -> Pj (JA vs).
  Hypothesis HO : forall ms, Forall (fun m => Pj (snd m)) ms -> Pj (JO ms).

  Fixpoint json_ind' (d : json) : Pj d :=
    match d with
    | JS l => HS l
    | JA vs => HA vs ((fix go (vs : list json) : Forall Pj vs :=
                         match vs with
                         | [] => Forall_nil _
                         | v :: vs' => Forall_cons v (json_ind' v) (go vs')
                         end) vs)
    | JO ms => HO ms ((fix go (ms : list (bytes * json)) : Forall (fun m => Pj (snd m)) ms :=
                         match ms with
                         | [] => Forall_nil _
                         | m :: ms' => Forall_cons m (json_ind' (snd m)) (go ms')
                         end) ms)
    end.
End JsonInd.

(* ================================================================== 5. the wire text, pass by pass
   wt s d : the tokens of d's wire form after the first s passes.
     s = 0   [{k:v},{k:v}]     the wire form itself
     s = 1   {k:v},{k:v}]      after  [{ -> {
     s = 2   {k:v,k:v}]        after  },{ -> ,
     s = 3   {k:v,k:v}         after  }] -> }
     s = 4   empty containers are {}   after  [] -> {}                       *)
Definition opn (s : nat) : list tok := if (s <? 1)%nat then [LB; LC] else [LC].
Definition sep (s : nat) : list tok := if (s <? 2)%nat then [RC; CM; LC] else [CM].
Definition cls (s : nat) : list tok := if (s <? 3)%nat then [RC; RB] else [RC].
Definition emp (s : nat) : list tok := if (s <? 4)%nat then [LB; RB] else [LC; RC].

Fixpoint wt (s : nat) (d : json) : list tok :=
  match d with
  | JS l => [L l]
  | JA vs =>
      match vs with
      | [] => emp s
      | _ :: _ => LB :: sepcat [CM] (map (wt s) vs) ++ [RB]
      end
  | JO ms =>
      match ms with
      | [] => emp s
      | _ :: _ => opn s ++ sepcat (sep s) (map (fun m => let '(k, v) := m in L k :: CL :: wt s v) ms) ++ cls s
      end
  end.

Definition memb (s : nat) (m : bytes * json) : list tok := let '(k, v) := m in L k :: CL :: wt s v.

(* the top level, whose outer brackets JsonIntoEEBUSJson strips *)
Definition tt (s : nat) (ms : list (bytes * json)) : list tok :=
  LC :: sepcat (sep s) (map (memb s) ms) ++ [RC].

Lemma wt_JO s m ms :
  wt s (JO (m :: ms)) = opn s ++ sepcat (sep s) (map (memb s) (m :: ms)) ++ cls s.
Proof. reflexivity. Qed.

Lemma wt_JA s v vs : wt s (JA (v :: vs)) = LB :: sepcat [CM] (map (wt s) (v :: vs)) ++ [RB].
Proof. reflexivity. Qed.

(* a separated list, one pass *)
Lemma pass_seplist (rp : list tok -> list tok) (sp sp' : list tok) {X} (W W' : X -> list tok) xs :
  (forall t, rp (sp ++ t) = sp' ++ rp t) ->
  Forall (fun x => forall rest, rp (W x ++ rest) = W' x ++ rp rest) xs ->
  forall rest, rp (sepcat sp (map W xs) ++ rest) = sepcat sp' (map W' xs) ++ rp rest.
Proof.
  intros Hsep HF. induction HF as [|x xs Hx HF IH]; intros rest; [reflexivity|].
  destruct xs as [|y xs].
  - cbn [map sepcat]. apply Hx.
  - change (sepcat sp (map W (x :: y :: xs))) with (W x ++ sp ++ sepcat sp (map W (y :: xs))).
    change (sepcat sp' (map W' (x :: y :: xs))) with (W' x ++ sp' ++ sepcat sp' (map W' (y :: xs))).
    rewrite <- !app_assoc. rewrite Hx, Hsep, IH. reflexivity.
Qed.

(* first token of a wire value *)
Definition head_ok (s : nat) (h : tok) : Prop :=
  match h with L _ => True | P b => b = 91 \/ (b = 123 /\ (1 <= s)%nat) end.

Lemma sepcat_head {A} (sp : list A) x r : exists r', sepcat sp (x :: r) = x ++ r'.
Proof. destruct r as [|y r]; [exists []; cbn; rewrite app_nil_r; reflexivity|]. eexists. reflexivity. Qed.

Lemma wt_head s v rest : exists h tl, wt s v ++ rest = h :: tl /\ head_ok s h.
Proof.
  destruct v as [l|[|v vs]|[|m ms]].
  - eexists _, _. split; [reflexivity|exact I].
  - unfold wt, emp. destruct (s <? 4)%nat eqn:E.
    + eexists _, _. split; [reflexivity|left; reflexivity].
    + eexists _, _. split; [reflexivity|right]. split; [reflexivity|]. apply Nat.ltb_ge in E. lia.
  - rewrite wt_JA. eexists _, _. split; [reflexivity|left; reflexivity].
  - unfold wt, emp. destruct (s <? 4)%nat eqn:E.
    + eexists _, _. split; [reflexivity|left; reflexivity].
    + eexists _, _. split; [reflexivity|right]. split; [reflexivity|]. apply Nat.ltb_ge in E. lia.
  - rewrite wt_JO. unfold opn. destruct (s <? 1)%nat eqn:E.
    + eexists _, _. split; [reflexivity|left; reflexivity].
    + eexists _, _. split; [reflexivity|right]. split; [reflexivity|]. apply Nat.ltb_ge in E. lia.
Qed.

(* the four passes on tokens *)
Definition rp1 := ra tok_eqb [LB; LC] [LC] 0.
Definition rp2 := ra tok_eqb [RC; CM; LC] [CM] 0.
Definition rp3 := ra tok_eqb [RC; RB] [RC] 0.
Definition rp4 := ra tok_eqb [LB; RB] [LC; RC] 0.

Lemma memb_pass (rp : list tok -> list tok) s s' :
  (forall l t, rp (L l :: t) = L l :: rp t) -> (forall t, rp (CL :: t) = CL :: rp t) ->
  forall ms, Forall (fun m => forall rest, rp (wt s (snd m) ++ rest) = wt s' (snd m) ++ rp rest) ms ->
  Forall (fun m => forall rest, rp (memb s m ++ rest) = memb s' m ++ rp rest) ms.
Proof.
  intros HL HC ms HF. induction HF as [|[k v] ms Hm HF IH]; constructor; [|exact IH].
  intros rest. cbn [memb app snd] in *. rewrite HL, HC, Hm. reflexivity.
Qed.

(* ---- pass 1:  [{ -> { *)
Lemma pass1 d : forall rest, rp1 (wt 0 d ++ rest) = wt 1 d ++ rp1 rest.
Proof.
  induction d as [l|vs IH|ms IH] using json_ind'; intros rest.
  - reflexivity.
  - destruct vs as [|v vs]; [reflexivity|]. rewrite !wt_JA.
    cbn [app]. rewrite <- !app_assoc.
    destruct (sepcat_head [CM] (wt 0 v) (map (wt 0) vs)) as [r' Hr]. cbn [map].
    assert (E : rp1 (LB :: sepcat [CM] (wt 0 v :: map (wt 0) vs) ++ [RB] ++ rest)
                = LB :: rp1 (sepcat [CM] (wt 0 v :: map (wt 0) vs) ++ [RB] ++ rest)).
    { rewrite Hr, <- app_assoc. destruct (wt_head 0 v (r' ++ [RB] ++ rest)) as [h [tl [Eh Hh]]].
      rewrite Eh. destruct h as [b|l]; [|reflexivity].
      destruct Hh as [->|[_ Hh]]; [reflexivity|lia]. }
    rewrite E. f_equal. change (wt 0 v :: map (wt 0) vs) with (map (wt 0) (v :: vs)).
    rewrite (pass_seplist rp1 [CM] [CM] (wt 0) (wt 1)); [reflexivity|reflexivity|exact IH].
  - destruct ms as [|m ms]; [reflexivity|]. rewrite !wt_JO.
    change (opn 0) with [LB; LC]. change (opn 1) with [LC].
    change (sep 0) with [RC; CM; LC]. change (sep 1) with [RC; CM; LC].
    change (cls 0) with [RC; RB]. change (cls 1) with [RC; RB].
    rewrite <- !app_assoc.
    change (rp1 ([LB; LC] ++ ?t)) with (LC :: rp1 t). cbn [app]. f_equal.
    rewrite (pass_seplist rp1 [RC; CM; LC] [RC; CM; LC] (memb 0) (memb 1)); [reflexivity|reflexivity|].
    apply memb_pass; [reflexivity|reflexivity|exact IH].
Qed.

Lemma pass1_top ms : rp1 (tt 0 ms) = tt 1 ms.
Proof.
  unfold tt. change (sep 0) with [RC; CM; LC]. change (sep 1) with [RC; CM; LC].
  change (rp1 (LC :: ?t)) with (LC :: rp1 t). f_equal.
  rewrite (pass_seplist rp1 [RC; CM; LC] [RC; CM; LC] (memb 0) (memb 1)); [reflexivity|reflexivity|].
  apply memb_pass; [reflexivity|reflexivity|].
  apply Forall_forall. intros m _ rest. apply pass1.
Qed.

(* ---- pass 2:  },{ -> , *)
Lemma pass2 d : forall rest, rp2 (wt 1 d ++ rest) = wt 2 d ++ rp2 rest.
Proof.
  induction d as [l|vs IH|ms IH] using json_ind'; intros rest.
  - reflexivity.
  - destruct vs as [|v vs]; [reflexivity|]. rewrite !wt_JA.
    cbn [app]. rewrite <- !app_assoc.
    change (rp2 (LB :: ?t)) with (LB :: rp2 t). f_equal.
    rewrite (pass_seplist rp2 [CM] [CM] (wt 1) (wt 2)); [reflexivity|reflexivity|exact IH].
  - destruct ms as [|m ms]; [reflexivity|]. rewrite !wt_JO.
    change (opn 1) with [LC]. change (opn 2) with [LC].
    change (sep 1) with [RC; CM; LC]. change (sep 2) with [CM].
    change (cls 1) with [RC; RB]. change (cls 2) with [RC; RB].
    rewrite <- !app_assoc.
    change (rp2 ([LC] ++ ?t)) with (LC :: rp2 t). cbn [app]. f_equal.
    rewrite (pass_seplist rp2 [RC; CM; LC] [CM] (memb 1) (memb 2)); [reflexivity|reflexivity|].
    apply memb_pass; [reflexivity|reflexivity|exact IH].
Qed.

Lemma pass2_top ms : rp2 (tt 1 ms) = tt 2 ms.
Proof.
  unfold tt. change (sep 1) with [RC; CM; LC]. change (sep 2) with [CM].
  change (rp2 (LC :: ?t)) with (LC :: rp2 t). f_equal.
  rewrite (pass_seplist rp2 [RC; CM; LC] [CM] (memb 1) (memb 2)); [reflexivity|reflexivity|].
  apply memb_pass; [reflexivity|reflexivity|].
  apply Forall_forall. intros m _ rest. apply pass2.
Qed.

(* ---- pass 3:  }] -> } *)
Lemma pass3 d : forall rest, rp3 (wt 2 d ++ rest) = wt 3 d ++ rp3 rest.
Proof.
  induction d as [l|vs IH|ms IH] using json_ind'; intros rest.
  - reflexivity.
  - destruct vs as [|v vs]; [reflexivity|]. rewrite !wt_JA.
    cbn [app]. rewrite <- !app_assoc.
    change (rp3 (LB :: ?t)) with (LB :: rp3 t). f_equal.
    rewrite (pass_seplist rp3 [CM] [CM] (wt 2) (wt 3)); [reflexivity|reflexivity|exact IH].
  - destruct ms as [|m ms]; [reflexivity|]. rewrite !wt_JO.
    change (opn 2) with [LC]. change (opn 3) with [LC].
    change (sep 2) with [CM]. change (sep 3) with [CM].
    change (cls 2) with [RC; RB]. change (cls 3) with [RC].
    rewrite <- !app_assoc.
    change (rp3 ([LC] ++ ?t)) with (LC :: rp3 t). cbn [app]. f_equal.
    rewrite (pass_seplist rp3 [CM] [CM] (memb 2) (memb 3)); [reflexivity|reflexivity|].
    apply memb_pass; [reflexivity|reflexivity|exact IH].
Qed.

Lemma pass3_top ms : rp3 (tt 2 ms) = tt 3 ms.
Proof.
  unfold tt. change (sep 2) with [CM]. change (sep 3) with [CM].
  change (rp3 (LC :: ?t)) with (LC :: rp3 t). f_equal.
  rewrite (pass_seplist rp3 [CM] [CM] (memb 2) (memb 3)); [reflexivity|reflexivity|].
  apply memb_pass; [reflexivity|reflexivity|].
  apply Forall_forall. intros m _ rest. apply pass3.
Qed.

(* ---- pass 4:  [] -> {} *)
Lemma pass4 d : forall rest, rp4 (wt 3 d ++ rest) = wt 4 d ++ rp4 rest.
Proof.
  induction d as [l|vs IH|ms IH] using json_ind'; intros rest.
  - reflexivity.
  - destruct vs as [|v vs]; [reflexivity|]. rewrite !wt_JA.
    cbn [app]. rewrite <- !app_assoc.
    destruct (sepcat_head [CM] (wt 3 v) (map (wt 3) vs)) as [r' Hr]. cbn [map].
    assert (E : rp4 (LB :: sepcat [CM] (wt 3 v :: map (wt 3) vs) ++ [RB] ++ rest)
                = LB :: rp4 (sepcat [CM] (wt 3 v :: map (wt 3) vs) ++ [RB] ++ rest)).
    { rewrite Hr, <- app_assoc. destruct (wt_head 3 v (r' ++ [RB] ++ rest)) as [h [tl [Eh Hh]]].
      rewrite Eh. destruct h as [b|l]; [|reflexivity].
      destruct Hh as [->|[-> _]]; reflexivity. }
    rewrite E. f_equal. change (wt 3 v :: map (wt 3) vs) with (map (wt 3) (v :: vs)).
    rewrite (pass_seplist rp4 [CM] [CM] (wt 3) (wt 4)); [reflexivity|reflexivity|exact IH].
  - destruct ms as [|m ms]; [reflexivity|]. rewrite !wt_JO.
    change (opn 3) with [LC]. change (opn 4) with [LC].
    change (sep 3) with [CM]. change (sep 4) with [CM].
    change (cls 3) with [RC]. change (cls 4) with [RC].
    rewrite <- !app_assoc.
    change (rp4 ([LC] ++ ?t)) with (LC :: rp4 t). cbn [app]. f_equal.
    rewrite (pass_seplist rp4 [CM] [CM] (memb 3) (memb 4)); [reflexivity|reflexivity|].
    apply memb_pass; [reflexivity|reflexivity|exact IH].
Qed.

Lemma pass4_top ms : rp4 (tt 3 ms) = tt 4 ms.
Proof.
  unfold tt. change (sep 3) with [CM]. change (sep 4) with [CM].
  change (rp4 (LC :: ?t)) with (LC :: rp4 t). f_equal.
  rewrite (pass_seplist rp4 [CM] [CM] (memb 3) (memb 4)); [reflexivity|reflexivity|].
  apply memb_pass; [reflexivity|reflexivity|].
  apply Forall_forall. intros m _ rest. apply pass4.
Qed.

Lemma passes_top ms : rp4 (rp3 (rp2 (rp1 (tt 0 ms)))) = tt 4 ms.
Proof. rewrite pass1_top, pass2_top, pass3_top, pass4_top. reflexivity. Qed.

(* ================================================================== 6. the ends of the chain *)
Lemma map_ext_Forall {X Y} (f g : X -> Y) xs : Forall (fun x => f x = g x) xs -> map f xs = map g xs.
Proof. intros H. induction H as [|x xs Hx _ IH]; [reflexivity|]. cbn. rewrite Hx, IH. reflexivity. Qed.

(* stage 4 is the ordinary rendering of the normalised document *)
Lemma wt4_norm d : wt 4 d = rt (norm d).
Proof.
  induction d as [l|vs IH|ms IH] using json_ind'.
  - reflexivity.
  - destruct vs as [|v vs]; [reflexivity|]. rewrite wt_JA.
    change (norm (JA (v :: vs))) with (JA (map norm (v :: vs))). cbn [rt].
    rewrite map_map. rewrite (map_ext_Forall (wt 4) (fun x => rt (norm x)) _ IH). reflexivity.
  - destruct ms as [|m ms]; [reflexivity|]. rewrite wt_JO.
    change (opn 4) with [LC]. change (sep 4) with [CM]. change (cls 4) with [RC].
    cbn [norm rt]. rewrite map_map. cbn [app]. f_equal. f_equal. f_equal.
    apply map_ext_Forall. eapply Forall_impl; [|exact IH].
    intros [k v] H. cbn [memb snd] in *. rewrite H. reflexivity.
Qed.

Lemma tt4_norm ms : tt 4 ms = rt (norm (JO ms)).
Proof.
  unfold tt. change (sep 4) with [CM]. cbn [norm rt]. rewrite map_map. f_equal. f_equal. f_equal.
  apply map_ext_Forall. apply Forall_forall. intros [k v] _. cbn [memb]. rewrite wt4_norm. reflexivity.
Qed.

(* stage 0 is the rendering of the transformed tree *)
Lemma sepcat_wrap (xs : list (list tok)) : xs <> [] ->
  sepcat [CM] (map (fun x => LC :: x ++ [RC]) xs) = LC :: sepcat [RC; CM; LC] xs ++ [RC].
Proof.
  induction xs as [|x xs IH]; [congruence|]. intros _.
  destruct xs as [|y xs]; [reflexivity|].
  change (sepcat [CM] (map (fun x => LC :: x ++ [RC]) (x :: y :: xs)))
    with ((LC :: x ++ [RC]) ++ [CM] ++ sepcat [CM] (map (fun x => LC :: x ++ [RC]) (y :: xs))).
  rewrite IH by discriminate.
  change (sepcat [RC; CM; LC] (x :: y :: xs)) with (x ++ [RC; CM; LC] ++ sepcat [RC; CM; LC] (y :: xs)).
  cbn [app]. rewrite <- !app_assoc. reflexivity.
Qed.

Lemma wt0_eebus d : wt 0 d = rt (to_eebus d).
Proof.
  induction d as [l|vs IH|ms IH] using json_ind'.
  - reflexivity.
  - destruct vs as [|v vs]; [reflexivity|]. rewrite wt_JA. cbn [to_eebus rt].
    rewrite map_map. rewrite (map_ext_Forall (wt 0) (fun x => rt (to_eebus x)) _ IH). reflexivity.
  - destruct ms as [|m ms]; [reflexivity|]. rewrite wt_JO.
    change (opn 0) with [LB; LC]. change (sep 0) with [RC; CM; LC]. change (cls 0) with [RC; RB].
    cbn [to_eebus rt]. rewrite map_map.
    assert (E : map (fun x : bytes * json => rt (let '(k, v) := x in JO [(k, to_eebus v)])) (m :: ms)
                = map (fun x => LC :: x ++ [RC]) (map (memb 0) (m :: ms))).
    { rewrite map_map. apply map_ext_Forall. eapply Forall_impl; [|exact IH].
      intros [k v] H. cbn [memb snd rt map sepcat app] in *. rewrite H. reflexivity. }
    rewrite E, sepcat_wrap by discriminate. cbn [app]. rewrite <- !app_assoc. reflexivity.
Qed.

(* the bracket strip, given the regenerated literals are "[" and "]" *)
Lemma table_ok_true : table_ok = true.
Proof. vm_compute. reflexivity. Qed.

Lemma strip_open_eq : eebus_strip_open = [91].
Proof.
  pose proof table_ok_true as H. unfold table_ok in H.
  apply andb_true_iff in H as [H _]. apply andb_true_iff in H as [_ H].
  apply bytes_eqb_eq in H. exact H.
Qed.
Lemma strip_close_eq : eebus_strip_close = [93].
Proof.
  pose proof table_ok_true as H. unfold table_ok in H.
  apply andb_true_iff in H as [_ H]. apply bytes_eqb_eq in H. exact H.
Qed.

Lemma strip_outer_brackets x : strip_outer (91 :: x ++ [93]) = x.
Proof.
  unfold strip_outer. rewrite strip_open_eq, strip_close_eq.
  unfold trim_suffix. change (trim_prefix [91] (91 :: x ++ [93])) with (x ++ [93]).
  rewrite rev_app_distr. cbn [rev app]. unfold trim_prefix. cbn [is_prefix]. rewrite N.eqb_refl.
  cbn [andb length skipn]. apply rev_involutive.
Qed.

Lemma wire_top m ms : wire (JO (m :: ms)) = flat (tt 0 (m :: ms)).
Proof.
  unfold wire, render. rewrite <- wt0_eebus, wt_JO.
  change (opn 0) with [LB; LC]. change (sep 0) with [RC; CM; LC]. change (cls 0) with [RC; RB].
  unfold tt. change (sep 0) with [RC; CM; LC].
  set (body := sepcat [RC; CM; LC] (map (memb 0) (m :: ms))).
  change ([LB; LC] ++ body ++ [RC; RB]) with (LB :: (LC :: body ++ [RC; RB])).
  change (flat (LB :: ?t)) with (91 :: flat t).
  replace (LC :: body ++ [RC; RB]) with ((LC :: body ++ [RC]) ++ [RB])
    by (cbn [app]; rewrite <- app_assoc; reflexivity).
  rewrite flat_app. change (flat [RB]) with [93]. apply strip_outer_brackets.
Qed.

(* the NUL trim leaves a text that begins with { and ends with } alone *)
Lemma trim_braces x : trim_set eebus_trim_cutset (123 :: x ++ [125]) = 123 :: x ++ [125].
Proof.
  unfold trim_set.
  assert (H1 : in_set 123 eebus_trim_cutset = false) by (vm_compute; reflexivity).
  assert (H2 : in_set 125 eebus_trim_cutset = false) by (vm_compute; reflexivity).
  cbn [drop_set]. rewrite H1.
  change (123 :: x ++ [125]) with ((123 :: x) ++ [125]). rewrite rev_app_distr. cbn [rev app drop_set].
  rewrite H2. change (125 :: rev x ++ [123]) with ([125] ++ rev (123 :: x)).
  rewrite rev_app_distr, rev_involutive. reflexivity.
Qed.

(* ---- literals *)
Definition toks_ok (ts : list tok) : bool :=
  forallb (fun t => match t with P _ => true | L l => lit_ok l end) ts.

Lemma lit_ok_1 l pr : lit_ok l = true -> In pr eebus_pairs -> lit_ok1 (fst pr) l = true.
Proof.
  intros H Hin. destruct l as [|c l]; [discriminate|]. cbn [lit_ok lit_ok1] in *.
  apply andb_true_iff in H as [H H3]. apply andb_true_iff in H as [H1 H2].
  apply negb_true_iff in H1. apply negb_true_iff in H2.
  rewrite forallb_forall in H3. specialize (H3 pr Hin). cbv beta in H3.
  assert (Hsub : forall x, in_set x pat_bytes = false -> in_set x (fst pr) = false).
  { intros x Hx. destruct (in_set x (fst pr)) eqn:E; [|reflexivity].
    apply in_set_In in E. assert (In x pat_bytes).
    { unfold pat_bytes. apply in_flat_map. exists pr. split; assumption. }
    apply in_set_In in H. congruence. }
  apply andb_true_iff. split; [apply andb_true_iff; split|exact H3].
  - apply negb_true_iff, Hsub, H1.
  - apply negb_true_iff, Hsub, H2.
Qed.

Lemma toks_ok_1 ts pr : toks_ok ts = true -> In pr eebus_pairs -> toks_ok1 (fst pr) ts = true.
Proof.
  intros H Hin. unfold toks_ok, toks_ok1 in *. rewrite forallb_forall in *.
  intros [b|l] Ht; [reflexivity|]. apply lit_ok_1; [exact (H _ Ht)|exact Hin].
Qed.

Lemma toks_ok_app a b : toks_ok (a ++ b) = toks_ok a && toks_ok b.
Proof. apply forallb_app. Qed.

Lemma toks_ok_sepcat sp xs :
  toks_ok sp = true -> forallb toks_ok xs = true -> toks_ok (sepcat sp xs) = true.
Proof.
  intros Hs. induction xs as [|x xs IH]; intros H; [reflexivity|].
  cbn [forallb] in H. apply andb_true_iff in H as [Hx H].
  destruct xs as [|y xs]; [exact Hx|].
  change (sepcat sp (x :: y :: xs)) with (x ++ sp ++ sepcat sp (y :: xs)).
  rewrite !toks_ok_app, Hx, Hs, IH by exact H. reflexivity.
Qed.

Lemma wt_toks_ok s d : lits_ok d = true -> toks_ok (wt s d) = true.
Proof.
  induction d as [l|vs IH|ms IH] using json_ind'; intros H.
  - cbn in *. rewrite H. reflexivity.
  - destruct vs as [|v vs]; [unfold wt, emp; destruct (s <? 4)%nat; reflexivity|].
    rewrite wt_JA. change (LB :: ?t ++ [RB]) with ([LB] ++ t ++ [RB]).
    rewrite !toks_ok_app. rewrite toks_ok_sepcat; [reflexivity|reflexivity|].
    cbn [lits_ok] in H. rewrite forallb_forall in *. intros x Hx.
    apply in_map_iff in Hx as [d [<- Hd]]. rewrite Forall_forall in IH. apply IH; [exact Hd|apply H, Hd].
  - destruct ms as [|m ms]; [unfold wt, emp; destruct (s <? 4)%nat; reflexivity|].
    rewrite wt_JO. rewrite !toks_ok_app.
    assert (Ho : toks_ok (opn s) = true) by (unfold opn; destruct (s <? 1)%nat; reflexivity).
    assert (Hs : toks_ok (sep s) = true) by (unfold sep; destruct (s <? 2)%nat; reflexivity).
    assert (Hc : toks_ok (cls s) = true) by (unfold cls; destruct (s <? 3)%nat; reflexivity).
    rewrite Ho, Hc, toks_ok_sepcat; [reflexivity|exact Hs|].
    cbn [lits_ok] in H. rewrite forallb_forall in *. intros x Hx.
    apply in_map_iff in Hx as [[k v] [<- Hd]]. rewrite Forall_forall in IH.
    specialize (H _ Hd). cbn in H. apply andb_true_iff in H as [Hk Hv].
    cbn [memb]. change (L k :: CL :: wt s v) with ([L k; CL] ++ wt s v).
    rewrite toks_ok_app. cbn [toks_ok forallb]. rewrite Hk. cbn [andb].
    apply (IH _ Hd). exact Hv.
Qed.

Lemma tt_toks_ok s ms : lits_ok (JO ms) = true -> toks_ok (tt s ms) = true.
Proof.
  intros H. unfold tt. change (LC :: ?t ++ [RC]) with ([LC] ++ t ++ [RC]).
  rewrite !toks_ok_app.
  assert (Hs : toks_ok (sep s) = true) by (unfold sep; destruct (s <? 2)%nat; reflexivity).
  rewrite toks_ok_sepcat; [reflexivity|exact Hs|].
  cbn [lits_ok] in H. rewrite forallb_forall in *. intros x Hx.
  apply in_map_iff in Hx as [[k v] [<- Hd]]. specialize (H _ Hd). cbn in H.
  apply andb_true_iff in H as [Hk Hv]. cbn [memb].
  change (L k :: CL :: wt s v) with ([L k; CL] ++ wt s v).
  rewrite toks_ok_app. cbn [toks_ok forallb]. rewrite Hk. cbn [andb]. apply wt_toks_ok, Hv.
Qed.

Lemma ra_toks_okA (pat rep : bytes) k ts :
  toks_ok ts = true -> toks_ok (ra tok_eqb (map P pat) (map P rep) k ts) = true.
Proof.
  revert k; induction ts as [|t ts IH]; intros k Hok; [reflexivity|].
  cbn [toks_ok forallb] in Hok. apply andb_true_iff in Hok as [Ht Hok].
  cbn [ra]. destruct k as [|k]; [|apply IH, Hok].
  destruct (is_prefix tok_eqb (map P pat) (t :: ts)).
  - rewrite toks_ok_app. apply andb_true_iff. split; [|apply IH, Hok].
    clear. induction rep; [reflexivity|exact IHrep].
  - cbn [toks_ok forallb]. rewrite Ht. apply IH, Hok.
Qed.

(* ================================================================== 7. the round trip *)
Lemma pairs_eq :
  eebus_pairs = [([91; 123], [123]); ([125; 44; 123], [44]); ([125; 93], [125]); ([91; 93], [123; 125])].
Proof. reflexivity. Qed.

(* the textual passes on a text whose literals are invisible = the passes on its tokens *)
Lemma passes_tokens ts : toks_ok ts = true ->
  passes eebus_pairs (flat ts) = flat (rp4 (rp3 (rp2 (rp1 ts)))).
Proof.
  intros H.
  assert (I1 : In ([91; 123], [123]) eebus_pairs) by (rewrite pairs_eq; cbn; tauto).
  assert (I2 : In ([125; 44; 123], [44]) eebus_pairs) by (rewrite pairs_eq; cbn; tauto).
  assert (I3 : In ([125; 93], [125]) eebus_pairs) by (rewrite pairs_eq; cbn; tauto).
  assert (I4 : In ([91; 93], [123; 125]) eebus_pairs) by (rewrite pairs_eq; cbn; tauto).
  rewrite pairs_eq. unfold passes. cbn [fold_left fst snd].
  rewrite (bridge [91; 123] [123] ts) by (try discriminate; apply (toks_ok_1 _ _ H I1)).
  change (ra tok_eqb (map P [91; 123]) (map P [123]) 0 ts) with (rp1 ts).
  assert (H1 : toks_ok (rp1 ts) = true) by (apply (ra_toks_okA [91; 123] [123]), H).
  rewrite (bridge [125; 44; 123] [44] (rp1 ts)) by (try discriminate; apply (toks_ok_1 _ _ H1 I2)).
  change (ra tok_eqb (map P [125; 44; 123]) (map P [44]) 0 (rp1 ts)) with (rp2 (rp1 ts)).
  assert (H2 : toks_ok (rp2 (rp1 ts)) = true) by (apply (ra_toks_okA [125; 44; 123] [44]), H1).
  rewrite (bridge [125; 93] [125] _) by (try discriminate; apply (toks_ok_1 _ _ H2 I3)).
  change (ra tok_eqb (map P [125; 93]) (map P [125]) 0 (rp2 (rp1 ts))) with (rp3 (rp2 (rp1 ts))).
  assert (H3 : toks_ok (rp3 (rp2 (rp1 ts))) = true) by (apply (ra_toks_okA [125; 93] [125]), H2).
  rewrite (bridge [91; 93] [123; 125] _) by (try discriminate; apply (toks_ok_1 _ _ H3 I4)).
  reflexivity.
Qed.

(* the replacements applied to the whole text (JsonFromEEBUSJson before the fix) are right
   when no literal contains a pattern *)
Theorem global_roundtrip d :
  top_nonempty d = true -> lits_ok d = true ->
  from_eebus_global (wire d) = render (norm d).
Proof.
  intros Htop Hlits. destruct d as [l|vs|[|m ms]]; try discriminate.
  unfold from_eebus_global. rewrite wire_top, passes_tokens by (apply tt_toks_ok, Hlits).
  rewrite passes_top, tt4_norm.
  unfold render. cbn [norm rt map].
  set (body := sepcat [CM] _).
  change (flat (LC :: body ++ [RC])) with (123 :: flat (body ++ [RC])).
  rewrite flat_app. change (flat [RC]) with [125]. apply trim_braces.
Qed.

(* ================================================================== 7b. the scanning conversion
   (JsonFromEEBUSJson after the fix): string literals are copied, the passes see only the
   stretches between them.  Needs lexical well-formedness of the literals only. *)

(* a pattern of punctuation never matches across a literal token *)
Lemma is_prefix_P_app_L (q : bytes) x l y :
  is_prefix tok_eqb (map P q) (x ++ L l :: y) = is_prefix tok_eqb (map P q) x.
Proof.
  revert x; induction q as [|a q IH]; intros x; [reflexivity|].
  destruct x as [|c x]; [reflexivity|]. cbn [map app is_prefix]. rewrite IH. reflexivity.
Qed.

Lemma ra_split_L_n (pat rep : bytes) l y n : pat <> [] ->
  forall x, (length x <= n)%nat ->
  ra tok_eqb (map P pat) (map P rep) 0 (x ++ L l :: y)
  = ra tok_eqb (map P pat) (map P rep) 0 x ++ L l :: ra tok_eqb (map P pat) (map P rep) 0 y.
Proof.
  intros Hne. assert (Hne' : map P pat <> []) by (destruct pat; [congruence|discriminate]).
  induction n as [|n IH]; intros x Hlen.
  - destruct x; [|simpl in Hlen; lia]. cbn [app]. rewrite ra_nomatch; [reflexivity|].
    destruct pat; [congruence|reflexivity].
  - destruct x as [|c x].
    + cbn [app]. rewrite ra_nomatch; [reflexivity|]. destruct pat; [congruence|reflexivity].
    + destruct (is_prefix tok_eqb (map P pat) (c :: x)) eqn:E.
      * destruct (ra_match tok_eqb tok_eqb_sound (map P pat) (map P rep) _ Hne' E) as [x' [Ex Era]].
        rewrite Era, Ex, <- !app_assoc.
        assert (E2 : is_prefix tok_eqb (map P pat) (map P pat ++ x' ++ L l :: y) = true).
        { rewrite app_assoc, is_prefix_P_app_L, <- Ex. exact E. }
        destruct (ra_match tok_eqb tok_eqb_sound (map P pat) (map P rep) _ Hne' E2) as [z [Ez Erz]].
        apply app_inv_head in Ez. subst z. rewrite Erz. f_equal. apply IH.
        assert (Hl : length (c :: x) = length (map P pat ++ x')) by (rewrite Ex; reflexivity).
        rewrite app_length, map_length in Hl. cbn [length] in Hlen, Hl.
        destruct pat; [congruence|]. cbn [length] in Hl. lia.
      * rewrite (ra_nomatch tok_eqb _ _ _ _ E).
        change ((c :: x) ++ L l :: y) with (c :: x ++ L l :: y).
        rewrite ra_nomatch.
        -- cbn [app]. f_equal. apply IH. cbn [length] in Hlen. lia.
        -- change (c :: x ++ L l :: y) with ((c :: x) ++ L l :: y). rewrite is_prefix_P_app_L. exact E.
Qed.

Lemma ra_split_L (pat rep : bytes) x l y : pat <> [] ->
  ra tok_eqb (map P pat) (map P rep) 0 (x ++ L l :: y)
  = ra tok_eqb (map P pat) (map P rep) 0 x ++ L l :: ra tok_eqb (map P pat) (map P rep) 0 y.
Proof. intros Hne. apply (ra_split_L_n pat rep l y (length x) Hne). lia. Qed.

Definition P4 (ts : list tok) : list tok := rp4 (rp3 (rp2 (rp1 ts))).

Lemma P4_split_L x l y : P4 (x ++ L l :: y) = P4 x ++ L l :: P4 y.
Proof.
  unfold P4, rp1, rp2, rp3, rp4.
  rewrite (ra_split_L [91; 123] [123]) by discriminate.
  rewrite (ra_split_L [125; 44; 123] [44]) by discriminate.
  rewrite (ra_split_L [125; 93] [125]) by discriminate.
  rewrite (ra_split_L [91; 93] [123; 125]) by discriminate.
  reflexivity.
Qed.

(* literals: an atom is invisible to the passes *)
Lemma occurs_no_common (pat l : bytes) :
  pat <> [] -> (forall c, In c l -> in_set c pat = false) -> occurs pat l = false.
Proof.
  intros Hne H. induction l as [|c l IH]; [reflexivity|].
  cbn [occurs]. rewrite IH by (intros x Hx; apply H; right; exact Hx).
  rewrite orb_false_r. destruct pat as [|p pat]; [congruence|].
  cbn [is_prefix]. destruct (N.eqb p c) eqn:E; [|reflexivity].
  apply N.eqb_eq in E. subst c. specialize (H p (or_introl eq_refl)).
  assert (in_set p (p :: pat) = true) by (apply in_set_In; left; reflexivity). congruence.
Qed.

Lemma atom_lit_ok l : atom_ok l = true -> lit_ok l = true.
Proof.
  unfold atom_ok. intros H. apply andb_true_iff in H as [Hne H].
  destruct l as [|c l]; [discriminate|]. rewrite forallb_forall in H.
  assert (Hc : forall x, In x (c :: l) -> in_set x pat_bytes = false).
  { intros x Hx. specialize (H x Hx). apply andb_true_iff in H as [_ H]. apply negb_true_iff in H. exact H. }
  cbn [lit_ok]. rewrite (Hc c (or_introl eq_refl)).
  rewrite (Hc (last (c :: l) 0)) by (apply last_in; discriminate). cbn [negb andb].
  apply forallb_forall. intros pr Hpr. apply negb_true_iff. apply occurs_no_common.
  - pose proof table_ok_true as T. unfold table_ok in T.
    apply andb_true_iff in T as [T _]. apply andb_true_iff in T as [T _]. apply andb_true_iff in T as [_ T].
    rewrite forallb_forall in T. specialize (T pr Hpr). cbv beta in T.
    destruct pr as [pp rr]. cbn [fst] in *. destruct pp; [cbn in T; discriminate T|discriminate].
  - intros x Hx. destruct (in_set x (fst pr)) eqn:E; [|reflexivity].
    apply in_set_In in E. assert (Hin : In x pat_bytes).
    { unfold pat_bytes. apply in_flat_map. exists pr. split; assumption. }
    apply in_set_In in Hin. rewrite (Hc x Hx) in Hin. discriminate.
Qed.

Lemma scan_noquote l : forall seg rest,
  forallb (fun c => negb (c =? 34)) l = true ->
  scan 0 seg (l ++ rest) = scan 0 (rev l ++ seg) rest.
Proof.
  induction l as [|c l IH]; intros seg rest H; [reflexivity|].
  cbn [forallb] in H. apply andb_true_iff in H as [Hc H]. apply negb_true_iff in Hc.
  cbn [app scan]. rewrite Hc. rewrite IH by exact H. cbn [rev]. rewrite <- app_assoc. reflexivity.
Qed.

Lemma scan_string m : forall esc rest,
  str_tail_ok esc m = true ->
  scan (if esc then 2 else 1) [] (m ++ rest) = m ++ scan 0 [] rest.
Proof.
  induction m as [|c m IH]; intros esc rest H; [discriminate|].
  cbn [str_tail_ok] in H. destruct esc.
  - cbn [app scan]. f_equal. apply (IH false). exact H.
  - cbn [app scan]. f_equal. destruct (c =? 92) eqn:E92.
    + apply (IH true). exact H.
    + destruct (c =? 34) eqn:E34.
      * destruct m; [reflexivity|discriminate].
      * apply (IH false). exact H.
Qed.

(* segment tokens: punctuation other than a quote, and atoms *)
Definition seg_tok (t : tok) : bool :=
  match t with P b => negb (b =? 34) | L l => atom_ok l end.
Definition wf_tok (t : tok) : bool :=
  match t with P b => negb (b =? 34) | L l => lit_wf l end.

Lemma seg_toks_ok pre : forallb seg_tok pre = true -> toks_ok pre = true.
Proof.
  intros H. unfold toks_ok. rewrite forallb_forall in *. intros [b|l] Ht; [reflexivity|].
  apply atom_lit_ok. exact (H _ Ht).
Qed.

Lemma atom_noquote l : atom_ok l = true -> forallb (fun c => negb (c =? 34)) l = true.
Proof.
  unfold atom_ok. intros H. apply andb_true_iff in H as [_ H]. rewrite forallb_forall in *.
  intros x Hx. specialize (H x Hx). apply andb_true_iff in H as [H _]. exact H.
Qed.

Lemma scan_tokens ts : forall pre,
  forallb seg_tok pre = true -> forallb wf_tok ts = true ->
  scan 0 (rev (flat pre)) (flat ts) = flat (P4 (pre ++ ts)).
Proof.
  induction ts as [|t ts IH]; intros pre Hpre Hts.
  - cbn [flat flat_map scan]. rewrite rev_involutive, app_nil_r.
    apply passes_tokens, seg_toks_ok, Hpre.
  - cbn [forallb] in Hts. apply andb_true_iff in Hts as [Ht Hts].
    assert (Hstep : forall x, seg_tok x = true -> flat [x] = tok_bytes x ->
                    scan 0 (rev (flat (pre ++ [x]))) (flat ts) = flat (P4 ((pre ++ [x]) ++ ts))).
    { intros x Hx _. apply IH; [|exact Hts]. rewrite forallb_app, Hpre. cbn. rewrite Hx. reflexivity. }
    destruct t as [b|l].
    + cbn [wf_tok] in Ht. change (flat (P b :: ts)) with (b :: flat ts).
      cbn [scan]. apply negb_true_iff in Ht. rewrite Ht.
      specialize (Hstep (P b)). rewrite flat_app, rev_app_distr, <- app_assoc in Hstep.
      apply Hstep; [cbn; rewrite Ht; reflexivity|reflexivity].
    + cbn [wf_tok] in Ht. unfold lit_wf in Ht. destruct (atom_ok l) eqn:Ea.
      * change (flat (L l :: ts)) with (l ++ flat ts).
        rewrite scan_noquote by (apply atom_noquote, Ea).
        specialize (Hstep (L l)). rewrite flat_app, rev_app_distr, <- app_assoc in Hstep.
        change (flat [L l]) with (l ++ []) in Hstep. rewrite app_nil_r in Hstep.
        apply Hstep; [exact Ea|reflexivity].
      * rewrite orb_false_r in Ht. unfold str_lit_ok in Ht.
        destruct l as [|c m]; [discriminate|]. apply andb_true_iff in Ht as [Hq Hm].
        apply N.eqb_eq in Hq. subst c.
        change (flat (L (34 :: m) :: ts)) with (34 :: m ++ flat ts).
        cbn [scan]. change (34 =? 34) with true. cbv iota.
        rewrite rev_involutive, (scan_string m false _ Hm).
        rewrite P4_split_L, flat_app.
        rewrite (passes_tokens pre) by (apply seg_toks_ok, Hpre).
        change (flat (L (34 :: m) :: ?t)) with (34 :: m ++ flat t).
        f_equal. f_equal. f_equal.
        specialize (IH [] eq_refl Hts). cbn [flat flat_map rev app] in IH. exact IH.
Qed.

Lemma wt_wf s d : lits_wf d = true -> forallb wf_tok (wt s d) = true.
Proof.
  induction d as [l|vs IH|ms IH] using json_ind'; intros H.
  - cbn in *. rewrite H. reflexivity.
  - destruct vs as [|v vs]; [unfold wt, emp; destruct (s <? 4)%nat; reflexivity|].
    rewrite wt_JA. change (LB :: ?t ++ [RB]) with ([LB] ++ t ++ [RB]).
    rewrite !forallb_app. cbn [forallb wf_tok LB RB N.eqb Pos.eqb negb andb]. rewrite andb_true_r.
    cbn [lits_wf] in H. rewrite Forall_forall in IH. rewrite forallb_forall in H.
    remember (v :: vs) as xs eqn:Exs. clear Exs v vs.
    induction xs as [|x xs IHx]; [reflexivity|].
    assert (Hx : forallb wf_tok (wt s x) = true) by (apply IH; [left; reflexivity|apply H; left; reflexivity]).
    assert (Hr : forallb wf_tok (sepcat [CM] (map (wt s) xs)) = true).
    { apply IHx; intros; [apply IH|apply H]; try right; assumption. }
    destruct xs as [|y xs]; [exact Hx|].
    change (sepcat [CM] (map (wt s) (x :: y :: xs))) with (wt s x ++ [CM] ++ sepcat [CM] (map (wt s) (y :: xs))).
    rewrite !forallb_app, Hx, Hr. reflexivity.
  - destruct ms as [|m ms]; [unfold wt, emp; destruct (s <? 4)%nat; reflexivity|].
    rewrite wt_JO. rewrite !forallb_app.
    assert (Ho : forallb wf_tok (opn s) = true) by (unfold opn; destruct (s <? 1)%nat; reflexivity).
    assert (Hs : forallb wf_tok (sep s) = true) by (unfold sep; destruct (s <? 2)%nat; reflexivity).
    assert (Hc : forallb wf_tok (cls s) = true) by (unfold cls; destruct (s <? 3)%nat; reflexivity).
    rewrite Ho, Hc. cbn [andb]. rewrite andb_true_r.
    cbn [lits_wf] in H. rewrite Forall_forall in IH. rewrite forallb_forall in H.
    remember (m :: ms) as xs eqn:Exs. clear Exs m ms.
    induction xs as [|[k v] xs IHx]; [reflexivity|].
    assert (Hx : forallb wf_tok (memb s (k, v)) = true).
    { specialize (H (k, v) (or_introl eq_refl)). cbn in H. apply andb_true_iff in H as [Hk Hv].
      cbn [memb forallb wf_tok]. unfold lit_wf. rewrite Hk. cbn [orb andb].
      change (forallb wf_tok (wt s v) = true). apply (IH (k, v)); [left; reflexivity|exact Hv]. }
    assert (Hr : forallb wf_tok (sepcat (sep s) (map (memb s) xs)) = true).
    { apply IHx; intros; [apply IH|apply H]; try right; assumption. }
    destruct xs as [|y xs]; [exact Hx|].
    change (sepcat (sep s) (map (memb s) ((k, v) :: y :: xs)))
      with (memb s (k, v) ++ sep s ++ sepcat (sep s) (map (memb s) (y :: xs))).
    rewrite !forallb_app, Hx, Hs, Hr. reflexivity.
Qed.

Lemma tt_wf s ms : lits_wf (JO ms) = true -> forallb wf_tok (tt s ms) = true.
Proof.
  intros H. unfold tt. change (LC :: ?t ++ [RC]) with ([LC] ++ t ++ [RC]).
  rewrite !forallb_app. cbn [forallb wf_tok LC RC N.eqb Pos.eqb negb andb]. rewrite andb_true_r.
  assert (Hs : forallb wf_tok (sep s) = true) by (unfold sep; destruct (s <? 2)%nat; reflexivity).
  cbn [lits_wf] in H. rewrite forallb_forall in H.
  induction ms as [|[k v] xs IHx]; [reflexivity|].
  assert (Hx : forallb wf_tok (memb s (k, v)) = true).
  { specialize (H (k, v) (or_introl eq_refl)). cbn in H. apply andb_true_iff in H as [Hk Hv].
    cbn [memb forallb wf_tok]. unfold lit_wf. rewrite Hk. cbn [orb andb]. apply wt_wf, Hv. }
  assert (Hr : forallb wf_tok (sepcat (sep s) (map (memb s) xs)) = true).
  { apply IHx; intros; apply H; right; assumption. }
  destruct xs as [|y xs]; [exact Hx|].
  change (sepcat (sep s) (map (memb s) ((k, v) :: y :: xs)))
    with (memb s (k, v) ++ sep s ++ sepcat (sep s) (map (memb s) (y :: xs))).
  rewrite !forallb_app, Hx, Hs, Hr. reflexivity.
Qed.

Theorem scanning_roundtrip d :
  top_nonempty d = true -> lits_wf d = true ->
  from_eebus_scanning (wire d) = render (norm d).
Proof.
  intros Htop Hlits. destruct d as [l|vs|[|m ms]]; try discriminate.
  unfold from_eebus_scanning. rewrite wire_top.
  pose proof (scan_tokens (tt 0 (m :: ms)) [] eq_refl (tt_wf 0 _ Hlits)) as E.
  change (rev (flat [])) with (@nil N) in E. change ([] ++ tt 0 (m :: ms)) with (tt 0 (m :: ms)) in E.
  rewrite E. unfold P4. rewrite passes_top, tt4_norm.
  unfold render. cbn [norm rt map].
  set (body := sepcat [CM] _).
  change (flat (LC :: body ++ [RC])) with (123 :: flat (body ++ [RC])).
  rewrite flat_app. change (flat [RC]) with [125]. apply trim_braces.
Qed.

(* the source has the scanning variant *)
Lemma scans_true : eebus_scans_strings = true.
Proof. reflexivity. Qed.

Theorem roundtrip_norm d :
  top_nonempty d = true -> lits_wf d = true ->
  from_eebus (wire d) = render (norm d).
Proof. unfold from_eebus. rewrite scans_true. apply scanning_roundtrip. Qed.

(* ================================================================== 8. corollaries, shape, witnesses *)
Lemma norm_id d : has_empty_array d = false -> norm d = d.
Proof.
  induction d as [l|vs IH|ms IH] using json_ind'; intros H.
  - reflexivity.
  - destruct vs as [|v vs]; [discriminate|].
    cbn [has_empty_array is_nil orb] in H.
    change (norm (JA (v :: vs))) with (JA (map norm (v :: vs))). f_equal.
    rewrite <- (map_id (v :: vs)) at 2. apply map_ext_Forall.
    rewrite Forall_forall in *. intros x Hx. apply IH; [exact Hx|].
    destruct (has_empty_array x) eqn:E; [|reflexivity].
    assert (existsb has_empty_array (v :: vs) = true) by (apply existsb_exists; exists x; tauto).
    congruence.
  - cbn [norm]. f_equal. rewrite <- (map_id ms) at 2. apply map_ext_Forall.
    cbn [has_empty_array] in H. rewrite Forall_forall in *. intros [k v] Hx. f_equal.
    apply (IH _ Hx). cbn [snd]. destruct (has_empty_array v) eqn:E; [|reflexivity].
    assert (existsb (fun m => has_empty_array (snd m)) ms = true)
      by (apply existsb_exists; exists (k, v); tauto).
    congruence.
Qed.

Theorem roundtrip_exact d :
  top_nonempty d = true -> lits_wf d = true -> has_empty_array d = false ->
  from_eebus (wire d) = render d.
Proof. intros H1 H2 H3. rewrite roundtrip_norm, norm_id by assumption. reflexivity. Qed.

(* the monitor of the check, on the model's own output *)
Theorem roundtrip_monitor d :
  top_nonempty d = true -> lits_wf d = true ->
  incl (roundtrip_codes d (from_eebus (wire d))) [11] /\
  (has_empty_array d = false -> roundtrip_codes d (from_eebus (wire d)) = []).
Proof.
  intros H1 H2. rewrite roundtrip_norm by assumption. unfold roundtrip_codes. split.
  - destruct (bytes_eqb (render (norm d)) (render d)); [intros x []|].
    rewrite bytes_eqb_refl. apply incl_refl.
  - intros H3. rewrite norm_id by assumption. rewrite bytes_eqb_refl. reflexivity.
Qed.

(* ---- (a) shape *)
Inductive Shape : json -> json -> Prop :=
| ShS l : Shape (JS l) (JS l)
| ShA vs ws : Forall2 Shape vs ws -> Shape (JA vs) (JA ws)
| ShO ms ws :
    Forall2 (fun m w => exists v', w = JO [(fst m, v')] /\ Shape (snd m) v') ms ws ->
    Shape (JO ms) (JA ws).

Lemma to_eebus_Shape d : Shape d (to_eebus d).
Proof.
  induction d as [l|vs IH|ms IH] using json_ind'; cbn [to_eebus]; constructor.
  - induction IH as [|v vs Hv _ IHl]; cbn [map]; constructor; assumption.
  - induction IH as [|[k v] ms Hv _ IHl]; cbn [map]; constructor; [|assumption].
    exists (to_eebus v). split; [reflexivity|exact Hv].
Qed.

Lemma Shape_unique d : forall w, Shape d w -> w = to_eebus d.
Proof.
  induction d as [l|vs IH|ms IH] using json_ind'; intros w H; inversion H; subst; cbn [to_eebus].
  - reflexivity.
  - f_equal. revert ws H1 H. induction IH as [|v vs Hv _ IHl]; intros ws H1 _; inversion H1; subst;
      [reflexivity|]. cbn [map]. f_equal; [apply Hv; assumption|].
    apply IHl; [assumption|constructor; assumption].
  - f_equal. revert ws H1 H. induction IH as [|[k v] ms Hv _ IHl]; intros ws H1 _; inversion H1; subst;
      [reflexivity|]. cbn [map]. destruct H2 as [v' [-> Hs]]. cbn [fst snd] in *.
    f_equal; [rewrite (Hv _ Hs); reflexivity|].
    apply IHl; [assumption|constructor; assumption].
Qed.

Lemma shape_ok_Shape d : forall w, shape_ok d w = true -> Shape d w.
Proof.
  induction d as [l|vs IH|ms IH] using json_ind'; intros w H; destruct w as [l'|ws|ws']; try discriminate.
  - cbn in H. apply bytes_eqb_eq in H. subst. constructor.
  - constructor. cbn [shape_ok] in H. revert ws H.
    induction IH as [|v vs Hv _ IHl]; intros [|w ws] H; try discriminate; constructor.
    + apply andb_true_iff in H as [H _]. apply Hv, H.
    + apply andb_true_iff in H as [_ H]. apply IHl, H.
  - constructor. cbn [shape_ok] in H. revert ws H.
    induction IH as [|[k v] ms Hv _ IHl]; intros [|w ws] H; try discriminate; [constructor|].
    destruct w as [|?|[|[k' y] [|? ?]]]; try discriminate.
    apply andb_true_iff in H as [H H3]. apply andb_true_iff in H as [H1 H2].
    apply bytes_eqb_eq in H1. subst k'. constructor.
    + exists y. split; [reflexivity|]. apply Hv, H2.
    + apply IHl, H3.
Qed.

Lemma json_eqb_refl d : json_eqb d d = true.
Proof.
  induction d as [l|vs IH|ms IH] using json_ind'; cbn [json_eqb].
  - apply bytes_eqb_refl.
  - induction IH as [|v vs Hv _ IHl]; [reflexivity|]. rewrite Hv. exact IHl.
  - induction IH as [|[k v] ms Hv _ IHl]; [reflexivity|]. cbn [snd] in Hv.
    rewrite bytes_eqb_refl, Hv. exact IHl.
Qed.

Lemma shape_ok_to_eebus d : shape_ok d (to_eebus d) = true.
Proof.
  induction d as [l|vs IH|ms IH] using json_ind'; cbn [to_eebus shape_ok].
  - apply bytes_eqb_refl.
  - induction IH as [|v vs Hv _ IHl]; [reflexivity|]. cbn [map]. rewrite Hv. exact IHl.
  - induction IH as [|[k v] ms Hv _ IHl]; [reflexivity|]. cbn [map snd] in *.
    rewrite bytes_eqb_refl, Hv. exact IHl.
Qed.

(* the boolean monitor accepts exactly the prescribed transform *)
Theorem shape_ok_iff d w : shape_ok d w = true <-> w = to_eebus d.
Proof.
  split.
  - intros H. apply Shape_unique, shape_ok_Shape, H.
  - intros ->. apply shape_ok_to_eebus.
Qed.

(* ---- (d) member order and literals *)
Lemma flat_map_ext_Forall {X Y} (f g : X -> list Y) xs :
  Forall (fun x => f x = g x) xs -> flat_map f xs = flat_map g xs.
Proof. intros H. induction H as [|x xs Hx _ IH]; [reflexivity|]. cbn. rewrite Hx, IH. reflexivity. Qed.

Lemma names_norm d : names_of (norm d) = names_of d.
Proof.
  induction d as [l|vs IH|ms IH] using json_ind'.
  - reflexivity.
  - destruct vs as [|v vs]; [reflexivity|].
    change (norm (JA (v :: vs))) with (JA (map norm (v :: vs))). cbn [names_of].
    rewrite flat_map_concat_map, map_map, <- flat_map_concat_map. apply flat_map_ext_Forall, IH.
  - cbn [norm names_of]. rewrite flat_map_concat_map, map_map, <- flat_map_concat_map.
    apply flat_map_ext_Forall. eapply Forall_impl; [|exact IH]. intros [k v] H. cbn [snd] in H.
    rewrite H. reflexivity.
Qed.

Lemma scalars_norm d : scalars_of (norm d) = scalars_of d.
Proof.
  induction d as [l|vs IH|ms IH] using json_ind'.
  - reflexivity.
  - destruct vs as [|v vs]; [reflexivity|].
    change (norm (JA (v :: vs))) with (JA (map norm (v :: vs))). cbn [scalars_of].
    rewrite flat_map_concat_map, map_map, <- flat_map_concat_map. apply flat_map_ext_Forall, IH.
  - cbn [norm scalars_of]. rewrite flat_map_concat_map, map_map, <- flat_map_concat_map.
    apply flat_map_ext_Forall. eapply Forall_impl; [|exact IH]. intros [k v] H. cbn [snd] in *.
    exact H.
Qed.

Lemma names_eebus d : names_of (to_eebus d) = names_of d.
Proof.
  induction d as [l|vs IH|ms IH] using json_ind'; cbn [to_eebus names_of].
  - reflexivity.
  - rewrite flat_map_concat_map, map_map, <- flat_map_concat_map. apply flat_map_ext_Forall, IH.
  - rewrite flat_map_concat_map, map_map, <- flat_map_concat_map.
    apply flat_map_ext_Forall. eapply Forall_impl; [|exact IH]. intros [k v] H. cbn [snd] in H.
    cbn [names_of flat_map]. rewrite app_nil_r, H. reflexivity.
Qed.

Lemma scalars_eebus d : scalars_of (to_eebus d) = scalars_of d.
Proof.
  induction d as [l|vs IH|ms IH] using json_ind'; cbn [to_eebus scalars_of].
  - reflexivity.
  - rewrite flat_map_concat_map, map_map, <- flat_map_concat_map. apply flat_map_ext_Forall, IH.
  - rewrite flat_map_concat_map, map_map, <- flat_map_concat_map.
    apply flat_map_ext_Forall. eapply Forall_impl; [|exact IH]. intros [k v] H. cbn [snd] in H.
    cbn [scalars_of flat_map snd]. rewrite app_nil_r, H. reflexivity.
Qed.

Theorem order_and_literals d :
  top_nonempty d = true -> lits_wf d = true ->
  exists d', from_eebus (wire d) = render d' /\
             names_of d' = names_of d /\ scalars_of d' = scalars_of d /\
             (has_empty_array d = false -> d' = d).
Proof.
  intros H1 H2. exists (norm d). split; [apply roundtrip_norm; assumption|].
  split; [apply names_norm|]. split; [apply scalars_norm|apply norm_id].
Qed.

(* ---- (c) the unrestricted statement is false: three witnesses *)
Definition roundtrip_full_statement : Prop :=
  forall d, top_object d = true -> from_eebus (wire d) = render d.

(* {"a":[]}  comes back as  {"a":{}} *)
Definition w_empty_array : json := JO [(hx "226122", JA [])].
(* {"a":"[{x}]"}  comes back as  {"a":"{x}"} *)
Definition w_string : json := JO [(hx "226122", JS (hx "225b7b787d5d22"))].
(* {}  has the empty wire text, which comes back as the empty text *)
Definition w_empty_top : json := JO [].

Lemma refuted_empty_array :
  exists d, top_nonempty d = true /\ lits_wf d = true /\
            from_eebus (wire d) <> render d /\ roundtrip_codes d (from_eebus (wire d)) = [11].
Proof.
  exists w_empty_array. repeat split; try (vm_compute; reflexivity). vm_compute. discriminate.
Qed.

(* the defect that was repaired: the replacements applied to the whole text rewrite the
   content of a string literal *)
Lemma global_refuted_string :
  exists d, top_nonempty d = true /\ lits_wf d = true /\ has_empty_array d = false /\
            from_eebus_global (wire d) <> render d /\
            roundtrip_codes d (from_eebus_global (wire d)) = [12] /\
            from_eebus_global (wire d) = hx "7b2261223a227b787d227d".
Proof.
  exists w_string. repeat split; try (vm_compute; reflexivity). vm_compute. discriminate.
Qed.

Lemma refuted_empty_top :
  exists d, top_object d = true /\ lits_wf d = true /\ has_empty_array d = false /\
            wire d = [] /\ from_eebus (wire d) <> render d /\
            roundtrip_codes d (from_eebus (wire d)) = [13].
Proof.
  exists w_empty_top. repeat split; try (vm_compute; reflexivity). vm_compute. discriminate.
Qed.

Lemma full_statement_false : ~ roundtrip_full_statement.
Proof.
  intros H. destruct refuted_empty_array as [d [H1 [_ [H3 _]]]]. apply H3, H.
  destruct d as [| |[|]]; try discriminate; reflexivity.
Qed.

(* the hypotheses are satisfiable by a non-trivial document: nested objects, arrays of
   objects, arrays of arrays, an empty object, a 30-digit number, an exponent number,
   true and null, a member name that is the text [] in quotes, and string literals holding
   all four patterns ( a[{b},{c}]d[]e ) and an escaped quote followed by an escaped
   backslash and a bracket pair ( q, backslash quote, backslash backslash, [] ). *)
Definition ex_doc : json :=
  JO [(hx "22646174616772616d22",
       JO [(hx "2268656164657222",
            JO [(hx "227622", JS (hx "22312e322e3022"));
                (hx "226e22", JS (hx "313233343536373839303132333435363738393031323334353637383930"));
                (hx "226522", JS (hx "2d312e35652b3130"))]);
           (hx "225b5d22",
            JA [JA [JO [(hx "226622", JO [])]; JO [(hx "226722", JA [JS (hx "31"); JA [JS (hx "32"); JS (hx "33")]])]];
                JS (hx "22615b7b627d2c7b637d5d645b5d6522");
                JS (hx "22715c225c5c5b5d22");
                JS (hx "74727565"); JS (hx "6e756c6c")])])].

Lemma ex_doc_ok :
  top_nonempty ex_doc = true /\ lits_wf ex_doc = true /\ has_empty_array ex_doc = false /\
  lits_ok ex_doc = false /\
  from_eebus (wire ex_doc) = render ex_doc /\ wire ex_doc <> render ex_doc /\
  from_eebus_global (wire ex_doc) <> render ex_doc.
Proof. repeat split; try (vm_compute; reflexivity); vm_compute; discriminate. Qed.

(* lexical well-formedness is what every JSON literal has: a string literal ... *)
Lemma string_literal_wf body :
  forallb (fun c => negb (c =? 34) && negb (c =? 92)) body = true ->
  lit_wf (34 :: body ++ [34]) = true.
Proof.
  intros H. unfold lit_wf, str_lit_ok. change (34 =? 34) with true. cbn [andb].
  assert (E : str_tail_ok false (body ++ [34]) = true).
  { induction body as [|c b IH]; [reflexivity|].
    cbn [forallb] in H. apply andb_true_iff in H as [Hc H]. apply andb_true_iff in Hc as [H1 H2].
    apply negb_true_iff in H1. apply negb_true_iff in H2.
    cbn [app str_tail_ok]. rewrite H2, H1. apply IH, H. }
  rewrite E. reflexivity.
Qed.

(* ... and a number / true / false / null: no quote, no bracket, brace or comma *)
Lemma atom_literal_wf l :
  l <> [] -> forallb (fun c => negb (in_set c [34; 91; 93; 123; 125; 44])) l = true -> lit_wf l = true.
Proof.
  intros Hne H. unfold lit_wf. apply orb_true_iff. right. unfold atom_ok.
  destruct l as [|c l]; [congruence|]. cbn [is_nil negb andb].
  rewrite forallb_forall in *. intros x Hx. specialize (H x Hx). apply negb_true_iff in H.
  unfold in_set in H. cbn [existsb] in H. repeat (apply orb_false_iff in H as [? H]).
  rewrite H0. cbn [negb andb]. apply negb_true_iff.
  destruct (in_set x pat_bytes) eqn:E; [|reflexivity].
  apply in_set_In in E. unfold pat_bytes in E. rewrite pairs_eq in E. cbn in E.
  repeat (destruct E as [E|E]; [subst x; rewrite ?N.eqb_refl in *; discriminate|]). destruct E.
Qed.

Lemma eebus_keeps_names_and_literals d :
  names_of (to_eebus d) = names_of d /\ scalars_of (to_eebus d) = scalars_of d.
Proof. split; [apply names_eebus|apply scalars_eebus]. Qed.

(* ================================================================== 9. end to end: the SHIP data envelope
   The message on the wire is the converted envelope with the converted payload spliced in
   without its outer brackets; the receiver converts the whole text back. *)
Lemma envelope_ok_true : envelope_ok = true.
Proof. vm_compute. reflexivity. Qed.

Definition Ldata := L (quoted (hx "64617461")).
Definition Lheader := L (quoted (hx "686561646572")).
Definition Lpid := L (quoted (hx "70726f746f636f6c4964")).
Definition Lee := L (quoted ship_protocol_id).
Definition Lpayload := L (quoted (hx "7061796c6f6164")).

(* tokens of the message before and after the payload, stage by stage *)
Definition pre0 : list tok :=
  [LC; Ldata; CL; LB; LC; Lheader; CL; LB; LC; Lpid; CL; Lee; RC; RB; RC; CM; LC; Lpayload; CL].
Definition suf0 : list tok := [RC; RB; RC].
Definition pre4 : list tok :=
  [LC; Ldata; CL; LC; Lheader; CL; LC; Lpid; CL; Lee; RC; CM; Lpayload; CL].
Definition suf4 : list tok := [RC; RC].

(* strings.ReplaceAll(eebusMsg, "[" + placeholder + "]", payload) *)
Lemma splice rep :
  replace_all (91 :: ship_payload_placeholder ++ [93]) rep (wire (envelope placeholder_doc))
  = flat pre0 ++ rep ++ flat suf0.
Proof. vm_compute. reflexivity. Qed.

Lemma pass1_top_rest ms r : rp1 (tt 0 ms ++ RC :: r) = tt 1 ms ++ rp1 (RC :: r).
Proof.
  unfold tt. change (sep 0) with [RC; CM; LC]. change (sep 1) with [RC; CM; LC].
  cbn [app]. rewrite <- !app_assoc.
  change (rp1 (LC :: ?t)) with (LC :: rp1 t). f_equal.
  rewrite (pass_seplist rp1 [RC; CM; LC] [RC; CM; LC] (memb 0) (memb 1)); [reflexivity|reflexivity|].
  apply memb_pass; [reflexivity|reflexivity|].
  apply Forall_forall. intros m _ rest. apply pass1.
Qed.

Lemma pass2_top_rest ms r : rp2 (tt 1 ms ++ RC :: r) = tt 2 ms ++ rp2 (RC :: r).
Proof.
  unfold tt. change (sep 1) with [RC; CM; LC]. change (sep 2) with [CM].
  cbn [app]. rewrite <- !app_assoc.
  change (rp2 (LC :: ?t)) with (LC :: rp2 t). f_equal.
  rewrite (pass_seplist rp2 [RC; CM; LC] [CM] (memb 1) (memb 2)); [reflexivity|reflexivity|].
  apply memb_pass; [reflexivity|reflexivity|].
  apply Forall_forall. intros m _ rest. apply pass2.
Qed.

Lemma pass3_top_rest ms r : rp3 (tt 2 ms ++ RC :: r) = tt 3 ms ++ rp3 (RC :: r).
Proof.
  unfold tt. change (sep 2) with [CM]. change (sep 3) with [CM].
  cbn [app]. rewrite <- !app_assoc.
  change (rp3 (LC :: ?t)) with (LC :: rp3 t). f_equal.
  rewrite (pass_seplist rp3 [CM] [CM] (memb 2) (memb 3)); [reflexivity|reflexivity|].
  apply memb_pass; [reflexivity|reflexivity|].
  apply Forall_forall. intros m _ rest. apply pass3.
Qed.

Lemma pass4_top_rest ms r : rp4 (tt 3 ms ++ RC :: r) = tt 4 ms ++ rp4 (RC :: r).
Proof.
  unfold tt. change (sep 3) with [CM]. change (sep 4) with [CM].
  cbn [app]. rewrite <- !app_assoc.
  change (rp4 (LC :: ?t)) with (LC :: rp4 t). f_equal.
  rewrite (pass_seplist rp4 [CM] [CM] (memb 3) (memb 4)); [reflexivity|reflexivity|].
  apply memb_pass; [reflexivity|reflexivity|].
  apply Forall_forall. intros m _ rest. apply pass4.
Qed.

(* the passes walk over the fixed tokens in front of the payload *)
Lemma pre_pass1 X : rp1 (pre0 ++ X) = rp1 pre0 ++ rp1 X.
Proof. reflexivity. Qed.
Lemma pre_pass2 X : rp2 (rp1 pre0 ++ X) = rp2 (rp1 pre0) ++ rp2 X.
Proof. reflexivity. Qed.
Lemma pre_pass3 X : rp3 (rp2 (rp1 pre0) ++ X) = rp3 (rp2 (rp1 pre0)) ++ rp3 X.
Proof. reflexivity. Qed.
Lemma pre_pass4 X : rp4 (rp3 (rp2 (rp1 pre0)) ++ X) = rp4 (rp3 (rp2 (rp1 pre0))) ++ rp4 X.
Proof. reflexivity. Qed.

Lemma envelope_passes ms : P4 (pre0 ++ tt 0 ms ++ suf0) = pre4 ++ tt 4 ms ++ suf4.
Proof.
  unfold P4, suf0.
  rewrite pre_pass1, pass1_top_rest. change (rp1 [RC; RB; RC]) with [RC; RB; RC].
  rewrite pre_pass2, pass2_top_rest. change (rp2 [RC; RB; RC]) with [RC; RB; RC].
  rewrite pre_pass3, pass3_top_rest. change (rp3 [RC; RB; RC]) with [RC; RC].
  rewrite pre_pass4, pass4_top_rest.
  reflexivity.
Qed.

Theorem e2e_roundtrip d :
  top_nonempty d = true -> lits_wf d = true ->
  exists msg, ship_message d = Some msg /\
              received_text msg = render (envelope (JS (render (norm d)))).
Proof.
  intros Htop Hlits. destruct d as [l|vs|[|m ms]]; try discriminate.
  eexists. split; [reflexivity|].
  unfold received_text. cbn [tl]. rewrite splice, wire_top, <- !flat_app.
  unfold from_eebus. rewrite scans_true. unfold from_eebus_scanning.
  assert (Hwf : forallb wf_tok (pre0 ++ tt 0 (m :: ms) ++ suf0) = true).
  { rewrite !forallb_app. rewrite (tt_wf 0 _ Hlits). reflexivity. }
  pose proof (scan_tokens _ [] eq_refl Hwf) as E.
  change (rev (flat [])) with (@nil N) in E. cbn [app] in E. cbn [app]. rewrite E.
  rewrite envelope_passes, tt4_norm.
  unfold render. set (p := rt (norm (JO (m :: ms)))).
  change (rt (envelope (JS (flat p)))) with (pre4 ++ [L (flat p)] ++ suf4).
  rewrite !flat_app. change (flat [L (flat p)]) with (flat p ++ []). rewrite app_nil_r.
  replace (flat pre4 ++ flat p ++ flat suf4) with (123 :: (tl (flat pre4) ++ flat p ++ [125]) ++ [125]).
  2: { change (flat pre4) with (123 :: tl (flat pre4)). change (flat suf4) with [125; 125].
       cbn [app]. rewrite <- !app_assoc. reflexivity. }
  apply trim_braces.
Qed.

(* the end-to-end monitor on the model: only the empty-array class can ever show *)
Theorem e2e_monitor d :
  top_nonempty d = true -> lits_wf d = true ->
  incl (e2e_codes d (Some (render (norm d)))) [11] /\
  (has_empty_array d = false -> e2e_codes d (Some (render (norm d))) = []).
Proof.
  intros H1 H2. unfold e2e_codes, roundtrip_codes. split.
  - destruct (bytes_eqb (render (norm d)) (render d)); [intros x []|].
    rewrite bytes_eqb_refl. apply incl_refl.
  - intros H3. rewrite norm_id by assumption. rewrite bytes_eqb_refl. reflexivity.
Qed.
